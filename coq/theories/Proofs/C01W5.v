(* Proofs/C01W5.v — fifth wave (Model/C01W5.v): ttm over a list of (mode, matrix) pairs as pyttb executes it — dense or sparse
   receiver, ndarray or scipy coo matrix, the container changing on the way — is the sequence of subscript-level mode products;
   hence ttensor.full() of a Tucker tensor with a dense or sparse core and ndarray / coo factor matrices denotes the Tucker array.
   scipy's sparse-sparse product is a parameter constrained by spdot_spec; spdot_ref satisfies it. *)
From Coq Require Import List Arith Lia Bool Permutation Ring.
From PV Require Import Base.Index Base.Perm Base.Sum Np.Array Model.Sparse Model.Repr Model.C07Ops Model.C01Conv
  Model.C01Unique Model.C01Coo Model.C02Spec Model.C02Dense Model.C01Ttm Model.C01W3 Model.C01W5
  Proofs.C07Index Proofs.C07Proofs Proofs.C01Proofs Proofs.C01Kruskal Proofs.C01Tucker Proofs.C01Unique Proofs.C01Converse
  Proofs.C01Coo Proofs.C02DenseProofs Proofs.C01Ttm Proofs.C01W3.
Import ListNotations.

Section W5Proofs.
Variable V : Type.
Variables (v0 v1 : V) (vadd vmul vsub : V -> V -> V) (vopp : V -> V) (isz : V -> bool).
Hypothesis Vring : ring_theory v0 v1 vadd vmul vsub vopp (@eq V).
Hypothesis isz_spec : forall v, isz v = true <-> v = v0.
Add Ring Vr01w5 : Vring.

Notation dcoo := (den_coo v0 vadd).
Notation cmat := (coo_matrix v0 vadd).
Notation fmat := (fac_matrix v0 vadd).
Notation hfull := (holder_full v0).

(* ------------------------------------------------------------------ C.toarray() as a row list *)
Lemma nrows_coo_matrix (C : coo V) : nrows (cmat C) = coo_rows C.
Proof. unfold nrows, coo_matrix. now rewrite map_length, seq_length. Qed.

Lemma mget_coo_matrix (C : coo V) j k : j < coo_rows C -> k < coo_cols C -> mget v0 (cmat C) j k = dcoo C [j; k].
Proof.
  intros Hj Hk. unfold mget, coo_matrix.
  rewrite (nth_indep _ [] (map (fun j0 => dcoo C [0; j0]) (seq 0 (coo_cols C)))) by (now rewrite map_length, seq_length).
  rewrite (map_nth (fun i => map (fun j0 => dcoo C [i; j0]) (seq 0 (coo_cols C))) (seq 0 (coo_rows C)) 0 j).
  rewrite seq_nth by exact Hj. cbn [Nat.add].
  rewrite (nth_indep _ v0 (dcoo C [j; 0])) by (now rewrite map_length, seq_length).
  rewrite (map_nth (fun j0 => dcoo C [j; j0]) (seq 0 (coo_cols C)) 0 k). now rewrite seq_nth by exact Hk.
Qed.

Lemma holder_shape_full (h : holder V) : dshape (hfull h) = holder_shape h.
Proof. destruct h; reflexivity. Qed.

Lemma wf_holder_full (h : holder V) : wf_holder isz h -> wf_dense (hfull h).
Proof. destruct h; cbn; intros H; [exact H|apply wf_full]. Qed.

(* ------------------------------------------------------------------ sptensor.ttm(U, n) with a scipy coo matrix U *)
Section WithSpdot.
Variable spdot : coo V -> coo V -> coo V.
Hypothesis Hsp : spdot_spec v0 vadd vmul spdot.

Theorem sp_ttm_coo_correct (G : sparse V) (C : coo V) n : wf_sp isz G -> n < length (sshape G) ->
  wf_coo C -> coo_cols C = nth n (sshape G) 0 ->
  exists h, sp_ttm_coo v0 vadd isz spdot G C n = Some h /\ wf_holder isz h /\
    holder_shape h = set_nth (sshape G) n (coo_rows C) /\
    hfull h = ttm_mode v0 vadd vmul (full v0 G) (cmat C) n.
Proof.
  intros WG Hn WC HC. set (s := sshape G) in *. set (N := length s) in *. set (J := coo_rows C).
  set (r := setdiff_modes N [n]). set (c := [n]).
  destruct WG as (HL & HnoD & HbG & HzG).
  assert (WG : wf_sp isz G) by (repeat split; auto).
  assert (Hnr : ~ In n r) by apply setdiff_notin.
  assert (Hp : is_perm (r ++ c) N).
  { apply setdiff_perm; [repeat constructor; auto|]. intros k [<-|[]]. exact Hn. }
  unfold sp_ttm_coo. fold s. rewrite HC, Nat.eqb_refl. cbn [negb].
  unfold to_sptenmat_sorted_req. fold s N. cbn [gather_wrap_dims]. fold r c.
  destruct (to_sptenmat_sorted_correct V v0 v1 vadd vmul vsub vopp isz Vring isz_spec G r c Hp HbG HL)
    as (M0 & X & _ & EX & _ & Xr & Xc & Xts & Xsort & Xwf & _ & Xrest).
  destruct (Xrest WG) as (_ & _ & Xden & _). clear Xrest.
  rewrite EX. rewrite Xr, Xc. fold s in Xts, Xden.
  destruct Xwf as (XL & XnoD & Xb & _). cbn [stm_sp ssubs svals sshape] in XL, XnoD, Xb.
  destruct (stm_double_correct V v0 v1 vadd vmul vsub vopp Vring X XL XnoD Xb) as (XdS & _ & XdD).
  set (R := size (pick 0 r s)).
  assert (XS : stm_shape X = [R; nth n s 0]).
  { unfold stm_shape. rewrite Xr, Xc, Xts. unfold c, pick. cbn [map]. now rewrite size_single. }
  assert (WXd : wf_coo (stm_double X)).
  { unfold wf_coo. rewrite XdS, XS. repeat split; auto. now rewrite <- XS. }
  assert (Xrows : coo_rows (stm_double X) = R) by (unfold coo_rows; now rewrite XdS, XS).
  assert (Xcols : coo_cols (stm_double X) = nth n s 0) by (unfold coo_cols; now rewrite XdS, XS).
  destruct (Hsp (stm_double X) C WXd WC ltac:(now rewrite Xcols, HC)) as (WZ & ZS & ZD).
  set (Z := spdot (stm_double X) C) in *. rewrite Xrows in ZS, ZD. fold J in ZS, ZD. rewrite Xcols in ZD.
  destruct WZ as (_ & ZL & Zb). rewrite ZS in Zb.
  set (siz := set_nth s n J).
  assert (Esiz : siz = upd s n J) by apply set_nth_upd.
  assert (Lsiz : length siz = N) by (rewrite Esiz; apply upd_length).
  assert (Prs : pick 0 r siz = pick 0 r s) by (rewrite Esiz; now apply pick_upd_notin).
  assert (Pcs : pick 0 c siz = [J]) by (rewrite Esiz; now apply pick_upd_single).
  (* from_array accepts *)
  unfold from_array_coo.
  set (es := filter (fun e => negb (isz (snd e))) (coo_entries Z)).
  assert (Hbs : Forall (fun rc => inb [size (pick 0 r siz); size (pick 0 c siz)] rc = true) (map fst es)).
  { rewrite Prs, Pcs, size_single. fold R. rewrite Forall_forall in *. intros rc Hin.
    apply in_map_iff in Hin as ([a b] & <- & Hin). apply filter_In in Hin as [Hin _]. unfold coo_entries in Hin.
    apply in_combine_l in Hin. cbn [fst]. now apply Zb. }
  assert (Hps : is_perm (r ++ c) (length siz)) by (now rewrite Lsiz).
  pose proof (stm_ctor_accepts V vadd isz (map fst es) (map snd es) r c siz Hps Hbs) as EY.
  change (set_nth s n (coo_rows C)) with siz. rewrite EY.
  set (Y := stm_norm vadd isz (mkSTM (map fst es) (map snd es) r c siz)) in *.
  assert (EY' : from_array_coo vadd isz Z (Some r) (Some c) siz = Some Y) by exact EY.
  assert (Z2 : Forall (fun rc => length rc = 2) (coo_subs Z)).
  { rewrite Forall_forall in *. intros rc Hin. exact (inb_length _ _ (Zb rc Hin)). }
  assert (Hor : Some r <> None \/ Some c <> None) by (left; discriminate).
  destruct (from_array_coo_correct V v0 v1 vadd vmul vsub vopp isz Vring isz_spec Z (Some r) (Some c) siz Y ZL Z2 EY' Hor)
    as (_ & YD & sb & vl & Yc).
  rewrite ZS in YD.
  destruct Yc as (Yts & _ & _ & _ & _ & Yc). cbn zeta in Yc. destruct Yc as (SW & SS & _ & _ & _ & SD).
  set (S := sptenmat_to_sptensor Y) in *.
  assert (Yr : stm_r Y = r) by reflexivity. assert (Yc' : stm_c Y = c) by reflexivity.
  assert (EF : full v0 S = ttm_mode v0 vadd vmul (full v0 G) (cmat C) n).
  { apply (dense_ext v0); [apply wf_full|apply wf_tabulate| |].
    - unfold ttm_mode, full. cbn [dshape]. rewrite dshape_tabulate, nrows_coo_matrix. exact SS.
    - intros i Hi. change (dshape (full v0 S)) with (sshape S) in Hi. rewrite SS in Hi.
      destruct SW as (_ & _ & SbS & _).
      rewrite den_full by exact SbS. rewrite SD by exact Hi. unfold den_sptenmat. rewrite Yts, Yr, Yc'.
      destruct (tm_pos_lin siz r c i Hps Hi) as [Hpos _]. rewrite Prs, Pcs, size_single in Hpos. fold R in Hpos.
      rewrite YD by exact Hpos.
      pose proof (inb_length _ _ Hi) as Li. rewrite Lsiz in Li.
      assert (Epos : tm_pos siz r c i = [sub2ind (pick 0 r s) (pick 0 r i); nth n i 0]).
      { unfold tm_pos. rewrite Prs, Pcs. replace (pick 0 c i) with [nth n i 0] by reflexivity. now rewrite sub2ind_single. }
      rewrite Epos in *. apply inb2 in Hpos as (a & b & Eab & Ha & Hb). injection Eab as <- <-.
      rewrite ZD by assumption.
      unfold ttm_mode. change (dshape (full v0 G)) with s. rewrite nrows_coo_matrix. fold J siz. rewrite den_tabulate by exact Hi.
      apply (sum_n_ext V v0 vadd). intros k Hk.
      rewrite XdD. rewrite mget_coo_matrix by (auto; now rewrite HC).
      assert (Hik : inb s (upd i n k) = true) by (apply (inb_upd_back s i n J k); auto; now rewrite <- Esiz).
      rewrite set_nth_upd. rewrite den_full by exact HbG. rewrite <- (Xden (upd i n k) Hik).
      unfold den_sptenmat. rewrite Xts, Xr, Xc.
      assert (Epos2 : tm_pos s r c (upd i n k) = [sub2ind (pick 0 r s) (pick 0 r i); k]).
      { unfold tm_pos. rewrite pick_upd_notin by exact Hnr. unfold c. rewrite pick_upd_single by lia.
        replace (pick 0 [n] s) with [nth n s 0] by reflexivity. now rewrite sub2ind_single. }
      rewrite Epos2. ring. }
  destruct (2 * length (coo_subs Z) <=? size siz).
  - exists (HS S). repeat split; try exact EF; try exact SS; apply SW.
  - exists (HD (full v0 S)). split; [reflexivity|]. split; [apply wf_full|]. split; [exact SS|exact EF].
Qed.

(* ------------------------------------------------------------------ one ttm call, any receiver / matrix kind *)
Theorem ttm_step_correct (h : holder V) n (f : factor V) : wf_holder isz h -> n < length (holder_shape h) ->
  fac_ok f (nth n (holder_shape h) 0) ->
  exists h', ttm_step v0 vadd vmul isz spdot h n f = Some h' /\ wf_holder isz h' /\
    holder_shape h' = set_nth (holder_shape h) n (nrows (fmat f)) /\
    hfull h' = ttm_mode v0 vadd vmul (hfull h) (fmat f) n.
Proof.
  intros W Hn Hf. destruct h as [D|G]; cbn [holder_shape wf_holder holder_full] in *.
  - cbn [ttm_step]. eexists; split; [reflexivity|].
    rewrite impl_ttm_is_ttm_mode by assumption. cbn [wf_holder holder_shape holder_full].
    split; [apply wf_tabulate|]. split; [|reflexivity]. unfold ttm_mode. now rewrite dshape_tabulate.
  - destruct f as [U|C]; cbn [ttm_step fac_matrix].
    + rewrite (sp_ttm_correct V v0 v1 vadd vmul vsub vopp isz Vring isz_spec) by assumption. cbn [option_map]. eexists; split; [reflexivity|].
      cbn [wf_holder holder_shape holder_full]. split; [apply wf_tabulate|]. split; [|reflexivity].
      unfold ttm_mode. now rewrite dshape_tabulate.
    + destruct Hf as [WC HC].
      destruct (sp_ttm_coo_correct G C n W Hn WC HC) as (h' & E & W' & S' & F').
      exists h'. rewrite nrows_coo_matrix. auto.
Qed.

(* ------------------------------------------------------------------ the loop of X.ttm(list, dims) *)
Fixpoint chain_ok (s : shape) (ps : list (nat * factor V)) : Prop :=
  match ps with
  | [] => True
  | (n, f) :: ps' => n < length s /\ fac_ok f (nth n s 0) /\ chain_ok (set_nth s n (nrows (fmat f))) ps'
  end.

Theorem ttm_chain_correct (ps : list (nat * factor V)) : forall h : holder V, wf_holder isz h -> chain_ok (holder_shape h) ps ->
  exists h', ttm_chain v0 vadd vmul isz spdot h ps = Some h' /\ wf_holder isz h' /\
    hfull h' = ttm_pairs v0 vadd vmul (hfull h) ps.
Proof.
  induction ps as [|[n f] ps IH]; intros h W Hc.
  - exists h. auto.
  - destruct Hc as (Hn & Hf & Hc). destruct (ttm_step_correct h n f W Hn Hf) as (h1 & E1 & W1 & S1 & F1).
    rewrite <- S1 in Hc. destruct (IH h1 W1 Hc) as (h2 & E2 & W2 & F2).
    exists h2. cbn [ttm_chain]. rewrite E1. split; [exact E2|]. split; [exact W2|].
    rewrite F2, F1. reflexivity.
Qed.

(* ------------------------------------------------------------------ ttensor.full() *)
Lemma ttm_pairs_all (Fs : list (factor V)) : forall (X : dense V) n,
  ttm_pairs v0 vadd vmul X (combine (seq n (length Fs)) Fs) = ttm_all v0 vadd vmul X (map fmat Fs) n.
Proof.
  induction Fs as [|f Fs IH]; intros X n; [reflexivity|].
  cbn [length seq combine map ttm_all]. unfold ttm_pairs. cbn [fold_left fst snd]. apply IH.
Qed.

Lemma chain_ok_all (Fs : list (factor V)) : forall (s : shape) n, n + length Fs <= length s ->
  (forall k, k < length Fs -> fac_ok (nth k Fs (FDense [])) (nth (n + k) s 0)) ->
  chain_ok s (combine (seq n (length Fs)) Fs).
Proof.
  induction Fs as [|f Fs IH]; intros s n HL Hf; [exact I|].
  cbn [length seq combine chain_ok] in *. split; [lia|]. split.
  { specialize (Hf 0 ltac:(lia)). now rewrite Nat.add_0_r in Hf. }
  apply IH; [rewrite set_nth_length; lia|].
  intros k Hk. specialize (Hf (S k) ltac:(lia)). cbn [nth] in Hf.
  rewrite set_nth_upd, nth_upd_ne' by lia. now replace (S n + k) with (n + S k) by lia.
Qed.

Theorem ttensor_full_fac_correct (core : holder V) (Fs : list (factor V)) :
  wf_holder isz core -> length (holder_shape core) = length Fs -> Fs <> [] ->
  (forall k, k < length Fs -> fac_ok (nth k Fs (FDense [])) (nth k (holder_shape core) 0)) ->
  let T := mkT (hfull core) (map fmat Fs) in
  ttensor_full_fac v0 vadd vmul isz spdot core Fs = Some (ttensor_full v0 vadd vmul T) /\
  wf_dense (ttensor_full v0 vadd vmul T) /\ dshape (ttensor_full v0 vadd vmul T) = tshape T /\
  forall i, den_dense v0 (ttensor_full v0 vadd vmul T) i = den_t v0 v1 vadd vmul T i.
Proof.
  intros W HN Hne Hf T.
  assert (WT : wf_dense (tcore T)) by (now apply wf_holder_full).
  assert (HNT : length (dshape (tcore T)) = length (tfactors T)).
  { cbn [T tcore tfactors]. now rewrite holder_shape_full, map_length. }
  destruct (ttensor_full_correct V v0 v1 vadd vmul vsub vopp Vring T WT HNT) as (W' & Hs & Hd).
  split; [|auto].
  assert (Hc : chain_ok (holder_shape core) (combine (seq 0 (length Fs)) Fs)).
  { apply chain_ok_all; [lia|]. intros k Hk. now apply Hf. }
  destruct (ttm_chain_correct _ core W Hc) as (h' & E & _ & F).
  unfold ttensor_full_fac. destruct Fs as [|f Fs']; [congruence|]. rewrite E. cbn [option_map]. f_equal.
  rewrite F, ttm_pairs_all. reflexivity.
Qed.
End WithSpdot.

(* ------------------------------------------------------------------ the reference product satisfies the assumption *)
Theorem spdot_ref_spec : spdot_spec v0 vadd vmul (spdot_ref v0 vadd vmul isz).
Proof.
  intros A B WA WB HAB.
  set (R := coo_rows A). set (J := coo_rows B).
  set (val := fun rj => sum_n v0 vadd (coo_cols A) (fun k => vmul (dcoo A [nth 0 rj 0; k]) (dcoo B [nth 1 rj 0; k]))).
  set (subs := filter (fun rj => negb (isz (val rj))) (rowmajor_subs R J)).
  assert (Hb : Forall (fun rc => inb [R; J] rc = true) subs).
  { rewrite Forall_forall. intros rc Hin. apply filter_In in Hin as [Hin _]. now apply rowmajor_spec. }
  change (spdot_ref v0 vadd vmul isz A B) with (mkCoo [R; J] subs (map val subs)).
  split; [|split; [reflexivity|]].
  - unfold wf_coo. cbn [coo_shape coo_subs coo_data]. rewrite map_length. auto.
  - intros r j Hr Hj.
    assert (Hin : inb [R; J] [r; j] = true) by (apply inb2; eauto).
    change (den_dense v0 (tabulate [R; J] (fun rc => vsum_at v0 vadd rc (combine subs (map val subs)))) [r; j] =
            val [r; j]).
    rewrite den_tabulate by exact Hin.
    assert (Hn : NoDup subs) by (apply NoDup_filter, rowmajor_NoDup).
    etransitivity; [exact (vsum_graph V v0 v1 vadd vmul vsub vopp Vring val subs [r; j] Hn)|].
    destruct (in_dec (list_eq_dec Nat.eq_dec) [r; j] subs) as [_|Hout]; [reflexivity|].
    assert (Hz : isz (val [r; j]) = true).
    { destruct (isz (val [r; j])) eqn:Zv; auto. exfalso. apply Hout. apply filter_In. split; [now apply rowmajor_spec|].
      now rewrite Zv. }
    apply isz_spec in Hz. symmetry. exact Hz.
Qed.

End W5Proofs.
