(* Proofs/C16Text.v — the character-level tokenisation (Model/C16Text.v) under the line-level theorems: however a file's
   lines are padded with blanks and whichever line end (LF / CR LF) each of them carries, the token stream is that of the
   lines; hence the round trip holds on the characters export_data writes and on any such re-styling of them. *)
From Coq Require Import String.
From Coq Require Import List Arith ZArith Lia Bool.
From PV Require Import Base.Index Np.Array Model.Sparse Model.Repr Model.C16IO Model.C16Lines Model.C16Text
  Proofs.C16Proofs Proofs.C16Lines.
Import ListNotations.

Section P.
Variables (D T : Type) (d0 : D) (print : D -> T) (parse : T -> D) (ofZ : Z -> D).
Notation token := (token T).
Notation line := (list token).
Notation atom := (atom T).
Notation lex_aux := (lex_aux T).
Notation lex := (lex T).
Notation to_stream := (to_stream T).

Lemma lex_blanks_fresh n (r : list atom) : lex_aux false 0 (repeat ABlank n ++ r) = lex_aux false 0 r.
Proof. induction n as [|n IH]; cbn; auto. Qed.

Lemma lex_blanks_eol k p (e : eol) (r : list atom) :
  lex_aux true p (repeat ABlank k ++ eol_atoms T e ++ r) = None :: lex_aux false 0 r.
Proof.
  revert p; induction k as [|k IH]; intros p.
  - destruct e; reflexivity.
  - cbn [repeat app C16Text.lex_aux]. apply IH.
Qed.

(* what export writes holds no tab / VT / FF: no piece is marked *)
Lemma marked_blanks_eol (t : token) k (e : eol) (r : list atom) : marked T t (repeat ABlank k ++ eol_atoms T e ++ r) = false.
Proof. destruct k; [destruct e; [|cbn; destruct (is_word T t)]|]; reflexivity. Qed.

Lemma lex_join (t : token) (l : line) k (e : eol) (r : list atom) :
  lex_aux false 0 (join_toks T (t :: l) ++ repeat ABlank k ++ eol_atoms T e ++ r)
  = map Some (t :: l) ++ None :: lex_aux false 0 r.
Proof.
  assert (G : forall (l : line) t,
    lex_aux true 0 (match l with [] => [] | _ => ABlank :: join_toks T l end ++ repeat ABlank k ++ eol_atoms T e ++ r)
    = map Some l ++ None :: lex_aux false 0 r -> 
    lex_aux false 0 (join_toks T (t :: l) ++ repeat ABlank k ++ eol_atoms T e ++ r)
    = map Some (t :: l) ++ None :: lex_aux false 0 r).
  { intros l0 t0 H. destruct l0 as [|u l0]; cbn [join_toks app C16Text.lex_aux map] in *.
    - rewrite marked_blanks_eol. cbn [app]. now rewrite H.
    - cbn [marked]. cbn [app]. now rewrite H. }
  apply G. clear t G. induction l as [|u l IH].
  - cbn [app map]. apply lex_blanks_eol.
  - destruct l as [|v l].
    + cbn [join_toks app C16Text.lex_aux map pred repeat]. rewrite marked_blanks_eol. cbn [app]. f_equal. apply (lex_blanks_eol k 0).
    + cbn [join_toks app C16Text.lex_aux map pred repeat marked]. f_equal.
      cbn [join_toks app C16Text.lex_aux map pred repeat marked] in IH. exact IH.
Qed.

Lemma lex_render_line (ls : line * style) (r : list atom) :
  lex_aux false 0 (render_line T ls ++ r) = map Some (fst ls) ++ None :: lex_aux false 0 r.
Proof.
  destruct ls as [l [a k e]]. unfold render_line. cbn [fst snd lead trail brk].
  rewrite <- !app_assoc, lex_blanks_fresh. destruct l as [|t l].
  - cbn [join_toks app map]. rewrite lex_blanks_fresh. destruct e; reflexivity.
  - apply lex_join.
Qed.

(* the tokenisation of a styled file is the token stream of its lines *)
Theorem lex_render (f : list (line * style)) : lex (render T f) = to_stream (map fst f).
Proof.
  unfold C16Text.lex, render. induction f as [|ls f IH]; [reflexivity|].
  cbn [flat_map map]. rewrite lex_render_line, IH, (to_stream_cons T). reflexivity.
Qed.

(* ---- padding that mixes blanks with tab / VT / FF (strip() drops all of them at both ends of a line) ---- *)
Lemma lex_ws_fresh w (r : list atom) : lex_aux false 0 (ws_atoms T w ++ r) = lex_aux false 0 r.
Proof. induction w as [|[|] w IH]; cbn; auto. Qed.
Lemma lex_ws_eol w p (e : eol) (r : list atom) :
  lex_aux true p (ws_atoms T w ++ eol_atoms T e ++ r) = None :: lex_aux false 0 r.
Proof.
  revert p; induction w as [|[|] w IH]; intros p.
  - destruct e; reflexivity.
  - cbn [ws_atoms map app C16Text.lex_aux]. apply IH.
  - cbn [ws_atoms map app C16Text.lex_aux]. apply IH.
Qed.
Lemma has_tok_ws_eol w (e : eol) (r : list atom) : has_tok T (ws_atoms T w ++ eol_atoms T e ++ r) = false.
Proof. induction w as [|[|] w IH]; [destruct e; reflexivity| |]; cbn; exact IH. Qed.
Lemma after_ows_ws_eol w (e : eol) (r : list atom) : after_ows T (ws_atoms T w ++ eol_atoms T e ++ r) = false.
Proof. induction w as [|[|] w IH]; [destruct e; reflexivity|reflexivity|]; cbn; exact IH. Qed.
Lemma marked_ws_eol (t : token) w (e : eol) (r : list atom) : marked T t (ws_atoms T w ++ eol_atoms T e ++ r) = false.
Proof.
  destruct w as [|[|] w]; [destruct e; [|cbn; destruct (is_word T t)]; reflexivity|reflexivity|]. cbn [ws_atoms map app marked].
  destruct (is_word T t); [apply has_tok_ws_eol|apply after_ows_ws_eol].
Qed.

Lemma lex_join_ws (t : token) (l : line) w (e : eol) (r : list atom) :
  lex_aux false 0 (join_toks T (t :: l) ++ ws_atoms T w ++ eol_atoms T e ++ r)
  = map Some (t :: l) ++ None :: lex_aux false 0 r.
Proof.
  assert (G : forall (l : line) t,
    lex_aux true 0 (match l with [] => [] | _ => ABlank :: join_toks T l end ++ ws_atoms T w ++ eol_atoms T e ++ r)
    = map Some l ++ None :: lex_aux false 0 r ->
    lex_aux false 0 (join_toks T (t :: l) ++ ws_atoms T w ++ eol_atoms T e ++ r)
    = map Some (t :: l) ++ None :: lex_aux false 0 r).
  { intros l0 t0 H. destruct l0 as [|u l0]; cbn [join_toks app C16Text.lex_aux map] in *.
    - rewrite marked_ws_eol. cbn [app]. now rewrite H.
    - cbn [marked]. cbn [app]. now rewrite H. }
  apply G. clear t G. induction l as [|u l IH].
  - cbn [app map]. apply lex_ws_eol.
  - destruct l as [|v l].
    + cbn [join_toks app C16Text.lex_aux map pred repeat]. rewrite marked_ws_eol. cbn [app]. f_equal. apply (lex_ws_eol w 0).
    + cbn [join_toks app C16Text.lex_aux map pred repeat marked]. f_equal.
      cbn [join_toks app C16Text.lex_aux map pred repeat marked] in IH. exact IH.
Qed.

Lemma lex_render_line_ws (ls : line * wstyle) (r : list atom) :
  lex_aux false 0 (render_line_ws T ls ++ r) = map Some (fst ls) ++ None :: lex_aux false 0 r.
Proof.
  destruct ls as [l [a k e]]. unfold render_line_ws. cbn [fst snd wlead wtrail wbrk].
  rewrite <- !app_assoc, lex_ws_fresh. destruct l as [|t l].
  - cbn [join_toks app map]. rewrite lex_ws_fresh. destruct e; reflexivity.
  - apply lex_join_ws.
Qed.

(* however each line is padded with blanks, tabs, VTs, FFs before and after its tokens: the token stream is that of the lines *)
Theorem lex_render_ws (f : list (line * wstyle)) : lex (render_ws T f) = to_stream (map fst f).
Proof.
  unfold C16Text.lex, render_ws. induction f as [|ls f IH]; [reflexivity|].
  cbn [flat_map map]. rewrite lex_render_line_ws, IH, (to_stream_cons T). reflexivity.
Qed.

(* tab / VT / FF NEXT TO A BLANK inside a line change nothing: after the blank (in any state of the pass), and before it when
   the text they follow is an integer or number text (int() / float() ignore them; a WORD is compared as it stands) *)
Lemma lex_ows_skip st p k (r : list atom) : lex_aux st p (repeat AOws k ++ r) = lex_aux st p r.
Proof. induction k as [|k IH]; cbn; auto. Qed.
Lemma after_ows_blank k (r : list atom) : after_ows T (repeat AOws k ++ ABlank :: r) = false.
Proof. induction k as [|k IH]; cbn; auto. Qed.
Theorem lex_ows_next_to_blank st p (t : token) k1 k2 (r : list atom) : is_word T t = false ->
  lex_aux st p (ATok t :: repeat AOws k1 ++ ABlank :: repeat AOws k2 ++ r) = lex_aux st p (ATok t :: ABlank :: r).
Proof.
  intros Hw. cbn [C16Text.lex_aux].
  assert (M : marked T t (repeat AOws k1 ++ ABlank :: repeat AOws k2 ++ r) = false).
  { destruct k1 as [|k1]; [reflexivity|]. cbn [repeat app marked]. rewrite Hw. apply after_ows_blank. }
  rewrite M. cbn [marked]. rewrite lex_ows_skip. cbn [C16Text.lex_aux]. now rewrite lex_ows_skip.
Qed.
(* ... whereas JOINING two texts (no blank in between) they make ONE piece, unreadable as an item: the gap marker stands
   before each of its texts (np.fromfile skips the markers and finds the texts one by one) *)
Theorem lex_ows_glue (t u : token) k (r : list atom) :
  lex_aux false 0 (ATok t :: repeat AOws (S k) ++ ATok u :: r)
  = gap T :: Some t :: gap T :: Some u :: lex_aux true 0 r.
Proof.
  cbn [C16Text.lex_aux repeat app marked].
  assert (A : forall k, after_ows T (repeat AOws k ++ ATok u :: r) = true) by (intros j; induction j; cbn; auto).
  assert (H : forall k, has_tok T (repeat AOws k ++ ATok u :: r) = true) by (intros j; induction j; cbn; auto).
  rewrite A, H. destruct (is_word T t); cbn [app]; rewrite lex_ows_skip; cbn [C16Text.lex_aux app]; reflexivity.
Qed.

(* CARRIAGE RETURNS (import_data opens the file with newline="\n", /repo a0b5a3f): a CR anywhere in the file — before the LF
   of a CR LF line end, alone (old Mac line ends), among the padding, between two texts — is read exactly like a tab:
   replacing every CR by a tab leaves the token stream unchanged; in particular a lone CR does not end a line *)
Lemma has_tok_cr (r : list atom) : has_tok T (map (cr_ows T) r) = has_tok T r.
Proof. induction r as [|[| | |t|] r IH]; cbn; auto. Qed.
Lemma after_ows_cr (r : list atom) : after_ows T (map (cr_ows T) r) = after_ows T r.
Proof. induction r as [|[| | |t|] r IH]; cbn; auto. Qed.
Lemma marked_cr (t : token) (r : list atom) : marked T t (map (cr_ows T) r) = marked T t r.
Proof. destruct r as [|[| | |u|] r]; cbn; auto; now rewrite has_tok_cr, after_ows_cr. Qed.
Theorem lex_aux_cr_ows st p (a : list atom) : lex_aux st p (map (cr_ows T) a) = lex_aux st p a.
Proof.
  revert st p; induction a as [|[| | |t|] a IH]; intros st p; cbn [map cr_ows C16Text.lex_aux]; auto.
  - now rewrite IH.
  - now rewrite marked_cr, IH.
Qed.
Corollary lex_cr_ows (a : list atom) : lex (map (cr_ows T) a) = lex a.
Proof. apply lex_aux_cr_ows. Qed.
Corollary import_text_cr_ows b (a : list atom) :
  import_text D T d0 parse ofZ b (map (cr_ows T) a) = import_text D T d0 parse ofZ b a.
Proof. unfold import_text. now rewrite lex_cr_ows. Qed.
(* a file whose lines end with lone CRs is ONE line: nothing but the type word is ever found on its first line *)
Theorem lex_lone_cr st p (r : list atom) : lex_aux st p (ACR :: r) = lex_aux st p r.
Proof. reflexivity. Qed.

(* import_data on the characters = the line-level import on the lines, whatever the padding and the line ends *)
Theorem import_text_render b (f : list (line * style)) :
  import_text D T d0 parse ofZ b (render T f) = import_lines D T d0 parse ofZ b (map fst f).
Proof. unfold import_text, import_lines. now rewrite lex_render. Qed.

Lemma map_fst_zip (f : list line) (sty : list style) : length sty = length f -> map fst (combine f sty) = f.
Proof. intros H. apply map_fst_combine. auto. Qed.

(* the round trip on characters: what export_data writes (single blanks, LF), and the same lines padded with blanks and/or
   given CR LF line ends (e.g. a file that went through a Windows editor), are read back as the object *)
Theorem roundtrip_text (parse_print : forall v : D, parse (print v) = v) b (o : obj D) (sty : list style) :
  wf_obj D o -> wf_lines D o -> length sty = length (export_lines D T d0 print b o) ->
  import_text D T d0 parse ofZ b (render T (combine (export_lines D T d0 print b o) sty)) = Some o.
Proof.
  intros W L H. rewrite import_text_render, map_fst_zip by exact H.
  now apply (roundtrip_lines D T d0 print parse ofZ parse_print).
Qed.
Theorem roundtrip_text_ws (parse_print : forall v : D, parse (print v) = v) b (o : obj D) (sty : list wstyle) :
  wf_obj D o -> wf_lines D o -> length sty = length (export_lines D T d0 print b o) ->
  import_text D T d0 parse ofZ b (render_ws T (combine (export_lines D T d0 print b o) sty)) = Some o.
Proof.
  intros W L H. unfold import_text. rewrite lex_render_ws, map_fst_combine by auto.
  now apply (roundtrip_lines D T d0 print parse ofZ parse_print).
Qed.
(* the same with CARRIAGE RETURNS among the padding (CR LF line ends, several CRs before the LF, CRs before the first text of a
   line ...): any file that becomes a padded rendering of the lines export writes once its CRs are read as tabs *)
Theorem roundtrip_text_cr (parse_print : forall v : D, parse (print v) = v) b (o : obj D) (sty : list wstyle) (a : list atom) :
  wf_obj D o -> wf_lines D o -> length sty = length (export_lines D T d0 print b o) ->
  map (cr_ows T) a = render_ws T (combine (export_lines D T d0 print b o) sty) ->
  import_text D T d0 parse ofZ b a = Some o.
Proof.
  intros W L H E. rewrite <- import_text_cr_ows, E. now apply roundtrip_text_ws.
Qed.
Corollary roundtrip_text_plain (parse_print : forall v : D, parse (print v) = v) b (o : obj D) :
  wf_obj D o -> wf_lines D o ->
  import_text D T d0 parse ofZ b (render_plain T (export_lines D T d0 print b o)) = Some o.
Proof.
  intros W L. unfold render_plain. rewrite import_text_render, map_map. cbn [fst]. rewrite map_id.
  now apply (roundtrip_lines D T d0 print parse ofZ parse_print).
Qed.
End P.
