(* Proofs/C12LambdaR.v — the column rescaling ktensor.normalize(0) performs is an instance of the hypothesis of the lambda_check theorems
   (Proofs/C12Lambda.v: product over the modes of the column factors = component weight), over the reals (wave 4).
   pyttb/ktensor.py::normalize(weight_factor=0): every column r of every factor k is divided by its norm n_k[r] (when n_k[r] > 0) and the
   weight multiplied by it; then the weights are absorbed into mode 0: column r of factor 0 is multiplied by lam[r] * prod_k n_k[r].
   So the column factors are c_0[r] = (1 / n_0[r]) * (lam[r] * prod_k n_k[r]) and c_k[r] = 1 / n_k[r] for k >= 1.
   Proved for arbitrary NONZERO numbers n_k[r] (that they are the 2-norms is not needed).  A column of norm 0 is left as it is and
   its weight becomes 0: the component then contributes 0 before and after, but the product hypothesis does not hold — that case is
   covered by the correspondence stream only (op estimate_lam, factor matrices with zero columns). *)
From Coq Require Import List Arith Lia Reals Lra.
From PV Require Import Base.Index Base.Sum Model.Repr Model.C12Gcp Proofs.C12Tensor Proofs.C12Lambda.
Import ListNotations.
Local Open Scope R_scope.

Notation cprodR := (cprod R 0 1 Rmult).

Definition inv_cols (L : nat) (n : list R) : list R := map (fun r => / nth r n 0) (seq 0 L).

Definition normalize0_cs (lam : list R) (ns : list (list R)) : list (list R) :=
  match ns with
  | [] => []
  | n0 :: ns' =>
      map (fun r => / nth r n0 0 * (nth r lam 0 * cprodR ns r)) (seq 0 (length lam)) :: map (inv_cols (length lam)) ns'
  end.

Lemma cprod_inv (L : nat) (ns : list (list R)) (r : nat) : (r < L)%nat ->
  List.Forall (fun n => nth r n 0 <> 0) ns ->
  cprodR ns r * cprodR (map (inv_cols L) ns) r = 1.
Proof.
  intros Hr H. induction H as [|n ns Hn _ IH]; cbn [map cprod]; [ring|].
  unfold inv_cols at 1. rewrite (nth_map_seq _ L r 0) by exact Hr.
  transitivity ((nth r n 0 * / nth r n 0) * (cprodR ns r * cprodR (map (inv_cols L) ns) r)); [ring|].
  rewrite IH, Rinv_r by exact Hn. ring.
Qed.

(* the rescaling of normalize(0) satisfies the product hypothesis of C12_lambda_values / _estimate / _exact *)
Theorem normalize0_cs_prod (lam : list R) (ns : list (list R)) (r : nat) :
  ns <> [] -> (r < length lam)%nat -> List.Forall (fun n => nth r n 0 <> 0) ns ->
  cprodR (normalize0_cs lam ns) r = nth r lam 0.
Proof.
  intros Hne Hr H. destruct ns as [|n0 ns']; [congruence|]. inversion H as [|? ? Hn0 Hns]; subst.
  cbn [normalize0_cs cprod]. rewrite (nth_map_seq _ (length lam) r 0) by exact Hr.
  cbn [cprod].
  transitivity (nth r lam 0 * (nth r n0 0 * / nth r n0 0) * (cprodR ns' r * cprodR (map (inv_cols (length lam)) ns') r)); [ring|].
  rewrite (cprod_inv (length lam) ns' r Hr Hns), Rinv_r by exact Hn0. ring.
Qed.

Lemma normalize0_cs_length lam ns : length (normalize0_cs lam ns) = length ns.
Proof. destruct ns; cbn; [reflexivity|]. now rewrite map_length. Qed.

(* hence: the model values estimate_helper computes from the factors normalize(0) leaves behind are those of the WEIGHTED model
   (instance of lambda_values), for every model whose columns all have nonzero norm *)
Theorem lambda_values_normalize0 (lam : list R) (ns : list (list R)) (As : list (list (list R))) (i : idx) :
  As <> [] -> length ns = length As ->
  (forall r, (r < length lam)%nat -> List.Forall (fun n => nth r n 0 <> 0) ns) ->
  inb (map (@nrows R) As) i = true ->
  fac_val 0 1 Rplus Rmult (scale_all R Rmult (normalize0_cs lam ns) As) (length lam) i = den_k 0 1 Rplus Rmult (mkK lam As) i.
Proof.
  intros HA Hl Hn Hi. apply (lambda_values R 0 1 Rplus Rmult Rminus Ropp RTheory).
  - now rewrite normalize0_cs_length.
  - intros r Hr. apply normalize0_cs_prod; auto. intros E. rewrite E in Hl. destruct As; [congruence|discriminate].
  - exact Hi.
Qed.

(* non-vacuity: norms (3, 5) x (2, 4) x (7, 1), weights (6, -2) *)
Example normalize0_cs_ex :
  cprodR (normalize0_cs [6; -2] [[3; 5]; [2; 4]; [7; 1]]) 0 = 6 /\ cprodR (normalize0_cs [6; -2] [[3; 5]; [2; 4]; [7; 1]]) 1 = -2.
Proof. split; apply normalize0_cs_prod; try discriminate; cbn; try lia; repeat constructor; cbn; lra. Qed.

Print Assumptions normalize0_cs_prod.
Print Assumptions lambda_values_normalize0.
