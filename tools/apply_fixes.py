#!/usr/bin/env python3
"""Apply fixes/*.diff one by one to a worktree branch of /repo, gate each on the pinned doctests (208) and the
functional tests under tests/, commit each as `fix: ...`. Writes /verif/fixes/APPLIED.json (diff -> commit, findings)."""
import glob, json, os, re, subprocess, sys
WT = sys.argv[1] if len(sys.argv) > 1 else "/tmp/fixwt"
ROOT = "/verif"
findings = {}
for fn in glob.glob(ROOT + "/findings.d/*.jsonl"):
    for l in open(fn):
        if l.strip():
            j = json.loads(l)
            findings.setdefault(j["finding_id"], j)

def sh(cmd, cwd=WT):
    p = subprocess.run(cmd, shell=True, cwd=cwd, capture_output=True, text=True)
    return p.returncode, p.stdout + p.stderr

def tests():
    rc, out = sh(f"PYTHONPATH={WT} /venv/bin/python -m pytest -q -p no:cacheprovider --timeout=900 --continue-on-collection-errors 2>&1 | tail -1")
    ok1 = "208 passed" in out and "failed" not in out
    rc, out2 = sh(f"PYTHONPATH={WT} /venv/bin/python -m pytest tests -q -p no:cacheprovider --timeout=900 -q --no-header -o addopts='' --deselect tests/test_package.py 2>&1 | tail -3")
    ok2 = "failed" not in out2 and "error" not in out2.lower()
    return ok1, ok2, out.strip(), out2.strip()

order = sorted(glob.glob(ROOT + "/fixes/*.diff"))
if os.environ.get("FIXES_ONLY"):   # restrict to the named diffs, in the given order
    order = [ROOT + "/fixes/" + n for n in os.environ["FIXES_ONLY"].split(",") if n]
# dependent pairs: N04 before N06
applied = json.load(open(ROOT + "/fixes/APPLIED.json")) if os.path.exists(ROOT + "/fixes/APPLIED.json") else {}
for path in order:
    name = os.path.basename(path)
    if name in applied and applied[name].get("commit"):
        continue
    ids = [i for i in findings if re.search(r"(^|[-_])" + re.escape(i.replace("C0", "C0")) + r"($|[-_.])", name) or i in name]
    ids = sorted(set(ids), key=lambda s: name.find(s))
    rc, out = sh(f"git apply --index {path}")
    if rc != 0:
        rc, out = sh(f"git apply --index --3way {path}")
    if rc != 0:
        sh("git checkout -- . && git reset -q")
        applied[name] = {"commit": None, "error": "does not apply: " + out[-300:], "findings": ids}
        print("SKIP (apply)", name, out[-200:].replace("\n", " "))
        continue
    ok1, ok2, o1, o2 = tests()
    if not ok1:
        sh("git reset -q --hard")
        applied[name] = {"commit": None, "error": "doctests: " + o1, "findings": ids}
        print("SKIP (doctests)", name, o1)
        continue
    what = "; ".join(f"{findings[i].get('call_site','')}: {findings[i]['what']}" for i in ids[:2]) or name
    what = re.sub(r"\s+", " ", what)[:300]
    msg = f"fix: {what}\n\nFindings: {', '.join(ids)} (verification in /verif; patch {name})."
    if not ok2:
        sh("git reset -q --hard")
        applied[name] = {"commit": None, "error": "functional tests: " + o2[-300:], "findings": ids}
        print("SKIP (functional tests)", name, o2[-200:].replace("\n", " "))
        continue
    with open("/tmp/fixmsg.txt", "w") as fh:
        fh.write(msg)
    rc, out = sh("git commit -q -F /tmp/fixmsg.txt")
    rc, h = sh("git rev-parse --short HEAD")
    applied[name] = {"commit": h.strip(), "findings": ids, "functional_tests_ok": ok2, "functional_tail": o2[-200:] if not ok2 else ""}
    print("OK", name, h.strip(), ids, "" if ok2 else "FUNCTIONAL TESTS: " + o2[-150:].replace("\n", " "))
    json.dump(applied, open(ROOT + "/fixes/APPLIED.json", "w"), indent=1)
json.dump(applied, open(ROOT + "/fixes/APPLIED.json", "w"), indent=1)
