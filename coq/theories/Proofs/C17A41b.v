(* Proofs/C17A41b.v — wave 5: the A-41 trigger is EXACT for tt_setdiff_rows too, and for both helpers under the ORDER-FREE
   reading of the contract that tools/props/c17.py judges pyttb's own output by (A[result] is, as a multiset, the list of the
   distinct rows of A that do / do not occur in B).

     a41_setdiff_inside      inside the trigger the generated tt_setdiff_rows does NOT return indices whose rows are a
                             permutation of the distinct rows of A outside B — on EVERY request inside the trigger
     a41_setdiff_exact       tt_setdiff_rows meets the (ordered, hence also the order-free) contract IFF the trigger is false
     a41_intersect_inside    same for tt_intersect_rows with the order-free contract
     a41_intersect_perm_exact

   The counting argument (setdiff): write D = d_0 .. d_{n-1} for the distinct rows of A in first-occurrence order and
   f_0 < f_1 < .. for their first positions, so f_j >= j and f_j - j never decreases.  The code removes from {f_k} the RANKS
   j of the common rows; the answer is right iff for every k:  f_k is the rank of a common row  <->  d_k is common.
   If d_j is common with f_j > j (trigger), then f_j must be the rank of a common row as well, and f_{f_j} > f_j because
   f_j > j: an infinite ascent inside 0..n-1. *)
From Coq Require Import List ZArith Arith Bool Lia Permutation Sorted.
From PV Require Import Base.Index Np.NpZ Np.NpZ2 Proofs.NpZProofs Gen.GenUtils Gen.GenUtils2 Proofs.RowsProofs Proofs.C03Rows
  Proofs.GenRows Proofs.C17Dup Proofs.GenWrapDims Proofs.C17A41.
Import ListNotations.
Local Open Scope Z_scope.

(* ---- generic list facts ---- *)
Lemma sorted_gap (F : vec) : StronglySorted Z.lt F -> forall j k, (j <= k)%nat -> (k < length F)%nat ->
  nth j F 0 + Z.of_nat (k - j) <= nth k F 0.
Proof.
  induction F as [|x F IH]; intros Hs j k Hjk Hk; [cbn in Hk; lia|].
  destruct j as [|j].
  - rewrite Nat.sub_0_r. cbn [nth]. apply (sorted_ge_index (x :: F) x Hs); [|exact Hk].
    apply StronglySorted_inv in Hs as [_ Hx]. rewrite Forall_forall in Hx.
    intros y [<-|Hy]; [lia|]. specialize (Hx y Hy). lia.
  - destruct k as [|k]; [lia|]. cbn [nth]. cbn [length] in Hk.
    apply StronglySorted_inv in Hs as [Hs _]. replace (S k - S j)%nat with (k - j)%nat by lia.
    apply IH; [exact Hs|lia|lia].
Qed.

Lemma in_map_filter_inj {X Y} (f : X -> Y) (g : X -> bool) l x :
  NoDup (map f l) -> In x l -> (In (f x) (map f (filter g l)) <-> g x = true).
Proof.
  intros Hn Hx. split.
  - intros H. apply in_map_iff in H as (y & E & Hy). apply filter_In in Hy as [Hy Hg].
    assert (y = x) by (apply (nodup_map_inj f l); auto). now subst.
  - intros Hg. apply in_map. apply filter_In. now split.
Qed.

(* two filtered sub-lists of a list with distinct f-images that agree as multisets select the same elements *)
Lemma perm_filters_agree {X Y} (f : X -> Y) (g1 g2 : X -> bool) l :
  NoDup (map f l) -> Permutation (map f (filter g1 l)) (map f (filter g2 l)) -> forall x, In x l -> g1 x = g2 x.
Proof.
  intros Hn Hp x Hx. apply eq_true_iff_eq.
  rewrite <- (in_map_filter_inj f g1 l x Hn Hx), <- (in_map_filter_inj f g2 l x Hn Hx).
  split; intros H; [now apply (Permutation_in _ Hp)|now apply (Permutation_in _ (Permutation_sym Hp))].
Qed.

(* ---- the shape of A: distinct rows D, first positions F, paired in P ---- *)
Record a41_ctx (A : mat) (P : list (vec * Z)) : Prop := {
  cx_fst : map fst P = dedup A;
  cx_snd : map snd P = firstpos A;
  cx_len : length P = length (dedup A);
  cx_nodup : NoDup (map fst P);
  cx_sorted : StronglySorted Z.lt (map snd P);
  cx_pos : forall p, In p P -> exists j, snd p = Z.of_nat j /\ (j < length A)%nat /\ fst p = nth j A [];
  cx_nth : forall j, (j < length P)%nat -> nth j P ([], 0) = (nth j (dedup A) [], nth j (firstpos A) 0);
  cx_ge : forall j, (j < length P)%nat -> Z.of_nat j <= nth j (firstpos A) 0;
  cx_at : forall j, (j < length (dedup A))%nat ->
            exists jj, nth j (firstpos A) 0 = Z.of_nat jj /\ (jj < length A)%nat /\ nth j (dedup A) [] = nth jj A [];
  (* the row at its own rank  <->  first position = rank *)
  cx_fix : forall j, (j < length P)%nat -> nth j A [] = nth j (dedup A) [] -> nth j (firstpos A) 0 = Z.of_nat j
}.

Lemma a41_ctx_holds (A : mat) : a41_ctx A (firstpairs (combine A (tags A))).
Proof.
  set (P := firstpairs (combine A (tags A))). set (D := dedup A).
  assert (HD : map fst P = D) by (apply firstpairs_fst; apply tags_length).
  assert (HF : map snd P = firstpos A) by reflexivity.
  assert (HL : length P = length D) by (rewrite <- HD; now rewrite map_length).
  assert (HnP : NoDup (map fst P)) by (rewrite HD; apply dedup_nodup).
  assert (Hsort : StronglySorted Z.lt (map snd P)) by (rewrite HF; apply firstpos_sorted).
  assert (HP : forall p, In p P -> exists j, snd p = Z.of_nat j /\ (j < length A)%nat /\ fst p = nth j A []).
  { intros [r z] Hp. apply firstpairs_incl in Hp. unfold tags in Hp. apply in_combine_tags in Hp as (j & Hz & Hj & Hr).
    exists j. cbn [fst snd]. split; [rewrite Hz; reflexivity|split; [exact Hj|exact Hr]]. }
  assert (Hnth : forall j, (j < length P)%nat -> nth j P ([], 0) = (nth j D [], nth j (firstpos A) 0)).
  { intros j Hj. rewrite <- HD, <- HF.
    rewrite (nth_indep (map fst P) [] (fst (@nil Z, 0))) by (rewrite map_length; lia).
    rewrite (nth_indep (map snd P) 0 (snd (@nil Z, 0))) by (rewrite map_length; lia).
    rewrite (map_nth fst), (map_nth snd). now destruct (nth j P ([], 0)). }
  assert (Hge : forall j, (j < length P)%nat -> Z.of_nat j <= nth j (firstpos A) 0).
  { intros j Hj.
    assert (Hnn : forall x, In x (map snd P) -> 0 <= x).
    { intros x Hx. apply in_map_iff in Hx as (pp & <- & Hpp). destruct (HP pp Hpp) as (jj & -> & _). lia. }
    pose proof (sorted_ge_index (map snd P) 0 Hsort Hnn j ltac:(rewrite map_length; lia)) as G.
    rewrite HF in G. lia. }
  assert (Hat : forall j, (j < length D)%nat ->
            exists jj, nth j (firstpos A) 0 = Z.of_nat jj /\ (jj < length A)%nat /\ nth j D [] = nth jj A []).
  { intros j Hj. rewrite <- HL in Hj. destruct (HP _ (nth_In P ([], 0) Hj)) as (jj & Es & Hjj & Ef).
    rewrite (Hnth j Hj) in Es, Ef. cbn [fst snd] in Es, Ef. exists jj. auto. }
  constructor; auto.
  intros j Hj E.
  assert (HjA : (j < length A)%nat).
  { destruct (HP (nth j P ([], 0)) (nth_In _ _ Hj)) as (jj & Es & Hjj & _). rewrite (Hnth j Hj) in Es. cbn [snd] in Es.
    pose proof (Hge j Hj). lia. }
  assert (Hs2 : StronglySorted Z.lt (map snd (combine A (tags A)))).
  { rewrite map_snd_combine by (now rewrite tags_length). apply seqz_sorted. }
  destruct (firstpairs_min _ Hs2 _ (in_combine_tags_fwd A j HjA)) as (q & Hq & Efq & Esq).
  cbn [fst snd] in Efq, Esq. fold P in Hq.
  assert (Eq : q = nth j P ([], 0)).
  { apply (nodup_map_inj fst P); auto; [now apply nth_In|]. rewrite Efq, (Hnth j Hj). cbn [fst]. exact E. }
  rewrite Eq, (Hnth j Hj) in Esq. cbn [snd] in Esq. pose proof (Hge j Hj). lia.
Qed.

(* ranks of the rows of A that also occur in B *)
Definition common (A B : mat) : mat := filter (inrows A) (dedup B).
Definition cranks (A B : mat) : vec := map (loc (dedup A)) (common A B).

Lemma common_in A B r : In r (common A B) <-> In r A /\ In r B.
Proof. unfold common. rewrite filter_In, dedup_in, inrows_spec. tauto. Qed.

(* rank j is the rank of a common row  <->  d_j is in B *)
Lemma cranks_spec A B j : (j < length (dedup A))%nat ->
  (In (Z.of_nat j) (cranks A B) <-> In (nth j (dedup A) []) B).
Proof.
  intros Hj. destruct (dedup_reading (dedup A)) as (_ & _ & Hid & _ & _ & _ & Hloc).
  assert (HnD : NoDup (dedup A)) by apply dedup_nodup.
  unfold cranks. rewrite in_map_iff. split.
  - intros (r & El & Hr). apply common_in in Hr as [HrA HrB].
    assert (HrD : In r (dedup A)) by now apply dedup_in.
    destruct (Hloc r HrD) as (j' & El' & Hj' & Hn'). rewrite El' in El. apply Nat2Z.inj in El. subst j'. now rewrite Hn'.
  - intros HB. exists (nth j (dedup A) []).
    assert (HrD : In (nth j (dedup A) []) (dedup A)) by now apply nth_In.
    split; [|apply common_in; split; [now apply (dedup_in A)|exact HB]].
    destruct (Hloc _ HrD) as (j' & El' & Hj' & Hn'). rewrite El'. f_equal.
    apply (proj1 (NoDup_nth (dedup A) []) HnD); auto.
Qed.

Lemma cranks_range A B x : In x (cranks A B) -> exists j, x = Z.of_nat j /\ (j < length (dedup A))%nat.
Proof.
  unfold cranks. intros H. apply in_map_iff in H as (r & El & Hr). apply common_in in Hr as [HrA _].
  destruct (dedup_reading (dedup A)) as (_ & _ & _ & _ & _ & _ & Hloc).
  destruct (Hloc r (proj2 (dedup_in A r) HrA)) as (j & E & Hj & _). exists j. split; [congruence|exact Hj].
Qed.

(* the trigger, read on ranks: some common row d_j has its first position after its rank *)
Lemma a41_trigger_rank A B : a41_trigger A B = true ->
  exists j, (j < length (dedup A))%nat /\ In (nth j (dedup A) []) B /\ Z.of_nat j < nth j (firstpos A) 0.
Proof.
  intros H. unfold a41_trigger in H. apply existsb_exists in H as (r & Hr & Hn).
  apply negb_true_iff in Hn. pose proof Hr as Hc. apply (common_in A B) in Hc as [HrA HrB].
  destruct (dedup_reading (dedup A)) as (_ & _ & _ & _ & _ & _ & Hloc).
  destruct (Hloc r (proj2 (dedup_in A r) HrA)) as (j & E & Hj & Hnj).
  rewrite E, znth_nat in Hn. exists j. split; [exact Hj|]. split; [now rewrite Hnj|].
  pose proof (a41_ctx_holds A) as cx. pose proof (cx_len _ _ cx) as HL.
  pose proof (cx_ge _ _ cx j ltac:(lia)) as Hge.
  destruct (Z.eq_dec (nth j (firstpos A) 0) (Z.of_nat j)) as [Ef|Ne]; [|lia].
  exfalso. destruct (cx_at _ _ cx j Hj) as (jj & Es & _ & Efj).
  rewrite Ef in Es. apply Nat2Z.inj in Es. subst jj. rewrite <- Efj, Hnj in Hn.
  rewrite row_eqb_refl in Hn. discriminate.
Qed.

(* ---- tt_setdiff_rows: what the order-free contract forces, and why the trigger contradicts it ---- *)
Lemma setdiff_key (A B : mat) : okw A -> okw B ->
  (exists idx, tt_setdiff_rows A B = Ok idx /\
     Permutation (np_take [] A idx) (filter (fun r => negb (inrows B r)) (dedup A))) ->
  forall j, (j < length (dedup A))%nat ->
    (In (nth j (firstpos A) 0) (cranks A B) <-> In (nth j (dedup A) []) B).
Proof.
  intros HA HB (idx & E & Hp) j Hj. rewrite (tt_setdiff_rows_gen A B HA HB) in E. inversion E; subst idx; clear E.
  fold (common A B) in Hp. fold (cranks A B) in Hp.
  pose proof (a41_ctx_holds A) as cx. set (P := firstpairs (combine A (tags A))) in *.
  pose proof (cx_len _ _ cx) as HL.
  rewrite <- (cx_snd _ _ cx), <- (cx_fst _ _ cx) in Hp. rewrite !filter_of_map in Hp.
  unfold np_take in Hp. rewrite map_map in Hp.
  rewrite (map_ext_in (fun x => znth [] A (snd x)) fst) in Hp.
  2:{ intros p Hp'. apply filter_In in Hp' as [Hp' _]. destruct (cx_pos _ _ cx p Hp') as (jj & Es & _ & Ef).
      destruct p as [r z]. cbn [fst snd] in *. subst z r. apply znth_nat. }
  assert (HjP : (j < length P)%nat) by (rewrite HL; exact Hj).
  pose proof (perm_filters_agree fst _ _ P (cx_nodup _ _ cx) Hp (nth j P ([], 0)) (nth_In P ([], 0) HjP)) as G.
  cbv beta in G. pose proof (cx_nth _ _ cx j HjP) as En.
  assert (G' : negb (zmem (nth j (firstpos A) 0) (cranks A B)) = negb (inrows B (nth j (dedup A) []))).
  { transitivity (negb (zmem (snd (nth j P ([], 0))) (cranks A B))); [now rewrite En|].
    rewrite G. now rewrite En. }
  clear G. rename G' into G.
  apply (f_equal negb) in G. rewrite !negb_involutive in G.
  rewrite <- zmem_in, <- inrows_spec. now rewrite G.
Qed.

Lemma setdiff_no_ascent (A B : mat) :
  (forall j, (j < length (dedup A))%nat ->
     (In (nth j (firstpos A) 0) (cranks A B) <-> In (nth j (dedup A) []) B)) ->
  forall m j, (length (dedup A) - j <= m)%nat -> (j < length (dedup A))%nat ->
    In (nth j (dedup A) []) B -> Z.of_nat j < nth j (firstpos A) 0 -> False.
Proof.
  intros Hkey. pose proof (a41_ctx_holds A) as cx. pose proof (cx_len _ _ cx) as HL.
  pose proof (cx_sorted _ _ cx) as Hs. rewrite (cx_snd _ _ cx) in Hs.
  assert (HLF : length (firstpos A) = length (dedup A)) by (rewrite <- (cx_snd _ _ cx), map_length; exact HL).
  induction m as [|m IH]; intros j Hm Hj HB Hlt; [lia|].
  pose proof (proj2 (Hkey j Hj) HB) as Hin.
  destruct (cranks_range A B _ Hin) as (j' & Ej' & Hj').
  assert (Hjj' : (j < j')%nat) by lia.
  apply (IH j'); [lia|exact Hj'| |].
  - apply (cranks_spec A B j' Hj'). now rewrite <- Ej'.
  - pose proof (sorted_gap (firstpos A) Hs j j' ltac:(lia) ltac:(lia)) as G. lia.
Qed.

Theorem a41_setdiff_inside (A B : mat) : okw A -> okw B -> a41_trigger A B = true ->
  forall idx, tt_setdiff_rows A B = Ok idx ->
    ~ Permutation (np_take [] A idx) (filter (fun r => negb (inrows B r)) (dedup A)).
Proof.
  intros HA HB Htr idx E Hp.
  pose proof (setdiff_key A B HA HB (ex_intro _ idx (conj E Hp))) as Hkey.
  destruct (a41_trigger_rank A B Htr) as (j & Hj & HjB & Hlt).
  exact (setdiff_no_ascent A B Hkey (length (dedup A) - j) j (le_n _) Hj HjB Hlt).
Qed.

(* both directions, ordered contract: A[result] = distinct rows of A outside B, in first-occurrence order *)
Theorem a41_setdiff_exact (A B : mat) : okw A -> okw B ->
  ((exists idx, tt_setdiff_rows A B = Ok idx /\ np_take [] A idx = filter (fun r => negb (inrows B r)) (dedup A))
   <-> a41_trigger A B = false).
Proof.
  intros HA HB. split.
  - intros (idx & E & T). apply not_true_is_false. intros Htr.
    apply (a41_setdiff_inside A B HA HB Htr idx E). rewrite T. apply Permutation_refl.
  - now apply a41_setdiff_outside.
Qed.

(* both directions, order-free contract (the one tools/props/c17.py judges pyttb's output by) *)
Theorem a41_setdiff_perm_exact (A B : mat) : okw A -> okw B ->
  ((exists idx, tt_setdiff_rows A B = Ok idx /\
      Permutation (np_take [] A idx) (filter (fun r => negb (inrows B r)) (dedup A)))
   <-> a41_trigger A B = false).
Proof.
  intros HA HB. split.
  - intros (idx & E & T). apply not_true_is_false. intros Htr. exact (a41_setdiff_inside A B HA HB Htr idx E T).
  - intros Htr. destruct (a41_setdiff_outside A B HA HB Htr) as (idx & E & T). exists idx. split; [exact E|].
    rewrite T. apply Permutation_refl.
Qed.

(* ---- tt_intersect_rows under the order-free contract ---- *)
(* h r = the row of A at the rank of r.  If r's first position is after its rank, h r is a row with a smaller rank. *)
Lemma rank_row_smaller (A : mat) j : (j < length (dedup A))%nat -> Z.of_nat j < nth j (firstpos A) 0 ->
  exists j', (j' < j)%nat /\ nth j A [] = nth j' (dedup A) [].
Proof.
  intros Hj Hlt. pose proof (a41_ctx_holds A) as cx. pose proof (cx_len _ _ cx) as HL.
  set (P := firstpairs (combine A (tags A))) in *.
  destruct (cx_at _ _ cx j Hj) as (jj & Es & Hjj & _).
  assert (HjA : (j < length A)%nat) by lia.
  assert (HrD : In (nth j A []) (dedup A)) by (apply dedup_in; now apply nth_In).
  apply (In_nth _ _ []) in HrD as (j' & Hj' & E').
  exists j'. split; [|now rewrite E'].
  (* first position of d_j' is <= j < f_j, and first positions are increasing in the rank *)
  destruct (Nat.lt_ge_cases j' j) as [H|H]; [exact H|exfalso].
  assert (Hs2 : StronglySorted Z.lt (map snd (combine A (tags A)))).
  { rewrite map_snd_combine by (now rewrite tags_length). apply seqz_sorted. }
  destruct (firstpairs_min _ Hs2 _ (in_combine_tags_fwd A j HjA)) as (q & Hq & Efq & Esq).
  cbn [fst snd] in Efq, Esq. fold P in Hq.
  assert (Eq : q = nth j' P ([], 0)).
  { apply (nodup_map_inj fst P); auto; [exact (cx_nodup _ _ cx)|apply nth_In; lia|].
    rewrite Efq, (cx_nth _ _ cx j' ltac:(lia)). cbn [fst]. now rewrite E'. }
  rewrite Eq, (cx_nth _ _ cx j' ltac:(lia)) in Esq. cbn [snd] in Esq.
  pose proof (cx_sorted _ _ cx) as Hs. rewrite (cx_snd _ _ cx) in Hs.
  assert (HLF : length (firstpos A) = length (dedup A)) by (rewrite <- (cx_snd _ _ cx), map_length; exact HL).
  pose proof (sorted_gap (firstpos A) Hs j j' H ltac:(lia)) as G. lia.
Qed.

Lemma NoDup_map_of_perm {X} (h : X -> X) (C : list X) : NoDup C -> Permutation (map h C) C -> NoDup (map h C).
Proof. intros Hn Hp. exact (Permutation_NoDup (Permutation_sym Hp) Hn). Qed.

Theorem a41_intersect_inside (A B : mat) : okw A -> okw B -> a41_trigger A B = true ->
  forall idx, tt_intersect_rows A B = Ok idx ->
    ~ Permutation (np_take [] A idx) (filter (inrows A) (dedup B)).
Proof.
  intros HA HB Htr idx E Hp. rewrite (tt_intersect_rows_gen A B HA HB) in E. inversion E; subst idx; clear E.
  fold (common A B) in Hp. unfold np_take in Hp. rewrite map_map in Hp.
  set (h := fun r => znth [] A (loc (dedup A) r)) in *.
  assert (HnC : NoDup (common A B)) by (apply NoDup_filter, dedup_nodup).
  pose proof (NoDup_map_of_perm h _ HnC Hp) as Hinj.
  destruct (dedup_reading (dedup A)) as (_ & _ & _ & _ & _ & _ & Hloc).
  assert (HnD : NoDup (dedup A)) by apply dedup_nodup.
  (* no common row of rank j has its first position after j: strong induction on j *)
  assert (Hno : forall m j, (j <= m)%nat -> (j < length (dedup A))%nat -> In (nth j (dedup A) []) B ->
                 Z.of_nat j < nth j (firstpos A) 0 -> False).
  { induction m as [|m IH]; intros j Hm Hj HjB Hlt.
    - destruct (rank_row_smaller A j Hj Hlt) as (j' & Hj' & _). lia.
    - destruct (rank_row_smaller A j Hj Hlt) as (j' & Hj' & Erow).
      set (r := nth j (dedup A) []) in *. set (r' := nth j' (dedup A) []) in *.
      assert (HrD : In r (dedup A)) by now apply nth_In.
      assert (Hr'D : In r' (dedup A)) by (apply nth_In; lia).
      assert (HrC : In r (common A B)) by (apply common_in; split; [now apply (dedup_in A)|exact HjB]).
      assert (Elr : loc (dedup A) r = Z.of_nat j).
      { destruct (Hloc r HrD) as (jj & El & Hjj & Hn). rewrite El. f_equal. apply (proj1 (NoDup_nth (dedup A) []) HnD); auto. }
      assert (Elr' : loc (dedup A) r' = Z.of_nat j').
      { destruct (Hloc r' Hr'D) as (jj & El & Hjj & Hn). rewrite El. f_equal.
        apply (proj1 (NoDup_nth (dedup A) []) HnD); auto; lia. }
      assert (Ehr : h r = r') by (unfold h; rewrite Elr, znth_nat; exact Erow).
      (* r' = h r is in map h C, hence (permutation) in C: a common row of smaller rank *)
      assert (Hr'C : In r' (common A B)).
      { apply (Permutation_in _ Hp). rewrite <- Ehr. now apply in_map. }
      pose proof (proj2 (proj1 (common_in A B r') Hr'C)) as Hr'B.
      destruct (Z.eq_dec (nth j' (firstpos A) 0) (Z.of_nat j')) as [Ef|Ne].
      + (* h r' = r' too: h is not injective on C *)
        assert (Ehr' : h r' = r').
        { unfold h. rewrite Elr', znth_nat.
          pose proof (a41_ctx_holds A) as cx. pose proof (cx_len _ _ cx) as HL.
          destruct (cx_at _ _ cx j' ltac:(lia)) as (jj & Es & _ & Efj).
          rewrite Ef in Es. apply Nat2Z.inj in Es. subst jj. symmetry; exact Efj. }
        assert (r = r') by (apply (nodup_map_inj h (common A B)); auto; congruence).
        assert (j = j') by (apply (proj1 (NoDup_nth (dedup A) []) HnD); auto; lia). lia.
      + pose proof (a41_ctx_holds A) as cx. pose proof (cx_len _ _ cx) as HL.
        pose proof (cx_ge _ _ cx j' ltac:(lia)).
        apply (IH j'); [lia|lia|exact Hr'B|lia]. }
  destruct (a41_trigger_rank A B Htr) as (j & Hj & HjB & Hlt).
  exact (Hno j j (le_n _) Hj HjB Hlt).
Qed.

Theorem a41_intersect_perm_exact (A B : mat) : okw A -> okw B ->
  ((exists idx, tt_intersect_rows A B = Ok idx /\ Permutation (np_take [] A idx) (filter (inrows A) (dedup B)))
   <-> a41_trigger A B = false).
Proof.
  intros HA HB. split.
  - intros (idx & E & T). apply not_true_is_false. intros Htr. exact (a41_intersect_inside A B HA HB Htr idx E T).
  - intros Htr. destruct (proj2 (a41_intersect_exact A B HA HB) Htr) as (idx & E & T). exists idx. split; [exact E|].
    rewrite T. apply Permutation_refl.
Qed.

(* non-vacuity: a request inside the trigger where the rows returned by setdiff are not even of the right NUMBER of
   distinct rows (row [2] is in B, row [1] is returned twice), and one where only the order-free reading separates *)
Example a41_setdiff_inside_example :
  a41_trigger [[1]; [1]; [2]; [3]] [[2]] = true /\ tt_setdiff_rows [[1]; [1]; [2]; [3]] [[2]] = Ok [0; 2; 3] /\
  filter (fun r => negb (inrows [[2]] r)) (dedup [[1]; [1]; [2]; [3]]) = [[1]; [3]].
Proof. repeat split; reflexivity. Qed.
Example a41_intersect_inside_example :
  a41_trigger [[1]; [1]; [2]; [3]] [[3]; [2]] = true /\ tt_intersect_rows [[1]; [1]; [2]; [3]] [[3]; [2]] = Ok [2; 1] /\
  np_take [] [[1]; [1]; [2]; [3]] [2; 1] = [[2]; [1]] /\ filter (inrows [[1]; [1]; [2]; [3]]) (dedup [[3]; [2]]) = [[3]; [2]].
Proof. repeat split; reflexivity. Qed.
