(* Model/C08More.v — further executable models of pyttb/ktensor.py on the record [ktensor V] (wave 3):
     k_symmetrize_core : the body of ktensor.symmetrize after its normalize("all") (sign alignment with factor 0,
                         per-flip weight toggle, average, odd-order weight repair)
     k_ttv             : ktensor.ttv(vectors, dims) — weights times <v_n, A_n[:, r]>, the named factors dropped
     k_mask            : ktensor.mask(W) — the values of the denoted array at the listed subscripts
     greedy / score_perm : the greedy matching loop of ktensor.score (largest entry of the penalised congruence matrix
                         first, its row and column blanked with -10) and the completion of best_perm
   Definitions only; proofs are in Proofs/C08More.v. *)
From Coq Require Import List Arith Lia Bool.
From PV Require Import Base.Index Base.Perm Base.Sum Np.Array Model.Sparse Model.Repr Model.C08Kruskal.
Import ListNotations.

Section M8.
Context {V : Type} (v0 v1 : V) (vadd vmul : V -> V -> V) (vopp vinv : V -> V).

Notation mat := (list (list V)).
Notation col := (col v0).
Notation zipmul := (zipmul vmul).
Notation scale_cols := (scale_cols vmul).
Notation dot := (dot v0 vadd vmul).
Notation vm1 := (vm1 v1 vopp).

Fixpoint zipw {A} (f : A -> A -> A) (a b : list A) : list A :=
  match a, b with x :: a', y :: b' => f x y :: zipw f a' b' | _, _ => [] end.
Definition madd (A B : mat) : mat := zipw (zipw vadd) A B.                       (* A + B *)
Fixpoint vofnat (n : nat) : V := match n with 0 => v0 | S n' => vadd v1 (vofnat n') end.
Definition sgnb (b : bool) : V := if b then vm1 else v1.

(* ---- symmetrize (after K = self.copy(); K.normalize("all")) ----
     for i in 1..N-1, j in 0..R-1: if fm0[:, j] . fmi[:, j] < 0: fmi[:, j] = -fmi[:, j]; weights[j] = -weights[j]
     V = (fm0 + sum fmi) / N;  odd N: weights[j] < 0 -> weights[j] = -weights[j]; V[:, j] = -V[:, j]
     result: ktensor([V] * N, weights) *)
Section Sym.
Variable neg : V -> bool.
Definition sym_flips (A0 Ai : mat) (R : nat) : list bool := map (fun j => neg (dot (col A0 j) (col Ai j))) (seq 0 R).
Definition k_symmetrize_core (K1 : ktensor V) : ktensor V :=
  match kfactors K1 with
  | [] => K1
  | A0 :: As =>
      let R := krank K1 in
      let N := length (kfactors K1) in
      let fl := map (fun Ai => sym_flips A0 Ai R) As in
      let As' := map (fun p => scale_cols (map sgnb (fst p)) (snd p)) (combine fl As) in
      let w := fold_left (fun w f => zipmul w (map sgnb f)) fl (kweights K1) in
      let Vm := map (map (fun x => vmul x (vinv (vofnat N)))) (fold_left madd As' A0) in
      let s := if Nat.odd N then map (fun x => if neg x then vm1 else v1) w else ones v1 w in
      mkK (zipmul w s) (repeat (scale_cols s Vm) N)
  end.
End Sym.

(* ---- fixsigns(other): the 0-based breakpt / endpt arithmetic of the source, literally ----
     breakpt = np.nonzero(sort_sgn_score < 0)[-1]; if len(breakpt) == 0: continue; breakpt = breakpt[-1]
     if (breakpt + 1) % 2 == 0: endpt = breakpt + 1
     elif breakpt + 1 < N and -sort_sgn_score[breakpt] > sort_sgn_score[breakpt + 1]: endpt = breakpt + 2
     else: endpt = breakpt
   ("continue" = nothing flipped = endpt 0) *)
Section Endpt.
Variables (neg : V -> bool) (leb : V -> V -> bool).
Definition last_neg (s : list V) : option nat :=
  match rev (where_true (map neg s)) with [] => None | b :: _ => Some b end.
Definition py_endpt (s : list V) : nat :=
  match last_neg s with
  | None => 0
  | Some b =>
      if Nat.even (b + 1) then b + 1
      else if (b + 1 <? length s) && negb (leb (vopp (nth b s v0)) (nth (b + 1) s v0)) then b + 2
      else b
  end.
End Endpt.

(* ---- ttv: contraction of mode n with a vector v multiplies weight r by <v, A_n[:, r]> and drops factor n ---- *)
Definition ttv_coefs (A : mat) (v : list V) (R : nat) : list V := map (fun r => dot v (col A r)) (seq 0 R).
Fixpoint remove_nth {A} (n : nat) (l : list A) : list A :=
  match l, n with
  | [], _ => []
  | _ :: l', 0 => l'
  | x :: l', S n' => x :: remove_nth n' l'
  end.
Definition k_ttv1 (n : nat) (v : list V) (K : ktensor V) : ktensor V :=
  mkK (zipmul (kweights K) (ttv_coefs (nth n (kfactors K) []) v (krank K))) (remove_nth n (kfactors K)).
(* several modes: vs = [(n, v)], applied from the LARGEST mode index down so the remaining positions stay valid *)
Definition k_ttv (vs : list (nat * list V)) (K : ktensor V) : ktensor V :=
  fold_left (fun K p => k_ttv1 (fst p) (snd p) K) vs K.

(* ---- mask(W): values of the denoted array at the stored subscripts of W ---- *)
Definition k_mask (subs : list idx) (K : ktensor V) : list V := map (den_k v0 v1 vadd vmul K) subs.
(* the accumulation loop of the source, per listed subscript:
     vals = 0; for j in range(R): tmp = weights[j] * 1; for k in range(N): tmp = tmp * A_k[subs[k], j]; vals = vals + tmp *)
Definition py_mask1 (K : ktensor V) (i : idx) : V :=
  fold_left (fun acc j =>
               vadd acc (fold_left (fun t p => vmul t (mget v0 (fst p) (snd p) j)) (combine (kfactors K) i)
                                   (vmul (nth j (kweights K) v0) v1)))
            (seq 0 (krank K)) v0.
Definition py_mask (subs : list idx) (K : ktensor V) : list V := map (py_mask1 K) subs.

End M8.

(* ---- score(other, greedy=True): the matching loop on the RA x RB matrix C (= P * C of the source) ----
     best_perm = -1 * ones(RA); best_score = 0
     for _ in range(RB):
         idx = argmax(C.reshape(RA*RB, order="F")); (i, j) = tt_ind2sub((RA, RB), idx)     # first maximal cell, rows fastest
         best_score += C[i, j]; C[i, :] = -10; C[:, j] = -10; best_perm[j] = i
     foo = arange(RA); tf = isin(foo, best_perm); best_perm[RB:RA+1] = foo[~tf]
   The matrix is a function of (row, column) so that blanking is a definition by cases; [sent] is the -10; the list of
   picks (row, column), newest first, is carried along as a trace. *)
Section Score.
Context {V : Type} (v0 : V) (vadd : V -> V -> V) (sent : V) (leb : V -> V -> bool).
Definition fmat := nat -> nat -> V.
Definition ltb (a b : V) : bool := negb (leb b a).
Definition cells (RA RB : nat) : list (nat * nat) := flat_map (fun j => map (fun i => (i, j)) (seq 0 RA)) (seq 0 RB).
Definition cval (C : fmat) (p : nat * nat) : V := C (fst p) (snd p).
Fixpoint argmax_from (C : fmat) (best : nat * nat) (l : list (nat * nat)) : nat * nat :=
  match l with
  | [] => best
  | p :: l' => argmax_from C (if ltb (cval C best) (cval C p) then p else best) l'
  end.
Definition argmax_cell (C : fmat) (RA RB : nat) : nat * nat :=
  match cells RA RB with [] => (0, 0) | p :: l => argmax_from C p l end.
Definition blank (C : fmat) (i j : nat) : fmat := fun a b => if (a =? i) || (b =? j) then sent else C a b.

Record gstate := mkG { gC : fmat; gperm : list (option nat); gscore : V; gpicks : list (nat * nat) }.
Definition gstep (RA RB : nat) (st : gstate) : gstate :=
  let p := argmax_cell (gC st) RA RB in
  mkG (blank (gC st) (fst p) (snd p)) (upd_nth (snd p) (fun _ => Some (fst p)) (gperm st))
      (vadd (gscore st) (cval (gC st) p)) (p :: gpicks st).
Definition greedy (RA RB : nat) (C0 : fmat) : gstate := Nat.iter RB (gstep RA RB) (mkG C0 (repeat None RA) v0 []).
Definition oget (RA : nat) (o : option nat) : nat := match o with Some i => i | None => RA end.
Definition oeqb (a : nat) (o : option nat) : bool := match o with Some i => i =? a | None => false end.
(* the completed best_perm *)
Definition score_perm (RA RB : nat) (C0 : fmat) : list nat :=
  let bp := gperm (greedy RA RB C0) in
  map (oget RA) (firstn RB bp) ++ filter (fun a => negb (existsb (oeqb a) bp)) (seq 0 RA).
(* best_score before the division by RB *)
Definition score_sum (RA RB : nat) (C0 : fmat) : V := gscore (greedy RA RB C0).
End Score.
