(* Props/W4C07d.v — sptensor.reshape as GENERATED from /repo/pyttb/sptensor.py on every run (Gen/GenSptensor4d.v; it calls the
   generated tt_sub2ind / tt_ind2sub of Gen/GenUtils.v): bridge to the hand reference Model/W4Reshape.v and the request laws
   (mode numbers outside [0, ndims) rejected — /repo b27c529 —, negative sizes rejected, element count of the reshaped modes kept,
   result shape = kept sizes ++ new sizes, values handed on, nothing stored -> the empty tensor of that shape). *)
From Coq Require Import List ZArith Bool.
From PV Require Import Np.NpZ Np.NpZ2 Np.NpZ3 Np.NpZ3c Np.NpZ3d Np.NpZ3e Np.NpZ4 Np.NpZ4b Np.NpZ4e Gen.GenUtils Gen.GenSptensor4d
  Model.W4Reshape Proofs.W4Reshape Base.Index Base.Perm Model.Sparse Model.C07Ops Proofs.NpZProofs Proofs.W4ReshapeModel.
Import ListNotations.
Local Open Scope Z_scope.

Theorem C07_gen_sp_reshape_bridge : forall (self : sptz) (new_shape : vec) (old_modes : option vec),
  sptensor_reshape self new_shape old_modes = H_sp_reshape self new_shape old_modes.
Proof. exact sp_reshape_bridge. Qed.
Print Assumptions C07_gen_sp_reshape_bridge.

Theorem C07_gen_sp_reshape_rejects_modes : forall (self : sptz) (new_shape old : vec) (k : Z),
  In k old -> k < 0 \/ zlen (spt_shape self) <= k -> sptensor_reshape self new_shape (Some old) = Err.
Proof. exact gen_sp_reshape_rejects_modes. Qed.
Print Assumptions C07_gen_sp_reshape_rejects_modes.

Theorem C07_gen_sp_reshape_rejects_negative : forall (self : sptz) (new_shape : vec) (old_modes : option vec) (d : Z),
  In d new_shape -> d < 0 -> sptensor_reshape self new_shape old_modes = Err.
Proof. exact gen_sp_reshape_rejects_negative. Qed.
Print Assumptions C07_gen_sp_reshape_rejects_negative.

Theorem C07_gen_sp_reshape_result : forall (self t : sptz) (new_shape : vec) (old_modes : option vec),
  sptensor_reshape self new_shape old_modes = Ok t ->
  exists old keep, H_reshape_modes (zlen (spt_shape self)) old_modes = Ok (old, keep) /\
    spt_shape t = np_take 0 (spt_shape self) keep ++ new_shape /\
    zprod new_shape = zprod (np_take 0 (spt_shape self) old) /\
    (forall d, In d new_shape -> 0 <= d) /\ new_shape <> [] /\
    (np_size2 (spt_subs self) = 0 -> spt_subs t = [] /\ spt_vals t = []) /\
    (np_size2 (spt_subs self) <> 0 -> spt_vals t = spt_vals self /\ zlen (spt_subs t) = zlen (spt_subs self)
        /\ spt_make_ok (spt_subs t) (spt_vals t) (spt_shape t) = true).
Proof. exact gen_sp_reshape_result. Qed.
Print Assumptions C07_gen_sp_reshape_result.

(* old_modes = None is the request for all modes in order *)
Theorem C07_gen_sp_reshape_none : forall (self : sptz) (new_shape : vec),
  sptensor_reshape self new_shape None = sptensor_reshape self new_shape (Some (np_arange 0 (zlen (spt_shape self)))).
Proof. exact gen_sp_reshape_none. Qed.
Print Assumptions C07_gen_sp_reshape_none.

(* on a well-formed record with stored entries the generated method IS C07's hand model reshape_sp (Model/C07Ops.v) *)
Theorem C07_gen_sp_reshape_model : forall (S : sparse Z) (s' : shape) (old : list nat),
  ssubs S <> [] -> Forall (fun j => inb (sshape S) j = true) (ssubs S) -> length (svals S) = length (ssubs S) ->
  Forall (fun k => (k < length (sshape S))%nat) old -> old <> [] -> s' <> [] ->
  sptensor_reshape (of_Sp S) (zs s') (Some (zs old)) =
    match reshape_sp S s' old with Some R => Ok (of_Sp R) | None => Err end.
Proof. exact gen_sp_reshape_model. Qed.
Print Assumptions C07_gen_sp_reshape_model.

Theorem C07_gen_sp_reshape_model_all : forall (S : sparse Z) (s' : shape),
  ssubs S <> [] -> Forall (fun j => inb (sshape S) j = true) (ssubs S) -> length (svals S) = length (ssubs S) ->
  sshape S <> [] -> s' <> [] ->
  sptensor_reshape (of_Sp S) (zs s') None = match reshape_sp_all S s' with Some R => Ok (of_Sp R) | None => Err end.
Proof. exact gen_sp_reshape_model_all. Qed.
Print Assumptions C07_gen_sp_reshape_model_all.

(* ... hence C07's index theorem for the generated method *)
Theorem C07_gen_sp_reshape_den : forall (S : sparse Z) (s' : shape) (old : list nat),
  ssubs S <> [] -> Forall (fun j => inb (sshape S) j = true) (ssubs S) -> length (svals S) = length (ssubs S) ->
  Forall (fun k => (k < length (sshape S))%nat) old -> old <> [] -> s' <> [] ->
  size s' = size (pick 0%nat old (sshape S)) ->
  exists R, sptensor_reshape (of_Sp S) (zs s') (Some (zs old)) = Ok (of_Sp R) /\
    sshape R = pick 0%nat (keep_modes (length (sshape S)) old) (sshape S) ++ s' /\ svals R = svals S /\
    (forall i, inb (sshape S) i = true ->
       inb (sshape R) (reshape_row (sshape S) s' old i) = true /\
       den_sp 0 R (reshape_row (sshape S) s' old i) = den_sp 0 S i) /\
    (forall i', (forall i, inb (sshape S) i = true -> reshape_row (sshape S) s' old i <> i') -> den_sp 0 R i' = 0).
Proof. exact gen_sp_reshape_den. Qed.
Print Assumptions C07_gen_sp_reshape_den.

Example C07_gen_sp_reshape_example :
  sptensor_reshape (mkspt [[0; 1; 3]; [2; 0; 1]] [5; -7] [3; 2; 4]) [6; 4] None = Ok (mkspt [[3; 3]; [2; 1]] [5; -7] [6; 4]) /\
  sptensor_reshape (mkspt [[0; 1; 3]; [2; 0; 1]] [5; -7] [3; 2; 4]) [2; 6] (Some [2; 0]) = Ok (mkspt [[1; 1; 1]; [0; 1; 4]] [5; -7] [2; 2; 6]) /\
  sptensor_reshape (mkspt [[0; 1; 3]; [2; 0; 1]] [5; -7] [3; 2; 4]) [2; 6] (Some [-1; 0]) = Err /\
  sptensor_reshape (mkspt [[0; 1; 3]; [2; 0; 1]] [5; -7] [3; 2; 4]) [2; 6] (Some [3; 0]) = Err /\
  sptensor_reshape (mkspt [[0; 1; 3]; [2; 0; 1]] [5; -7] [3; 2; 4]) [5; 5] None = Err /\
  sptensor_reshape (mkspt [[0; 1; 3]; [2; 0; 1]] [5; -7] [3; 2; 4]) [-6; -4] None = Err /\
  sptensor_reshape (mkspt [] [] [3; 2; 4]) [12] (Some [0; 2]) = Ok (mkspt [] [] [2; 12]) /\
  sptensor_reshape (mkspt [] [] [1; 3; 2]) [] (Some [0]) = Err.
Proof. repeat split; reflexivity. Qed.
