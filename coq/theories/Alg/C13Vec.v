(* Alg/C13Vec.v — the two round trips between a Kruskal model and its vector that C13_lbfgsb_wrap assumes of
   (tovec, update), discharged for the ktensor model of C08 (Model/C08Kruskal.v: k_tovec = ktensor.tovec,
   unvec_factors = the reshape of ktensor.update / from_vector), so the wrapper theorem applies to ktensors as they are.
   update_all K v = K.update(np.arange(K.ndims), v): every factor matrix replaced, weights kept. *)
From Coq Require Import List Arith Lia Bool.
From PV Require Import Base.Index Model.Repr Model.C08Kruskal Proofs.C08Proofs Alg.C13Config.
Import ListNotations.

Section Vec.
Variable V : Type.
Variable v0 : V.
Notation mat := (list (list V)).

Definition tovec_f (K : ktensor V) : list V := k_tovec v0 false K.           (* K.tovec(False) *)
Definition update_all (K : ktensor V) (v : list V) : ktensor V :=            (* K.update(arange(ndims), v) *)
  mkK (kweights K) (unvec_factors v0 (kshape K) (krank K) v).

(* update(tovec(K)) = K *)
Lemma update_all_tovec K : wf_k K -> update_all K (tovec_f K) = K.
Proof.
  intros W. unfold update_all, tovec_f, k_tovec. cbn [app].
  pose proof (unvec_vec_factors V v0 (krank K) (kfactors K) [] W) as H. rewrite app_nil_r in H.
  unfold kshape. rewrite H. now destruct K.
Qed.

Lemma length_unvec_factor m R data : length (unvec_factor v0 m R data) = m.
Proof. unfold unvec_factor. now rewrite map_length, seq_length. Qed.

(* columns of the reshaped block, one after the other, are the block *)
Lemma vec_unvec_factor m R data : length data = m * R -> vec_factor v0 R (unvec_factor v0 m R data) = data.
Proof.
  intros Hl. set (A := unvec_factor v0 m R data).
  assert (HA : length A = m) by apply length_unvec_factor.
  apply (nth_ext _ _ v0 v0).
  - rewrite length_vec_factor, HA. lia.
  - intros n Hn. rewrite length_vec_factor, HA in Hn.
    assert (Hm : 0 < m) by (destruct m; [cbn in Hn; lia | lia]).
    pose proof (Nat.div_mod n m ltac:(lia)) as Hdm.
    pose proof (Nat.mod_upper_bound n m ltac:(lia)) as Hmod.
    assert (Hq : n / m < R) by (apply Nat.div_lt_upper_bound; lia).
    rewrite Hdm at 1. rewrite (Nat.add_comm (m * (n / m)) (n mod m)).
    unfold vec_factor.
    rewrite (nth_concat_uniform v0 m); [| rewrite <- HA; apply cols_uniform | lia | unfold cols; rewrite map_length, seq_length; lia].
    unfold cols. rewrite (nth_indep _ [] (col v0 A 0)) by (rewrite map_length, seq_length; lia).
    rewrite (map_nth (col v0 A)), seq_nth by lia. cbn [Nat.add]. unfold col.
    rewrite (nth_indep _ v0 (nth (n / m) [] v0)) by (rewrite map_length; lia).
    rewrite (map_nth (fun row => nth (n / m) row v0)).
    unfold A, unvec_factor.
    rewrite (nth_indep _ [] ((fun i => map (fun r => nth (i + m * r) data v0) (seq 0 R)) 0)) by (rewrite map_length, seq_length; lia).
    rewrite (map_nth (fun i => map (fun r => nth (i + m * r) data v0) (seq 0 R))), seq_nth by lia. cbn [Nat.add].
    rewrite (nth_indep _ v0 ((fun r => nth (n mod m + m * r) data v0) 0)) by (rewrite map_length, seq_length; lia).
    rewrite (map_nth (fun r => nth (n mod m + m * r) data v0)), seq_nth by lia. cbn [Nat.add].
    f_equal. lia.
Qed.

Lemma vec_unvec_factors R : forall shape data, length data = R * sum_nat shape ->
  concat (map (vec_factor v0 R) (unvec_factors v0 shape R data)) = data.
Proof.
  induction shape as [|m shape IH]; intros data Hl; cbn [unvec_factors map concat sum_nat fold_right] in *.
  - destruct data; [reflexivity | cbn in Hl; lia].
  - fold (sum_nat shape) in Hl.
    rewrite vec_unvec_factor by (rewrite firstn_length; lia).
    rewrite IH by (rewrite skipn_length; lia).
    apply firstn_skipn.
Qed.

Lemma nrows_unvec_factors R : forall shape data, map (@nrows V) (unvec_factors v0 shape R data) = shape.
Proof.
  induction shape as [|m shape IH]; intros data; cbn [unvec_factors map]; [reflexivity|].
  rewrite IH. unfold nrows. now rewrite length_unvec_factor.
Qed.

Lemma length_tovec K : length (tovec_f K) = krank K * sum_nat (kshape K).
Proof. unfold tovec_f, k_tovec. cbn [app]. apply sum_nat_vec. Qed.

(* tovec(update(K, v)) = v for a vector of the right length; shape, rank and weights are kept *)
Lemma tovec_update_all K v : length v = length (tovec_f K) -> tovec_f (update_all K v) = v.
Proof.
  intros Hl. rewrite length_tovec in Hl. unfold tovec_f, k_tovec, update_all. cbn [app kfactors kweights].
  change (krank (mkK (kweights K) (unvec_factors v0 (kshape K) (krank K) v))) with (krank K).
  now apply vec_unvec_factors.
Qed.

Lemma update_all_keeps K v :
  kshape (update_all K v) = kshape K /\ krank (update_all K v) = krank K /\ kweights (update_all K v) = kweights K.
Proof. unfold update_all, kshape at 1. cbn [kfactors]. rewrite nrows_unvec_factors. auto. Qed.

(* ---- C13_lbfgsb_wrap for ktensors: no hypotheses left on (tovec, update) ---- *)
Section Wrap.
Variables F CB KW : Type.
Variable leb : F -> F -> bool.
Variable vle : V -> V -> Prop.
Variable objective : ktensor V -> F.
Variable scipy : (list V -> F) -> list V -> list (option V * option V) -> kwargs CB KW -> list V * F * nat.

Theorem lbfgsb_wrap_ktensor : scipy_contract V F CB KW leb vle scipy -> forall cb other (K0 : ktensor V) lb, wf_k K0 ->
  let o := lbfgsb_solve (ktensor V) V F CB KW tovec_f update_all objective scipy (mkKw CB KW (UserCb CB cb) other) K0 lb in
  o_bounds _ _ _ _ _ o = repeat (lb, None) (krank K0 * sum_nat (kshape K0)) /\
  kw_callback _ _ (o_kwargs_during _ _ _ _ _ o) = MonitorOf CB cb /\ o_kwargs _ _ _ _ _ o = mkKw CB KW (UserCb CB cb) other /\
  tovec_f (o_model _ _ _ _ _ o) = o_final_vector _ _ _ _ _ o /\
  (Forall (within V vle lb) (tovec_f K0) ->
   leb (objective (o_model _ _ _ _ _ o)) (objective K0) = true /\ Forall (within V vle lb) (tovec_f (o_model _ _ _ _ _ o))) /\
  kshape (o_model _ _ _ _ _ o) = kshape K0 /\ krank (o_model _ _ _ _ _ o) = krank K0.
Proof.
  intros HC cb other K0 lb W o.
  pose proof (lbfgsb_wrap (ktensor V) V F CB KW leb vle tovec_f update_all objective (@wf_k V)
                update_all_tovec tovec_update_all scipy HC cb other K0 lb W) as H.
  fold o in H. destruct H as (H1 & H2 & H3 & H4 & H6).
  rewrite length_tovec in H1.
  split; [exact H1|]. split; [exact H2|]. split; [exact H3|]. split; [exact H4|]. split; [exact H6|].
  split.
  - unfold o, lbfgsb_solve. destruct (scipy _ _ _ _) as [[x fx] wflag]. cbn [o_model]. apply update_all_keeps.
  - unfold o, lbfgsb_solve. destruct (scipy _ _ _ _) as [[x fx] wflag]. cbn [o_model]. apply update_all_keeps.
Qed.
End Wrap.
End Vec.

(* non-vacuity: a 3x2 (+) 2x2 model, rank 2: 10 entries, columns first *)
Example vec_roundtrip_example :
  let K := mkK [1; 1] [[[1; 2]; [3; 4]; [5; 6]]; [[7; 8]; [9; 10]]] in
  tovec_f nat 0 K = [1; 3; 5; 2; 4; 6; 7; 9; 8; 10] /\
  update_all nat 0 K [10; 9; 8; 7; 6; 5; 4; 3; 2; 1] = mkK [1; 1] [[[10; 7]; [9; 6]; [8; 5]]; [[4; 2]; [3; 1]]] /\
  tovec_f nat 0 (update_all nat 0 K [10; 9; 8; 7; 6; 5; 4; 3; 2; 1]) = [10; 9; 8; 7; 6; 5; 4; 3; 2; 1].
Proof. repeat split; reflexivity. Qed.
