(* Model/C15K.v — transliteration of the body of pyttb/ktensor.py ktensor.symmetrize AFTER its
   "K = self.copy(); K.normalize('all')" (normalize is modelled and proved in the C08 files; it is an oracle-dependent
   re-parameterisation that keeps the denoted array):

     fm0 = factor_matrices[0]; V = fm0
     for i in 1..N-1:  fmi = factor_matrices[i]
        for j in 0..R-1:  if fm0[:, [j]].T @ fmi[:, [j]] < 0:  fmi[:, [j]] = -fmi[:, [j]];  weights[j] = -weights[j]
        V = V + fmi
     V = V / N
     if N odd:  for j:  if weights[j] < 0:  weights[j] = -weights[j];  V[:, [j]] = -V[:, [j]]
     return ktensor([V.copy() for i in range(N)], weights)

   The only non-ring operation is the test "x < 0": the oracle [neg] (as in Model/C08Kruskal.v).
   Negation is written as multiplication by -1. Definitions only; proofs in Proofs/C15K.v. *)
From Coq Require Import List Arith Lia Bool.
From PV Require Import Base.Index Base.Perm Base.Sum Np.Array Model.Repr Model.C15Sym.
Import ListNotations.

Section K15.
Context {V : Type} (v0 v1 : V) (vadd vmul : V -> V -> V) (vopp vinv : V -> V) (neg : V -> bool).
Notation mat := (list (list V)).
Notation mg := (mget v0).

Definition km1 : V := vopp v1.
Definition ksgn (b : bool) : V := if b then km1 else v1.
(* fm0[:, [j]].T @ fmi[:, [j]] *)
Definition coldot (A0 Ai : mat) (j : nat) : V := sum_n v0 vadd (nrows A0) (fun x => vmul (mg A0 x j) (mg Ai x j)).
(* is column j of factor Ai flipped by the alignment loop? (fm0 itself is never modified) *)
Definition kflip (A0 Ai : mat) (j : nat) : bool := neg (coldot A0 Ai j).
(* weights[j] after the alignment loop: toggled once per flipped factor *)
Definition w_aligned (A0 : mat) (As : list mat) (w : V) (j : nat) : V :=
  fold_left (fun w Ai => vmul w (ksgn (kflip A0 Ai j))) As w.
(* V[x, j] = (fm0[x, j] + sum over the other factors of the (possibly flipped) entry) / N *)
Definition v_entry (A0 : mat) (As : list mat) (x j : nat) : V :=
  vmul (fold_left (fun acc Ai => vadd acc (vmul (ksgn (kflip A0 Ai j)) (mg Ai x j))) As (mg A0 x j))
       (vinv (of_nat v0 v1 vadd (S (length As)))).
(* odd order and weights[j] < 0 : weight and column are negated *)
Definition kfix (N : nat) (w : V) : bool := Nat.odd N && neg w.

Definition k15_weight (A0 : mat) (As : list mat) (ws : list V) (j : nat) : V :=
  let w := w_aligned A0 As (nth j ws v0) j in vmul (ksgn (kfix (S (length As)) w)) w.
Definition k15_factor (A0 : mat) (As : list mat) (ws : list V) : mat :=
  map (fun x => map (fun j => vmul (ksgn (kfix (S (length As)) (w_aligned A0 As (nth j ws v0) j))) (v_entry A0 As x j))
                    (seq 0 (length ws)))
      (seq 0 (nrows A0)).

Definition k15_core (K1 : ktensor V) : ktensor V :=
  match kfactors K1 with
  | [] => K1
  | A0 :: As =>
      mkK (map (k15_weight A0 As (kweights K1)) (seq 0 (krank K1)))
          (repeat (k15_factor A0 As (kweights K1)) (S (length As)))
  end.

(* the class of inputs on which symmetrize keeps the value: every factor has m rows and, column by column, is the
   matrix B with the column multiplied by +1 or -1 (what normalize("all") makes of a Kruskal tensor whose factor
   columns are proportional to each other, identical factors with weights of either sign included) *)
Definition signed_copy (B : mat) (m R : nat) (A : mat) : Prop :=
  nrows A = m /\ forall r, r < R -> exists t, (t = v1 \/ t = km1) /\ forall x, x < m -> mg A x r = vmul (mg B x r) t.

(* boolean version over the rows (executable instances) *)
Definition col_sign_of (veqb : V -> V -> bool) (B A : mat) (m r : nat) : bool :=
  forallb (fun x => veqb (mg A x r) (vmul (mg B x r) v1)) (seq 0 m) ||
  forallb (fun x => veqb (mg A x r) (vmul (mg B x r) km1)) (seq 0 m).
Definition signed_copyb (veqb : V -> V -> bool) (B : mat) (m R : nat) (A : mat) : bool :=
  Nat.eqb (nrows A) m && forallb (col_sign_of veqb B A m) (seq 0 R).
End K15.
