(* Proofs/C16Big.v — the Z-subscript sparse file model (Model/C16Big.v): round trip for all shapes in Z (modes of any
   length, e.g. 2^60), and the bridge to the nat object model: on every stream the Z import is the nat import seen through
   Z.of_nat, and the two exports write the same lines. *)
From Coq Require Import String.
From Coq Require Import List Arith ZArith Lia Bool.
From PV Require Import Base.Index Np.Array Model.Sparse Model.Repr Model.C16IO Model.C16Lines Model.C16Big
  Proofs.C16Proofs Proofs.C16Lines.
Import ListNotations.

Section P.
Variables (D T : Type) (d0 : D) (print : D -> T) (parse : T -> D) (ofZ : Z -> D).

Notation token := (token T).
Notation line := (list token).
Notation stream := (stream T).
Notation to_stream := (to_stream T).
Notation readline := (readline T).
Notation zentry_line := (zentry_line D T print).
Notation zentry_of_line := (zentry_of_line D T parse ofZ).
Notation rd_zentries := (rd_zentries D T parse ofZ).
Notation export_spz_lines := (export_spz_lines D T print).
Notation import_spz_stream := (import_spz_stream D T parse ofZ).
Notation import_spz_lines := (import_spz_lines D T parse ofZ).
Notation entry_of_line := (entry_of_line D T parse ofZ).
Notation rd_entries_l := (rd_entries_l D T parse ofZ).
Notation import_stream := (import_stream D T d0 parse ofZ).

(* ---------------------------------------------------------------- round trip over Z *)
Section RT.
Hypothesis parse_print : forall v : D, parse (print v) = v.

Lemma zsubs_of_line b (i : list Z) : Forall (fun x => (0 <= x)%Z) i ->
  zsubs_of T b (map (fun x => Int (x + b)%Z) i) = Some i.
Proof.
  induction i as [|x i IH]; intros H; cbn [map zsubs_of]; auto. inversion H as [|? ? Hx Hi]; subst.
  unfold zsub_of. replace (x + b - b)%Z with x by lia.
  destruct (Z.leb_spec 0 x); [|lia]. now rewrite IH.
Qed.

Lemma inbz_nonneg s i : inbz s i = true -> Forall (fun x => (0 <= x)%Z) i /\ length i = length s.
Proof.
  revert i; induction s as [|d s IH]; intros [|x i] H; cbn in H; try discriminate; [split; [constructor|reflexivity]|].
  apply andb_prop in H as [H1 H2]. apply andb_prop in H1 as [H0 _]. apply Z.leb_le in H0.
  destruct (IH i H2) as [Ha Hb]. split; [constructor; auto|cbn; congruence].
Qed.

Lemma zentry_of_zentry_line b (e : list Z * D) : Forall (fun x => (0 <= x)%Z) (fst e) ->
  zentry_of_line b (length (fst e)) (zentry_line b e) = Some e.
Proof.
  destruct e as [i v]. cbn [fst]. intros H. unfold C16Big.zentry_of_line, C16Big.zentry_line. cbn [fst snd].
  rewrite rev_app_distr. cbn [rev app val_tok bindo]. rewrite rev_involutive, zsubs_of_line by exact H.
  cbn [bindo]. now rewrite Nat.eqb_refl, parse_print.
Qed.

Lemma rd_zentries_lines b N (es : list (list Z * D)) :
  Forall (fun e => length (fst e) = N /\ Forall (fun x => (0 <= x)%Z) (fst e)) es ->
  rd_zentries b N (length es) (to_stream (map (zentry_line b) es)) = Some es.
Proof.
  induction es as [|e es IH]; intros H; [reflexivity|]. inversion H as [|? ? [He1 He2] Hes]; subst.
  cbn [length map C16Big.rd_zentries]. rewrite <- (app_nil_r (to_stream _)), (readline_cons T), app_nil_r. cbn [fst snd].
  rewrite zentry_of_zentry_line by exact He2. cbn [bindo]. now rewrite IH.
Qed.

Lemma all_ints_Int (l : list Z) : all_ints T (map (@Int T) l) = Some l.
Proof. induction l as [|z l IH]; cbn; auto. now rewrite IH. Qed.

Theorem roundtrip_spz b (S : spz D) : wf_spz D S -> import_spz_lines b (export_spz_lines b S) = Some S.
Proof.
  intros (Hne & Hpos & HL & Hin). unfold C16Big.import_spz_lines, C16Big.export_spz_lines, C16Big.import_spz_stream.
  rewrite <- (app_nil_r (to_stream _)), (readline_cons T). cbn [fst snd]. cbn [String.eqb Ascii.eqb Bool.eqb].
  unfold rd_shape_z. rewrite to_stream_app, <- app_assoc, (readline_cons T). cbn [fst snd]. rewrite (readline_cons T). cbn [fst snd].
  cbn [head_int int_tok bindo]. rewrite all_ints_Int. cbn [bindo]. rewrite Z.eqb_refl. cbn [negb].
  cbn [bindo fst snd].
  replace (forallb (fun z => (0 <=? z)%Z) (zshape S)) with true.
  2:{ symmetry. apply forallb_forall. intros z Hz. rewrite Forall_forall in Hpos. apply Z.leb_le. auto. }
  change (to_stream []) with (@nil (option token)). cbn [app]. rewrite (readline_cons T). cbn [fst snd head_int int_tok bindo].
  unfold nat_of. destruct (Z.leb_spec 0 (Z.of_nat (length (zsubs S)))); [|lia]. cbn [bindo]. rewrite Nat2Z.id, app_nil_r.
  assert (HE : length (zsubs S) = length (combine (zsubs S) (zvals S))) by (rewrite combine_length; lia).
  assert (E0 : Nat.eqb (length (zshape S)) 0 && negb (Nat.eqb (length (zsubs S)) 0) = false).
  { destruct (zshape S) as [|d sh]; [|reflexivity]. now rewrite (Hne eq_refl). }
  rewrite E0. rewrite HE, rd_zentries_lines.
  - cbn [bindo]. rewrite map_fst_combine, map_snd_combine by auto.
    replace (forallb (inbz (zshape S)) (zsubs S)) with true; [now destruct S|].
    symmetry. apply forallb_forall. rewrite Forall_forall in Hin. auto.
  - rewrite Forall_forall. intros [i v] Hi. cbn [fst]. apply in_combine_l in Hi. rewrite Forall_forall in Hin.
    destruct (inbz_nonneg _ _ (Hin i Hi)) as [Ha Hb]. split; auto.
Qed.
End RT.

(* ---------------------------------------------------------------- bridge to the nat object model *)
Definition zent (e : idx * D) : list Z * D := (map Z.of_nat (fst e), snd e).

Lemma zsubs_of_nat b (l : line) : zsubs_of T b l = option_map (map Z.of_nat) (subs_of T b l).
Proof.
  induction l as [|t l IH]; [reflexivity|]. cbn [zsubs_of subs_of]. rewrite IH.
  destruct t as [w|z|x]; cbn [zsub_of sub_of]; try reflexivity.
  destruct (Z.leb_spec 0 (z - b)); [|reflexivity].
  destruct (subs_of T b l) as [xs|]; cbn [option_map map]; [|reflexivity]. now rewrite Z2Nat.id by lia.
Qed.

Lemma map_repeat_ {A B} (f : A -> B) x n : map f (repeat x n) = repeat (f x) n.
Proof. induction n; cbn; congruence. Qed.

Lemma zentry_of_line_nat b N (l : line) : zentry_of_line b N l = option_map zent (entry_of_line b N l).
Proof.
  unfold C16Big.zentry_of_line, C16Lines.entry_of_line. destruct (rev l) as [|tv rs]; [reflexivity|].
  destruct (val_tok D T parse ofZ tv) as [v|]; [|reflexivity]. cbn [bindo]. rewrite zsubs_of_nat.
  destruct (subs_of T b (rev rs)) as [i|]; [|reflexivity]. cbn [option_map bindo]. rewrite map_length.
  destruct (Nat.eqb (length i) N); [reflexivity|].
  destruct i as [|x [|y i']]; try reflexivity. unfold zent. cbn [map option_map fst snd]. now rewrite map_repeat_.
Qed.

Lemma rd_zentries_nat b N nz (s : stream) : rd_zentries b N nz s = option_map (map zent) (rd_entries_l b N nz s).
Proof.
  revert s; induction nz as [|nz IH]; intros s; [reflexivity|]. cbn [C16Big.rd_zentries C16Lines.rd_entries_l].
  rewrite zentry_of_line_nat. destruct (entry_of_line b N (fst (readline s))) as [e|]; [|reflexivity]. cbn [option_map bindo].
  rewrite IH. destruct (rd_entries_l b N nz (snd (readline s))); reflexivity.
Qed.

Lemma inbz_nat (s : shape) (i : idx) : inbz (map Z.of_nat s) (map Z.of_nat i) = inb s i.
Proof.
  revert i; induction s as [|d s IH]; intros [|x i]; cbn [map inbz inb]; try reflexivity. rewrite IH.
  destruct (Z.leb_spec 0 (Z.of_nat x)); [|lia]. cbn [andb].
  destruct (Nat.ltb_spec x d), (Z.ltb_spec (Z.of_nat x) (Z.of_nat d)); try lia; reflexivity.
Qed.

Definition as_sp (o : option (obj D)) : option (sparse D) :=
  match o with Some (OSptensor Sp) => Some Sp | _ => None end.

(* on EVERY stream: the Z import of a sparse file is the nat import seen through Z.of_nat (and rejects what is not a
   sparse file) *)
Theorem import_spz_bridge b (s : stream) :
  import_spz_stream b s = option_map (spz_of D) (as_sp (import_stream b s)).
Proof.
  unfold C16Big.import_spz_stream, C16Lines.import_stream.
  destruct (fst (readline s)) as [|[w|z|x] l']; try reflexivity.
  destruct (String.eqb_spec w "tensor") as [->|Nt].
  { cbn [String.eqb Ascii.eqb Bool.eqb]. destruct (rd_shape_l T _) as [sh|]; [|reflexivity]. cbn [bindo].
    destruct (C16Lines.rd_vals D T parse ofZ _ _); reflexivity. }
  destruct (String.eqb w "sptensor").
  - unfold rd_shape_l. destruct (rd_shape_z T (snd (readline s))) as [sh|]; [|reflexivity]. cbn [bindo].
    destruct (forallb (fun z => (0 <=? z)%Z) (fst sh)) eqn:Epos; [|reflexivity]. cbn [bindo fst snd].
    destruct (head_int T _) as [zn|]; [|reflexivity]. cbn [bindo]. destruct (nat_of zn) as [nz|]; [|reflexivity]. cbn [bindo].
    assert (Esh : map Z.of_nat (map Z.to_nat (fst sh)) = fst sh).
    { rewrite map_map. rewrite <- (map_id (fst sh)) at 2. apply map_ext_in. intros z Hz.
      rewrite forallb_forall in Epos. specialize (Epos z Hz). apply Z.leb_le in Epos. now rewrite Z2Nat.id. }
    remember (map Z.to_nat (fst sh)) as shn eqn:Eshn. clear Eshn Epos. rewrite <- Esh. clear Esh.
    rewrite rd_zentries_nat, !map_length.
    destruct (rd_entries_l b (length shn) nz _) as [es|]; [|reflexivity]. cbn [option_map bindo].
    unfold order0_bad. destruct (Nat.eqb (length shn) 0 && negb (Nat.eqb nz 0)); [reflexivity|].
    replace (forallb (inbz (map Z.of_nat shn)) (map fst (map zent es))) with (forallb (inb shn) (map fst es)).
    2:{ clear. induction es as [|e es IHes]; [reflexivity|]. cbn [map forallb zent fst]. now rewrite IHes, inbz_nat. }
    destruct (forallb (inb shn) (map fst es)); [|reflexivity]. cbn [as_sp option_map]. unfold spz_of. cbn [sshape ssubs svals].
    f_equal. f_equal; rewrite !map_map; reflexivity.
  - destruct (String.eqb w "matrix").
    { destruct (rd_shape_l T _) as [sh|]; [|reflexivity]. cbn [bindo].
      destruct (fst sh) as [|m [|n [|k r]]]; destruct (C16Lines.rd_vals D T parse ofZ _ _); reflexivity. }
    destruct (String.eqb w "ktensor"); [|reflexivity].
    destruct (rd_shape_z T _) as [sh|]; [|reflexivity]. cbn [bindo].
    destruct (head_int T _) as [zn|]; [|reflexivity]. cbn [bindo]. destruct (nat_of zn) as [nz|]; [|reflexivity]. cbn [bindo].
    destruct (Nat.eqb (length (fst sh)) 0); [destruct (Nat.eqb nz 0); reflexivity|].
    destruct (C16Lines.rd_factors_l D T parse ofZ _ _ _); reflexivity.
Qed.

(* the two exports write the same lines *)
Theorem export_spz_bridge b (Sp : sparse D) :
  export_lines D T d0 print b (OSptensor Sp) = export_spz_lines b (spz_of D Sp).
Proof.
  unfold export_lines, C16Big.export_spz_lines, spz_of, size_lines. cbn [zshape zsubs zvals app].
  rewrite !map_length, map_map. unfold zn. do 4 f_equal.
  unfold entries. generalize (svals Sp). induction (ssubs Sp) as [|i subs IH]; intros [|v vals]; cbn [combine map]; try reflexivity.
  rewrite IH. f_equal. unfold entry_line, C16Big.zentry_line, num. cbn [fst snd]. now rewrite map_map.
Qed.
End P.
