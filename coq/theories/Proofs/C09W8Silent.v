(* Proofs/C09W8Silent.v — wave 8: the WHOLE cp_als (Proofs/C09W8Whole.v: generated prologue ; generated main) with the residual kernels
   over a commutative ring as in Proofs/C09GenSilent.v: silent runs end to end, started from the guess the prologue produced; and the ONE
   theorem collecting rejection, guess, printing report and silent residual for the composed generated functions. *)
From Coq Require Import List Arith Lia Bool Ring.
From PV Require Import Base.Index Base.Sum Np.Array Model.Sparse Model.Repr Model.C09Als Model.W4SPrelude Gen.GenCpAlsPre Gen.GenCpAls
  Proofs.W4SCpAlsPre Proofs.W4SCpAls Proofs.C09GenSweep Proofs.C09Monotone Proofs.C09Norm Proofs.C09Holders Proofs.C09Inner
  Proofs.C09GenReport Proofs.C09GenSaved Proofs.C09GenSilent Proofs.C09W8Whole.
Import ListNotations.

Section WholeSilent.
Variable V : Type.
Variables (v0 v1 : V) (vadd vmul vsub : V -> V -> V) (vopp : V -> V).
Hypothesis Vring : ring_theory v0 v1 vadd vmul vsub vopp (@eq V).
Local Notation mx := (@matrix V).
Variables T_W T_X : Type.
Variable R : nat.
(* prologue kernels: arbitrary *)
Variable k_ndims : T_X -> nat.
Variable k_norm : T_X -> V.
Variable k_not_permutation : nat -> list nat -> bool.
Variable k_optdims_invalid : list nat -> nat -> bool.
Variable k_init_is_ktensor : ktensor V -> bool.
Variable k_init_ndims : ktensor V -> nat.
Variable k_init_ncomponents : ktensor V -> nat.
Variable k_init_factor_misshaped : ktensor V -> nat -> T_X -> nat -> bool.
Variable k_init_is_str : ktensor V -> bool.
Variable k_init_names_random : ktensor V -> bool.
Variable k_append_random_factor : T_W -> list mx -> T_X -> nat -> nat -> T_W * list mx.
Variable k_ktensor_of_factors : list mx -> ktensor V.
Variable k_init_names_nvecs : ktensor V -> bool.
Variable k_is_sumtensor : T_X -> bool.
Variable k_nvecs : T_X -> nat -> nat -> mx.
(* main kernels: the holder's mttkrp algorithm; solve / guard / norm / scaling / stop / arrange / fixsigns arbitrary *)
Variable mk : T_X -> list mx -> nat -> mx.
Variable all_zero_mat : mx -> bool.
Variable zeros_like : mx -> mx.
Variable lapack : mx -> mx -> mx.
Variable norm2_cols normmax_cols : mx -> list V.
Variable all_zero_wt : list V -> bool.
Variable scale_cols : mx -> list V -> mx.
Variable c_leF : V -> V -> bool.
Variable c_zeroF : V.
Variable k_init_factors : ktensor V -> list mx.
Variable k_restrict_dims : list nat -> list nat -> list nat.
Variable k_zeros_mttkrp : T_X -> list nat -> nat -> mx.
Variable k_zeros_utu : nat -> nat -> list mx.
Variable k_ktensor_init : list mx -> ktensor V -> ktensor V.
Variable k_innerprod : T_X -> ktensor V -> V.
Variable k_is_zero : V -> bool.
Variable k_fit : V -> V -> V.
Variable k_absdiff : V -> V -> V.
Variable k_arrange : ktensor V -> ktensor V.
Variable k_fixsigns : ktensor V -> ktensor V.

Local Notation cs := (code_solve V all_zero_mat zeros_like lapack).
Local Notation cc := (code_scale V norm2_cols normmax_cols all_zero_wt scale_cols).
Local Notation qres := (kq_resid V v0 vadd vmul vsub).
Local Notation qres0 := (kq_resid0 V v0 vadd vmul vsub).

Local Notation wholeS := (cp_als_whole T_W V mx (list mx) (list V) (ktensor V) T_X
  k_ndims k_norm k_not_permutation k_optdims_invalid k_init_is_ktensor k_init_ndims k_init_ncomponents k_init_factor_misshaped
  k_init_is_str k_init_names_random k_append_random_factor k_ktensor_of_factors k_init_names_nvecs k_is_sumtensor k_nvecs
  c_leF c_zeroF k_init_factors k_restrict_dims k_zeros_mttkrp k_zeros_utu (g_set_gram V) k_ktensor_init k_innerprod k_is_zero qres0 qres
  k_fit mk (g_hadamard_others V v0 v1 vadd vmul R) all_zero_mat zeros_like lapack norm2_cols normmax_cols all_zero_wt scale_cols
  (kq_ktensor V) (kq_iprod V v0 vadd vmul) k_absdiff k_arrange k_fixsigns).
Local Notation guessS := (pre_guess T_W mx (ktensor V) T_X k_ndims k_init_is_ktensor k_init_is_str k_init_names_random
  k_append_random_factor k_ktensor_of_factors k_nvecs).
Local Notation okS := (pre_okb (ktensor V) T_X k_ndims k_not_permutation k_optdims_invalid k_init_is_ktensor k_init_ndims
  k_init_ncomponents k_init_factor_misshaped k_init_is_str k_init_names_random k_init_names_nvecs k_is_sumtensor).
Local Notation orderS := (pre_order T_X k_ndims).
Local Notation optdimsS := (pre_optdims T_X k_ndims).

(* the hypotheses of C09_gen_silent_residual, stated for the guess g the prologue produced *)
Definition silent_hyps (X : T_X) (s : shape) (Xd : idx -> V) (good : list mx -> nat -> Prop) (g : ktensor V) (rank : nat)
    (dims : list nat) (iters n : nat) : Prop :=
  let U0 := k_init_factors g in
  k_ndims X = length U0 /\ length (k_zeros_utu rank (k_ndims X)) = k_ndims X /\
  sk_last dims = Some n /\ (forall x, In x dims -> x < length U0) /\
  holder_ok V v0 v1 vadd vmul R s Xd (mk X) good /\
  let stk := als_iter v0 v1 vadd vmul (mk X) cs cc R iters dims (mkAls [] U0 (k_zeros_mttkrp X dims rank)) in
  let stb := als_sweep v0 v1 vadd vmul (mk X) cs cc R iters (removelast dims) stk in
  st_wf V R s stb /\ n < length s /\ good (st_U stb) n /\
  let st' := als_sweep v0 v1 vadd vmul (mk X) cs cc R iters dims stk in
  length (st_w st') = R /\ nrows (nth n (st_U st') []) = nth n s 0 /\
  k_norm X = normsq_den v0 vadd vmul s Xd.

Theorem whole_silent_residual (X : T_X) (s : shape) (Xd : idx -> V) (good : list mx -> nat -> Prop)
    w rank stoptol maxiters dimorder optdims init dofix Mret initret iters nr fit w' (n : nat) :
  wholeS w X rank stoptol maxiters dimorder optdims init 0 dofix = Some (Mret, initret, (iters, nr, fit), w') ->
  0 < maxiters -> k_is_zero (k_norm X) = false ->
  let g := fst (guessS w X rank init) in
  let dims := k_restrict_dims (orderS X dimorder) (optdimsS X optdims) in
  silent_hyps X s Xd good g rank dims iters n ->
  let stk := als_iter v0 v1 vadd vmul (mk X) cs cc R iters dims (mkAls [] (k_init_factors g) (k_zeros_mttkrp X dims rank)) in
  let st' := als_sweep v0 v1 vadd vmul (mk X) cs cc R iters dims stk in
  nr = resid_den v0 vadd vmul vsub s Xd (den_k v0 v1 vadd vmul (st_model st')) /\
  fit = k_fit nr (k_norm X) /\
  Mret = (if dofix then k_fixsigns else @id (ktensor V)) (k_arrange (st_model st')) /\
  iters < maxiters /\ initret = g /\ w' = snd (guessS w X rank init).
Proof.
  intros H Hm Hz g dims (H1 & H2 & H3 & H4 & H5 & H6 & H7 & H8 & H9 & H10 & H11) stk st'.
  destruct (whole_result _ _ _ _ _ _ _ _ _ _ _ _ _ _ _ _ _ _ _ _ _ _ _ _ _ _ _ _ _ _ _ _ _ _ _ _ _ _ _ _ _ _ _ _ _ _ _ _ _ _ _ _ _ _ _ _ _ _ _ _ _ _ _ H)
    as (_ & Hmain & Hi & Hw).
  fold g in Hmain, Hi.
  pose proof (gen_silent_residual V v0 v1 vadd vmul vsub vopp Vring T_X R mk all_zero_mat zeros_like lapack norm2_cols normmax_cols
    all_zero_wt scale_cols c_leF c_zeroF k_init_factors k_restrict_dims k_zeros_mttkrp k_zeros_utu k_ktensor_init k_innerprod k_is_zero
    k_fit k_absdiff k_arrange k_fixsigns X s Xd good g (k_norm X) (k_ndims X) rank (orderS X dimorder) (optdimsS X optdims) maxiters stoptol
    dofix Mret g iters nr fit n Hmain Hm Hz H1 H2 H3 H4 H5 H6 H7 H8 H9 H10 H11) as (Ha & Hb & Hc & Hd & _).
  repeat split; assumption.
Qed.

Local Notation hformS := (h_formulas V (ktensor V) k_is_zero qres0 qres k_fit).

(* ONE theorem for the composed generated functions *)
Theorem whole_cp_als w (X : T_X) rank stoptol maxiters dimorder optdims init printitn dofix :
  let g := fst (guessS w X rank init) in
  let w1 := snd (guessS w X rank init) in
  let dims := k_restrict_dims (orderS X dimorder) (optdimsS X optdims) in
  (* rejected exactly on the prologue's checks (the main never raises on a guess with N factors and a non-empty in-range order) *)
  (forall t, (okS X rank dimorder optdims init = true ->
              k_ndims X = length (k_init_factors g) /\ sk_last dims = Some t /\ forall x, In x dims -> x < k_ndims X) ->
     (wholeS w X rank stoptol maxiters dimorder optdims init printitn dofix = None <-> okS X rank dimorder optdims init = false)) /\
  (* the guess: a ktensor is kept and no number drawn; "random": N draws through the world; otherwise one nvecs call per mode *)
  ((k_init_is_ktensor init = true -> g = init /\ w1 = w) /\
   (k_init_is_ktensor init = false -> k_init_is_str init = true -> k_init_names_random init = true ->
    g = k_ktensor_of_factors (snd (h_random T_W mx T_X k_append_random_factor w [] X rank (k_ndims X) 0)) /\
    w1 = fst (h_random T_W mx T_X k_append_random_factor w [] X rank (k_ndims X) 0)) /\
   (k_init_is_ktensor init = false -> k_init_names_random init = false ->
    g = k_ktensor_of_factors (map (fun n => k_nvecs X n rank) (seq 0 (k_ndims X))) /\ w1 = w)) /\
  (* a returning call *)
  (forall Mret initret iters nr fit w',
     wholeS w X rank stoptol maxiters dimorder optdims init printitn dofix = Some (Mret, initret, (iters, nr, fit), w') ->
     okS X rank dimorder optdims init = true /\ initret = g /\ w' = w1 /\
     (0 < printitn -> (nr, fit) = hformS (k_norm X) Mret (k_innerprod X Mret)) /\
     (printitn = 0 -> 0 < maxiters -> k_is_zero (k_norm X) = false ->
      forall (s : shape) (Xd : idx -> V) (good : list mx -> nat -> Prop) (n : nat),
      silent_hyps X s Xd good g rank dims iters n ->
      let stk := als_iter v0 v1 vadd vmul (mk X) cs cc R iters dims (mkAls [] (k_init_factors g) (k_zeros_mttkrp X dims rank)) in
      let st' := als_sweep v0 v1 vadd vmul (mk X) cs cc R iters dims stk in
      nr = resid_den v0 vadd vmul vsub s Xd (den_k v0 v1 vadd vmul (st_model st')) /\
      fit = k_fit nr (k_norm X) /\
      Mret = (if dofix then k_fixsigns else @id (ktensor V)) (k_arrange (st_model st')) /\
      iters < maxiters)).
Proof.
  intros g w1 dims. split; [|split].
  - intros t Ht. exact (whole_rejects_iff T_W V mx (list mx) (list V) (ktensor V) T_X
      k_ndims k_norm k_not_permutation k_optdims_invalid k_init_is_ktensor k_init_ndims k_init_ncomponents k_init_factor_misshaped
      k_init_is_str k_init_names_random k_append_random_factor k_ktensor_of_factors k_init_names_nvecs k_is_sumtensor k_nvecs
      c_leF c_zeroF k_init_factors k_restrict_dims k_zeros_mttkrp k_zeros_utu (g_set_gram V) k_ktensor_init k_innerprod k_is_zero qres0 qres
      k_fit mk (g_hadamard_others V v0 v1 vadd vmul R) all_zero_mat zeros_like lapack norm2_cols normmax_cols all_zero_wt scale_cols
      (kq_ktensor V) (kq_iprod V v0 vadd vmul) k_absdiff k_arrange k_fixsigns
      w X rank stoptol maxiters dimorder optdims init printitn dofix t Ht).
  - destruct (pre_guess_cases T_W mx (ktensor V) T_X k_ndims k_init_is_ktensor k_init_is_str k_init_names_random
      k_append_random_factor k_ktensor_of_factors k_nvecs w X rank init) as (C1 & C2 & C3).
    unfold g, w1. repeat split; intros.
    + now rewrite C1. + now rewrite C1.
    + now rewrite C2. + now rewrite C2.
    + now rewrite C3. + now rewrite C3.
  - intros Mret initret iters nr fit w' H.
    destruct (whole_result _ _ _ _ _ _ _ _ _ _ _ _ _ _ _ _ _ _ _ _ _ _ _ _ _ _ _ _ _ _ _ _ _ _ _ _ _ _ _ _ _ _ _ _ _ _ _ _ _ _ _ _ _ _ _ _ _ _ _ _ _ _ _ H) as (Hok & _ & Hi & Hw).
    split; [exact Hok|]. split; [exact Hi|]. split; [exact Hw|]. split.
    + intros Hp. exact (whole_print_report _ _ _ _ _ _ _ _ _ _ _ _ _ _ _ _ _ _ _ _ _ _ _ _ _ _ _ _ _ _ _ _ _ _ _ _ _ _ _ _ _ _ _ _ _ _ _ _ _ _ _ _ _ _ _ _ _ _ _ _ _ _ _ _ _ H Hp).
    + intros -> Hm Hz s Xd good n Hh.
      destruct (whole_silent_residual X s Xd good w rank stoptol maxiters dimorder optdims init dofix Mret initret iters nr fit w' n
                  H Hm Hz Hh) as (Ha & Hb & Hc & Hd & _).
      repeat split; assumption.
Qed.

End WholeSilent.
