(* Props/W3Methods2.v — sptensor.allsubs translated with `self` as a record parameter (Gen/GenMethods2.v, regenerated from
   /repo/pyttb/sptensor.py at run time; it calls the generated khatrirao of Gen/GenKernels.v).  Only statements, `exact`,
   Print Assumptions.  The general enumeration statement (allsubs_enumerates_stmt in Proofs/W3Methods2.v) is proved in
   Proofs/C17Allsubs.v (w5-C17; stated in Props/C17w5.v as C17_gen_allsubs_all_shapes, checked by ./check C17). *)
From Coq Require Import List ZArith Bool.
From PV Require Import Np.NpZ Np.NpZ2 Np.NpZ3 Np.NpZ3c Np.NpZ3d Gen.GenKernels Gen.GenMethods2 Proofs.W3Methods2.
Import ListNotations.
Local Open Scope Z_scope.

Theorem C17_gen_allsubs_bridge : forall t, sptensor_allsubs t = H_allsubs t.
Proof. exact sptensor_allsubs_bridge. Qed.
Print Assumptions C17_gen_allsubs_bridge.

Theorem C17_gen_allsubs_no_mode_partial : forall subs vals, sptensor_allsubs (mkspt subs vals []) = Ok [[]].
Proof. exact allsubs_no_mode. Qed.
Print Assumptions C17_gen_allsubs_no_mode_partial.

Theorem C17_gen_allsubs_one_mode_partial : forall subs vals d, 1 <= d ->
  sptensor_allsubs (mkspt subs vals [d]) = Ok (map (fun x => [x]) (np_arange 0 d)).
Proof. exact allsubs_one_mode. Qed.
Print Assumptions C17_gen_allsubs_one_mode_partial.

Example C17_gen_allsubs_example :
  sptensor_allsubs (mkspt [] [] [2; 3]) = Ok [[0; 0]; [0; 1]; [0; 2]; [1; 0]; [1; 1]; [1; 2]].
Proof. vm_compute. reflexivity. Qed.
