(* Model/W4SHarnessHosvd.v — REPLAY instantiation of the generated control-flow skeleton Gen/GenHosvd.v: the Section
   parameters (numeric kernels) are look-ups in the oracle answers RECORDED from a real pyttb run; models are tokens (counters).
   Used by the differential stream tools/props/w4s.py (vm_compute) + one concrete run (non-vacuity). *)
From Coq Require Import String List Arith Bool ZArith.
From PV Require Import Model.W4SPrelude Gen.GenHosvd Model.W4SHarnessBase.
Import ListNotations.
Local Open Scope nat_scope.

(* ------------------------------------------------------------------------------------------------ hosvd mode loop *)
(* tensor token = number of shrink steps; matrix token = list of ints (unfolding of mode k = [k]; a factor = the list of the
   selected column indices of V); eigh of mode k = the recorded eigenvalues of that mode *)
Definition zsk_hosvd (Ds : list (nat * list Z)) (pis : list (list Z * list nat)) (dimorder ranks : list nat) (thresh : Z) (sq : bool) :=
  GenHosvd.hosvd_modes Z nat (list nat) Z.leb 0%Z Z.add
    (fun _ k => [k]) (fun m => m) (fun m => (assoc Nat.eqb (hd 0 m) Ds [], m))
    (fun D => assoc (list_eqb Z.eqb) D pis []) (fun D p => map (fun i => nth i D 0%Z) p) (fun _ c => c) (fun Y _ _ => S Y)
    dimorder ranks thresh 0 (repeat [] (length ranks)) sq.

Definition zsk_hosvd_ok (Ds : list (nat * list Z)) (pis : list (list Z * list nat)) (dimorder ranks : list nat) (thresh : Z) (sq : bool)
           (ranks_obs : list nat) (cols_obs : list (list nat)) : bool :=
  match zsk_hosvd Ds pis dimorder ranks thresh sq with
  | None => false
  | Some (fm, rk, Y) => list_eqb Nat.eqb rk ranks_obs && list_eqb (list_eqb Nat.eqb) fm cols_obs &&
                        (Y =? (if sq then length dimorder else 0))
  end.

(* non-vacuity: a concrete run of the generated function (the hypothesis `... = Some r` of the theorems is satisfiable) *)
Example zsk_hosvd_example :          (* spectra (9,4,1) and (16,0), budget 2: ranks 2 and 1, columns pi[0:r] *)
  zsk_hosvd [(0, [1; 9; 4]%Z); (1, [0; 16]%Z)] [([1; 9; 4]%Z, [1; 2; 0]); ([0; 16]%Z, [1; 0])] [1; 0] [0; 0] 2%Z true
  = Some ([[1; 2]; [1]], [2; 1], 2).
Proof. vm_compute. reflexivity. Qed.
