(* Proofs/C20Float.v — wave 4: the double products of the request normalisation, computed BY THE MODEL.
   sptensor.from_function forms prod(shape) * nonzeros, sptenrand prod(shape) * density in binary64 arithmetic; so far the
   rounded product entered the model as an input supplied by the harness.  round64 n d is the binary64 number nearest to
   the rational n/d (ties to even; normal range, no overflow - the products here lie between 2^-60 and 2^60), so the model
   computes the rounding itself from the request, and round64_exact: whenever n/d is representable (m * 2^e, 0 < m < 2^53)
   the rounding is the identity - the faithful model then IS the exact-rational one (C20_request_float_product). *)
From Coq Require Import ZArith Lia Bool.
From PV Require Import Model.C20Gen Proofs.C20Proofs.
Local Open Scope Z_scope.

(* ---------------------------------------------------------------- powers of two *)
Lemma pw_add a b : 0 <= a -> 0 <= b -> 2 ^ a * 2 ^ b = 2 ^ (a + b).
Proof. intros. now rewrite Z.pow_add_r. Qed.
Lemma pw_pos a : 0 <= a -> 0 < 2 ^ a.
Proof. intros. apply Z.pow_pos_nonneg; lia. Qed.
Lemma pw_lt a b : 0 <= a -> a < b -> 2 ^ a < 2 ^ b.
Proof. intros. apply Z.pow_lt_mono_r; lia. Qed.
Lemma pw_le a b : 0 <= a -> a <= b -> 2 ^ a <= 2 ^ b.
Proof. intros. apply Z.pow_le_mono_r; lia. Qed.
Lemma P_pos k : 0 < pow2p k. Proof. apply pw_pos. lia. Qed.
Lemma N_pos k : 0 < pow2n k. Proof. apply pw_pos. lia. Qed.

Lemma rne_exact c b : 0 < b -> rne (c * b) b = c.
Proof.
  intros Hb. unfold rne. cbv zeta. rewrite Z.div_mul by lia. rewrite Z.mod_mul by lia.
  destruct (Z.ltb_spec (2 * 0) b); [reflexivity|lia].
Qed.

(* flog2 never overshoots: n/d >= 2^(flog2 n d) *)
Lemma flog2_lower n d : 0 < n -> 0 < d -> d * pow2p (flog2 n d) <= n * pow2n (flog2 n d).
Proof.
  intros Hn Hd. unfold flog2. cbv zeta. set (a := Z.log2 n). set (b := Z.log2 d).
  destruct (ge_pow2 n d (a - b)) eqn:G; [unfold ge_pow2 in G; now apply Z.leb_le in G|]. clear G.
  set (k := a - b - 1).
  pose proof (Z.log2_spec n Hn) as [Ha1 _]. pose proof (Z.log2_spec d Hd) as [_ Hb2]. fold a in Ha1. fold b in Hb2.
  pose proof (Z.log2_nonneg n) as Ha0. pose proof (Z.log2_nonneg d) as Hb0. fold a in Ha0. fold b in Hb0.
  apply Z.lt_le_incl.
  apply Z.lt_le_trans with (2 ^ Z.succ b * pow2p k).
  - apply Z.mul_lt_mono_pos_r; [apply P_pos|exact Hb2].
  - apply Z.le_trans with (2 ^ a * pow2n k).
    + unfold pow2p, pow2n. rewrite !pw_add by lia. apply pw_le; unfold k; lia.
    + apply Z.mul_le_mono_nonneg_r; [pose proof (N_pos k); lia|exact Ha1].
Qed.

(* EXACTNESS: a representable value n/d = m * 2^e0 (0 < m < 2^53), written n * pow2n e0 = m * pow2p e0 * d, is its own rounding *)
Theorem round64_exact (n : Z) (d : positive) (m e0 : Z) :
  0 < n -> 0 < m < 2 ^ 53 -> n * pow2n e0 = m * pow2p e0 * Zpos d ->
  fst (round64 n d) * Zpos d = n * Zpos (snd (round64 n d)).
Proof.
  intros Hn Hm Hx. unfold round64. destruct (Z.leb_spec n 0); [lia|]. cbv zeta.
  set (k := flog2 n (Zpos d)). set (e := k - 52). cbn [fst snd].
  pose proof (flog2_lower n (Zpos d) Hn ltac:(lia)) as G. fold k in G.
  pose proof (P_pos k) as HPk. pose proof (N_pos k) as HNk. pose proof (P_pos e0) as HP0. pose proof (N_pos e0) as HN0.
  pose proof (P_pos e) as HPe. pose proof (N_pos e) as HNe.
  (* the exponent of the value is at least the exponent of the rounding grid *)
  assert (He : e <= e0).
  { destruct (Z.le_gt_cases e e0) as [|Hlt]; [assumption|exfalso].
    assert (H1 : Zpos d * pow2p k * pow2n e0 <= m * pow2p e0 * Zpos d * pow2n k).
    { rewrite <- Hx. replace (n * pow2n e0 * pow2n k) with (n * pow2n k * pow2n e0) by ring. apply Z.mul_le_mono_nonneg_r; lia. }
    assert (H2 : pow2p k * pow2n e0 < 2 ^ 53 * pow2p e0 * pow2n k).
    { apply Z.mul_lt_mono_pos_l with (p := Zpos d); [lia|].
      apply Z.le_lt_trans with (m * pow2p e0 * Zpos d * pow2n k); [replace (Zpos d * (pow2p k * pow2n e0)) with (Zpos d * pow2p k * pow2n e0) by ring; exact H1|].
      replace (Zpos d * (2 ^ 53 * pow2p e0 * pow2n k)) with (2 ^ 53 * (pow2p e0 * Zpos d * pow2n k)) by ring.
      replace (m * pow2p e0 * Zpos d * pow2n k) with (m * (pow2p e0 * Zpos d * pow2n k)) by ring.
      apply Z.mul_lt_mono_pos_r; [|lia]. repeat apply Z.mul_pos_pos; lia. }
    unfold pow2p, pow2n in H2. rewrite !pw_add in H2 by lia.
    apply Z.pow_lt_mono_r_iff in H2; unfold e in *; lia. }
  (* so the scaled value is an integer *)
  set (c := m * 2 ^ (e0 - e)).
  assert (Hc : n * pow2n e = c * (Zpos d * pow2p e)).
  { apply Z.mul_cancel_r with (p := pow2n e0); [lia|].
    replace (n * pow2n e * pow2n e0) with (n * pow2n e0 * pow2n e) by ring. rewrite Hx. unfold c.
    replace (m * 2 ^ (e0 - e) * (Zpos d * pow2p e) * pow2n e0) with (m * Zpos d * (2 ^ (e0 - e) * pow2p e * pow2n e0)) by ring.
    replace (m * pow2p e0 * Zpos d * pow2n e) with (m * Zpos d * (pow2p e0 * pow2n e)) by ring. f_equal.
    unfold pow2p, pow2n. rewrite !pw_add by lia. f_equal. lia. }
  rewrite Hc, rne_exact by (apply Z.mul_pos_pos; lia).
  rewrite Z2Pos.id by lia. rewrite Hc. ring.
Qed.

(* ---------------------------------------------------------------- the request models with the model's own rounding *)
(* whenever the exact product prod(shape) * p/q is a binary64 number (or the request is not positive: the product is not
   used), the faithful model that rounds the product itself IS the exact-rational model *)
Theorem norm_request_r64_exact (total : nat) (p : Z) (q : positive) :
  Z.of_nat total * p <= 0 \/
  (exists m e0, 0 < m < 2 ^ 53 /\ Z.of_nat total * p * pow2n e0 = m * pow2p e0 * Zpos q) ->
  norm_request_r64 total p q = norm_request total p q /\
  sptenrand_count_r64 total p q = sptenrand_count_impl total p q.
Proof.
  intros H. unfold norm_request_r64, sptenrand_count_r64. cbv zeta.
  assert (E : fst (round64 (Z.of_nat total * p) q) * Zpos q =
              Z.of_nat total * p * Zpos (snd (round64 (Z.of_nat total * p) q)) \/ p < 0).
  { destruct H as [H|(m & e0 & Hm & Hx)].
    - destruct (Z.eq_dec (Z.of_nat total * p) 0) as [E0|E0].
      + left. rewrite E0. reflexivity.
      + right. nia.
    - destruct (Z.lt_trichotomy (Z.of_nat total * p) 0) as [Hn|[Hn|Hn]].
      + right. nia.
      + left. rewrite Hn. reflexivity.
      + left. now apply (round64_exact _ _ m e0). }
  destruct E as [E|Hneg].
  - split.
    + unfold norm_request, norm_request_fl, zceil.
      rewrite (Proofs.C20Proofs.div_eq_cross (- fst (round64 (Z.of_nat total * p) q)) (- (Z.of_nat total * p))
                 (snd (round64 (Z.of_nat total * p) q)) q) by lia. reflexivity.
    + unfold sptenrand_count_impl, sptenrand_count_fl.
      rewrite (Proofs.C20Proofs.div_eq_cross (fst (round64 (Z.of_nat total * p) q)) (Z.of_nat total * p)
                 (snd (round64 (Z.of_nat total * p) q)) q) by lia. reflexivity.
  - split.
    + unfold norm_request, norm_request_fl. destruct (Z.ltb_spec p 0); [reflexivity|lia].
    + unfold sptenrand_count_impl, sptenrand_count_fl, sptenrand_guard. destruct (Z.ltb_spec 0 p); [lia|reflexivity].
Qed.

(* in particular every DYADIC request with a short numerator (the densities 1/2, 1/4, 3/4, ... and every count) *)
Theorem norm_request_r64_dyadic (total : nat) (p : Z) (j : nat) :
  0 <= Z.of_nat total * p < 2 ^ 53 ->
  norm_request_r64 total p (Pos.pow 2 (Pos.of_succ_nat j)) = norm_request total p (Pos.pow 2 (Pos.of_succ_nat j)) /\
  sptenrand_count_r64 total p (Pos.pow 2 (Pos.of_succ_nat j)) = sptenrand_count_impl total p (Pos.pow 2 (Pos.of_succ_nat j)).
Proof.
  intros H. apply norm_request_r64_exact.
  destruct (Z.eq_dec (Z.of_nat total * p) 0) as [E0|E0]; [left; lia|right].
  exists (Z.of_nat total * p), (- Z.pos (Pos.of_succ_nat j)). split; [lia|].
  unfold pow2n, pow2p. rewrite Z.opp_involutive. rewrite Z.max_l by lia. rewrite Z.max_r by lia.
  rewrite Pos2Z.inj_pow. cbn [Z.pow_pos]. change (2 ^ 0) with 1. ring.
Qed.

Definition round64_examples_stmt : Prop :=
  (* 3 * 0.1 = 0.30000000000000004 (rounded), 2 * 0.9 = 1.8 (exact), 6 * 1/2 = 3 *)
  round64 (3 * 3602879701896397) (2 ^ 55) = (5404319552844596, (2 ^ 54)%positive) /\
  round64 (2 * 8106479329266893) (2 ^ 53) = (8106479329266893, (2 ^ 52)%positive) /\
  round64 (6 * 1) 2 = (6755399441055744 * 1, (2 ^ 51)%positive) /\
  norm_request_r64 6 1 2 = Some (false, 3%nat) /\ norm_request_r64 6 6 1 = Some (true, 6%nat) /\
  sptenrand_count_r64 3 3602879701896397 (2 ^ 55) = Some (false, 0%nat).
Example round64_examples : round64_examples_stmt.
Proof. unfold round64_examples_stmt. vm_compute. repeat split; reflexivity. Qed.

