(* Props/C13.v — GCP solvers keep the best model, respect bounds, sample validly and are reusable.
   State machines with the random draws, the objective estimates and the update steps as inputs
   (Alg/C13Samplers.v, Alg/C13Solver.v, Alg/C13Steps.v).  Only statements, `exact`, Print Assumptions. *)
From Coq Require Import List ZArith Arith Bool QArith Qcanon.
From PV Require Import Base.Index Np.Array Model.Sparse Alg.C13Samplers Alg.C13Solver Alg.C13Steps Alg.C13Harness.
Import ListNotations.
Local Open Scope nat_scope.

(* ================================ stochastic solver bookkeeping ================================ *)
Section SolverProps.
Variables M O E : Type.
Variable leb : E -> E -> bool.
Hypothesis leb_total : forall a b, leb a b = true \/ leb b a = true.
Hypothesis leb_trans : forall a b c, leb a b = true -> leb b c = true -> leb a c = true.
Variables (fest : M -> E) (epoch : nat -> nat -> O -> M -> M * O) (on_fail : O -> O) (max_fails : nat) (tol : option E).
Notation slv := (solve M O E leb fest epoch on_fail max_fails tol).

(* the returned model is the model held at an epoch boundary (or the start) whose estimate on the fixed function
   sample is the smallest value of the trace (start value + one value per completed epoch); it is no worse than the start *)
Theorem C13_best_model : forall max_iters m0 o0,
  let s := slv max_iters m0 o0 in
  cur _ _ _ s = best _ _ _ s /\ In (cur _ _ _ s) (m0 :: hist _ _ _ s) /\ map fest (hist _ _ _ s) = trace _ _ _ s /\
  is_min E leb (fest (cur _ _ _ s)) (full_trace M O E fest m0 s) /\ leb (fest (cur _ _ _ s)) (fest m0) = true.
Proof. exact (best_model M O E leb leb_total leb_trans fest epoch on_fail max_fails tol). Qed.

Theorem C13_trace_len : forall max_iters m0 o0,
  let s := slv max_iters m0 o0 in
  length (full_trace M O E fest m0 s) = S (epochs _ _ _ s) /\ epochs _ _ _ s <= max_iters /\
  length (hist _ _ _ s) = epochs _ _ _ s.
Proof. exact (trace_length M O E leb leb_total leb_trans fest epoch on_fail max_fails tol). Qed.

(* finding A-35: the slice [0 : n_epoch + 1] the code reports is the trace WITHOUT its last value as soon as one epoch ran *)
Theorem C13_reported_trace_drops_last : forall max_iters m0 o0,
  let s := slv max_iters m0 o0 in
  1 <= epochs _ _ _ s -> reported_trace M O E fest m0 s = removelast (full_trace M O E fest m0 s).
Proof. exact (reported_trace_drops_last M O E leb fest epoch on_fail max_fails tol). Qed.

(* whatever every epoch preserves / establishes (all entries >= lower bound) holds for the returned model *)
Theorem C13_returned_invariant : forall (P : M -> Prop) max_iters m0 o0,
  P m0 -> (forall n f o m, P m -> P (fst (epoch n f o m))) -> P (cur _ _ _ (slv max_iters m0 o0)).
Proof. exact (returned_invariant M O E leb fest epoch on_fail max_fails tol). Qed.

Theorem C13_returned_established : forall (P : M -> Prop) max_iters m0 o0,
  (forall n f o m, P (fst (epoch n f o m))) ->
  let s := slv max_iters m0 o0 in cur _ _ _ s = m0 \/ P (cur _ _ _ s).
Proof. exact (returned_established M O E leb leb_total leb_trans fest epoch on_fail max_fails tol). Qed.

(* reuse: _nfails is reset at entry; an optimizer without private state (SGD) gives the same outcome whatever the
   object went through before *)
Theorem C13_reuse_stateless : (forall o1 o2 : O, o1 = o2) ->
  forall obj1 obj2 max_iters m0,
    solve_obj M O E leb fest epoch on_fail max_fails tol obj1 max_iters m0 =
    solve_obj M O E leb fest epoch on_fail max_fails tol obj2 max_iters m0.
Proof. exact (reuse_stateless M O E leb fest epoch on_fail max_fails tol). Qed.
End SolverProps.

Print Assumptions C13_best_model.
Print Assumptions C13_trace_len.
Print Assumptions C13_reported_trace_drops_last.
Print Assumptions C13_returned_invariant.
Print Assumptions C13_returned_established.
Print Assumptions C13_reuse_stateless.

(* finding A-36: private state that survives a solve (Adam's moments and step counter, Adagrad's accumulated gradient
   norm) makes the next solve depend on the object's past — two-solve witness *)
Theorem C13_reuse_stateful_refuted : ~ reuse_stmt.
Proof. exact reuse_stateful_refuted. Qed.
Print Assumptions C13_reuse_stateful_refuted.

(* ================================ projected update steps ======================================= *)
(* every entry of the factor matrices after an SGD / Adam / Adagrad step is >= the lower bound, whatever the
   gradient, the optimizer state and the (abstract) square roots and divisions are *)
Theorem C13_bounds_steps : forall (V : Type) (vle : V -> V -> Prop) (vmax : V -> V -> V),
  (forall a b, vle a (vmax a b)) ->
  forall (vadd vsub vmul vdiv : V -> V -> V) (vsqrt : V -> V) (vpow : V -> nat -> V) (v0 v1 : V) (lb : option V),
  (forall rate decay nfails xs gs, Forall (above V vle lb) (sgd_step V vmax vsub vmul vpow rate decay nfails lb xs gs)) /\
  (forall rate decay b1 b2 eps ei nf o xs gs,
     Forall (above V vle lb) (fst (adam_step V vmax vadd vsub vmul vdiv vsqrt vpow v0 v1 rate decay b1 b2 eps ei nf lb o xs gs))) /\
  (forall gsum xs gs, Forall (above V vle lb) (fst (adagrad_step V vmax vadd vsub vmul vdiv vsqrt v0 v1 lb gsum xs gs))).
Proof.
  intros V vle vmax H vadd vsub vmul vdiv vsqrt vpow v0 v1 lb. repeat split; intros.
  - apply (sgd_step_above V vle vmax H).
  - apply (adam_step_above V vle vmax H).
  - apply (adagrad_step_above V vle vmax H).
Qed.
Print Assumptions C13_bounds_steps.

(* an epoch of k >= 1 such steps establishes the bound; k = 0 keeps it *)
Theorem C13_bounds_epoch : forall (V : Type) (vle : V -> V -> Prop) (S : Type)
  (stepf : S -> list V -> list V * S) (lb : option V),
  (forall s x, Forall (above V vle lb) (fst (stepf s x))) ->
  forall k s x, Forall (above V vle lb) x \/ 1 <= k -> Forall (above V vle lb) (fst (iterate_steps V stepf k s x)).
Proof. exact epoch_above. Qed.
Print Assumptions C13_bounds_epoch.

(* ================================ samplers (draws are inputs) ================================== *)
Local Open Scope Z_scope.
(* one uniform draw u = a/D in (0,1] gives a subscript inside the mode; u = 0 gives -1 (finding A-48) *)
Theorem C13_draw_in_range : forall D a d, 0 < D -> 0 < a <= D -> 0 < d -> 0 <= draw_sub D a d < d.
Proof. intros D a d HD. exact (draw_sub_range D HD a d). Qed.
Print Assumptions C13_draw_in_range.
Theorem C13_draw_zero_out_of_range : forall D d, 0 < D -> draw_sub D 0 d = -1.
Proof. intros D d HD. exact (draw_sub_zero D HD d). Qed.
Print Assumptions C13_draw_zero_out_of_range.
(* semi-stratified "zero" subscripts are inside the mode but never its first index for u > 0 (finding A-48) *)
Theorem C13_draw_semi : forall D a d, 0 < D -> 0 < d ->
  (0 <= a <= D -> 0 <= draw_sub_semi D a d < d) /\ (0 < a -> 1 < d -> 0 < draw_sub_semi D a d).
Proof.
  intros D a d HD Hd. split; [exact (fun H => draw_sub_semi_range D HD a d H Hd) | exact (draw_sub_semi_never_first D HD a d)].
Qed.
Print Assumptions C13_draw_semi.

(* uniform: one subscript row, one value per sample; subscripts inside the tensor; values = data there *)
Theorem C13_uniform : forall (V : Type) (v0 : V) D (X : dense V) draws, 0 < D ->
  pos_shape (dshape X) -> Forall (pos_draws D (dshape X)) draws ->
  length (uniform_subs D (dshape X) draws) = length draws /\ length (uniform_vals D v0 X draws) = length draws /\
  Forall2 (fun row v => exists i, row = zidx i /\ inb (dshape X) i = true /\ v = den_dense v0 X i)
          (uniform_subs D (dshape X) draws) (uniform_vals D v0 X draws).
Proof.
  intros V v0 D X draws HD Hs Hd.
  exact (conj (proj1 (uniform_lengths D v0 X draws)) (conj (proj2 (uniform_lengths D v0 X draws)) (uniform_values D HD v0 X draws Hs Hd))).
Qed.
Print Assumptions C13_uniform.

(* nonzero samples (stratified and semi-stratified): stored subscripts with the data at them *)
Theorem C13_nonzero_samples : forall (V : Type) (v0 : V) (isz : V -> bool) (S : sparse V) nidx,
  wf_sp isz S -> Forall (fun k => (k < nnz S)%nat) nidx ->
  length (nz_subs S nidx) = length nidx /\ length (nz_vals v0 S nidx) = length nidx /\
  Forall2 (fun row v => exists i, row = zidx i /\ inb (sshape S) i = true /\ v = den_sp v0 S i /\ isz v = false)
          (nz_subs S nidx) (nz_vals v0 S nidx).
Proof.
  intros V v0 isz S nidx W Hk.
  exact (conj (proj1 (nz_lengths v0 S nidx)) (conj (proj2 (nz_lengths v0 S nidx)) (nz_values v0 isz S nidx W Hk))).
Qed.
Print Assumptions C13_nonzero_samples.

(* zero samples of the stratified sampler are inside the tensor and are true zeros of the data *)
Theorem C13_zero_samples_true_zeros : forall (V : Type) (v0 : V) D (S : sparse V) nzidx draws req, 0 < D ->
  pos_shape (sshape S) -> Forall (pos_draws D (sshape S)) draws -> nzidx_ok S nzidx ->
  Forall (fun row => exists i, row = zidx i /\ inb (sshape S) i = true /\ den_sp v0 S i = v0)
         (zero_subs D (sshape S) nzidx draws req).
Proof. intros V v0 D S nzidx draws req HD. exact (zero_subs_true_zeros D HD v0 S nzidx draws req). Qed.
Print Assumptions C13_zero_samples_true_zeros.

(* |subscripts| = |values| for the stratified sampler exactly when the draws contain enough zeros; the repaired
   sampler (values sized by what was obtained) always agrees — finding C13-S1 *)
Theorem C13_stratified_lengths : forall (V : Type) (v0 : V) D (S : sparse V) nzidx nidx draws num_zeros,
  (length (strat_subs D S nzidx nidx draws num_zeros) =
     (length nidx + Nat.min num_zeros (length (filter (is_zero_row (sshape S) nzidx) (map (draw_row D (sshape S)) draws))))%nat /\
   length (strat_vals v0 S nidx num_zeros) = (length nidx + num_zeros)%nat) /\
  length (strat_subs D S nzidx nidx draws num_zeros) = length (strat_vals_fixed D v0 S nzidx nidx draws num_zeros).
Proof.
  intros. exact (conj (strat_lengths D v0 S nzidx nidx draws num_zeros) (strat_fixed_lengths_agree D v0 S nzidx nidx draws num_zeros)).
Qed.
Print Assumptions C13_stratified_lengths.

Theorem C13_semistrat : forall (V : Type) (v0 : V) D (S : sparse V) nidx draws, 0 < D ->
  (length (semi_subs D S nidx draws) = (length nidx + length draws)%nat /\
   length (semi_vals v0 S nidx draws) = (length nidx + length draws)%nat) /\
  (pos_shape (sshape S) -> Forall (unit_draws D (sshape S)) draws ->
   Forall (in_rangeZ (sshape S)) (map (draw_row_semi D (sshape S)) draws)).
Proof.
  intros V v0 D S nidx draws HD. exact (conj (semi_lengths D v0 S nidx draws) (semi_in_range D HD S draws)).
Qed.
Print Assumptions C13_semistrat.

(* weights: n samples of weight c/n total c, the number of entries the stratum stands for *)
Theorem C13_sampler_weights : forall (c : Qc) (n : nat), (0 < n)%nat ->
  wsum (even_weights c n) = c /\ length (even_weights c n) = n.
Proof. exact even_weights_total. Qed.
Print Assumptions C13_sampler_weights.

(* non-vacuity / witnesses on concrete non-symmetric instances *)
Example C13_example_zero_draw :
  zuniform_subs [2; 3]%nat [[0; D53 / 2]] = [[-1; 1]] /\ in_rangeZb [2; 3]%nat [-1; 1] = false.
Proof. exact uniform_zero_draw_out_of_range. Qed.
Example C13_example_short_supply :
  let S := mkSp [2; 2]%nat [[0; 0]; [1; 0]; [0; 1]]%nat [5; 6; 7] in
  let draws := [[1; 1]; [D53; D53]; [D53; 1]] in
  length (zstrat_subs S [0; 1; 2] [1%nat] draws 2) = 2%nat /\ length (zstrat_vals S [1%nat] 2) = 3%nat.
Proof. exact stratified_short_supply_lengths_differ. Qed.
Example C13_example_solve :     (* estimates 10, 7, 9 (failed), 4: best = epoch 3, trace reported without the 4 *)
  let s := zsolve [10; 7; 9; 4] 1 None 3 in
  cur _ _ _ s = 3%nat /\ zfull_trace [10; 7; 9; 4] s = [10; 7; 9; 4] /\ zreported_trace [10; 7; 9; 4] s = [10; 7; 9] /\
  nfails _ _ _ s = 1%nat.
Proof. repeat split; reflexivity. Qed.
