(* Proofs/C02TuckerTtvProofs.v — ttensor.ttv over any set of modes: pushing the vectors through the factors onto the core
   (W_dim = U_dim^T v, newcore = core.ttv(W, dims), remaining factors kept) gives the Tucker tensor that denotes spec_ttv of the
   array the operand denotes; for all shapes, core sizes and values of a commutative ring. *)
From Coq Require Import List Arith Lia Bool Permutation Ring.
From PV Require Import Base.Index Base.Perm Base.Sum Np.Array Model.Sparse Model.Repr Model.C02Spec Model.C02Dense Model.C02Sparse
                       Model.C02SpMore Model.C02KruskalMore Model.C02Tucker
                       Proofs.C02DenseProofs Proofs.C02SparseProofs Proofs.C02MttkrpProofs
                       Proofs.C02ModesProofs Proofs.C02TenmatProofs Proofs.C02PermProofs Proofs.C02IndicatorProofs
                       Proofs.C02KruskalMoreProofs Proofs.C02TuckerProofs.
Import ListNotations.

Section P.
Variable V : Type.
Variables (v0 v1 : V) (vadd vmul vsub : V -> V -> V) (vopp : V -> V).
Hypothesis Vring : ring_theory v0 v1 vadd vmul vsub vopp (@eq V).
Add Ring Vr13 : Vring.

Local Notation "x + y" := (vadd x y).
Local Notation "x * y" := (vmul x y).
Local Notation Sn := (sum_n v0 vadd).
Local Notation So := (sum_over v0 vadd).
Local Notation sat := (sum_at V v0 vadd vmul).
Local Notation tp := (tprod v0 v1 vmul).
Local Notation pv := (prodv v1 vmul).
Local Notation pp := (pprod v0 v1 vmul).
Local Notation dent := (den_t v0 v1 vadd vmul).
Local Notation den := (den_dense v0).
Local Notation r1 := (r1 V v1 vmul).
Local Notation dfl := (dfl V v1).
Local Notation collapse := (collapse V v0 v1 vadd vmul).

Lemma sum_at_linear_list {C} s (l : list C) (h : C -> idx -> V) : forall pairs j,
  sat s pairs j (fun a => So l (fun c => h c a)) = So l (fun c => sat s pairs j (h c)).
Proof.
  induction pairs as [|[m v] rest IH]; intros j; cbn [sum_at]; [reflexivity|].
  transitivity (Sn (nth m s 0) (fun k => So l (fun c => sat s rest (upd j m k) (h c) * nth k v v0))).
  { apply sum_n_ext. intros k _. rewrite IH. now rewrite (sum_over_scale_r _ _ _ _ _ _ _ Vring). }
  unfold sum_n. apply (sum_over_swap _ _ _ _ _ _ _ Vring).
Qed.

(* the rank-one function a |-> Π_m U_m[a_m, c_m] *)
Definition bs_of (Us : list (@matrix V)) (c : idx) : list (nat -> V) :=
  map (fun Uc : @matrix V * nat => fun x => mget v0 (fst Uc) x (snd Uc)) (combine Us c).

Lemma tprod_as_r1 : forall (Us : list (@matrix V)) (a c : idx), tp Us a c = r1 (bs_of Us c) a.
Proof.
  induction Us as [|U Us IH]; intros a c; [reflexivity|].
  destruct c as [|y c]; [destruct a; reflexivity|]. destruct a as [|x a]; [reflexivity|].
  cbn [tprod bs_of combine map C02KruskalMoreProofs.r1 fst snd]. fold (bs_of Us c). now rewrite IH.
Qed.

Lemma nth_bs_of (Us : list (@matrix V)) (c : idx) n : n < length Us -> length c = length Us ->
  nth n (bs_of Us c) dfl = fun x => mget v0 (nth n Us []) x (nth n c 0).
Proof.
  intros Hn HL. unfold bs_of.
  set (F := fun Uc : @matrix V * nat => fun x => mget v0 (fst Uc) x (snd Uc)).
  rewrite (nth_indep _ dfl (F ([], 0))) by (rewrite map_length, combine_length, HL, Nat.min_id; exact Hn).
  rewrite (map_nth F). rewrite combine_nth by (symmetry; exact HL). reflexivity.
Qed.

Lemma tprod_pick (Us : list (@matrix V)) (j c : idx) : forall rem,
  tp (pick [] rem Us) (pick 0 rem j) (pick 0 rem c) =
  pv (map (fun n => mget v0 (nth n Us []) (nth n j 0) (nth n c 0)) rem).
Proof.
  induction rem as [|n rem IH]; [reflexivity|]. cbn [pick map tprod prodv].
  fold (pick [] rem Us). fold (pick 0 rem j). fold (pick 0 rem c). now rewrite IH.
Qed.

Lemma nth_utv (U : @matrix V) v C y : y < C ->
  nth y (utv v0 vadd vmul U v C) v0 = Sn (nrows U) (fun x => mget v0 U x y * nth x v v0).
Proof. intros H. unfold utv. now rewrite (nth_map_seq V v0 (fun y => Sn (nrows U) (fun x => mget v0 U x y * nth x v v0))). Qed.

(* selected modes: the collapsed factors are the entries of W_dim = U_dim^T v at the core subscript *)
Lemma prod_dims_t (Us : list (@matrix V)) (cs : shape) (c : idx) : forall pairs,
  (forall m, In m (map fst pairs) -> m < length Us) -> length c = length Us -> inb cs c = true ->
  pv (map (fun mv => Sn (nth (fst mv) (map (@nrows V) Us) 0)
                       (fun k => nth (fst mv) (bs_of Us c) dfl k * nth k (snd mv) v0)) pairs) =
  pp (combine (map fst pairs) (map (fun mv => utv v0 vadd vmul (nth (fst mv) Us []) (snd mv) (nth (fst mv) cs 0)) pairs)) c.
Proof.
  intros pairs Hr HLc Hc. induction pairs as [|[m v] rest IH]; [reflexivity|].
  cbn [map fst snd prodv combine pprod] in *.
  assert (Hm : m < length Us) by (apply Hr; cbn; auto).
  rewrite IH by (intros; apply Hr; cbn; auto). f_equal.
  assert (Hcm : nth m c 0 < nth m cs 0).
  { apply c02_inb_nth in Hc as [HLcs Hk]. apply Hk. lia. }
  rewrite nth_utv by exact Hcm.
  change 0 with (@nrows V []) at 1. rewrite (map_nth (@nrows V)).
  apply sum_n_ext. intros k _. now rewrite nth_bs_of by assumption.
Qed.

(* ---- ttensor.ttv ---- *)
Theorem impl_ttv_t_correct (T : ttensor V) dims vs i' :
  wf_dense (tcore T) -> length (dshape (tcore T)) = length (tfactors T) ->
  NoDup dims -> (forall x, In x dims -> x < length (tfactors T)) -> length vs = length dims ->
  inb (ttv_shape (tshape T) dims) i' = true ->
  dent (impl_ttv_t v0 vadd vmul T dims vs) i' = spec_ttv v0 vadd vmul (dent T) (tshape T) dims vs i'.
Proof.
  intros W HC Hnd Hr HL Hi.
  set (Us := tfactors T) in *. set (cs := dshape (tcore T)) in *. set (s := tshape T) in *.
  assert (HN : length s = length Us) by (unfold s, tshape; now rewrite map_length).
  assert (Hr' : forall x, In x dims -> x < length s) by (intros x Hx; rewrite HN; auto).
  assert (Hrc : forall x, In x dims -> x < length cs) by (intros x Hx; rewrite HC; auto).
  unfold ttv_shape in Hi.
  pose proof (compl_perm (length s) dims Hnd Hr') as Hp.
  destruct (base_idx_facts V v0 (fun _ => true) s dims i' Hp Hi) as (L0 & P0 & B0). cbn zeta in *.
  set (rem := compl (length s) dims) in *. set (pairs := combine dims vs).
  set (j0 := unpick (rem ++ dims) (i' ++ repeat 0 (length dims))) in *.
  assert (Hmf : map fst pairs = dims) by (apply map_fst_combine; exact HL).
  set (Ws := map (fun mv => utv v0 vadd vmul (nth (fst mv) Us []) (snd mv) (nth (fst mv) cs 0)) pairs).
  assert (HLW : length Ws = length dims).
  { unfold Ws, pairs. rewrite map_length, combine_length, HL. apply Nat.min_id. }
  assert (Erc : compl (length cs) dims = rem) by (unfold rem; now rewrite HC, HN).
  assert (Eru : compl (length Us) dims = rem) by (unfold rem; now rewrite HN).
  (* the new core *)
  assert (Hpc : is_perm (compl (length cs) dims ++ dims) (length cs)) by (now apply compl_perm).
  destruct (impl_ttv_dense_correct V v0 vadd vmul (tcore T) dims Ws W HLW Hpc) as (SC & _ & DC).
  fold cs in SC, DC. unfold ttv_shape in SC, DC. rewrite Erc in SC, DC.
  (* left-hand side *)
  unfold den_t at 1. unfold impl_ttv_t. cbn [tfactors tcore]. fold Us cs pairs Ws.
  unfold tshape at 1. cbn [tfactors]. rewrite c02_map_pick. change (@nrows V []) with 0.
  change (map (@nrows V) Us) with s. rewrite Eru, Hi. rewrite SC.
  transitivity (So (allsubs cs) (fun c => den (tcore T) c * (pp (combine dims Ws) c * tp (pick [] rem Us) i' (pick 0 rem c)))).
  { transitivity (So (allsubs (pick 0 rem cs)) (fun c' => So (allsubs cs)
        (fun c => den (tcore T) c * (if idx_eqb (pick 0 rem c) c' then pp (combine dims Ws) c else v0) * tp (pick [] rem Us) i' c'))).
    { apply sum_over_ext. intros c' Hc'. apply in_allsubs in Hc'. rewrite DC by exact Hc'.
      rewrite (spec_ttv_indicator V v0 v1 vadd vmul vsub vopp Vring (fun _ => true)); auto.
      - rewrite Erc. now rewrite (sum_over_scale_r _ _ _ _ _ _ _ Vring).
      - unfold ttv_shape. now rewrite Erc. }
    rewrite (sum_over_swap _ _ _ _ _ _ _ Vring). apply sum_over_ext. intros c Hc. apply in_allsubs in Hc.
    rewrite (sum_over_single _ _ _ _ _ _ _ Vring (allsubs (pick 0 rem cs)) (pick 0 rem c)).
    - rewrite idx_eqb_refl. ring.
    - apply allsubs_NoDup.
    - apply in_allsubs. apply c02_inb_pick_sub; auto. intros k Hk. rewrite <- Erc in Hk.
      unfold compl in Hk. apply filter_In in Hk as [Hk _]. apply in_seq in Hk. lia.
    - intros c' _ Hne. rewrite idx_eqb_neq by (intros E; apply Hne; now symmetry). ring. }
  (* right-hand side *)
  rewrite (spec_ttv_as_sum_at V v0 vadd vmul); auto.
  2:{ apply inb_length in Hi. now rewrite pick_length in Hi. }
  fold rem pairs j0.
  rewrite (sum_at_ext V v0 vadd vmul s _ (fun a => So (allsubs cs) (fun c => den (tcore T) c * tp Us a c))).
  2:{ intros a Ha. unfold den_t. fold s. now rewrite Ha. }
  2:{ rewrite Hmf. exact Hr'. }
  2:{ exact L0. }
  2:{ rewrite Hmf. exact B0. }
  rewrite sum_at_linear_list.
  apply sum_over_ext. intros c Hc. apply in_allsubs in Hc.
  pose proof (inb_length _ _ Hc) as HLc. rewrite HC in HLc.
  set (Bs := bs_of Us c).
  assert (HLB : length Bs = length s).
  { unfold Bs, bs_of. rewrite map_length, combine_length, HLc, Nat.min_id. now rewrite HN. }
  rewrite (sum_at_ext V v0 vadd vmul s _ (fun a => den (tcore T) c * r1 Bs a)).
  2:{ intros a _. now rewrite tprod_as_r1. }
  2:{ rewrite Hmf. exact Hr'. }
  2:{ exact L0. }
  2:{ rewrite Hmf. exact B0. }
  rewrite (sum_at_r1 V v0 v1 vadd vmul vsub vopp Vring); rewrite ?Hmf; auto.
  2:{ intros m Hm. rewrite HLB. auto. }
  2:{ now rewrite HLB. }
  f_equal.
  rewrite (r1_as_prodv V v1 vmul) by (now rewrite collapse_length, HLB).
  rewrite collapse_length, HLB.
  rewrite (prodv_perm V v0 v1 vadd vmul vsub vopp Vring _ _ (Permutation_map _ (Permutation_sym Hp))). fold rem.
  rewrite map_app, (prodv_app _ _ _ _ _ _ _ Vring).
  assert (E1 : pv (map (fun n => nth n (collapse s pairs Bs) dfl (nth n j0 0)) rem) = tp (pick [] rem Us) i' (pick 0 rem c)).
  { rewrite <- P0 at 1. rewrite tprod_pick. f_equal. apply map_ext_in. intros n Hn.
    assert (Hnd' : ~ In n dims).
    { unfold rem, compl in Hn. apply filter_In in Hn as [_ Hn]. apply negb_true_iff in Hn.
      intros Hin. apply existsb_eqb_in in Hin. congruence. }
    assert (HnN : n < length Us).
    { unfold rem, compl in Hn. apply filter_In in Hn as [Hn _]. apply in_seq in Hn. lia. }
    rewrite (collapse_nth_notin V v0 v1 vadd vmul) by (now rewrite Hmf). unfold Bs.
    now rewrite nth_bs_of by assumption. }
  assert (E2 : pv (map (fun n => nth n (collapse s pairs Bs) dfl (nth n j0 0)) dims) = pp (combine dims Ws) c).
  { rewrite <- Hmf at 1. rewrite (prod_dims V v0 v1 vadd vmul); rewrite ?Hmf; auto.
    - unfold Bs, s, tshape. fold Us. rewrite (prod_dims_t Us cs c pairs); auto.
      + now rewrite Hmf.
      + rewrite Hmf. exact Hr.
    - intros m Hm. rewrite HLB. auto. }
  rewrite E1, E2. ring.
Qed.

End P.
