(* Props/C03Hist.v — wave 5: histories on ONE sparse object (operator, in-place element assignment that may grow the shape, operator
   again).  Only statements, `exact`, Print Assumptions.  sp_assign (Model/C03Hist.v) models S[sub] = v for one full-width subscript
   (pyttb.sptensor.__setitem__ in both spellings, _set_subtensor with a scalar and _set_subscripts with a 1 x N array: overwrite in place /
   delete / append, shape = max(dim, sub + 1) in every case); the correspondence
   cases hist:<op0>,<op1> require the stored lists of the object after its history to BE sp_assigns of the literal initial operand
   (hist_state_ok) and every request to denote the element-wise specification on that tensor. *)
From Coq Require Import List Arith Bool ZArith.
From PV Require Import Base.Index Np.NpZ Np.Array Gen.GenUtils Model.Sparse Model.Harness Model.C03Ops Model.C03Gen Model.C03Chk Model.C03Hist
                       Model.C03HistGen Proofs.C03Lemmas Proofs.C03GenProofs Proofs.C03Hist Proofs.C03HistGen.
Import ListNotations.

Section C03Hist.
Context {V : Type} (v0 : V) (isz : V -> bool).
Hypothesis isz_spec : forall v, isz v = true <-> v = v0.

(* the assignment keeps the tensor fully well-formed (no duplicate, no explicit zero, every row inside the NEW shape), the new shape
   is max(dim, sub + 1) mode by mode, contains sub and every old position, and the tensor denotes the point update *)
Theorem C03_assign : forall (A : sparse V) (sub : idx) (v : V), wf_sp isz A -> length sub = length (sshape A) ->
  wf_sp isz (sp_assign isz A sub v) /\
  sshape (sp_assign isz A sub v) = grow_shape (sshape A) sub /\
  inb (sshape (sp_assign isz A sub v)) sub = true /\
  (forall i, inb (sshape A) i = true -> inb (sshape (sp_assign isz A sub v)) i = true) /\
  forall i, den_sp v0 (sp_assign isz A sub v) i = if idx_eqb i sub then v else den_sp v0 A i.
Proof. exact (sp_assign_correct v0 isz isz_spec). Qed.

Theorem C03_assigns_wf : forall (l : list (idx * V)) (A : sparse V), wf_sp isz A ->
  Forall (fun p => length (fst p) = length (sshape A)) l ->
  wf_sp isz (sp_assigns isz A l) /\ length (sshape (sp_assigns isz A l)) = length (sshape A) /\
  forall i, inb (sshape A) i = true -> inb (sshape (sp_assigns isz A l)) i = true.
Proof. exact (sp_assigns_wf v0 isz isz_spec). Qed.

(* a whole history denotes the dense array after the same history of point updates: at every position the LAST assignment to it
   wins, every other position keeps its value (positions outside the old shape: 0) *)
Theorem C03_assigns_den : forall (l : list (idx * V)) (A : sparse V), wf_sp isz A ->
  Forall (fun p => length (fst p) = length (sshape A)) l ->
  forall i, den_sp v0 (sp_assigns isz A l) i = hist_lookup l i (den_sp v0 A i).
Proof. exact (sp_assigns_den v0 isz isz_spec). Qed.

(* a request after the assignment marks EVERY position of the GROWN shape by the value the tensor holds now (the positions added by
   the growth included): logical_not, and every comparison with a scalar (== != < <= > >= are instances of cmp) *)
Theorem C03_not_after_assign : forall (one : V), one <> v0 -> forall (A : sparse V) (sub : idx) (v : V),
  wf_sp isz A -> length sub = length (sshape A) ->
  let A' := sp_assign isz A sub v in
  wf_sp isz (impl_not one A') /\ sshape (impl_not one A') = grow_shape (sshape A) sub /\
  forall i, inb (grow_shape (sshape A) sub) i = true ->
    den_sp v0 (impl_not one A') i = bval v0 one (isz (if idx_eqb i sub then v else den_sp v0 A i)).
Proof. exact (not_after_assign v0 isz isz_spec). Qed.

Theorem C03_cmp_scalar_after_assign : forall (one : V), one <> v0 -> forall (cmp : V -> V -> bool) (A : sparse V) (c : V) (sub : idx) (v : V),
  wf_sp isz A -> length sub = length (sshape A) ->
  let A' := sp_assign isz A sub v in
  wf_sp isz (impl_cmp_scalar v0 one cmp A' c) /\ sshape (impl_cmp_scalar v0 one cmp A' c) = grow_shape (sshape A) sub /\
  forall i, inb (grow_shape (sshape A) sub) i = true ->
    den_sp v0 (impl_cmp_scalar v0 one cmp A' c) i = bval v0 one (cmp (if idx_eqb i sub then v else den_sp v0 A i) c).
Proof. exact (cmp_scalar_after_assign v0 isz isz_spec). Qed.
End C03Hist.

(* tie A: S[i1, ..., iN] = v for a nonzero scalar (sptensor._set_subtensor, Case I(b)ii), transliterated over tt_intersect_rows /
   tt_setdiff_rows as REGENERATED from pyttb_utils.py on every run (Model/C03HistGen.v), returns exactly the lists of sp_assign, for
   every structurally well-formed operand of order N >= 1 in any stored order and every full-width subscript inside or outside the shape *)
Theorem C03_assign_gen : forall (V : Type) (isz : V -> bool) (N : nat), (0 < N)%nat -> forall (A : sparse V) (sub : idx) (v : V),
  wf_struct A -> width N (ssubs A) -> length sub = N -> isz v = false ->
  impl_set_elem_gen A sub v = Ok (sp_assign isz A sub v).
Proof. exact @impl_set_elem_gen_eq. Qed.

Print Assumptions C03_assign.
Print Assumptions C03_assign_gen.
Print Assumptions C03_assigns_wf.
Print Assumptions C03_assigns_den.
Print Assumptions C03_not_after_assign.
Print Assumptions C03_cmp_scalar_after_assign.

(* non-vacuity: the history of the seeded change C03-J: a 1 x 2 tensor, S[2,1] = -3 grows it to 3 x 2; logical_not marks the four
   empty positions of the grown shape; S[0,1] = 0 deletes, S[2,1] = 5 overwrites in place *)
Example C03_example_hist :
  let S := mkSp [1; 2]%nat [[0; 1]]%nat [2%Z] in
  sp_assign zisz S [2; 1]%nat (-3)%Z = mkSp [3; 2]%nat [[0; 1]; [2; 1]]%nat [2; -3]%Z /\
  full 0%Z (impl_not 1%Z (sp_assign zisz S [2; 1]%nat (-3)%Z)) = mkDense [3; 2]%nat [1; 1; 1; 0; 1; 0]%Z /\
  sp_assigns zisz S [([2; 1]%nat, (-3)%Z); ([0; 1]%nat, 0%Z); ([2; 1]%nat, 5%Z); ([0; 3]%nat, 0%Z)] = mkSp [3; 4]%nat [[2; 1]]%nat [5%Z] /\
  hist_state_ok (mkSp [3; 2]%nat [[0; 1]; [2; 1]]%nat [2; -3]%Z) S [([2; 1]%nat, (-3)%Z)] = true.
Proof. repeat split. Qed.
