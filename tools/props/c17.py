"""C17 — index arithmetic, mode-selection preprocessing, row-set helpers, Khatri-Rao (DESIGN §C17)."""
import itertools
from vcheck import Case, gz, gzlist, gzmat, gopt, gblist

PROP = "C17"
LEVEL = "proof"
GEN_UNITS = ["GenUtils", "GenKernels", "GenUtils2", "GenHandles", "GenFgSetup"]
COQ_TARGETS = ["Props/C17.vo", "Props/C17w4.vo", "Props/C17w5.vo", "Props/C17Fg.vo", "Model/Harness.vo"]
THEOREM_FILES = ["Props/C17.v", "Props/C17w4.v", "Props/C17w5.v", "Props/C17Fg.v"]
INCLUDE = ["w3gen"]   # wave 3: the functions the translator generates since then (GenUtils3, GenUtils3b, GenKernels3, GenMethods*):
                       # their bridge lemmas / laws (Props/W3*.v) and their differential stream run inside this check
COQ_IMPORTS = ("From Coq Require Import Reals List ZArith Bool.\n"
               "From PV Require Gen.GenFgSetup.\n"
               "From PV Require Import Np.NpZ Np.NpZ2 Gen.GenUtils Gen.GenKernels Gen.GenUtils2 Model.Harness Proofs.KhatriRao.\n")
RULE = ("exhaustive over small shapes/index sets + seeded random stream; a case is non-trivial unless the shape is "
        "1-cell or the request is empty; distinct = distinct (op, arguments incl. memory layout / dtype presentation); "
        "wave 3: array arguments also as F-ordered / strided / negative-stride / offset views and int32 / int16 / uint8 arrays "
        "(arguments must come back unmodified), row operands over different ranges and with repeated rows, mixed-dtype "
        "Khatri-Rao operands, tensors with more cells than a narrow index dtype holds, helper outputs fed into the next helper; "
        "wave 4: row operands in int8 / int16 / int32 with more rows than the dtype counts (129..300 rows, 33k rows for int16), "
        "np.argsort on repeated keys up to length 40 (stable kind = model, default kind = any valid argsort), every observed "
        "intersect / setdiff result judged by the full-strength contract (failures attributed to A-41 only under its exact trigger); "
        "wave 5: SIGNED integer rows as an input class of the four row helpers (exhaustive single-row pairs over {-1,0,1}^2, random "
        "2..3-column operands with entries in [-3, 3], all layouts, int64 / int32 / int8)")
EXPLANATION = ("Theorems are stated over Gen/GenUtils.v, regenerated from pyttb_utils.py on this run; the correspondence "
               "stream additionally runs the same generated functions against pyttb on explicit inputs (guards the translator).")


def shapes_upto(cells, maxn=4):
    out = []

    def rec(prefix, prod):
        if prefix:
            out.append(tuple(prefix))
        if len(prefix) == maxn:
            return
        for d in range(1, cells + 1):
            if prod * d <= cells:
                rec(prefix + [d], prod * d)
    rec([], 1)
    return out


def gen_cases(rng, tier):
    import math
    cases = []
    big = tier == "thorough"
    # --- sub2ind / ind2sub: exhaustive over shapes with <= 12 cells (thorough) / <= 8 (quick)
    for shp in shapes_upto(12 if big else 8):
        n = math.prod(shp)
        allidx = list(range(n))
        subs = [list(x)[::-1] for x in itertools.product(*[range(d) for d in shp[::-1]])]   # F order
        rng.shuffle(allidx)
        cases.append(Case("ind2sub", {"shape": list(shp), "idx": allidx}, n > 1))
        sh = subs[:]
        rng.shuffle(sh)
        cases.append(Case("sub2ind", {"shape": list(shp), "subs": sh}, n > 1))
        # negative indices and out-of-range (malformed stream)
        cases.append(Case("ind2sub", {"shape": list(shp), "idx": [-1, -n, 0]}, n > 1))
        cases.append(Case("ind2sub", {"shape": list(shp), "idx": [n]}, True))
        cases.append(Case("ind2sub", {"shape": list(shp), "idx": [-n - 1]}, True))
        bad = list(subs[rng.randrange(len(subs))])
        k = rng.randrange(len(shp))
        bad[k] = shp[k]
        cases.append(Case("sub2ind", {"shape": list(shp), "subs": [subs[0], bad]}, True))
        bad2 = list(subs[0])
        bad2[k] = -1
        cases.append(Case("sub2ind", {"shape": list(shp), "subs": [bad2]}, True))
    cases.append(Case("sub2ind", {"shape": [2, 3], "subs": []}, False))
    cases.append(Case("ind2sub", {"shape": [2, 3], "idx": []}, False))
    for _ in range(200 if big else 40):
        shp = [rng.randint(1, 5) for _ in range(rng.randint(1, 5))]
        n = math.prod(shp)
        idx = [rng.randrange(-n, n) for _ in range(rng.randint(1, 6))]
        cases.append(Case("ind2sub", {"shape": shp, "idx": idx}, n > 1))
        subs = [[rng.randrange(d) for d in shp] for _ in range(rng.randint(1, 6))]
        cases.append(Case("sub2ind", {"shape": shp, "subs": subs}, n > 1))
    # --- dimscheck: all N <= 4 (5 thorough), all subsets in all orders, both conventions, all M
    maxN = 5 if big else 4
    for N in range(1, maxN + 1):
        for r in range(0, N + 1):
            for comb in itertools.permutations(range(N), r):
                if r > 3 and not big and rng.random() < 0.5:
                    continue
                for M in {None, r, N, N + 1, max(0, r - 1)}:
                    cases.append(Case("dimscheck", {"N": N, "M": M, "dims": list(comb), "excl": None}, r > 0))
                    cases.append(Case("dimscheck", {"N": N, "M": M, "dims": None, "excl": list(comb)}, r > 0))
        for M in (None, N, 1):
            cases.append(Case("dimscheck", {"N": N, "M": M, "dims": None, "excl": None}, True))
        cases.append(Case("dimscheck", {"N": N, "M": None, "dims": [0], "excl": [0]}, True))
    # malformed: negative, out of range, repeated
    for _ in range(300 if big else 80):
        N = rng.randint(1, 5)
        d = [rng.randint(-2, N + 1) for _ in range(rng.randint(1, 4))]
        M = rng.choice([None, len(d), N, rng.randint(0, 6)])
        if rng.random() < 0.5:
            cases.append(Case("dimscheck", {"N": N, "M": M, "dims": d, "excl": None}, True))
        else:
            cases.append(Case("dimscheck", {"N": N, "M": M, "dims": None, "excl": d}, True))
    # --- row-set helpers
    for _ in range(1500 if big else 300):
        k = rng.randint(1, 3)
        hi = rng.choice([1, 2, 3])
        a = [[rng.randint(0, hi) for _ in range(k)] for _ in range(rng.randint(0, 5))]
        b = [[rng.randint(0, hi) for _ in range(k)] for _ in range(rng.randint(0, 5))]
        if rng.random() < 0.4:       # distinct rows (the well-formed sparse case)
            a = [list(x) for x in dict.fromkeys(map(tuple, a))]
            b = [list(x) for x in dict.fromkeys(map(tuple, b))]
        for op in ("ismember", "intersect", "setdiff", "union"):
            cases.append(Case(op, {"a": a, "b": b, "k": k}, bool(a) and bool(b)))
    for _ in range(600 if big else 150):     # union with the second argument in lexicographic row order (the in-repo use)
        k = rng.randint(1, 3)
        a = [list(x) for x in dict.fromkeys(tuple(rng.randint(0, 2) for _ in range(k)) for _ in range(rng.randint(0, 5)))]
        b = [list(x) for x in sorted({tuple(rng.randint(0, 2) for _ in range(k)) for _ in range(rng.randint(0, 6))})]
        cases.append(Case("union", {"a": a, "b": b, "k": k}, bool(a) and bool(b)))
    # --- Khatri-Rao: tuples of 1..4 matrices with a common column count, both orders; column mismatch (malformed)
    for _ in range(600 if big else 150):
        R = rng.randint(1, 3)
        k = rng.randint(1, 4)
        mats = [[[rng.randint(-3, 4) for _ in range(R)] for _ in range(rng.randint(1, 3))] for _ in range(k)]
        if rng.random() < 0.15 and k > 1:
            j = rng.randrange(k)
            mats[j] = [row + [1] for row in mats[j]]       # one matrix with a different column count
        cases.append(Case("khatrirao", {"mats": mats, "reverse": rng.random() < 0.5}, k > 1))
    for k in range(0, 4):          # no matrices at all; matrices with zero columns (generated model only)
        for rows in ([1], [2, 3], [1, 2, 2]):
            mats = [[[] for _ in range(rows[j % len(rows)])] for j in range(k)]
            cases.append(Case("khatrirao_zero", {"mats": mats, "reverse": bool(k % 2)}, k > 0))
    # --- min_split (Gen/GenKernels.v): exhaustive over all shapes with <= 5 (6 thorough) modes of sizes 1..3 (1..4 up to
    #     4 modes), plus empty / zero-size / large random shapes
    for n in range(0, (7 if big else 6)):
        for shp in itertools.product(range(1, 4), repeat=n):
            cases.append(Case("min_split", {"shape": list(shp)}, n >= 2))
    for n in range(1, 5):
        for shp in itertools.product(range(0, 5), repeat=n):
            if 0 in shp or 4 in shp:
                cases.append(Case("min_split", {"shape": list(shp)}, n >= 2))
    for _ in range(400 if big else 100):
        shp = [rng.choice([1, 2, 3, 5, 7, 10, 30, 100]) for _ in range(rng.randint(2, 8))]
        cases.append(Case("min_split", {"shape": shp}, True))
    # --- gather_wrap_dims (Gen/GenUtils2.v): N <= 4, every ordered mode subset as rows / columns, every ordered
    #     partition as (rows, columns), all cyclic options incl. an unrecognised string; ill-formed requests
    for N in range(1, 5):
        subs = [list(p) for r in range(0, N + 1) for p in itertools.permutations(range(N), r)]
        for d in subs:
            for cy in (None, "fc", "bc", "t", "zz"):
                cases.append(Case("wrapdims", {"N": N, "rd": d, "cd": None, "cy": cy}, True))
            for cy in (None, "fc"):
                cases.append(Case("wrapdims", {"N": N, "rd": None, "cd": d, "cy": cy}, True))
        for p in itertools.permutations(range(N)):
            for k in range(0, N + 1):
                cases.append(Case("wrapdims", {"N": N, "rd": list(p[:k]), "cd": list(p[k:]), "cy": rng.choice([None, "bc", "t"])}, True))
        for cy in (None, "fc", "bc", "t"):
            cases.append(Case("wrapdims", {"N": N, "rd": None, "cd": None, "cy": cy}, True))
    for _ in range(200 if big else 60):      # repeated / out-of-range modes (answered by the code as they come)
        N = rng.randint(1, 5)
        d = [rng.randint(0, N + 1) for _ in range(rng.randint(1, 3))]
        e = rng.choice([None, [rng.randint(0, N) for _ in range(rng.randint(0, 3))]])
        cases.append(Case("wrapdims", {"N": N, "rd": d, "cd": e, "cy": rng.choice([None, "fc", "bc", "t"])}, True))
    # --- fg_setup.setup (Gen/GenFgSetup.v): every objective x data kind x extra parameter; accept / reject and bound kind
    datas = [None, ("dense", [0, 1, 1, 0]), ("dense", [0, 2, 3, 1]), ("dense", [0.5, 1.5, 2, 1]), ("dense", [1, 2, 3, 4]),
             ("dense", [-1, 2, 1, 1]), ("sparse", [1, 1]), ("sparse", [2, 3]), ("sparse", [0.5, 1]), ("sparse", [-1, 1])]
    for obj in ("GAUSSIAN", "BERNOULLI_ODDS", "BERNOULLI_LOGIT", "POISSON", "POISSON_LOG", "RAYLEIGH", "GAMMA", "HUBER",
                "NEGATIVE_BINOMIAL", "BETA"):
        for d in datas:
            for p_ in (None, 2):
                cases.append(Case("fg_setup", {"objective": obj, "data": d, "param": p_}, True))
    # --- Np primitive validation (the translator's whitelist: numpy call -> Np definition)
    for _ in range(600 if big else 150):
        k = rng.randint(1, 3)
        m = [[rng.randint(0, 2) for _ in range(k)] for _ in range(rng.randint(1, 6))]
        cases.append(Case("prim_unique_rows", {"m": m, "k": k}, len(m) > 1))
        v = rng.sample(range(-5, 12), rng.randint(0, 6))
        w = [rng.randint(-2, 6) for _ in range(rng.randint(0, 6))]
        cases.append(Case("prim_argsort", {"v": v}, len(v) > 1))
        # wave 4 (audit E): REPEATED keys, also longer than 16 entries (numpy's default kind leaves insertion sort there):
        # kind="stable" must equal the model's np_argsort (theorem C17_argsort_stable: the unique (key, position)-ordered
        # permutation); of the default kind only "a valid argsort" is required
        nk = rng.choice([2, 3, 5, 8, 17, 24, 40])
        vt = [rng.randint(0, rng.choice([1, 2, 4])) for _ in range(nk)]
        cases.append(Case("prim_argsort", {"v": vt, "ties": True}, True))
        cases.append(Case("prim_setdiff1d", {"a": w, "b": v}, bool(w) and bool(v)))
        cases.append(Case("prim_isin", {"a": w, "b": v}, bool(w) and bool(v)))
        n = rng.randint(1, 6)
        idx = [rng.randrange(n) for _ in range(rng.randint(0, 6))]
        vals = [rng.randint(-9, 9) for _ in idx]
        cases.append(Case("prim_scatter", {"n": n, "idx": idx, "vals": vals}, len(idx) > 1))
        # second batch (Np/NpZ2.v): np.where(mask), range(a, b, -1), enumerate, the Khatri-Rao reshape idiom
        mask = [rng.random() < 0.5 for _ in range(rng.randint(0, 7))]
        cases.append(Case("prim_where1", {"mask": mask}, len(mask) > 1))
        cases.append(Case("prim_range_down", {"a": rng.randint(-3, 6), "b": rng.randint(-3, 6)}, True))
        R = rng.randint(1, 3)
        P = [[rng.randint(-3, 4) for _ in range(R)] for _ in range(rng.randint(1, 4))]
        M = [[rng.randint(-3, 4) for _ in range(R)] for _ in range(rng.randint(1, 3))]
        cases.append(Case("prim_kr_step", {"P": P, "M": M, "R": R}, len(P) > 1 and len(M) > 1))
    # --- row helpers on operands that span DIFFERENT ranges (search rows outside the bounding box of the source, negative
    #     entries, one operand a sub-box of the other): key-collapsing / hashing slips alias exactly there
    for _ in range(1200 if big else 220):
        k = rng.randint(1, 3)
        lo_a, lo_b = rng.choice([-2, 0, 0, 1]), rng.choice([-2, 0, 0, 1])
        w_a, w_b = rng.choice([1, 1, 2, 5]), rng.choice([1, 1, 2, 5])
        a = [[rng.randint(lo_a, lo_a + w_a) for _ in range(k)] for _ in range(rng.randint(1, 5))]
        b = [[rng.randint(lo_b, lo_b + w_b) for _ in range(k)] for _ in range(rng.randint(1, 5))]
        if rng.random() < 0.5:
            a = [list(x) for x in dict.fromkeys(map(tuple, a))]
            b = [list(x) for x in dict.fromkeys(map(tuple, b))]
        for op in ("ismember", "intersect", "setdiff", "union"):
            cases.append(Case(op, {"a": a, "b": b, "k": k}, True))
    # --- wave 4: row helpers on operands stored in a NARROW integer dtype (int8 / int16: compactly stored subscripts) with
    #     MORE ROWS than that dtype can count (> 127 / > 32767): the positions returned must not be computed in the operands'
    #     dtype. The search rows are taken from high positions of the long operand (+ a few absent rows); both argument orders.
    def _pool_rows(k_, dt_):
        if k_ == 1:
            return [[x] for x in (range(-128, 128) if dt_ == "int8" else range(-300, 300))]
        return [[x, y] for x in range(-12, 13) for y in range(-12, 13)]
    for _ in range(60 if big else 14):
        k = rng.randint(1, 2)
        dt = rng.choice(["int8", "int8", "int8", "int16", "int32"])
        pool = _pool_rows(k, dt)
        nlong = rng.randint(129, min(len(pool) - 6, 300))
        rows_ = rng.sample(pool, nlong + 3)
        long_, absent = rows_[:nlong], rows_[nlong:]
        short = [long_[rng.randrange(120, nlong)] for _ in range(rng.randint(1, 5))] + absent[:rng.randint(0, 2)]
        if rng.random() < 0.6:
            short = [list(x) for x in dict.fromkeys(map(tuple, short))]
        rng.shuffle(short)
        lay = [rng.choice(LAYOUTS), dt]
        for op in ("ismember", "intersect", "setdiff", "union"):
            cases.append(Case(op, {"a": short, "b": long_, "k": k, "lay": lay}, True))
            cases.append(Case(op, {"a": long_, "b": short, "k": k, "lay": lay}, True))
    # --- wave 5: SIGNED integer rows as a class of its own (the property quantifies over all integer row matrices, not only
    #     over subscripts): any row -> key encoding that is injective only on non-negative entries (mixed radix with
    #     extent = column maximum + 1, bit packing, ...) makes different rows coincide, e.g. (-1, 1) and (1, 0).
    #     Exhaustive: one search row against one source row over {-1, 0, 1}^2 (81 pairs, membership + intersection);
    #     random: 2..3 columns, entries in [-3, 3], with and without repeated rows, all four helpers.
    sgn = [[x, y] for x in (-1, 0, 1) for y in (-1, 0, 1)]
    for r_ in sgn:
        for q_ in sgn:
            cases.append(Case("ismember", {"a": [r_], "b": [q_], "k": 2}, True))
            if r_ != q_ and (r_[0] < 0 or r_[1] < 0 or q_[0] < 0 or q_[1] < 0):
                cases.append(Case("intersect", {"a": [r_, q_], "b": [q_], "k": 2}, True))
    for _ in range(400 if big else 80):
        k = rng.randint(2, 3)
        a = [[rng.randint(-3, 3) for _ in range(k)] for _ in range(rng.randint(1, 6))]
        b = [[rng.randint(-3, 3) for _ in range(k)] for _ in range(rng.randint(1, 6))]
        if rng.random() < 0.5:
            b = b + [list(a[rng.randrange(len(a))])]           # at least one common row
        if rng.random() < 0.5:
            a = [list(x) for x in dict.fromkeys(map(tuple, a))]
            b = [list(x) for x in dict.fromkeys(map(tuple, b))]
        lay = [rng.choice(LAYOUTS), rng.choice(["int64", "int64", "int32", "int8"])]
        for op in ("ismember", "intersect", "setdiff", "union"):
            cases.append(Case(op, {"a": a, "b": b, "k": k, "lay": lay}, True))
    for _ in range(5 if big else 2):       # int16 with > 32767 source rows: membership only (the model's row sort is quadratic)
        nlong = rng.randint(32800, 33500)
        vals = rng.sample(range(-32768, 32768), nlong + 1)
        long_ = [[x] for x in vals[:nlong]]
        short = [long_[rng.randrange(32768, nlong)], long_[rng.randrange(0, 100)], long_[nlong - 1], [vals[nlong]]]
        rng.shuffle(short)
        cases.append(Case("ismember", {"a": short, "b": long_, "k": 1, "lay": ["C", "int16"]}, True))
    # --- Khatri-Rao of operands of DIFFERENT dtypes (int / float32 / float64, half-integer values): the product must
    #     not depend on which operand comes first
    for _ in range(400 if big else 120):
        R = rng.randint(1, 3)
        k = rng.randint(1, 4)
        mats = [[[rng.randint(-3, 4) for _ in range(R)] for _ in range(rng.randint(1, 3))] for _ in range(k)]
        dts = [rng.choice(KR_DTYPES) for _ in range(k)]
        cases.append(Case("khatrirao", {"mats": mats, "reverse": rng.random() < 0.5, "dts": dts,
                                        "lay": [rng.choice(LAYOUTS), "int64"]}, k > 1))
    # --- the order="C" option of both conversions (last subscript fastest): not what the property states, but the same
    #     generated functions; keeps the translator and the Np model honest on that branch
    for _ in range(150 if big else 50):
        shp = [rng.randint(1, 4) for _ in range(rng.randint(1, 4))]
        n = math.prod(shp)
        cases.append(Case("ind2sub", {"shape": shp, "idx": [rng.randrange(-n, n + 1) for _ in range(rng.randint(1, 5))], "order": "C"}, n > 1))
        cases.append(Case("sub2ind", {"shape": shp, "subs": [[rng.randrange(d + (rng.random() < 0.05)) for d in shp] for _ in range(rng.randint(1, 5))],
                                      "order": "C"}, n > 1))
    # --- histories: the array RETURNED by one helper is fed into the next (its dtype / memory layout is whatever pyttb
    #     produced: tt_ind2sub returns a transposed view, tt_union_rows a float array when an operand is empty)
    for _ in range(400 if big else 120):
        shp = [rng.randint(1, 4) for _ in range(rng.randint(1, 4))]
        subs = [[rng.randrange(d) for d in shp] for _ in range(rng.randint(0, 5))]
        cases.append(Case("roundtrip", {"shape": shp, "subs": subs}, math.prod(shp) > 1 and bool(subs)))
        k = rng.randint(1, 3)
        a = [[rng.randint(0, 2) for _ in range(k)] for _ in range(rng.randint(0, 4))]
        b = [[rng.randint(0, 2) for _ in range(k)] for _ in range(rng.randint(0, 4))]
        cases.append(Case("chain_rows", {"a": a, "b": b, "k": k}, bool(a) or bool(b)))
    # --- magnitudes: tensors with more cells than a narrow index dtype can hold, and with > 2^32 cells
    for _ in range(120 if big else 40):
        shp = rng.choice([[16, 16], [7, 40], [300], [200, 200, 1], [2, 3, 50, 2], [100000, 100000, 1000], [3, 2 ** 31, 5],
                          [65536, 65536], [1, 2 ** 40, 2]])
        n = math.prod(shp)
        dt = rng.choice(["int64", "int64", "int32", "int16", "uint8"])
        hi = min(n - 1, {"int64": 2 ** 62, "int32": 2 ** 31 - 1, "int16": 2 ** 15 - 1, "uint8": 255}[dt])
        lo = 0 if dt == "uint8" else max(-n, -hi - 1)
        idx = [rng.choice([0, hi, lo, rng.randint(lo, hi), rng.randint(lo, hi)]) for _ in range(rng.randint(1, 4))]
        cases.append(Case("ind2sub", {"shape": shp, "idx": idx, "lay": [rng.choice(LAYOUTS), dt]}, True))
        subs = [[rng.choice([0, d - 1, rng.randrange(d)]) for d in shp] for _ in range(rng.randint(1, 3))]
        sdt = "int64" if max(shp) > 2 ** 31 - 1 else rng.choice(["int64", "int32"])
        cases.append(Case("sub2ind", {"shape": shp, "subs": subs, "lay": [rng.choice(LAYOUTS), sdt]}, True))
    # --- memory layout / dtype presentation of the SAME arguments: every helper case above may be replayed with its
    #     array arguments as Fortran-ordered, non-contiguous (strided), negative-stride views, or int32 / uint8 / int16
    #     arrays; the answer must not depend on it and no helper may write into its arguments
    extra = []
    frac = 0.35 if big else 0.2
    for c in cases:
        if c.op in LAYOUT_OPS and "lay" not in c.args and rng.random() < frac:
            lay = rng.choice(LAYOUTS[1:] + (DIMS_FORMS if c.op == "dimscheck" else ()))
            dt = rng.choice(["int64", "int64", "int32", "int16", "uint8"])
            if dt == "uint8" and _has_negative(c.args):
                dt = "int32"
            a2 = dict(c.args)
            a2["lay"] = [lay, dt]
            extra.append(Case(c.op, a2, c.nontrivial))
    return cases + extra


LAYOUTS = ("C", "F", "strided", "neg", "offset")
DIMS_FORMS = ("list", "tuple", "scalar", "col", "row")       # other admissible presentations of dims / exclude_dims
LAYOUT_OPS = ("sub2ind", "ind2sub", "dimscheck", "ismember", "intersect", "setdiff", "union", "khatrirao", "wrapdims",
              "roundtrip", "chain_rows", "prim_unique_rows", "prim_argsort", "prim_setdiff1d", "prim_isin")
KR_DTYPES = ("f8", "f4", "i8", "i4", "h8", "h4")       # h = half-integers (value / 2) stored as float64 / float32


def _has_negative(args):
    def neg(x):
        if isinstance(x, bool) or x is None or isinstance(x, str):
            return False
        if isinstance(x, (list, tuple)):
            return any(neg(y) for y in x)
        return isinstance(x, (int, float)) and x < 0
    return any(neg(v) for k_, v in args.items() if k_ not in ("N", "M", "k", "reverse"))


def _present(np, data, shape, lay, track, dtype=None):
    """the array `data` reshaped to `shape`, presented in the memory layout / dtype lay = [layout, dtype]; the array and a
    pristine copy are appended to `track` (for the no-mutation check)"""
    layout, dt = (lay or ["C", "int64"])
    base = np.array(data, dtype=dtype or dt).reshape(shape)
    if layout == "C":
        arr = np.ascontiguousarray(base)
    elif layout == "F":
        arr = np.asfortranarray(base)
    elif layout == "strided":        # every second element of a larger buffer along each axis
        big_ = np.full(tuple(2 * s_ + 1 for s_ in base.shape), 7, dtype=base.dtype)
        big_[tuple(slice(0, 2 * s_, 2) for s_ in base.shape)] = base
        arr = big_[tuple(slice(0, 2 * s_, 2) for s_ in base.shape)]
    elif layout == "neg":            # negative strides along every axis
        rev = tuple(slice(None, None, -1) for _ in base.shape)
        arr = np.ascontiguousarray(base[rev])[rev]
    else:                            # "offset": a window inside a larger C-ordered buffer
        big_ = np.full(tuple(s_ + 2 for s_ in base.shape), 9, dtype=base.dtype)
        win = tuple(slice(1, s_ + 1) for s_ in base.shape)
        big_[win] = base
        arr = big_[win]
    assert arr.shape == base.shape and np.array_equal(arr, base)
    track.append((arr, base.copy()))
    return arr


def _mutated(np, track):
    return any(not (x.shape == y.shape and x.dtype == y.dtype and np.array_equal(x, y)) for x, y in track)


def run_impl(c):
    import numpy as np
    track = []
    o = _run_impl(c, np, track)
    if "ok" in o and _mutated(np, track):
        return {"mutated": True, "ok": o["ok"]}
    return o


def _run_impl(c, np, track):
    import pyttb.pyttb_utils as U
    a = c.args
    lay = a.get("lay")

    def mat(m, k):
        return _present(np, m, (len(m), k), lay, track)

    def vec(v):
        return None if v is None else _present(np, v, (len(v),), lay, track)
    try:
        if c.op == "sub2ind":
            r = U.tt_sub2ind(tuple(a["shape"]), mat(a["subs"], len(a["shape"])), order=a.get("order", "F"))
            return {"ok": [int(x) for x in np.asarray(r).ravel()]}
        if c.op == "ind2sub":
            r = U.tt_ind2sub(tuple(a["shape"]), vec(a["idx"]), order=a.get("order", "F"))
            return {"ok": [[int(x) for x in row] for row in np.asarray(r).reshape((-1, len(a["shape"])))]}
        if c.op == "dimscheck":
            def dvec(v):       # dims / exclude_dims are "one-d array likes": list, tuple, scalar, row or column matrix too
                form = (lay or ["C"])[0]
                if v is None or form in LAYOUTS:
                    return vec(v)
                if form == "list":
                    return list(v)
                if form == "tuple":
                    return tuple(v)
                if form == "scalar" and len(v) == 1:
                    return np.int64(v[0]) if lay[1] != "int32" else int(v[0])
                if form == "col":
                    return _present(np, v, (len(v), 1), ["C", lay[1]], track)
                return _present(np, v, (1, len(v)), ["F", lay[1]], track)
            s, v = U.tt_dimscheck(a["N"], a["M"], dvec(a["dims"]), dvec(a["excl"]))
            return {"ok": [[int(x) for x in s], None if v is None else [int(x) for x in v]]}
        if c.op == "ismember":
            m, r = U.tt_ismember_rows(mat(a["a"], a["k"]), mat(a["b"], a["k"]))
            return {"ok": [[bool(x) for x in m], [int(x) for x in r]]}
        if c.op == "intersect":
            r = U.tt_intersect_rows(mat(a["a"], a["k"]), mat(a["b"], a["k"]))
            return {"ok": [int(x) for x in np.asarray(r).ravel()]}
        if c.op == "setdiff":
            r = U.tt_setdiff_rows(mat(a["a"], a["k"]), mat(a["b"], a["k"]))
            return {"ok": [int(x) for x in np.asarray(r).ravel()]}
        if c.op == "union":
            r = U.tt_union_rows(mat(a["a"], a["k"]), mat(a["b"], a["k"]))
            return {"ok": [[int(x) for x in row] for row in np.asarray(r).reshape((-1, a["k"]))]}
        if c.op == "roundtrip":
            ks = U.tt_sub2ind(tuple(a["shape"]), mat(a["subs"], len(a["shape"])))
            back = U.tt_ind2sub(tuple(a["shape"]), ks)           # pyttb's own output goes back in
            again = U.tt_sub2ind(tuple(a["shape"]), back)
            return {"ok": [[int(x) for x in np.asarray(ks).ravel()],
                           [[int(x) for x in row] for row in np.asarray(back).reshape((-1, len(a["shape"])))],
                           [int(x) for x in np.asarray(again).ravel()]]}
        if c.op == "chain_rows":
            A, B = mat(a["a"], a["k"]), mat(a["b"], a["k"])
            u = U.tt_union_rows(A, B)
            track.append((u, u.copy()))
            i = U.tt_intersect_rows(u, A)
            d = U.tt_setdiff_rows(u, B)
            m, r = U.tt_ismember_rows(A, u)
            return {"ok": [[[int(x) for x in row] for row in np.asarray(u).reshape((-1, a["k"]))],
                           [int(x) for x in np.asarray(i).ravel()], [int(x) for x in np.asarray(d).ravel()],
                           [bool(x) for x in m], [int(x) for x in r]]}
        if c.op in ("khatrirao", "khatrirao_zero"):
            from pyttb.khatrirao import khatrirao
            dts = a.get("dts") or ["f8"] * len(a["mats"])
            np_dt = {"f8": np.float64, "f4": np.float32, "i8": np.int64, "i4": np.int32, "h8": np.float64, "h4": np.float32}
            ms = []
            scale = 1
            for m, d in zip(a["mats"], dts):
                vals = [[x / 2 for x in row] for row in m] if d[0] == "h" else m
                scale *= 2 if d[0] == "h" else 1
                ms.append(_present(np, vals, (len(m), len(m[0])), [(lay or ["C"])[0], None], track, dtype=np_dt[d]))
            r = khatrirao(*ms, reverse=a["reverse"])
            out = [[float(x) * scale for x in row] for row in np.asarray(r)]
            if any(not x.is_integer() for row in out for x in row):
                return {"nonint": True, "ok": [[repr(x) for x in row] for row in out]}
            return {"ok": [[int(x) for x in row] for row in out]}
        if c.op == "fg_setup":
            import pyttb as ttb
            from pyttb.gcp import fg_setup
            from pyttb.gcp.handles import Objectives
            d = a["data"]
            if d is None:
                data = None
            elif d[0] == "dense":
                data = ttb.tensor(np.array(d[1], dtype=float).reshape((2, 2)))
            else:
                data = ttb.sptensor(np.array([[0, 0], [1, 1]]), np.array(d[1], dtype=float).reshape((2, 1)), (2, 2))
            fh, gh, lb = fg_setup.setup(Objectives[a["objective"]], data, a["param"])
            return {"ok": {"neginf": bool(lb == -np.inf), "lb": None if lb == -np.inf else float(lb)}}
        if c.op == "wrapdims":
            r, cc = U.gather_wrap_dims(a["N"], vec(a["rd"]), vec(a["cd"]), a["cy"])
            return {"ok": [[int(x) for x in np.asarray(r).ravel()], [int(x) for x in np.asarray(cc).ravel()]]}
        if c.op == "min_split":
            from pyttb.tensor import min_split
            return {"ok": int(min_split(tuple(a["shape"])))}
        if c.op == "prim_unique_rows":
            u, i = np.unique(mat(a["m"], a["k"]), axis=0, return_index=True)
            return {"ok": [[[int(x) for x in r] for r in u], [int(x) for x in i]]}
        if c.op == "prim_argsort":
            x_ = vec(a["v"])
            return {"ok": [int(x) for x in np.argsort(x_, kind="stable")], "dflt": [int(x) for x in np.argsort(x_)]}
        if c.op == "prim_setdiff1d":
            return {"ok": [int(x) for x in np.setdiff1d(vec(a["a"]), vec(a["b"]))]}
        if c.op == "prim_isin":
            return {"ok": [bool(x) for x in np.isin(vec(a["a"]), vec(a["b"]))]}
        if c.op == "prim_where1":
            return {"ok": [int(x) for x in np.arange(len(a["mask"]))[np.where(np.array(a["mask"], dtype=bool))]]}
        if c.op == "prim_range_down":
            return {"ok": [i for i in range(a["a"], a["b"], -1)]}
        if c.op == "prim_kr_step":
            P, M, R = np.array(a["P"], dtype=int), np.array(a["M"], dtype=int), a["R"]
            T = np.reshape(M, (-1, 1, R)) * np.reshape(P, (1, -1, R), order="F")
            return {"ok": [[int(x) for x in row] for row in np.reshape(T, (-1, R), order="F")]}
        if c.op == "prim_scatter":
            r = np.ones(a["n"]) * -1
            if a["idx"]:
                r[np.array(a["idx"], dtype=int)] = np.array(a["vals"])
            return {"ok": [int(x) for x in r]}
    except Exception as ex:      # any exception raised before a value is returned = rejected
        return {"exc": type(ex).__name__}
    raise ValueError(c.op)


def coq_check(c, o):
    a = c.args
    if o.get("mutated") or o.get("nonint"):
        return "false"      # a helper wrote into its argument / a product that must be integral is not: judged by the oracle
    if c.op == "sub2ind":
        exp = "Err" if "exc" in o else f"(Ok {gzlist(o['ok'])})"
        return f"res_eqb vec_eqb (tt_sub2ind {gzlist(a['shape'])} {gzmat(a['subs'])} Ord{a.get('order', 'F')}) {exp}"
    if c.op == "ind2sub":
        exp = "Err" if "exc" in o else f"(Ok {gzmat(o['ok'])})"
        return f"res_eqb mat_eqb (tt_ind2sub {gzlist(a['shape'])} {gzlist(a['idx'])} Ord{a.get('order', 'F')}) {exp}"
    if c.op == "dimscheck" and a["dims"] is not None and len(set(a["dims"])) != len(a["dims"]) and "ok" in o \
            and o["ok"][1] is not None and a["M"] == len(a["dims"]):
        # repeated modes (ill-formed, see C19): numpy's argsort order among equal keys is unspecified, so only
        # require the selected modes to agree and the observed positions to be a valid argsort of the request
        call = f"tt_dimscheck {gz(a['N'])} {gopt(a['M'], gz)} {gopt(a['dims'], gzlist)} None"
        return (f"match {call} with Ok (s_, Some _) => vec_eqb s_ {gzlist(o['ok'][0])} && "
                f"vec_eqb (np_take 0%Z {gzlist(a['dims'])} {gzlist(o['ok'][1])}) s_ && "
                f"vec_eqb (np_sort {gzlist(o['ok'][1])}) (np_arange 0%Z {gz(len(a['dims']))}) | _ => false end")
    if c.op == "dimscheck":
        exp = "Err" if "exc" in o else f"(Ok ({gzlist(o['ok'][0])}, {gopt(o['ok'][1], gzlist)}))"
        return (f"res_eqb (pair_eqb vec_eqb (opt_eqb vec_eqb)) (tt_dimscheck {gz(a['N'])} {gopt(a['M'], gz)} "
                f"{gopt(a['dims'], gzlist)} {gopt(a['excl'], gzlist)}) {exp}")
    if c.op == "ismember":
        exp = "Err" if "exc" in o else f"(Ok ({gblist(o['ok'][0])}, {gzlist(o['ok'][1])}))"
        return f"res_eqb (pair_eqb bvec_eqb vec_eqb) (tt_ismember_rows {gzmat(a['a'])} {gzmat(a['b'])}) {exp}"
    if c.op in ("intersect", "setdiff"):
        exp = "Err" if "exc" in o else f"(Ok {gzlist(o['ok'])})"
        e = f"res_eqb vec_eqb (tt_{c.op}_rows {gzmat(a['a'])} {gzmat(a['b'])}) {exp}"
        if _rows_contract(c, o) is not None:
            # wave 4: the FULL-STRENGTH contract (A[result] = the distinct common / remaining rows, each once) is judged on
            # pyttb's own output; a failure counts as a mismatch even where the generated model agrees with the code, and is
            # attributed to the open finding A-41 only on requests satisfying its exact trigger (a41_dup_before_common)
            e = f"({e}) && false"
        return e
    if c.op == "union":
        exp = "Err" if "exc" in o else f"(Ok {gzmat(o['ok'])})"
        return f"res_eqb mat_eqb (tt_union_rows {gzmat(a['a'])} {gzmat(a['b'])}) {exp}"
    if c.op == "roundtrip":
        call = (f"match tt_sub2ind {gzlist(a['shape'])} {gzmat(a['subs'])} OrdF with Err => None | Ok ks_ => "
                f"match tt_ind2sub {gzlist(a['shape'])} ks_ OrdF with Err => None | Ok back_ => "
                f"match tt_sub2ind {gzlist(a['shape'])} back_ OrdF with Err => None | Ok again_ => Some (ks_, back_, again_) end end end")
        if "exc" in o:
            return f"match {call} with None => true | Some _ => false end"
        return (f"match {call} with Some (ks_, back_, again_) => vec_eqb ks_ {gzlist(o['ok'][0])} && "
                f"mat_eqb back_ {gzmat(o['ok'][1])} && vec_eqb again_ {gzlist(o['ok'][2])} | None => false end")
    if c.op == "chain_rows":
        A, B = gzmat(a["a"]), gzmat(a["b"])
        call = (f"match tt_union_rows {A} {B} with Err => None | Ok u_ => "
                f"match tt_intersect_rows u_ {A}, tt_setdiff_rows u_ {B}, tt_ismember_rows {A} u_ with "
                f"| Ok i_, Ok d_, Ok (m_, r_) => Some (u_, i_, d_, m_, r_) | _, _, _ => None end end")
        if "exc" in o:
            return f"match {call} with None => true | Some _ => false end"
        u, i, d, m, r = o["ok"]
        return (f"match {call} with Some (u_, i_, d_, m_, r_) => mat_eqb u_ {gzmat(u)} && vec_eqb i_ {gzlist(i)} && "
                f"vec_eqb d_ {gzlist(d)} && bvec_eqb m_ {gblist(m)} && vec_eqb r_ {gzlist(r)} | None => false end")
    if c.op == "khatrirao":
        ms = "[" + "; ".join(gzmat(m) for m in a["mats"]) + "]"
        exp = "None" if "exc" in o else f"(Some {gzmat(o['ok'])})"
        rexp = "Err" if "exc" in o else f"(Ok {gzmat(o['ok'])})"
        rv = 'true' if a['reverse'] else 'false'
        return (f"opt_eqb mat_eqb (khatrirao Z Z.mul {rv} {ms}) {exp} && "
                f"res_eqb mat_eqb (GenKernels.khatrirao {ms} {rv}) {rexp}")
    if c.op == "khatrirao_zero":
        ms = "[" + "; ".join(gzmat(m) for m in a["mats"]) + "]" if a["mats"] else "(@nil (list (list Z)))"
        rexp = "Err" if "exc" in o else f"(Ok {gzmat(o['ok'])})"
        return f"res_eqb mat_eqb (GenKernels.khatrirao {ms} {'true' if a['reverse'] else 'false'}) {rexp}"
    if c.op == "fg_setup":
        d = a["data"]
        if d is None:
            dtxt = "None"
        else:       # the flags are computed here, independently, from the entry-wise reading in Gen/GenFgSetup.v
            vals = d[1]
            binary = all(v == 1 for v in vals) if d[0] == "sparse" else all(v in (0, 1) for v in vals)
            natural = all(float(v).is_integer() for v in vals)
            nonneg = all(v > 0 for v in vals)
            dtxt = ("(Some (GenFgSetup.Build_datachk " + " ".join("true" if b else "false" for b in (binary, natural, nonneg)) + "))")
        ptxt = "None" if a["param"] is None else f"(Some (IZR {gz(a['param'])}))"
        call = f"GenFgSetup.setup GenFgSetup.{a['objective']} {dtxt} {ptxt}"
        if "exc" in o:
            return f"match {call} with None => true | Some _ => false end"
        want = "GenFgSetup.NegInf => true | GenFgSetup.Finite _ => false" if o["ok"]["neginf"] else "GenFgSetup.NegInf => false | GenFgSetup.Finite _ => true"
        return f"match {call} with Some (_, _, lb_) => match lb_ with {want} end | None => false end"
    if c.op == "wrapdims":
        cy = {None: "None", "fc": "(Some CycFC)", "bc": "(Some CycBC)", "t": "(Some CycT)"}.get(a["cy"], "(Some CycOther)")
        exp = "Err" if "exc" in o else f"(Ok ({gzlist(o['ok'][0])}, {gzlist(o['ok'][1])}))"
        return (f"res_eqb (pair_eqb vec_eqb vec_eqb) (gather_wrap_dims {gz(a['N'])} {gopt(a['rd'], gzlist)} "
                f"{gopt(a['cd'], gzlist)} {cy}) {exp}")
    if c.op == "min_split":
        exp = "Err" if "exc" in o else f"(Ok {gz(o['ok'])})"
        return f"res_eqb Z.eqb (min_split {gzlist(a['shape'])}) {exp}"
    if c.op.startswith("prim_") and "exc" in o:
        return "false"
    if c.op == "prim_unique_rows":
        return f"pair_eqb mat_eqb vec_eqb (np_unique_rows {gzmat(a['m'])}) ({gzmat(o['ok'][0])}, {gzlist(o['ok'][1])})"
    if c.op == "prim_argsort":       # stable kind: equality with the model; default kind: any valid argsort
        return (f"vec_eqb (np_argsort {gzlist(a['v'])}) {gzlist(o['ok'])} && "
                f"vec_eqb (np_sort {gzlist(o['dflt'])}) (np_arange 0%Z {gz(len(a['v']))}) && "
                f"vec_eqb (np_take 0%Z {gzlist(a['v'])} {gzlist(o['dflt'])}) (np_sort {gzlist(a['v'])})")
    if c.op == "prim_setdiff1d":
        return f"vec_eqb (np_setdiff1d {gzlist(a['a'])} {gzlist(a['b'])}) {gzlist(o['ok'])}"
    if c.op == "prim_isin":
        return f"bvec_eqb (np_isin {gzlist(a['a'])} {gzlist(a['b'])}) {gblist(o['ok'])}"
    if c.op == "prim_where1":
        return f"vec_eqb (np_where1 {gblist(a['mask'])}) {gzlist(o['ok'])}"
    if c.op == "prim_range_down":
        return f"vec_eqb (np_arange_down {gz(a['a'])} {gz(a['b'])}) {gzlist(o['ok'])}"
    if c.op == "prim_kr_step":
        return (f"np_reshape_ok {gzmat(a['P'])} {gz(a['R'])} && np_reshape_ok {gzmat(a['M'])} {gz(a['R'])} && "
                f"mat_eqb (np_reshape_rows (np_kr_step {gzmat(a['P'])} {gzmat(a['M'])}) {gz(a['R'])}) {gzmat(o['ok'])}")
    if c.op == "prim_scatter":
        return f"vec_eqb (np_scatter (np_full {gz(a['n'])} (-1)%Z) {gzlist(a['idx'])} {gzlist(a['vals'])}) {gzlist(o['ok'])}"
    raise ValueError(c.op)


def oracle(c, o):
    """independent brute-force statement of what C17 demands of pyttb's output (pure Python, no numpy)"""
    a = c.args
    if o.get("mutated"):
        return f"{c.op} wrote into its argument array(s) (presentation {a.get('lay')})"
    if o.get("nonint"):
        return (f"Khatri-Rao product of matrices with dtypes {a.get('dts')} is {o['ok']} (scaled by 2 per half-integer "
                "operand): not the exact product of the entries")
    if c.op in ("sub2ind", "ind2sub") and a.get("order") == "C":
        # last subscript fastest = first-subscript-fastest on the reversed shape / reversed subscripts
        a = dict(a, shape=a["shape"][::-1], order="F")
        if c.op == "sub2ind":
            a["subs"] = [r[::-1] for r in a["subs"]]
        elif "ok" in o:
            o = {"ok": [r[::-1] for r in o["ok"]]}
    if c.op == "sub2ind":
        shp = a["shape"]
        valid = all(len(r) == len(shp) and all(0 <= x < d for x, d in zip(r, shp)) for r in a["subs"])
        if not valid:
            return None if "exc" in o else "out-of-range subscript was answered, not rejected"
        exp = []
        for r in a["subs"]:
            k, mul = 0, 1
            for x, d in zip(r, shp):
                k += x * mul
                mul *= d
            exp.append(k)
        if o.get("ok") != exp:
            return f"tt_sub2ind returned {o} but first-index-fastest linear indices are {exp}"
        return None
    if c.op == "ind2sub":
        import math
        shp = a["shape"]
        n = math.prod(shp)
        if any(not (-n <= k < n) for k in a["idx"]):
            return None if "exc" in o else "out-of-range linear index was answered"
        exp = []
        for k in a["idx"]:
            k = k + n if k < 0 else k
            row = []
            for d in shp:
                row.append(k % d)
                k //= d
            exp.append(row)
        if o.get("ok") != exp:
            return f"tt_ind2sub returned {o} expected {exp}"
        return None
    if c.op == "dimscheck":
        N, M, dims, excl = a["N"], a["M"], a["dims"], a["excl"]
        if dims is not None and excl is not None:
            return None if "exc" in o else "both dims and exclude_dims accepted"
        if excl is not None:
            if any(not (0 <= x < N) for x in excl):
                return None if "exc" in o else "out-of-range exclude_dims accepted"
            d = [x for x in range(N) if x not in excl]
            given = d
        elif dims is not None:
            if any(x < 0 for x in dims):
                return None if "exc" in o else "negative dims accepted"
            if len(set(dims)) != len(dims) or any(x >= N for x in dims):
                return None      # repeated / too-large modes: C19 territory (known A-42); not judged here
            given = dims
            d = sorted(dims)
        else:
            given = d = list(range(N))
        P = len(d)
        if M is not None and (M > N or M not in (N, P)):
            return None if "exc" in o else "inadmissible multiplicand count accepted"
        if "exc" in o:
            return f"admissible request rejected ({o['exc']})"
        s, v = o["ok"]
        if s != d:
            return f"selected modes {s} != sorted modes {d}"
        if M is None:
            return None if v is None else "vidx returned without M"
        if v is None:
            return "no multiplicand positions returned"
        for k in range(P):
            want = given.index(d[k]) if M == P else d[k]
            if v[k] != want:
                return f"multiplicand position for mode {d[k]} is {v[k]}, expected {want}"
        return None
    if c.op == "ismember":
        A, B = a["a"], a["b"]
        if "exc" in o:
            return "rejected"
        m, r = o["ok"]
        for i, row in enumerate(A):
            if row in B:
                if not m[i] or B[r[i]] != row:
                    return f"search row {i} is in source but result {r[i]} does not locate it"
            elif m[i] or r[i] != -1:
                return f"search row {i} absent from source but reported {r[i]}"
        return None
    if c.op in ("intersect", "setdiff"):
        return _rows_contract(c, o)
    if c.op == "fg_setup":
        # losses that evaluate log(model + EPS) or divide by (model + EPS) are differentiable only for model >= 0
        need_zero = a["objective"] in ("BERNOULLI_ODDS", "POISSON", "RAYLEIGH", "GAMMA", "NEGATIVE_BINOMIAL", "BETA")
        needs_param = a["objective"] in ("HUBER", "NEGATIVE_BINOMIAL", "BETA")
        if "exc" in o:
            if a["data"] is None and (a["param"] is not None or not needs_param):
                return f"objective {a['objective']} rejected without data to object to ({o['exc']})"
            return None
        if needs_param and a["param"] is None:
            return f"objective {a['objective']} accepted without its extra parameter"
        if need_zero and o["ok"]["neginf"]:
            return f"objective {a['objective']} gets no lower bound although its loss is only defined for model >= 0"
        if need_zero and o["ok"]["lb"] != 0:
            return f"objective {a['objective']} gets lower bound {o['ok']['lb']} instead of 0"
        if not need_zero and not o["ok"]["neginf"]:
            return f"objective {a['objective']} is given the lower bound {o['ok']['lb']} although it is defined on all reals"
        return None
    if c.op == "wrapdims":
        N, rd, cd, cy = a["N"], a["rd"], a["cd"], a["cy"]

        def modes_ok(d):
            return len(set(d)) == len(d) and all(0 <= x < N for x in d)
        if rd is None and cd is None:
            return None if "exc" in o else "request without rows and columns was answered"
        if rd is not None and cd is not None:
            adm = sorted(rd + cd) == list(range(N))
        else:
            adm = modes_ok(rd if rd is not None else cd)
        single = rd is not None and cd is None and len(rd) == 1
        if single and cy not in (None, "fc", "bc", "t"):
            return None if "exc" in o else "unrecognised cyclic pattern was answered"
        if not adm:
            return None      # ill-formed mode lists: C19 territory
        if "exc" in o:
            return f"admissible request rejected ({o['exc']})"
        r, cc = o["ok"]
        if sorted(r + cc) != list(range(N)):
            return f"rows {r} and columns {cc} do not partition the modes 0..{N - 1}"
        rest = lambda d: [x for x in range(N) if x not in d]
        if rd is not None and cd is not None:
            want = (rd, cd)
        elif rd is None:
            want = (rest(cd), cd)
        elif single and cy == "t":
            want = (rest(rd), rd)
        elif single and cy == "fc":
            want = (rd, list(range(rd[0] + 1, N)) + list(range(0, rd[0])))
        elif single and cy == "bc":
            want = (rd, list(range(rd[0] - 1, -1, -1)) + list(range(N - 1, rd[0], -1)))
        else:
            want = (rd, rest(rd))
        if (r, cc) != (list(want[0]), list(want[1])):
            return f"(rdims, cdims) = {(r, cc)} but the documented convention gives {want}"
        return None
    if c.op == "min_split":
        shp = a["shape"]
        N = len(shp)
        if N < 2 or any(d <= 0 for d in shp):
            return None          # the property speaks about N >= 2 modes of positive size
        if "exc" in o:
            return f"admissible shape rejected ({o['exc']})"
        k = o["ok"]
        if not (0 <= k <= N - 2):
            return f"split index {k} outside [0, {N - 2}]: a partial Khatri-Rao product would be empty"

        def pr(l):
            p = 1
            for d in l:
                p *= d
            return p
        for j in range(1, k + 1):
            if not pr(shp[:j]) < pr(shp[j + 1:]):
                return f"mode {j} was moved left although prod(shape[:{j}]) >= prod(shape[{j + 1}:])"
        if not pr(shp[k + 2:]) <= pr(shp[:k + 1]):
            return f"scan stopped at {k} although mode {k + 1} would still reduce the footprint"
        return None
    if c.op == "union":
        A, B = a["a"], a["b"]
        if "exc" in o:
            return f"rejected ({o['exc']})"

        def first_occurrences(rows):
            out = []
            for r in rows:
                if r not in out:
                    out.append(r)
            return out
        # set union, every row once (theorem C17_union_rows): new rows of B in order of first occurrence, then those of A
        want = first_occurrences([r for r in B if r not in A]) + first_occurrences(A)
        if o["ok"] != want:
            return f"union {o['ok']} is not (distinct rows of B not in A, in B's order) + (distinct rows of A) = {want}"
        return None
    if c.op == "roundtrip":
        if "exc" in o:
            return f"in-range subscripts rejected somewhere in sub2ind -> ind2sub -> sub2ind ({o['exc']})"
        ks, back, again = o["ok"]
        if back != a["subs"] or again != ks:
            return f"sub2ind -> ind2sub -> sub2ind is not the identity: {a['subs']} -> {ks} -> {back} -> {again}"
        return None
    if c.op == "chain_rows":
        if "exc" in o:
            return f"rejected ({o['exc']})"
        A, B = a["a"], a["b"]
        u, i, d, m, r = o["ok"]
        dA = [x for n_, x in enumerate(A) if x not in A[:n_]]
        if any(not (0 <= x < len(u)) for x in i + d):
            return "index outside the union"
        if [u[x] for x in i] != dA:
            return f"union(A, B)[intersect(union(A, B), A)] = {[u[x] for x in i]} is not the distinct rows of A {dA}"
        if sorted(u[x] for x in d) != sorted(x for x in dA if x not in B):
            return f"union(A, B)[setdiff(union(A, B), B)] = {[u[x] for x in d]} is not rows(A) minus rows(B)"
        if not all(m) or [u[x] for x in r] != A:
            return f"rows of A not located in union(A, B): {m}, {r}"
        return None
    if c.op == "prim_argsort":
        v = a["v"]
        if "exc" in o:
            return f"np.argsort rejected an integer vector ({o['exc']})"
        want = sorted(range(len(v)), key=lambda i_: (v[i_], i_))
        if o["ok"] != want:
            return f"np.argsort(kind='stable') = {o['ok']} is not the (key, position)-ordered permutation {want}"
        d = o["dflt"]
        if sorted(d) != list(range(len(v))) or any(v[d[i_]] > v[d[i_ + 1]] for i_ in range(len(d) - 1)):
            return f"np.argsort (default kind) = {d} is not a valid argsort of {v}"
        return None
    if c.op == "khatrirao":
        mats = a["mats"][::-1] if a["reverse"] else a["mats"]
        R = len(mats[0][0])
        if any(len(row) != R for m in mats for row in m):
            return None if "exc" in o else "matrices with different column counts were answered"
        if "exc" in o:
            return f"admissible Khatri-Rao product rejected ({o['exc']})"
        rows = [[1] * R]
        for m in mats:         # first argument slowest
            rows = [[p[r] * q[r] for r in range(R)] for p in rows for q in m]
        if o["ok"] != rows:
            return f"result {o['ok']} is not the column-wise Kronecker product {rows}"
        return None
    return None


def _rows_contract(c, o):
    """full-strength reading of the property for tt_intersect_rows / tt_setdiff_rows, for ALL arguments (repeated rows
    included): the result holds row indices of A, and A[result] is exactly the set of distinct rows of A that do (intersect) /
    do not (setdiff) occur in B, each once"""
    A, B = c.args["a"], c.args["b"]
    if "exc" in o:
        return f"rejected ({o['exc']})"
    if "ok" not in o:
        return None
    if any(not (0 <= i < len(A)) for i in o["ok"]):
        return "index outside the first argument"
    rows = [A[i] for i in o["ok"]]
    dA = [x for n_, x in enumerate(A) if x not in A[:n_]]
    want = [r for r in dA if (r in B) == (c.op == "intersect")]
    if sorted(map(tuple, rows)) != sorted(map(tuple, want)):
        return (f"A[{o['ok']}] = {rows[:8]}{'...' if len(rows) > 8 else ''} is not the set-algebra answer "
                f"{want[:8]}{'...' if len(want) > 8 else ''} (distinct rows of A {'in' if c.op == 'intersect' else 'not in'} B, each once)")
    return None


# ---- known findings -----------------------------------------------------------------------------------------

def _a41_dup_before_common(c):
    """A-41, exact request-level trigger = a41_trigger of Proofs/C17A41.v: some row r of A that also occurs in B is not the row of
    A at position rank_A(r) (its rank among the distinct rows of A) — i.e. r's first occurrence in A comes after a repeated row
    of A. Theorems over the regenerated helpers (wave 5, Proofs/C17A41b.v): BOTH helpers meet the contract judged by
    _rows_contract (A[result] = the distinct rows of A in / not in B as a multiset) IF AND ONLY IF the request is outside this
    class (C17_a41_intersect_perm_exact, C17_a41_setdiff_perm_exact; ordered versions C17_a41_intersect_exact,
    C17_a41_setdiff_exact), so a contract failure outside the trigger cannot come from the code the theorems are stated over."""
    if c.op not in ("intersect", "setdiff"):
        return False
    A, B = c.args["a"], c.args["b"]
    dA = []
    for r in A:
        if r not in dA:
            dA.append(r)
    return any(A[rank] != r for rank, r in enumerate(dA) if r in B)


def _union_witness():
    """C17-UNION: tt_union_rows with a duplicate-free second argument that is not in lexicographic row order"""
    import numpy as np
    import pyttb.pyttb_utils as U
    A = np.array([[1, 2]])
    B = np.array([[5, 5], [0, 0], [1, 2]])
    got = [[int(x) for x in r] for r in U.tt_union_rows(A.copy(), B.copy())]
    want = [[5, 5], [0, 0], [1, 2]]
    if got != want:
        return f"tt_union_rows([[1,2]], [[5,5],[0,0],[1,2]]) = {got}, expected {want}"
    return None


def _union_unsorted_b(c):
    if c.op != "union":
        return False
    b = [tuple(r) for r in c.args["b"]]
    return b != sorted(set(b))


def _dupA_witness():
    """A-41: intersect / setdiff with repeated rows in the first argument (the generated model is faithful to the code, so
    no correspondence mismatch arises and no trigger is needed; the theorems C17_*_dupA_refuted carry the refutation)"""
    import numpy as np
    import pyttb.pyttb_utils as U
    A = np.array([[1], [1], [2]])
    B = np.array([[2]])
    i = [int(x) for x in U.tt_intersect_rows(A.copy(), B.copy())]
    d = [int(x) for x in U.tt_setdiff_rows(A.copy(), B.copy())]
    if i != [2] or d != [0]:
        return (f"A=[[1],[1],[2]], B=[[2]]: tt_intersect_rows = {i} (row 2 of A is the common row), "
                f"tt_setdiff_rows = {d} (only row 0 / its repeat is not in B)")
    return None


def _wrap_unsigned_bc0(c):
    a = c.args
    return (c.op == "wrapdims" and (a.get("lay") or ["", ""])[1].startswith("uint") and a["cy"] == "bc"
            and a["rd"] == [0] and a["cd"] is None)


def _wrap_uint_witness():
    import numpy as np
    import pyttb.pyttb_utils as U
    with np.errstate(over="ignore"):
        r, cc = U.gather_wrap_dims(3, np.array([0], dtype=np.uint8), None, "bc")
    got = ([int(x) for x in r], [int(x) for x in cc])
    if got != ([0], [2, 1]):
        return f"gather_wrap_dims(3, uint8 [0], None, 'bc') = ({got[0]}, {got[1][:4]}... {len(got[1])} modes), expected ([0], [2, 1])"
    return None


_DT_MAX = {"uint8": 255, "int8": 127, "int16": 2 ** 15 - 1, "int32": 2 ** 31 - 1}


def _ind2sub_narrow_dtype(c):
    """C17-IND2SUB-DTYPE: index array of a narrow integer dtype and a tensor with more cells than that dtype can hold"""
    import math
    if c.op != "ind2sub" or not c.args["idx"]:
        return False
    dt = (c.args.get("lay") or ["", "int64"])[1]
    return dt in _DT_MAX and math.prod(c.args["shape"]) > _DT_MAX[dt]


def _ind2sub_dtype_witness():
    import numpy as np
    import pyttb.pyttb_utils as U
    try:
        got = [[int(x) for x in r] for r in U.tt_ind2sub((16, 16), np.array([3], dtype=np.uint8))]
    except Exception as ex:
        return f"tt_ind2sub((16, 16), uint8 [3]) raises {type(ex).__name__}: {ex}"
    return None if got == [[3, 0]] else f"tt_ind2sub((16, 16), uint8 [3]) = {got}"


TRIGGERS = {"union_unsorted_b": _union_unsorted_b, "ind2sub_narrow_dtype": _ind2sub_narrow_dtype, "wrap_unsigned_bc0": _wrap_unsigned_bc0,
            "a41_dup_before_common": _a41_dup_before_common}
WITNESSES = {"C17-UNION": _union_witness, "A-41": _dupA_witness, "C17-WRAP-UINT": _wrap_uint_witness,
             "C17-IND2SUB-DTYPE": _ind2sub_dtype_witness}
