"""C10 — Tucker decompositions meet their error bound and structural contract (DESIGN §C10).

hosvd / tucker_als are run on small integer tensors; the returned factors/core go to Coq as exact rationals (floats
rounded to the 2^-40 grid) where orthonormality, the core relation, the error bound, the rank rule (against a
certificate-checked spectrum) and the reported fit are recomputed exactly (Model/C10Check.v)."""
import contextlib
import io
import itertools
import math
import re
import warnings
from fractions import Fraction

from vcheck import Case, gnlist, gq, gbool
import tgen

PROP = "C10"
LEVEL = "proof"
INCLUDE = ['w4s_c10', 'w4s_c10c']   # wave 4 (lead, integration): generated skeletons of hosvd mode loop / tucker_als main loop: bridge theorems + replay streams
GEN_UNITS = ["GenHosvd", "GenTuckerAls"]      # control-flow skeletons (tools/pyx2v_skel.py) of hosvd's mode loop (Props/C10Gen.v is stated over it) and of the main part of tucker_als (Props/C10W5.v)
SHARD = 6
COQ_TARGETS = ["Props/C10.vo", "Props/C10Loop.vo", "Props/C10W3b.vo", "Props/C10W4.vo", "Props/C10Gen.vo", "Props/C10W5.vo", "Props/C10W5k.vo", "Props/C10W8.vo", "Proofs/W4SHosvd.vo", "Proofs/W4SHosvdR.vo", "Proofs/W4STucker.vo", "Model/C10Check.vo", "Model/C10KernelCheck.vo", "Proofs/C10Kernel.vo", "Model/Harness.vo"]
THEOREM_FILES = ["Props/C10.v", "Props/C10Loop.v", "Props/C10W3b.v", "Props/C10W4.v", "Props/C10Gen.v", "Props/C10W5.v", "Props/C10W5k.v", "Props/C10W8.v"]
COQ_IMPORTS = ("From Coq Require Import List ZArith Bool QArith Qcanon.\n"
               "From PV Require Import Base.Index Np.Array Model.Sparse Model.Repr Model.Harness Model.C10Tucker Model.C10Check Model.C10KernelCheck.\n")
RULE = ("integer tensors <= 4x3x3 (1- to 4-way, singleton modes, low-rank + noise, full random, graded spectra with component weights "
        "2^(g*j)) times a power of two 2^sexp, sexp in {-40..40} and sexp with ||2^sexp X||^2 just above 2^-52 (entries down to 1e-12 / up to 1e12: every hosvd / tucker_als case also runs "
        "as a scaled copy; the returned core is de-scaled exactly by 2^-sexp before the exact recomputation, so every checked relation "
        "is the scale-free one), tolerances {1e-5, 1e-3, 1e-2, 0.05..0.9}, "
        "narrow integer / logical holders (uint8/int8/int16/int32/bool; values 0..255, 0..15 (no square wraps), multiples of 16 (squares 0 mod 256), 182..255 (squares negative in int16); "
        "the starting factors returned by tucker_als(init='nvecs') must span invariant subspaces of the mode Gram matrices of the data; hosvd_print = the same request at the "
        "default verbosity: printed ||X-T||/||X|| = recomputed, no warning, no crash, and the rank rule; the witnesses of the repaired finding C10-N02 (squares wrapping to 0 / negative in uint8 / int16) are fixed regression cases), "
        "rank vectors within the mode sizes (all given, all automatic, mixed given/automatic), sequential True/False, all/random mode "
        "orders, the caller's ranks array observed after the call, tucker_als with list/nvecs/random init, maxiters 0..4 (0 must be rejected: finding C10-N01), stoptol {0, 1e-4, 1e-2, 0.3}: the stop rule is evaluated in Coq "
        "(transliterated loop replaying the per-iteration fits = reported fits of the runs truncated at 1..k iterations, cross-checked with the lines printed by the run itself); "
        "wave 4 variants of sampled cases: data held C-contiguous / as a non-contiguous view / in a tensor grown by out-of-bounds assignment, second call on the same object (data array must stay untouched), dimorder=None, scalar rank, init='eigs', init = hosvd factors, verbosity=10; wave 5: tall unfoldings (requested rank above the column count of the — sequentially shrunk — unfolding), int32 / int16 data near the top of the holder's range; the two ttm kernels of tucker_als' main loop as called (op tals_kernels: exclude_dims / single mode, transpose=True, integer factor lists, U[n] = None); holders int8 and bool (logical tensors: same answers as the float64 holder of the same 0/1 values; repaired finding C10-N03, /repo 08011d5); "
        "non-trivial = more than one cell per two modes and a truncation is possible; distinct = distinct (op,args)")
CORRESPONDENCE_ONLY = ["eigen-decomposition (LAPACK eigh / ARPACK eigsh): certificate-checked oracle (W orthogonal, G W = W diag(mu) on the Gram matrix of the "
                       "tensor hosvd looks at) — exactly the hypotheses run_ok / emode_ok of C10_gen_hosvd_error_bound / C10_concrete_hosvd_eigen_bound and nvecs_eigen of "
                       "C10_gen_tals_eigen; the Ky-Fan optimality of the leading eigenvectors is PROVED since wave 5 (C10_kyfan_energy); it is still the stated "
                       "eigen-oracle contract (hooi_steps) of the older abstract-space theorems C10_hooi_monotone / C10_hooi_fit_monotone",
                       "the numeric kernels of the GENERATED hosvd loop (Gen/GenHosvd.v: k_unfold, k_gram, k_eigh, k_argsort_desc, k_take, k_select_cols, k_shrink) "
                       "are opaque: their contracts (run_ok, shrink_reads_k) are hypotheses of Props/C10Gen.v; hosvd's argument validation, normxsqr / eigsumthresh "
                       "and the final core extraction (`G = Y` when sequential — for which C10_gen_hosvd_seq_core gives the core relation — else Y.ttm(factor_matrices, transpose=True)) "
                       "lie outside the generated region (hand transliteration hosvd_run, tied by observations)",
                       "the numeric kernels of the GENERATED tucker_als main part (Gen/GenTuckerAls.v: k_ttm_excl, k_nvecs, k_ttm_core, k_resid, k_fit, k_absdiff, "
                       "k_ttensor) are opaque: their contracts (excl_spec, core_spec — tied to pyttb's tensor.ttm AS CALLED by the correspondence op tals_kernels on the Qc instance of "
                       "the same value-generic definitions, C10_excl_is_model / C10_core_is_model —, resid_spec, fit_spec, ttensor_spec; per-run nvecs contract sweeps_ok with "
                       "step_ortho / step_opt or the eigen contract nvecs_eigen) are hypotheses of Props/C10W5.v; tucker_als' argument validation, the starting "
                       "guess (random / nvecs / list) and normX = input_tensor.norm() lie outside the generated region (tied by observations: ranks, iters, "
                       "per-iteration fit trace replayed through the loop model, printed lines)",
                       "printed relative error of hosvd (default verbosity) against the exact recomputation"]
ASSUMPTIONS = ["floats are converted to rationals after rounding to the 2^-40 grid (abs. error <= 5e-13, inside the 1e-9 tolerance)",
               "theorems are over exact real arithmetic (stdlib Reals axioms); IEEE rounding is not modelled",
               "scaled copies: data * 2^sexp is exact in binary floating point, the returned core is multiplied by 2^-sexp (exact) and "
               "compared with the relations of the unscaled integer data (all checked relations are homogeneous)",
               "C10_spectral_step / C10_hosvd_error_bound take the orthonormal eigenbasis as hypothesis (projectors Q_j resolving the "
               "identity, lambda_j = ||Q_j y||^2); for concrete tensors this form is derived (Props/C10W4.v) from the matrix form W^T W = W W^T = I, "
               "G W = W diag(mu), which stays a hypothesis; on the samples the LAPACK output is certificate-checked in Qc in exactly that form",
               "Props/C10Gen.v: the kernels of the generated loop are arbitrary functions; `k_shrink Y factor_matrices k` is assumed to read only "
               "factor_matrices[k] (the skeleton translator abstracts the index expression into the kernel)",
               "Props/C10W5.v: `k_ttm_excl X U n true` is assumed to be X x_m U_m^T over the modes m <> n in ascending order (tensor.ttm with exclude_dims; "
               "the mode products commute, C10_ttm_comm_dense), normX = sqrt(||X||^2) is a hypothesis (tucker_als computes it before the generated region), "
               "the data is non-zero in the monotonicity clause"]
EXPLANATION = ("C10_rank_choice / C10_given_ranks / C10_ncols: theorems about the transliterated rank rule and slice of the repaired hosvd; "
               "C10_spectral_step: discarded eigenvalues = discarded projector energy; C10_hosvd_error_bound: rank rule per mode ==> relative "
               "error <= tol for both strategies and every mode order; C10_hooi_monotone / C10_hooi_fit_monotone: ||core|| and the fit never "
               "decrease under the eigen-oracle contract; C10_tucker_als_fit: fit identity; C10_frob_space .. C10_concrete_fit / C10_ttm_is_projector: "
               "the abstract space and projectors instantiated by dense real tensors and ttm with U U^T; Props/C10Loop.v: bookkeeping of the "
               "transliterated hosvd / tucker_als loops (validation, ranks, modes treated once, iteration count, fit trace, stop rule); Props/C10W3b.v: C10_tucker_full "
               "(the reconstruction recomputed by the correspondence = pyttb's ttm kernel over all modes = den_t), C10_stop_rule_check (soundness of the stop-rule check run on "
               "every sampled tucker_als trace), Props/C10W4.v: the spectral step, the error bound and the reconstruction for CONCRETE dense real tensors down to the "
               "matrix eigen-equation G W = W diag(mu) (C10_concrete_spectral_step, C10_rayleigh, C10_energies_eigen, C10_recon_is_projection, C10_concrete_hosvd_eigen_bound; "
               "sequential case on the shrunk tensors: C10_gram_isometry .. C10_concrete_hosvd_seq_bound); Props/C10Gen.v: the translator-GENERATED hosvd loop = the hand loop "
               "model, its bookkeeping, and the error bound for what the generated loop returns (C10_gen_loop_is_hand_loop, C10_gen_hosvd_bookkeeping, C10_gen_hosvd_error_bound); "
               "Props/C10W5.v (wave 5): the Tucker-ALS clauses over the translator-GENERATED main part of tucker_als (Gen/GenTuckerAls.v) with real tensors: the function returns for every "
               "valid request with maxiters > 0 and hands back the caller's Uinit (C10_gen_tals_total), returns orthonormal factors of the requested ranks with core = X x_n U_n^T over all modes "
               "and reports normresidual / fit equal to the recomputed ||X - T|| and 1 - ||X - T||/||X|| (C10_gen_tals_result), the fits of its iterations never decrease "
               "(C10_gen_tals_monotone); KY-FAN maximality of the leading eigenvectors proved (C10_kyfan_weights, C10_energy_gram, C10_kyfan_energy), so that all clauses hold under the "
               "eigen-solver contract of the nvecs calls alone (C10_nvecs_eigen_step_both, C10_gen_tals_eigen); the stop rule of the generated function over the reals (C10_gen_tals_stop_rule); "
               "hosvd with sequential truncation and ANY mode order: mode products along distinct modes commute in any order (C10_ttm_order_perm), so the tensor left over by the sequential shrinks — "
               "the core returned by the GENERATED mode loop — is X x_n U_n^T over all modes (C10_seq_core, C10_gen_hosvd_seq_core); the structural contract of hosvd over the generated loop "
               "(C10_gen_hosvd_structure: factor k is I_k x ranks[k] with orthonormal columns, ranks EXACTLY the requested ones when given and in 1..I_k when automatic (C10_auto_rank_range), "
               "both strategies, every mode order, under the per-run eigen-solver contract run_ok); Props/C10W5k.v: the mode-product kernel contracts are the real instance of the "
               "value-generic model the correspondence op tals_kernels evaluates in Qc against tensor.ttm as tucker_als calls it (C10_excl_is_model, C10_core_is_model); "
               "C10_wrapped_normsq_le / C10_smaller_budget_safe (a squared norm formed in a wrapping integer type — the repaired finding C10-N02 — could not break the error bound); the correspondence recomputes every claimed "
               "relation exactly in Qc on pyttb's returned factors and core.")

GRID = 2 ** 40


def rq(x):
    """float -> Fraction on the 2^-40 grid"""
    x = float(x)
    if x != x or x in (float("inf"), float("-inf")):
        raise ValueError("non-finite value")
    return Fraction(round(x * GRID), GRID)


def gqmat(m):
    if not m:
        return "(@nil (list Qc))"
    return "[" + "; ".join(("(@nil Qc)" if not r else "[" + "; ".join(gq(x) for x in r) + "]") for r in m) + "]"


def gqlist(l):
    return "(@nil Qc)" if not l else "[" + "; ".join(gq(x) for x in l) + "]"


def gqtt(core_shape, core_data, factors):
    return f"(mkT {tgen.gqdense(core_shape, core_data)} [" + "; ".join(gqmat(f) for f in factors) + "])"


# ---------------------------------------------------------------- generators
def _lowrank(rng, shp, r, noise):
    """sum of r integer outer products (+ sparse integer noise): F-order list"""
    subs = tgen.all_subs(shp)
    data = [0] * len(subs)
    for _ in range(r):
        vecs = [[rng.randint(-2, 3) for _ in range(d)] for d in shp]
        w = rng.choice([1, 2, 5])
        for k, s in enumerate(subs):
            data[k] += w * math.prod(vecs[n][s[n]] for n in range(len(shp)))
    for k in range(len(data)):
        if rng.random() < noise:
            data[k] += rng.choice([-1, 1])
    return data


def _tensor(rng, shp):
    for _ in range(50):
        kind = rng.random()
        if kind < 0.45:
            data = tgen.rand_dense(rng, shp, rng.choice([0.6, 1.0]))
        else:
            data = _lowrank(rng, shp, rng.choice([1, 1, 2]), rng.choice([0.0, 0.15, 0.3]))
        if any(data):
            return data
    return [1] * math.prod(shp)


def _graded(rng, shp, g):
    """graded spectrum: components with weights 2^(g*j), j = r-1..0 (integer data), + sparse unit noise"""
    subs = tgen.all_subs(shp)
    data = [0] * len(subs)
    r = rng.choice([2, 3])
    for j in range(r):
        vecs = [[rng.choice([-2, -1, 1, 2, 3]) for _ in range(d)] for d in shp]
        w = 2 ** (g * (r - 1 - j))
        for k, sb in enumerate(subs):
            data[k] += w * math.prod(vecs[n][sb[n]] for n in range(len(shp)))
    for k in range(len(data)):
        if rng.random() < 0.3:
            data[k] += rng.choice([-1, 1])
    return data if any(data) else [1] * len(data)


SMALL = [-40, -30, -24, -20, -17]     # 2^-40 ~ 9e-13, 2^-30 ~ 9e-10, 2^-24 ~ 6e-8, 2^-20 ~ 1e-6, 2^-17 ~ 8e-6
LARGE = [17, 24, 30, 40]
MID = [-10, -3, 5, 11]
TIGHT = [Fraction(1, 100), Fraction(1, 1000), Fraction(1, 100000)]


def _near_eps_exp(rng, data):
    """exponent k with ||2^k X||^2 a little above the double-precision unit round-off 2^-52 (between 2^-52 and 2^-40): the
    magnitude at which an absolute floor / additive constant of the size of eps in a squared-norm quantity starts to matter"""
    n2 = sum(x * x for x in data)
    return -((n2.bit_length() + 52) // 2) + rng.randint(1, 6)


def _scaled_copies(rng, base, big):
    """every case again with data * 2^sexp: one small, (one large), automatic-rank hosvd: one with ||X||^2 near eps; thorough: + one moderate"""
    out = []
    for c in base:
        if "dtype" in c.args or c.op == "tals_kernels":             # integer holders cannot be scaled by 2^sexp; kernel cases stay exact integers
            out.append(c)
            continue
        ks = [rng.choice(SMALL)]
        if big or rng.random() < 0.3:
            ks.append(rng.choice(LARGE))
        if c.op in ("hosvd_auto", "hosvd_mixed"):
            ks.append(_near_eps_exp(rng, c.args["data"]))
        if c.op == "hosvd_print":
            ks = ks[:1]
        if big:
            ks.append(rng.choice(MID))
        out.append(c)                     # interleaved: a case is followed by its scaled copies
        for k in dict.fromkeys(ks):
            out.append(Case(c.op, dict(c.args, sexp=k), c.nontrivial))
    return out


def _variants(rng, base, big):
    """wave 4 — input classes beside the plain F-contiguous float64 holder / fully spelled-out options, as extra copies of sampled cases:
    layout   : the same values held C-contiguous or as a non-contiguous view (assigned to X.data: pyttb's own routes normalise to F order),
               or in a tensor GROWN by out-of-bounds assignment (`G[0:I0, 0:I1, ...] = block` on a one-cell tensor: pyttb itself then holds a
               C-contiguous array and a shape tuple of numpy integers)
    history  : the same call a second time on the same tensor object (data must be untouched, answer as for a fresh object);
               tucker_als started from hosvd's factors (init = hosvd(X, ranks=...).factor_matrices)
    options  : dimorder=None (natural order), tucker_als rank given as ONE number, init='eigs' (alias of 'nvecs'), hosvd verbosity=10
               (prints the reverse cumulative sums with the cut-off marker)"""
    out = []
    p = 0.7 if big else 0.5
    HK = ["C", "grown", "strided", "twice", "dimorder_none", "verbose"]
    TK = ["C", "grown", "strided", "twice", "dimorder_none", "rank_scalar", "eigs", "hosvd_init"]
    nh = nt = 0                           # the kinds are taken in turn, so every class occurs in every run
    for c in base:
        a = c.args
        if "dtype" in a or len(a["shape"]) < 2 or rng.random() > p:
            continue
        natural = list(range(len(a["shape"])))
        if c.op in ("hosvd_auto", "hosvd_ranks", "hosvd_mixed", "hosvd_print"):
            if HK[nh % len(HK)] == "verbose" and c.op != "hosvd_print":
                nh += 1
            kind = HK[nh % len(HK)]
            nh += 1
            if kind in ("C", "strided", "grown"):
                out.append(Case(c.op, dict(a, layout=kind), c.nontrivial))
            elif kind == "twice":
                out.append(Case(c.op, dict(a, twice=True), c.nontrivial))
            elif kind == "dimorder_none":
                out.append(Case(c.op, dict(a, dimorder=natural, dimorder_none=True), c.nontrivial))
            elif c.op == "hosvd_print":
                out.append(Case(c.op, dict(a, verbosity=10), c.nontrivial))
        elif c.op == "tucker_als" and a["maxiters"] > 0:
            kind = TK[nt % len(TK)]
            nt += 1
            if kind in ("C", "strided", "grown"):
                out.append(Case(c.op, dict(a, layout=kind), c.nontrivial))
            elif kind == "twice":
                out.append(Case(c.op, dict(a, twice=True), c.nontrivial))
            elif kind == "dimorder_none":
                out.append(Case(c.op, dict(a, dimorder=natural, dimorder_none=True), c.nontrivial))
            elif kind == "rank_scalar":
                r = rng.randint(1, min(a["shape"]))
                init = a["init"] if isinstance(a["init"], str) else "random"
                out.append(Case(c.op, dict(a, ranks=[r] * len(a["shape"]), rank_scalar=rng.choice(["int", "list1"]), init=init), c.nontrivial))
            elif kind == "eigs":
                out.append(Case(c.op, dict(a, init="eigs"), c.nontrivial))
            else:
                out.append(Case(c.op, dict(a, init="hosvd"), c.nontrivial))
    return out


STOPTOLS = [0.0, 0.0, 1e-4, 1e-2, 0.3]      # 0: never stops early; 0.3: stops in the first iterations


def _narrow_data_for(rng, n, dt):
    """values that fit the holder: int8 -128..127 (squares wrap beyond 11), bool 0/1 (a logical tensor, e.g. the result of a comparison)"""
    if dt == "int8":
        v = [rng.randint(-128, 127) for _ in range(n)] if rng.random() < 0.7 else [rng.randint(-11, 11) for _ in range(n)]
        if not any(v):
            v[0] = -100
        return v
    if dt in ("int32", "int16") and rng.random() < 0.5:
        # wave 5: counts / samples near the top of the holder's range (int32 ~1e5: one square exceeds 2^31; int16 up to +-32000): the values
        # fit, but any sum of squares / Gram entry formed in the holder's dtype wraps (class of seeded C10-J: norm by vdot in the stored dtype)
        lo, hi = (30000, 100000) if dt == "int32" else (9000, 32000)
        return [rng.choice([-1, 1]) * rng.randint(lo, hi) for _ in range(n)]
    if dt == "bool":
        v = [rng.randint(0, 1) for _ in range(n)]
        if not any(v):
            v[rng.randrange(n)] = 1
        return v
    return _narrow_data(rng, n)


def _narrow_data(rng, n):
    """image-like values for a narrow integer holder: any 0..255 (squares wrap in uint8 / int16), small values (no square wraps: <= 15),
    multiples of 16 (every square is 0 mod 256), large values (>= 182: squares are negative in int16)"""
    kind = rng.random()
    if kind < 0.4:
        v = [rng.randint(0, 255) for _ in range(n)]
    elif kind < 0.6:
        v = [rng.randint(0, 15) for _ in range(n)]
    elif kind < 0.8:
        v = [16 * rng.randint(0, 15) for _ in range(n)]
    else:
        v = [rng.randint(182, 255) for _ in range(n)]
    if not any(v):
        v[0] = 208
    return v


SHAPES_Q = [(3,), (3, 2), (2, 4), (2, 2, 2), (3, 2, 2), (4, 3, 3), (2, 3, 4), (1, 3, 2), (3, 1, 2), (2, 2, 2, 2)]
SHAPES_T = SHAPES_Q + [(4,), (4, 3), (3, 3), (3, 3, 3), (4, 3, 2), (2, 4, 3), (3, 2, 1), (2, 1, 2, 3), (3, 2, 2, 2), (2, 2, 1, 1)]
TOLS = [Fraction(1, 20), Fraction(1, 10), Fraction(3, 10), Fraction(1, 2), Fraction(7, 10), Fraction(9, 10)]


def gen_cases(rng, tier):
    big = tier == "thorough"
    cases = []
    shapes = SHAPES_T if big else SHAPES_Q
    reps = 4 if big else 1
    for shp in shapes:
        d = len(shp)
        perms = list(itertools.permutations(range(d)))
        nt = sum(1 for x in shp if x > 1) >= 1 and math.prod(shp) > 1
        for _ in range(reps):
            # automatic ranks
            for seq in (True, False):
                data = _tensor(rng, shp)
                tol = rng.choice(TOLS)
                order = list(rng.choice(perms))
                cases.append(Case("hosvd_auto", {"shape": list(shp), "data": data, "tol": [tol.numerator, tol.denominator],
                                                 "sequential": seq, "dimorder": order}, nt))
            if d >= 2:                      # default verbosity: the printed relative error is the recomputed one, no warning
                tol = rng.choice(TOLS)
                cases.append(Case("hosvd_print", {"shape": list(shp), "data": _tensor(rng, shp), "tol": [tol.numerator, tol.denominator],
                                                  "sequential": rng.random() < 0.5, "dimorder": list(rng.choice(perms))}, nt))
            if big and d <= 3:
                data = _tensor(rng, shp)
                tol = rng.choice(TOLS)
                for order in perms:
                    cases.append(Case("hosvd_auto", {"shape": list(shp), "data": data, "tol": [tol.numerator, tol.denominator],
                                                     "sequential": rng.random() < 0.5, "dimorder": list(order)}, nt))
            # user ranks: three views of the same run
            data = _tensor(rng, shp)
            ranks = [rng.randint(1, s) for s in shp]
            a = {"shape": list(shp), "data": data, "ranks": ranks, "sequential": rng.random() < 0.5, "dimorder": list(rng.choice(perms))}
            cases.append(Case("hosvd_ranks", dict(a), nt))
            # mixed request: some ranks given, some automatic (0), with a tolerance
            if d >= 2:
                a3 = dict(a, data=_tensor(rng, shp))
                a3["ranks"] = [(r if rng.random() < 0.5 else 0) for r in ranks]
                tol = rng.choice(TOLS[:3])      # small tolerance: the shrunk tensor keeps more energy than the per-mode budget
                a3["tol"] = [tol.numerator, tol.denominator]
                cases.append(Case("hosvd_mixed", a3, nt))
            if rng.random() < (0.6 if big else 0.3):
                a2 = dict(a)
                a2["ranks"] = list(shp)           # full ranks
                a2["data"] = _tensor(rng, shp)
                cases.append(Case("hosvd_ranks", a2, nt))
            # wave 5: TALL unfoldings — a requested rank within the mode size but above the number of COLUMNS of the unfolding hosvd looks at
            # (product of the other, sequentially already shrunk, mode sizes): the Gram matrix is rank-deficient, the request must still be
            # honoured exactly (class of seeded C10-I: economy SVD returns min(I_k, P) columns).  Sequential: ranks 1 for all modes but the
            # last of dimorder, which asks for >= 2 columns of an I_k x 1 unfolding; non-sequential: any mode with I_k > prod(other sizes)
            order = list(rng.choice(perms))
            if shp[order[-1]] >= 2:
                tr = [1] * d
                tr[order[-1]] = rng.randint(2, shp[order[-1]])
                cases.append(Case("hosvd_ranks", {"shape": list(shp), "data": _tensor(rng, shp), "ranks": tr, "sequential": True,
                                                  "dimorder": order, "tall": True}, nt))
            tallm = [k for k in range(d) if shp[k] > math.prod(shp) // shp[k]]
            if tallm:
                k = rng.choice(tallm)
                tr = [rng.randint(1, x) for x in shp]
                tr[k] = rng.randint(math.prod(shp) // shp[k] + 1, shp[k])
                cases.append(Case("hosvd_ranks", {"shape": list(shp), "data": _tensor(rng, shp), "ranks": tr, "sequential": False,
                                                  "dimorder": list(rng.choice(perms)), "tall": True}, nt))
            # tucker_als
            if d >= 2:
                data = _tensor(rng, shp)
                ranks = [rng.randint(1, s) for s in shp]
                kind = rng.choice(["list", "list", "nvecs", "random"])
                init = kind
                if kind == "list":
                    init = [[[rng.randint(-2, 3) for _ in range(ranks[n])] for _ in range(shp[n])] for n in range(d)]
                cases.append(Case("tucker_als", {"shape": list(shp), "data": data, "ranks": ranks, "maxiters": rng.randint(1, 4),
                                                 "dimorder": list(rng.choice(perms)), "init": init,
                                                 "stoptol": rng.choice(STOPTOLS)}, nt))
            # converged runs and ties: exactly rank-(1,..,1) data with ranks 1 / any data with full ranks, stoptol 0 (the test
            # `fitchange < stoptol` must NOT fire on a fit change of exactly 0) and a positive stoptol (fires in iteration 1)
            if d >= 2 and rng.random() < (0.8 if big else 0.5):
                full = rng.random() < 0.5
                cdata = _tensor(rng, shp) if full else _lowrank(rng, shp, 1, 0.0)
                if any(cdata):
                    cases.append(Case("tucker_als", {"shape": list(shp), "data": cdata, "ranks": list(shp) if full else [1] * d,
                                                     "maxiters": rng.choice([3, 4]), "dimorder": list(rng.choice(perms)),
                                                     "init": rng.choice(["nvecs", "random"]), "stoptol": rng.choice([0.0, 0.0, 1e-4])}, nt))
            if d >= 2 and rng.random() < (0.5 if big else 0.25):     # iteration limit 0 (passes the argument checks)
                cases.append(Case("tucker_als", {"shape": list(shp), "data": _tensor(rng, shp), "ranks": [rng.randint(1, s) for s in shp],
                                                 "maxiters": 0, "dimorder": list(rng.choice(perms)),
                                                 "init": rng.choice(["nvecs", "random"]), "stoptol": 1e-4}, nt))
            # narrow integer data holders (image-like values 0..255 in uint8 / int16 / int32): same values, same answers
            if d >= 2:
                dt = rng.choice(["uint8", "uint8", "int8", "int8", "int16", "int16", "int32", "bool"])
                idata = _narrow_data_for(rng, math.prod(shp), dt)
                cases.append(Case("tucker_als", {"shape": list(shp), "data": idata, "ranks": [rng.randint(1, s) for s in shp],
                                                 "maxiters": rng.randint(1, 3), "dimorder": list(rng.choice(perms)), "init": "nvecs",
                                                 "stoptol": rng.choice([0.0, 0.0, 1e-2]), "dtype": dt}, nt))
                tol = rng.choice(TOLS)
                ha = {"shape": list(shp), "data": idata, "tol": [tol.numerator, tol.denominator],
                      "sequential": rng.random() < 0.5, "dimorder": list(rng.choice(perms)), "dtype": dt}
                cases.append(Case("hosvd_auto", dict(ha), nt))
                # the same request with the default verbosity: printed relative error, no warning, no crash; rank rule also for the
                # narrow holder (the squared norm must not be formed in the holder's dtype: repaired finding C10-N02)
                cases.append(Case("hosvd_print", dict(ha), nt))
    # regression inputs of the repaired finding C10-N02 (/repo 2956bb2): every square is 0 mod 256 in uint8 / the sum of squares is
    # negative in int16; same answer as the float64 holder demanded (ranks by the rule, printed error, no warning, no crash)
    # ... and of the repaired finding C10-N03 (/repo 08011d5): the logical tensor [[1,0,1],[1,1,0]] (hosvd and tucker_als(init='nvecs'))
    for shp2, dat2, dt2 in (((2, 3), [16, 16, 16, 16, 16, 32], "uint8"), ((2, 2), [200, 200, 200, 13], "int16"),
                            ((2, 3), [1, 1, 0, 1, 1, 0], "bool")):
        for op2 in ("hosvd_print", "hosvd_auto"):
            cases.append(Case(op2, {"shape": list(shp2), "data": dat2, "tol": [1, 2], "sequential": True, "dimorder": [0, 1],
                                    "dtype": dt2}, True))
    cases.append(Case("tucker_als", {"shape": [2, 3], "data": [1, 1, 0, 1, 1, 0], "ranks": [1, 2], "maxiters": 2, "dimorder": [0, 1],
                                     "init": "nvecs", "stoptol": 0.0, "dtype": "bool"}, True))
    # wave 5: the two mode-product kernels of tucker_als' main loop AS CALLED there — X.ttm(U, exclude_dims=n, transpose=True) and
    # Utilde.ttm(U, n, transpose=True) — on integer data and integer factor lists (no orthonormality needed: the contracts excl_spec /
    # core_spec of Props/C10W5.v are plain mode products); also with U[n] = None, as in the first sweep of init='random' / 'nvecs'
    for shp in shapes:
        d = len(shp)
        if d < 2:
            continue
        for _ in range(reps):
            rk = [rng.randint(1, x + 1) for x in shp]            # also ranks above the mode size: the kernels do not care
            U = [[[rng.randint(-3, 3) for _ in range(rk[m])] for _ in range(shp[m])] for m in range(d)]
            n = rng.randrange(d)
            cases.append(Case("tals_kernels", {"shape": list(shp), "data": _tensor(rng, shp), "U": U, "n": n, "none_at_n": False, "dimorder": list(range(d))}, True))
            n2 = rng.randrange(d)
            cases.append(Case("tals_kernels", {"shape": list(shp), "data": _tensor(rng, shp), "U": U, "n": n2, "none_at_n": True, "dimorder": list(range(d))}, True))
    # fixed narrow holders near the top of their range (wave 5): tucker_als reports the fit of the float64 holder of the same values
    for dt2, v2 in (("int32", [91234, -30511, 77002, 45999, -99871, 30007, 61234, -88123, 52001, 39999, -70707, 98765]),
                    ("int16", [31234, -9511, 17002, 25999, -29871, 30007, 11234, -18123, 22001, 9999, -30707, 28765])):
        cases.append(Case("tucker_als", {"shape": [3, 2, 2], "data": v2, "ranks": [2, 1, 2], "maxiters": 2, "dimorder": [2, 0, 1],
                                         "init": "nvecs", "stoptol": 0.0, "dtype": dt2}, True))
    # fixed tall-unfolding requests (wave 5): sequential ranks (1,1,2) on 4x3x3 (mode 2 is unfolded as 3 x 1 after two shrinks), non-sequential
    # (5,2,2) on 6x2x2 (6 x 4 unfolding), 1-way (the unfolding is a column)
    for shp2, rk2, sq2 in (((4, 3, 3), [1, 1, 2], True), ((6, 2, 2), [5, 2, 2], False), ((3,), [2], True), ((3,), [3], False)):
        cases.append(Case("hosvd_ranks", {"shape": list(shp2), "data": _tensor(rng, shp2), "ranks": rk2, "sequential": sq2,
                                          "dimorder": list(range(len(shp2))), "tall": True}, True))
    # graded spectra with tight tolerances (unscaled; the scaled copies follow)
    for shp in shapes:
        d = len(shp)
        if d < 2 or math.prod(shp) > 36:
            continue
        perms = list(itertools.permutations(range(d)))
        for _ in range(reps):
            tol = rng.choice(TIGHT + TOLS[:2])
            cases.append(Case("hosvd_auto", {"shape": list(shp), "data": _graded(rng, shp, rng.choice([3, 5, 8])),
                                             "tol": [tol.numerator, tol.denominator], "sequential": rng.random() < 0.5,
                                             "dimorder": list(rng.choice(perms))}, True))
    return _scaled_copies(rng, cases, big) + _variants(rng, cases, big)


# ---------------------------------------------------------------- running pyttb
def _obs_tt(np, T, sexp=0):
    """raw factors and core of the returned ttensor; the core is multiplied by 2^-sexp (exact in binary floating point) so that the
    relations recomputed in Coq are those of the unscaled integer data"""
    core = np.asarray(T.core.data) * (2.0 ** (-sexp))
    return {"core_shape": [int(x) for x in core.shape], "core": [rq(x) for x in np.ravel(core, order="F")],
            "factors": [[[rq(x) for x in row] for row in np.asarray(U).reshape((U.shape[0], -1))] for U in T.factor_matrices],
            "fshapes": [[int(x) for x in np.asarray(U).shape] for U in T.factor_matrices]}


def _certs(np, a, T):
    """full eigen-decomposition (numpy LAPACK; certificate-checked in Coq) of the Gram matrix of the tensor hosvd
    looked at when it treated each position of dimorder; also the margin of the rank decision"""
    X = np.array(a["data"], dtype=float).reshape(tuple(a["shape"]), order="F")     # UNSCALED integer data (T is de-scaled too)
    d = X.ndim
    normsq = float((X ** 2).sum())
    tol = a["tol"][0] / a["tol"][1]
    thresh = tol * tol * normsq / d
    Y = X
    out = []
    margin = float("inf")
    for k in a["dimorder"]:
        Yk = np.moveaxis(Y, k, 0).reshape((Y.shape[k], -1))
        G = Yk @ Yk.T
        w, W = np.linalg.eigh(G)
        o = np.argsort(-w, kind="stable")
        w, W = w[o], W[:, o]
        es = np.cumsum(w[::-1])[::-1]
        margin = min(margin, float(np.min(np.abs(es - thresh))))
        out.append({"W": [[rq(x) for x in row] for row in W], "mu": [rq(x) for x in w]})
        if a["sequential"]:
            U = np.asarray(T.factor_matrices[k])
            Y = np.moveaxis(np.tensordot(U.T, Y, axes=(1, k)), 0, k)
    return out, margin / max(1.0, normsq)


def run_impl(c):
    import logging
    import numpy as np
    import pyttb as ttb
    logging.getLogger().setLevel(logging.ERROR)      # pyttb logs a layout warning per elementwise operation on a non-F holder
    a = c.args
    k = int(a.get("sexp", 0))
    try:
        X = tgen.mk_tensor(ttb, np, a["shape"], [float(x) * 2.0 ** k for x in a["data"]])      # power-of-two scaling: exact
        Xref = None
        if "dtype" in a:                  # the same values held in a narrow integer dtype; float64 holder as reference
            Xref = X
            X = ttb.tensor(np.array(a["data"], dtype=a["dtype"]).reshape(tuple(a["shape"]), order="F").copy(order="F"))   # bool: 0/1 -> False/True
            if str(X.data.dtype) != a["dtype"]:
                return {"exc": "HarnessError", "msg": f"tensor holds {X.data.dtype}, wanted {a['dtype']}"}
        if a.get("layout") == "C":            # same values, C-contiguous buffer (assigned: pyttb's own routes normalise to F order)
            X.data = np.ascontiguousarray(X.data)
            if X.data.flags["F_CONTIGUOUS"] and X.data.ndim > 1 and min(X.data.shape) > 1:
                return {"exc": "HarnessError", "msg": "holder is not C-ordered"}
        elif a.get("layout") == "grown":      # pyttb's own route to a non-F holder: a one-cell tensor grown by out-of-bounds assignment
            full = X.data.copy()
            X = ttb.tensor(full[tuple(slice(0, 1) for _ in a["shape"])].copy(order="F"))
            X[tuple(slice(0, n) for n in a["shape"])] = full
            if tuple(int(n) for n in X.shape) != tuple(a["shape"]) or not np.array_equal(X.data, full):
                return {"exc": "HarnessError", "msg": "growth by assignment did not produce the requested data"}
        elif a.get("layout") == "strided":    # same values, every second slab of a twice as long array along the last mode
            big_ = np.zeros(tuple(a["shape"][:-1]) + (2 * a["shape"][-1],), order="F")
            big_[..., ::2] = X.data
            big_[..., 1::2] = 777.0
            X.data = big_[..., ::2]
        dimorder = None if a.get("dimorder_none") else list(a["dimorder"])
        before = X.data.copy()

        def unchanged():
            return X.data.shape == before.shape and bool(np.array_equal(X.data, before))

        if c.op == "tals_kernels":
            n = a["n"]
            U = [np.array(m, dtype=float) for m in a["U"]]
            Ucall = [u.copy() for u in U]
            if a["none_at_n"]:
                Ucall[n] = None
            Z = X.ttm(Ucall, exclude_dims=n, transpose=True)
            C = Z.ttm(U, n, transpose=True)
            return {"z_shape": [int(x) for x in Z.shape], "z": [rq(x) for x in np.ravel(Z.data, order="F")],
                    "c_shape": [int(x) for x in C.shape], "c": [rq(x) for x in np.ravel(C.data, order="F")],
                    "data_unchanged": unchanged() and all(np.array_equal(u, v) for u, v in zip(U, [np.array(m, dtype=float) for m in a["U"]]))}
        if a.get("twice") and c.op.startswith("hosvd"):      # first call on the same object; the observed call is the second one
            with contextlib.redirect_stdout(io.StringIO()), warnings.catch_warnings():
                warnings.simplefilter("ignore")
                ttb.hosvd(X, a["tol"][0] / a["tol"][1] if "tol" in a else 0.5, verbosity=0, dimorder=dimorder, sequential=a["sequential"],
                          ranks=(np.array(a["ranks"], dtype=int) if "ranks" in a else None))
        if c.op == "hosvd_auto":
            tol = a["tol"][0] / a["tol"][1]
            T = ttb.hosvd(X, tol, verbosity=0, dimorder=dimorder, sequential=a["sequential"])
            o = _obs_tt(np, T, k)
            o["data_unchanged"] = unchanged()
            o["certs"], o["margin"] = _certs(np, a, T)
            # narrow integer holders: same values, same answer as the float64 holder (the squared norm is formed in double precision
            # since /repo 2956bb2, former finding C10-N02): structure, error bound AND the rank rule are compared
            return o
        if c.op == "hosvd_print":
            # default verbosity (1): hosvd reconstructs the result and prints ||X-T||/||X||; it warns when the tolerance is not met
            tol = a["tol"][0] / a["tol"][1]
            buf = io.StringIO()
            with warnings.catch_warnings(record=True) as wl:
                warnings.simplefilter("always")
                with contextlib.redirect_stdout(buf):
                    if "verbosity" in a:
                        T = ttb.hosvd(X, tol, verbosity=a["verbosity"], dimorder=dimorder, sequential=a["sequential"])
                    else:
                        T = ttb.hosvd(X, tol, dimorder=dimorder, sequential=a["sequential"])
            o = _obs_tt(np, T, k)
            o["data_unchanged"] = unchanged()
            if a.get("verbosity", 1) > 5:       # one "<-- Cutoff" line per automatically chosen mode
                o["cutoffs"] = buf.getvalue().count("<-- Cutoff")
            o["certs"], o["margin"] = _certs(np, a, T)
            o["warned"] = [str(w.message)[:80] for w in wl if "olerance" in str(w.message) or issubclass(w.category, RuntimeWarning)]
            lines = [ln for ln in buf.getvalue().splitlines() if "||X-T||/||X||" in ln]
            o["printed_line"] = lines[0][:120] if lines else None
            m = re.search(r"\|\|X-T\|\|/\|\|X\|\| =\s*(\S+)\s*([<>]=)", lines[0]) if lines else None
            o["printed"] = None
            if m and m.group(1).lower() not in ("nan", "inf", "-inf"):
                o["printed"] = Fraction(m.group(1))
            o["printed_rel"] = m.group(2) if m else None
            return o
        if c.op in ("hosvd_ranks", "hosvd_mixed"):
            tol = a["tol"][0] / a["tol"][1] if "tol" in a else 0.5
            ranks = np.array([int(r) for r in a["ranks"]], dtype=int)      # the caller's own array (A-25: must stay as given)
            T = ttb.hosvd(X, tol, verbosity=0, dimorder=dimorder, sequential=a["sequential"], ranks=ranks)
            o = _obs_tt(np, T, k)
            o["data_unchanged"] = unchanged()
            o["ranks_after"] = [int(r) for r in ranks]
            return o
        if c.op == "tucker_als" and a["maxiters"] == 0:
            # the argument checks admit 0; no sweep can run, so nothing satisfying the property can be returned: the only
            # admissible outcome is an explicit rejection (ValueError); anything else is reported
            init = a["init"]
            np.random.seed(12345)
            try:
                with contextlib.redirect_stdout(io.StringIO()):
                    ttb.tucker_als(X.copy(), list(a["ranks"]), stoptol=a["stoptol"], maxiters=0, dimorder=list(a["dimorder"]),
                                   init=init, printitn=0)
            except ValueError as ex:
                return {"rejected": "ValueError", "msg": str(ex)[:200]}
            return {"exc": "none", "msg": "tucker_als(maxiters=0) returned a result without running a sweep"}
        if c.op == "tucker_als":
            rank_arg = list(a["ranks"])
            if a.get("rank_scalar") == "int":          # one number for all modes
                rank_arg = int(a["ranks"][0])
            elif a.get("rank_scalar") == "list1":
                rank_arg = [int(a["ranks"][0])]
            hinit = None
            if a["init"] == "hosvd":                   # history: start from hosvd's factors of the same data and ranks
                hinit = [np.array(U) for U in ttb.hosvd(X, 0.5, verbosity=0, ranks=np.array(a["ranks"], dtype=int)).factor_matrices]
            Xrun = X if (a.get("twice") or "layout" in a) else None      # these classes run on the holder itself, the others on copies

            def one_run(mi, stoptol):
                init = a["init"]
                if isinstance(init, list):
                    init = [np.array(m, dtype=float).reshape((a["shape"][n], a["ranks"][n])) for n, m in enumerate(init)]
                elif init == "hosvd":
                    init = [U.copy() for U in hinit]
                np.random.seed(12345)
                buf = io.StringIO()
                with contextlib.redirect_stdout(buf):
                    M, M0, out = ttb.tucker_als(Xrun if Xrun is not None else X.copy(), rank_arg, stoptol=stoptol, maxiters=mi,
                                                dimorder=dimorder, init=init, printitn=1)
                # the printed per-iteration lines of the run: " Iter k: fit = %e fitdelta = %7.1e"
                pl = re.findall(r"^ Iter\s+(\d+): fit = (\S+) fitdelta = (\S+)", buf.getvalue(), re.M)
                return M, M0, out, [int(x[0]) for x in pl], [Fraction(x[1]) for x in pl]

            # runs truncated at 1, 2, 3 iterations (stoptol 0: exactly that many sweeps); the longest one also gives a within-run trace
            exact, long_trace = [], []
            for mi in (1, 2, 3):
                _, _, out, _, long_trace = one_run(mi, 0.0)
                exact.append(float(out["fit"]))
            # the run under test
            M, M0, out, piters, pt = one_run(a["maxiters"], a["stoptol"])
            res = _obs_tt(np, M, k)
            res["data_unchanged"] = unchanged()
            if a["init"] in ("nvecs", "eigs"):          # the returned starting guess (None for the first mode of dimorder)
                res["init_f"] = [None if U0 is None else [[rq(x) for x in row] for row in np.asarray(U0)] for U0 in M0]
            res["fit"] = rq(out["fit"])
            res["iters"] = it = int(out["iters"])
            res["printed_iters"], res["ptrace"] = piters, pt
            # "fit never decreases over iterations": the fits after 1, 2, 3 sweeps = reported fits of the truncated runs (exact doubles) when
            # tucker_als is reproducible on this input (they agree with the 7-digit lines printed inside the 3-sweep run); otherwise (ARPACK's
            # random start vector + non-unique null-space columns when rank[n] exceeds the product of the other ranks) the printed within-run trace
            close = Fraction(2, 10 ** 6)
            if len(long_trace) == 3 and all(abs(x - Fraction(y)) <= close for x, y in zip(long_trace, exact)):
                res["fits"], res["fits_src"], res["fits_eps"] = [rq(x) for x in exact], "truncated runs", Fraction(1, 10 ** 9)
            else:
                res["fits"], res["fits_src"], res["fits_eps"] = long_trace, "lines printed by the 3-sweep run", Fraction(4, 10 ** 6)
            # per-iteration fit trace of the run under test: the fit after iteration i < iters is that of the run truncated at i+1 iterations
            # (exact doubles) when that agrees with the printed line of the run itself, otherwise the printed values
            et = [Fraction(x) for x in exact[:it]] + [Fraction(float(out["fit"]))]
            if it <= 3 and len(pt) == it + 1 and all(abs(x - y) <= close for x, y in zip(pt, et)):
                res["trace"], res["trace_src"], res["trace_res"] = et, "truncated runs (exact)", Fraction(1, 10 ** 9)
            else:
                res["trace"], res["trace_src"], res["trace_res"] = pt, "printed lines", Fraction(5, 10 ** 6)
            return res
    except Exception as ex:
        return {"exc": type(ex).__name__, "msg": str(ex)[:200]}
    raise ValueError(c.op)


# ---------------------------------------------------------------- known findings
TRIGGERS = {"tals_maxiters_zero": lambda c: c.op == "tucker_als" and c.args.get("maxiters") == 0}


def _wit_n01():
    import numpy as np
    import pyttb as ttb
    X = ttb.tensor(np.arange(1.0, 25.0).reshape((2, 3, 4), order="F"))
    try:
        with contextlib.redirect_stdout(io.StringIO()):
            ttb.tucker_als(X, [1, 2, 2], maxiters=0, printitn=0)
    except ValueError:
        return None
    except Exception as ex:
        return f"tucker_als(X, [1,2,2], maxiters=0) raised {type(ex).__name__}: {ex}"
    return "tucker_als(X, [1,2,2], maxiters=0) returned a result without running a sweep"


WITNESSES = {"C10-N01": _wit_n01}


# ---------------------------------------------------------------- Coq side
def _gX(a):
    return tgen.gqdense(a["shape"], a["data"])


def _gT(o):
    return gqtt(o["core_shape"], o["core"], o["factors"])


# tolerances (all relative to max(1, ||X||^2) of the UNSCALED integer data):
#  * factor entries are on the 2^-40 grid (abs. error 4.6e-13): the reconstruction moves by delta <= ~1e-11 ||X||, so
#    ||X-R||^2 moves by <= 2 tol ||X|| delta + delta^2  ->  slack 1e-9 tol + 1e-13 (>= 50x margin; tol = 1e-5 stays meaningful)
#  * eigen certificate: residual G W - W diag(mu) and W^T W - I within 1e-10 (grid error <= 4e-12); the eigenvalues of G are then
#    within ~4e-10 of mu, tail sums within ~2e-9: the rank rule is compared only when every tail sum is > 1e-8 away from the threshold
CERT_EPS = Fraction(1, 10 ** 10)
MARGIN = 1e-8


def _relerr_slack(tol):
    return Fraction(tol) / 10 ** 9 + Fraction(1, 10 ** 13)


def _stop_margin(a, o):
    """distance of every observed fit change from the stopping tolerance"""
    st = Fraction(float(a["stoptol"]))
    if st <= 0:                      # `fitchange < 0` can never fire, whatever the resolution of the trace
        return Fraction(1)
    prev, m = Fraction(0), Fraction(1)
    for f in o["trace"]:
        m = min(m, abs(abs(prev - f) - st))
        prev = f
    return m


def extra_wrap(e, extra):
    return e + extra


def coq_check(c, o):
    a = c.args
    if "exc" in o:
        return "false"
    if "rejected" in o:
        return "true" if (c.op == "tucker_als" and a["maxiters"] == 0) else "false"
    if o.get("data_unchanged") is False:        # the data holder was written to
        return "false"
    if "cutoffs" in o and o["cutoffs"] != len(a["shape"]):
        return "false"
    if c.op == "tals_kernels":
        X = _gX(a)
        Us = "[" + "; ".join(gqmat([[Fraction(x) for x in row] for row in m]) for m in a["U"]) + "]"
        Z = tgen.gqdense(o["z_shape"], o["z"])
        C = tgen.gqdense(o["c_shape"], o["c"])
        return f"kernel_excl_ok eps9 {X} {Us} {a['n']} {Z} && kernel_core_ok eps9 {X} {Z} {Us} {a['n']} {C}"
    X, T = _gX(a), _gT(o)
    if c.op == "hosvd_auto":
        tol = Fraction(a["tol"][0], a["tol"][1])
        e = f"tucker_struct eps9 {X} {T} && relerr_ok {gq(_relerr_slack(tol))} {gq(tol * tol)} {X} {T}"
        if o["margin"] > MARGIN:
            certs = "[" + "; ".join(f"({gqmat(ct['W'])}, {gqlist(ct['mu'])})" for ct in o["certs"]) + "]"
            e += f" && auto_ranks_ok {gq(CERT_EPS)} {gq(tol * tol)} {gbool(a['sequential'])} {X} {gnlist(a['dimorder'])} {T} {certs}"
        return e
    if c.op == "hosvd_print":
        if o["printed"] is None or o["warned"] or o["printed_rel"] != "<=":
            return "false"
        tol = Fraction(a["tol"][0], a["tol"][1])
        e = f"tucker_struct eps9 {X} {T} && relprint_ok eps9 {gq(o['printed'])} {X} {T}"
        if o["margin"] > MARGIN:
            certs = "[" + "; ".join(f"({gqmat(ct['W'])}, {gqlist(ct['mu'])})" for ct in o["certs"]) + "]"
            e += f" && auto_ranks_ok {gq(CERT_EPS)} {gq(tol * tol)} {gbool(a['sequential'])} {X} {gnlist(a['dimorder'])} {T} {certs}"
        return e
    if c.op == "hosvd_ranks":
        return (f"tucker_struct eps9 {X} {T} && ranks_are {T} {gnlist(a['ranks'])} && "
                f"nvec_eqb {gnlist(o['ranks_after'])} {gnlist(a['ranks'])}")
    if c.op == "hosvd_mixed":           # given entries exactly, automatic entries within the mode size; caller's array untouched
        return (f"tucker_struct eps9 {X} {T} && ranks_given {T} {gnlist(a['ranks'])} && "
                f"nvec_eqb {gnlist(o['ranks_after'])} {gnlist(a['ranks'])}")
    if c.op == "tucker_als":
        fits = gqlist(o["fits"])
        extra = "".join(f" && invariant_ok eps8 {X} {n} {gqmat(U0)}" for n, U0 in enumerate(o.get("init_f", [])) if U0 is not None)
        # the stop rule, evaluated by the transliterated loop replaying the observed per-iteration fits (unless a fit change is within
        # the resolution of the trace of the tolerance)
        if _stop_margin(a, o) > 2 * o["trace_res"]:
            extra += (f" && stop_ok {gq(Fraction(float(a['stoptol'])))} {a['maxiters']} {o['iters']} {gqlist(o['trace'])} {gq(o['trace'][-1])}"
                      f" && nvec_eqb {gnlist(o['printed_iters'])} (seq 0 {o['iters'] + 1})")
        return extra_wrap(f"tucker_struct eps9 {X} {T} && ranks_are {T} {gnlist(a['ranks'])} && fit_ok eps9 {gq(o['fit'])} {X} {T} "
                f"&& nondecr {gq(o['fits_eps'])} {fits} && Nat.leb {o['iters']} {a['maxiters'] - 1}", extra)
    raise ValueError(c.op)


# ---------------------------------------------------------------- independent brute-force oracle (pure Python floats)
def _sub2ind(shape, s):
    k, m = 0, 1
    for d, x in zip(shape, s):
        k += x * m
        m *= d
    return k


def _py_ttm(shape, data, n, M):
    """(X x_n M) with M given as rows (new index) — plain loops"""
    new = list(shape)
    new[n] = len(M)
    out = []
    for s in tgen.all_subs(new):
        acc = 0.0
        for q in range(shape[n]):
            t = list(s)
            t[n] = q
            acc += M[s[n]][q] * data[_sub2ind(shape, t)]
        out.append(acc)
    return new, out


def _py_invariant(shp, X, n, U):
    """G U = U (U^T G U) for the mode-n Gram matrix G of X (plain loops)"""
    I, r = shp[n], len(U[0]) if U else 0
    rest = [s for m, s in enumerate(shp) if m != n]
    G = [[0.0] * I for _ in range(I)]
    for sub in tgen.all_subs(shp):
        for b in range(I):
            t = list(sub)
            t[n] = b
            G[sub[n]][b] += X[_sub2ind(shp, sub)] * X[_sub2ind(shp, t)]
    GU = [[sum(G[i][k] * U[k][j] for k in range(I)) for j in range(r)] for i in range(I)]
    S = [[sum(U[k][i] * GU[k][j] for k in range(I)) for j in range(r)] for i in range(r)]
    tr = max(1.0, sum(G[i][i] for i in range(I)))
    for i in range(I):
        for j in range(r):
            if abs(GU[i][j] - sum(U[i][k] * S[k][j] for k in range(r))) > 1e-7 * tr:
                return "does not span an invariant subspace of the mode Gram matrix of the data"
    return None


def oracle(c, o):
    a = c.args
    if "exc" in o:
        return f"admissible request raised {o['exc']}: {o.get('msg')}"
    if "rejected" in o:
        return None if (c.op == "tucker_als" and a["maxiters"] == 0) else f"admissible request rejected: {o.get('msg')}"
    if o.get("data_unchanged") is False:
        return "the call changed the caller's data array"
    if "cutoffs" in o and o["cutoffs"] != len(a["shape"]):
        return f"verbosity {a.get('verbosity')}: {o['cutoffs']} '<-- Cutoff' lines printed for {len(a['shape'])} automatically chosen modes"
    if c.op == "tals_kernels":
        shp_, dat_ = list(a["shape"]), [float(x) for x in a["data"]]
        nsq = sum(x * x for x in dat_)
        for m_, Um in enumerate(a["U"]):
            if m_ != a["n"]:
                shp_, dat_ = _py_ttm(shp_, dat_, m_, [[float(Um[i][j]) for i in range(len(Um))] for j in range(len(Um[0]))])
        if shp_ != o["z_shape"] or any(abs(x - float(y)) > 1e-8 * max(1.0, nsq) for x, y in zip(dat_, o["z"])):
            return f"X.ttm(U, exclude_dims={a['n']}, transpose=True) is not X multiplied by U_m^T in every mode m != {a['n']}"
        Un = a["U"][a["n"]]
        shp_, dat_ = _py_ttm(shp_, dat_, a["n"], [[float(Un[i][j]) for i in range(len(Un))] for j in range(len(Un[0]))])
        if shp_ != o["c_shape"] or any(abs(x - float(y)) > 1e-8 * max(1.0, nsq) for x, y in zip(dat_, o["c"])):
            return f"Utilde.ttm(U, {a['n']}, transpose=True) is not Utilde multiplied by U_n^T in mode {a['n']}"
        return None
    shp = a["shape"]
    X = [float(x) for x in a["data"]]
    Us = [[[float(x) for x in row] for row in U] for U in o["factors"]]
    d = len(shp)
    normsq = sum(x * x for x in X)
    for n, (U, fs) in enumerate(zip(Us, o["fshapes"])):
        if fs[0] != shp[n] or fs[1] != o["core_shape"][n]:
            return f"factor {n} has shape {fs}, data mode size {shp[n]}, core mode size {o['core_shape'][n]}"
        for j in range(fs[1]):
            for k in range(fs[1]):
                g = sum(U[i][j] * U[i][k] for i in range(fs[0]))
                if abs(g - (1.0 if j == k else 0.0)) > 1e-8:
                    return f"factor {n}: columns {j},{k} have inner product {g}"
    s, dat = list(shp), X
    for n in range(d):
        Ut = [[Us[n][i][j] for i in range(shp[n])] for j in range(o["core_shape"][n])]
        s, dat = _py_ttm(s, dat, n, Ut)
    core = [float(x) for x in o["core"]]
    if s != o["core_shape"] or any(abs(x - y) > 1e-8 * max(1.0, normsq) for x, y in zip(dat, core)):
        return "core is not the data multiplied in every mode by the transposed factor"
    s, rec = list(o["core_shape"]), core
    for n in range(d):
        s, rec = _py_ttm(s, rec, n, Us[n])
    errsq = sum((x - y) ** 2 for x, y in zip(X, rec))
    if c.op == "hosvd_print":
        if o["warned"]:
            return f"default verbosity: warning(s) {o['warned']} although the tolerance is met (printed: {o['printed_line']!r})"
        if o["printed"] is None or o["printed_rel"] != "<=":
            return f"default verbosity: printed relative error line is {o['printed_line']!r}; recomputed ||X-T||/||X|| = {math.sqrt(errsq / normsq)}"
        p = float(o["printed"])
        if abs(p * p * normsq - errsq) > 3e-5 * p * p * normsq + 1e-9 * max(1.0, normsq):
            return f"printed relative error {p} but recomputed ||X-T||/||X|| = {math.sqrt(errsq / normsq)}"
    if c.op in ("hosvd_auto", "hosvd_print"):
        tol = a["tol"][0] / a["tol"][1]
        if errsq > tol * tol * normsq + float(_relerr_slack(tol)) * max(1.0, normsq):
            return f"relative error {math.sqrt(errsq / normsq)} exceeds tol {tol}"
    if c.op in ("hosvd_ranks", "hosvd_mixed", "tucker_als"):
        got = [fs[1] for fs in o["fshapes"]]
        if any(r != 0 and g != r for g, r in zip(got, a["ranks"])):
            return f"requested ranks {a['ranks']} but factors have {got} columns"
    if c.op in ("hosvd_ranks", "hosvd_mixed") and o["ranks_after"] != list(a["ranks"]):
        return f"hosvd changed the caller's ranks array from {a['ranks']} to {o['ranks_after']}"
    if c.op == "tucker_als":
        fit = float(o["fit"])
        if abs((1 - fit) ** 2 * normsq - errsq) > 1e-8 * max(1.0, normsq):
            return f"reported fit {fit} but recomputed 1-||X-T||/||X|| = {1 - math.sqrt(errsq / normsq)}"
        for n, U0 in enumerate(o.get("init_f", [])):
            if U0 is None:
                continue
            why = _py_invariant(shp, X, n, [[float(x) for x in row] for row in U0])
            if why:
                return f"init='nvecs' (data held as {a.get('dtype', 'float64')}): starting factor {n} {why}"
        # stop rule on the per-iteration trace: plain replay
        if _stop_margin(a, o) > 2 * o["trace_res"]:
            prev, want = 0.0, a["maxiters"] - 1
            tr = [float(x) for x in o["trace"]]
            for i in range(a["maxiters"]):
                if i >= len(tr):
                    want = None
                    break
                if abs(prev - tr[i]) < a["stoptol"]:
                    want = i
                    break
                prev = tr[i]
            if want is None:
                return (f"stop rule: fit trace {tr} ({o['trace_src']}) with stoptol {a['stoptol']}, maxiters {a['maxiters']}: the convergence test "
                        f"did not fire and the limit was not reached, yet pyttb stopped with iters = {o['iters']}")
            if want != o["iters"] or len(tr) != o["iters"] + 1 or o["printed_iters"] != list(range(o["iters"] + 1)):
                return (f"stop rule: fit trace {tr} ({o['trace_src']}) with stoptol {a['stoptol']}, maxiters {a['maxiters']} ends at iteration "
                        f"{want}, pyttb reports iters = {o['iters']} and printed iterations {o['printed_iters']}")
        f = [float(x) for x in o["fits"]]
        if any((1 - f[i + 1]) ** 2 > (1 - f[i]) ** 2 + max(1e-8, 2 * float(o["fits_eps"])) for i in range(len(f) - 1)):
            return f"fit decreases over iterations: {f} ({o['fits_src']})"
    return None


