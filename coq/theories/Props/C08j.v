(* Props/C08j.v — C08, wave 5: the penalised congruence matrix ktensor.score builds (Model/C08Inst2.v q_score_table / qk_score_C: the
   executable Qc model the correspondence stream compares with pyttb) satisfies the hypothesis "every entry exceeds the blanking
   value -10" that the greedy-loop theorems of Props/C08b.v assume — so best_perm is a permutation END TO END, for every pair of
   Kruskal tensors with at least one mode.  Only statements, `exact`, Print Assumptions. *)
From Coq Require Import List Arith Bool QArith Qcanon.
From PV Require Import Base.Index Base.Perm Model.Repr Model.Harness Model.C08Kruskal Model.C08More Model.C08Inst Model.C08Inst2
  Proofs.C08ScoreQ.
Import ListNotations.
Local Open Scope nat_scope.

(* operands whose weights are non-negative (what normalize() leaves): every entry  P[ra, rb] * prod_n |A_n[:, ra] . B_n[:, rb]|  with
   P = 1 - |la - lb| / max(|la|, |lb|)  (1 when both weights vanish) is >= 0.  Any factor entries (unit columns are NOT needed), any
   shapes and ranks, ill-formed records included *)
Theorem C08_score_matrix_nonneg : forall A B : ktensor Qc, nonneg_weights A -> nonneg_weights B ->
  forall ra rb, ra < krank A -> rb < krank B -> (0 <= nth rb (nth ra (q_score_table A B) []) q0)%Qc.
Proof. exact q_score_table_nonneg. Qed.
Print Assumptions C08_score_matrix_nonneg.

(* the matrix score() works on (both operands normalised first) lies above the blanking value: every K, L with >= 1 mode, every entry *)
Theorem C08_score_matrix_above_sentinel : forall K L : ktensor Qc, kfactors K <> [] -> kfactors L <> [] ->
  forall i j, i < krank K -> j < krank L -> ltb qleb q_sent (qk_score_C K L i j) = true.
Proof. exact qk_score_C_above_sentinel. Qed.
Print Assumptions C08_score_matrix_above_sentinel.

(* hence best_perm of score(K, L) is a permutation of range(rank K) whenever rank L <= rank K (the assertion of the source) — no
   hypothesis on the matrix left *)
Theorem C08_score_best_perm_is_perm_end_to_end : forall K L : ktensor Qc, kfactors K <> [] -> kfactors L <> [] ->
  krank L <= krank K -> is_perm (qk_score_perm K L) (krank K).
Proof. exact qk_score_perm_is_perm. Qed.
Print Assumptions C08_score_best_perm_is_perm_end_to_end.

(* non-vacuity: negative weight on one side, components of L = those of K swapped *)
Example C08_example_score_perm :
  let K := mkK [Q2Qc 2; Q2Qc (-3)] [[[Q2Qc 3; Q2Qc 0]; [Q2Qc 4; Q2Qc 1]]; [[Q2Qc 1; Q2Qc 0]; [Q2Qc 0; Q2Qc 1]]] in
  let L := mkK [Q2Qc 3; Q2Qc 2] [[[Q2Qc 0; Q2Qc 3]; [Q2Qc 1; Q2Qc 4]]; [[Q2Qc 0; Q2Qc 1]; [Q2Qc 1; Q2Qc 0]]] in
  qk_score_perm K L = [1; 0].
Proof. vm_compute. reflexivity. Qed.
