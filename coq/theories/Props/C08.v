(* Props/C08.v — Kruskal re-parameterisations preserve the tensor. Only statements, `exact`, Print Assumptions.
   (wave 4: every theorem is closed by a bare `exact` of the lemma with the same statement in Proofs/C08Stmts.v.) *)
From Coq Require Import List Arith Bool ZArith QArith Permutation Ring Sorted.
From PV Require Import Base.Index Base.Perm Base.Sum Model.Repr Model.C08Kruskal Proofs.C08Proofs Proofs.C08NormalForm Proofs.C08Vec Proofs.C08Signs Proofs.C08Stmts.
Import ListNotations.
Local Open Scope nat_scope.

Section C08.
Variable V : Type.
Variables (v0 v1 : V) (vadd vmul vsub : V -> V -> V) (vopp vinv : V -> V).
Hypothesis Vring : ring_theory v0 v1 vadd vmul vsub vopp (@eq V).
Notation den := (den_k v0 v1 vadd vmul).

(* redistribute(mode): same array, weights all one *)
Theorem C08_invariant_redistribute : forall n K, n < length (kfactors K) ->
  (forall i, den (k_redistribute v1 vmul n K) i = den K i) /\
  kweights (k_redistribute v1 vmul n K) = map (fun _ => v1) (kweights K).
Proof. exact (C08_invariant_redistribute_pf V v0 v1 vadd vmul vsub vopp Vring). Qed.

(* arrange(permutation=p): same array for every permutation p of the components *)
Theorem C08_invariant_arrange_perm : forall p K, is_perm p (krank K) ->
  forall i, den (k_arrange_perm v0 p K) i = den K i.
Proof. exact (C08_invariant_arrange_perm_pf V v0 v1 vadd vmul vsub vopp Vring). Qed.

(* extract(idx): the sum of the selected components *)
Theorem C08_extract : forall idx K i,
  den (k_extract v0 idx K) i =
  if inb (kshape K) i then sum_over v0 vadd idx (comp V v0 v1 vmul K i) else v0.
Proof. exact (C08_extract_pf V v0 v1 vadd vmul). Qed.

(* K + L, K - L, -K, c * K *)
Theorem C08_add : forall K L i, wf_k K -> kshape K = kshape L -> den (k_add K L) i = vadd (den K i) (den L i).
Proof. exact (C08_add_pf V v0 v1 vadd vmul vsub vopp Vring). Qed.
Theorem C08_sub : forall K L i, wf_k K -> kshape K = kshape L -> den (k_sub vopp K L) i = vsub (den K i) (den L i).
Proof. exact (C08_sub_pf V v0 v1 vadd vmul vsub vopp Vring). Qed.
Theorem C08_neg : forall K i, den (k_neg vopp K) i = vopp (den K i).
Proof. exact (C08_neg_pf V v0 v1 vadd vmul vsub vopp Vring). Qed.
Theorem C08_mul : forall c K i, den (k_scale vmul c K) i = vmul c (den K i).
Proof. exact (C08_mul_pf V v0 v1 vadd vmul vsub vopp Vring). Qed.

(* vector round trip, exactly (list equality): from_vector(tovec(K), shape, contains_weights=True) = K *)
Theorem C08_vec_roundtrip : forall K, wf_k K -> k_from_vector v0 v1 (k_tovec v0 true K) (kshape K) true = K.
Proof. exact (C08_vec_roundtrip_pf V v0 v1). Qed.

(* fixsigns(): same array, and an even number of factors is negated in every component (any sign oracle) *)
Theorem C08_invariant_fixsigns : forall (negcol : list V -> bool) K i,
  den (k_fixsigns v0 v1 vmul vopp negcol K) i = den K i.
Proof. exact (C08_invariant_fixsigns_pf V v0 v1 vadd vmul vsub vopp vinv Vring). Qed.
Theorem C08_sign_parity : forall (negcol : list V -> bool) K r,
  Nat.even (length (flips_of (fun n r => memb n (fs_modes v0 negcol K r)) (length (kfactors K)) r)) = true.
Proof. exact (C08_sign_parity_pf V v0 vinv). Qed.
(* fixsigns(other), pairing rule of the repaired pyttb code (= the MATLAB original; A-29 fixed): even number of flips
   for every score comparison / sign oracle *)
Theorem C08_sign_parity_other : forall (neg : V -> bool) (leb : V -> V -> bool) A B r,
  Nat.even (length (flips_of (fun n r => memb n (fso_modes v0 vadd vmul vopp neg leb A B r)) (length (kfactors A)) r)) = true.
Proof. exact (C08_sign_parity_other_pf V v0 vadd vmul vopp vinv). Qed.


(* fixsigns(other) of the repaired code, SIGN-AGREEMENT NORMAL FORM (per component r of the reference, both operands already
   normalised): in the order idx = argsort(scores) the new scores <A'_n[:,r], B_n[:,r]> are the old ones with the first
   endpt negated; at most ONE mode still correlates negatively with the reference, NONE when the number of negative
   scores was even.  For every total comparison and every sign test that is monotone and has neg(-x) = false when neg x. *)
Theorem C08_fixsigns_other_normal_form : forall (neg : V -> bool) (leb : V -> V -> bool),
  (forall a b, leb a b = false -> leb b a = true) ->
  (forall a b, leb a b = true -> neg b = true -> neg a = true) ->
  (forall x, neg x = true -> neg (vopp x) = false) ->
  forall A B r, r < krank B -> r < krank A ->
  let s := fso_scores v0 vadd vmul A B r in let idx := argsort leb s in let ss := pick v0 idx s in
  let A' := k_fixsigns_other_core v0 v1 vadd vmul vopp neg leb A B in
  Sorted (fun a b => leb a b = true) ss /\
  (forall q, q < length (kfactors A) ->
     nth (nth q idx 0) (fso_scores v0 vadd vmul A' B r) v0 = flipped_sorted V v0 vopp neg leb ss q) /\
  let cnt := length (filter (fun q => neg (nth (nth q idx 0) (fso_scores v0 vadd vmul A' B r) v0)) (seq 0 (length (kfactors A)))) in
  cnt <= 1 /\ (Nat.even (length (filter neg ss)) = true -> cnt = 0).
Proof. exact (C08_fixsigns_other_normal_form_pf V v0 v1 vadd vmul vsub vopp Vring). Qed.

(* the insertion argsort used by the executable instances is a permutation for every comparison function *)
Theorem C08_argsort_perm : forall (leb : V -> V -> bool) l, is_perm (argsort_desc leb l) (length l).
Proof. exact (C08_argsort_perm_pf V). Qed.


(* ---- wave 2: permute over modes, vector / list conversions, update ---- *)
(* permute(order): weights kept, shape permuted, entry i of the result = entry (i o order^-1) of K *)
Theorem C08_permute : forall K p, is_perm p (length (kfactors K)) ->
  kweights (k_permute p K) = kweights K /\ kshape (k_permute p K) = pick 0 p (kshape K) /\
  forall i, length i = length (kfactors K) -> den (k_permute p K) i = den K (pick 0 (invperm p) i).
Proof. exact (C08_permute_pf V v0 v1 vadd vmul vsub vopp Vring). Qed.

(* from_vector(tovec(K, include_weights=False), shape, contains_weights=False): the factors exactly, unit weights *)
Theorem C08_vec_roundtrip_noweights : forall K, wf_k K -> sum_nat (kshape K) <> 0 ->
  k_from_vector v0 v1 (k_tovec v0 false K) (kshape K) false = mkK (repeat v1 (krank K)) (kfactors K).
Proof. exact (C08_vec_roundtrip_noweights_pf V v0 v1). Qed.

(* update with all modes (weights first) = from_vector, exactly *)
Theorem C08_update_all_modes : forall K data, length data = krank K * (sum_nat (kshape K) + 1) ->
  k_update v0 (None :: map Some (seq 0 (length (kfactors K)))) data K = k_from_vector v0 v1 data (kshape K) true.
Proof. exact (C08_update_all_modes_pf V v0 v1). Qed.

(* update with a subset of the modes leaves the weights / factors that are not named untouched *)
Theorem C08_update_frame : forall ms data K,
  (~ In None ms -> kweights (k_update v0 ms data K) = kweights K) /\
  (forall k, ~ In (Some k) ms -> nth k (kfactors (k_update v0 ms data K)) [] = nth k (kfactors K) []).
Proof. exact (C08_update_frame_pf V v0). Qed.

(* tolist(): the unit-weight tensor of the returned factors denotes K — for EVERY order (the sign of a weight goes into
   factor 0 only, the N-th root of its modulus into every factor); the oracles must satisfy sgn(w) * root(|w|)^N = w *)
Theorem C08_tolist : forall (root vsgn vabs : V -> V) (is_one : V -> bool),
  (forall x, is_one x = true -> x = v1) -> forall K, kfactors K <> [] ->
  (forall w, In w (kweights K) -> vmul (vsgn w) (vpow v1 vmul (root (vabs w)) (length (kfactors K))) = w) ->
  forall i, den (mkK (map (fun _ => v1) (kweights K)) (k_tolist vmul root vsgn vabs is_one K)) i = den K i.
Proof. exact (C08_tolist_pf V v0 v1 vadd vmul vsub vopp Vring). Qed.

(* normalize / arrange / fixsigns(other): for EVERY norm oracle that is positive on non-zero columns, every sort oracle
   that returns a permutation, every sign test; 'all' needs an N-th root on the non-negative values *)
Section Oracles.
Variables (nrm : list V -> V) (pos neg : V -> bool) (root : V -> V) (srt : list V -> list nat).
Hypothesis vinv_r : forall x, x <> v0 -> vmul x (vinv x) = v1.
Hypothesis pos_nz : forall x, pos x = true -> x <> v0.
Hypothesis nrm_pos : forall l, pos (nrm l) = false -> Forall (fun y => y = v0) l.
Hypothesis srt_perm : forall l, is_perm (srt l) (length l).
Notation normalize := (k_normalize v0 v1 vmul vopp vinv nrm pos neg root srt).

Theorem C08_invariant_normalize_mode : forall n K, n < length (kfactors K) ->
  forall i, den (k_normalize_mode v0 v1 vmul vinv nrm pos n K) i = den K i.
Proof. exact (C08_invariant_normalize_mode_pf V v0 v1 vadd vmul vsub vopp vinv Vring nrm pos vinv_r pos_nz nrm_pos). Qed.

Theorem C08_invariant_normalize : forall wf sort mode K,
  (forall n, mode = Some n -> n < length (kfactors K)) ->
  (mode = None -> wf = WAll -> kfactors K <> [] /\
     (forall x, neg x = false -> vpow v1 vmul (root x) (length (kfactors K)) = x) /\
     (forall x, neg x = true -> neg (vopp x) = false)) ->
  forall i, den (normalize wf sort mode K) i = den K i.
Proof. exact (C08_invariant_normalize_pf V v0 v1 vadd vmul vsub vopp vinv Vring nrm pos neg root srt vinv_r pos_nz nrm_pos srt_perm). Qed.

Theorem C08_invariant_arrange : forall wf K, (forall n, wf = Some n -> n < length (kfactors K)) ->
  forall i, den (k_arrange v0 v1 vmul vopp vinv nrm pos neg root srt wf K) i = den K i.
Proof. exact (C08_invariant_arrange_pf V v0 v1 vadd vmul vsub vopp vinv Vring nrm pos neg root srt vinv_r pos_nz nrm_pos srt_perm). Qed.

Theorem C08_invariant_fixsigns_other : forall (leb : V -> V -> bool) A B i,
  den (k_fixsigns_other V v0 v1 vadd vmul vopp vinv nrm pos neg root srt leb A B) i = den A i.
Proof. exact (C08_invariant_fixsigns_other_pf V v0 v1 vadd vmul vsub vopp vinv Vring nrm pos neg root srt vinv_r pos_nz nrm_pos srt_perm). Qed.

(* normal form, sign of the weights: after the sign step no weight is negative *)
Theorem C08_normal_form_nonneg : forall K r, (forall x, neg x = true -> neg (vopp x) = false) ->
  kfactors K <> [] -> r < krank K -> neg (nth r (kweights (k_fix_neg v1 vmul vopp neg K)) v0) = false.
Proof. exact (C08_normal_form_nonneg_pf V v0 v1 vadd vmul vsub vopp Vring neg). Qed.

(* tolist(mode): normalize(weight_factor=mode) then the factor list *)
Theorem C08_tolist_mode : forall n K, n < length (kfactors K) ->
  forall i, den (mkK (map (fun _ => v1) (kweights K)) (k_tolist_mode v0 v1 vmul vopp vinv nrm pos neg root srt n K)) i = den K i.
Proof. exact (C08_tolist_mode_pf V v0 v1 vadd vmul vsub vopp vinv Vring nrm pos neg root srt vinv_r pos_nz nrm_pos srt_perm). Qed.

(* score: the final A.arrange(permutation=best_perm) on the normalised copy denotes the receiver *)
Theorem C08_invariant_score_arrange : forall p K, is_perm p (krank K) ->
  forall i, den (k_gather v0 p (normalize WNone false None K)) i = den K i.
Proof. exact (C08_invariant_score_arrange_pf V v0 v1 vadd vmul vsub vopp vinv Vring nrm pos neg root srt vinv_r pos_nz nrm_pos srt_perm). Qed.

(* ---- normal form under nrm_spec: the oracle is a norm (positively homogeneous, even, zero on zero columns) ---- *)
Hypothesis nrm_scale : forall c l, pos c = true -> nrm (map (fun x => vmul x c) l) = vmul (nrm l) c.
Hypothesis pos_inv : forall t, pos t = true -> pos (vinv t) = true.
Hypothesis nrm_flip : forall l, nrm (map (fun x => vmul x (vm1 v1 vopp)) l) = nrm l.
Hypothesis nrm_zero : forall l, Forall (fun y => y = v0) l -> nrm l = v0.

(* unit (or zero) columns in the requested norm after normalize(), sorted or not, and after arrange() *)
Theorem C08_normal_form_unit_columns : forall sort K n r, n < length (kfactors K) -> r < krank K ->
  unit_or_zero V v0 v1 nrm (nth n (kfactors (normalize WNone sort None K)) []) r.
Proof. exact (C08_normal_form_unit_columns_pf V v0 v1 vadd vmul vsub vopp vinv Vring nrm pos neg root srt vinv_r pos_nz nrm_pos srt_perm nrm_scale pos_inv nrm_flip). Qed.
Theorem C08_normal_form_unit_columns_mode : forall n K r, n < length (kfactors K) -> r < krank K ->
  unit_or_zero V v0 v1 nrm (nth n (kfactors (k_normalize_mode v0 v1 vmul vinv nrm pos n K)) []) r.
Proof. exact (C08_normal_form_unit_columns_mode_pf V v0 v1 vadd vmul vsub vopp vinv Vring nrm pos vinv_r pos_nz nrm_pos nrm_scale pos_inv). Qed.
Theorem C08_normal_form_arrange_unit_columns : forall K n r, n < length (kfactors K) -> r < krank K ->
  unit_or_zero V v0 v1 nrm (nth n (kfactors (k_arrange v0 v1 vmul vopp vinv nrm pos neg root srt None K)) []) r.
Proof. exact (C08_normal_form_arrange_unit_columns_pf V v0 v1 vadd vmul vsub vopp vinv Vring nrm pos neg root srt vinv_r pos_nz nrm_pos srt_perm nrm_scale pos_inv nrm_flip). Qed.

(* a component with a zero column carries weight 0 *)
Theorem C08_normal_form_zero_weight : forall K n r, n < length (kfactors K) -> r < krank K ->
  Forall (fun y => y = v0) (col v0 (nth n (kfactors K) []) r) ->
  nth r (kweights (normalize WNone false None K)) v0 = v0.
Proof. exact (C08_normal_form_zero_weight_pf V v0 v1 vadd vmul vsub vopp vinv Vring nrm pos neg root srt nrm_zero). Qed.
Theorem C08_normal_form_zero_weight_mode : forall n K r, r < krank K ->
  Forall (fun y => y = v0) (col v0 (nth n (kfactors K) []) r) ->
  nth r (kweights (k_normalize_mode v0 v1 vmul vinv nrm pos n K)) v0 = v0.
Proof. exact (C08_normal_form_zero_weight_mode_pf V v0 v1 vadd vmul vsub vopp vinv Vring nrm pos nrm_zero). Qed.

(* absorbed weights are all one (normalize with weight_factor = a mode or 'all', sorted or not; arrange(weight_factor)) *)
Theorem C08_normal_form_all_one : forall wf sort K, absorbs wf (length (kfactors K)) ->
  krank (normalize wf sort None K) = krank K /\
  forall r, r < krank K -> nth r (kweights (normalize wf sort None K)) v0 = v1.
Proof. exact (C08_normal_form_all_one_pf V v0 v1 vmul vopp vinv nrm pos neg root srt srt_perm). Qed.
Theorem C08_normal_form_arrange_all_one : forall n K,
  krank (k_arrange v0 v1 vmul vopp vinv nrm pos neg root srt (Some n) K) = krank K /\
  forall r, r < krank K -> nth r (kweights (k_arrange v0 v1 vmul vopp vinv nrm pos neg root srt (Some n) K)) v0 = v1.
Proof. exact (C08_normal_form_arrange_all_one_pf V v0 v1 vmul vopp vinv nrm pos neg root srt srt_perm). Qed.

(* descending weights when sorting is requested: the argsort-based permutation sorts (any total comparison) *)
Theorem C08_normal_form_sorted_desc : forall (leb : V -> V -> bool), (forall a b, leb a b = false -> leb b a = true) ->
  forall wf K, Sorted (fun a b => leb b a = true)
    (kweights (k_normalize v0 v1 vmul vopp vinv nrm pos neg root (argsort_desc leb) wf true None K)) /\
  Sorted (fun a b => leb b a = true)
    (kweights (k_arrange v0 v1 vmul vopp vinv nrm pos neg root (argsort_desc leb) None K)).
Proof. exact (C08_normal_form_sorted_desc_pf V v0 v1 vmul vopp vinv nrm pos neg root). Qed.
End Oracles.
End C08.

Print Assumptions C08_invariant_redistribute.
Print Assumptions C08_invariant_arrange_perm.
Print Assumptions C08_extract.
Print Assumptions C08_add.
Print Assumptions C08_sub.
Print Assumptions C08_neg.
Print Assumptions C08_mul.
Print Assumptions C08_vec_roundtrip.
Print Assumptions C08_invariant_fixsigns.
Print Assumptions C08_sign_parity.
Print Assumptions C08_sign_parity_other.
Print Assumptions C08_argsort_perm.
Print Assumptions C08_fixsigns_other_normal_form.
Print Assumptions C08_invariant_normalize_mode.
Print Assumptions C08_invariant_normalize.
Print Assumptions C08_invariant_arrange.
Print Assumptions C08_invariant_fixsigns_other.
Print Assumptions C08_normal_form_nonneg.
Print Assumptions C08_permute.
Print Assumptions C08_vec_roundtrip_noweights.
Print Assumptions C08_update_all_modes.
Print Assumptions C08_update_frame.
Print Assumptions C08_tolist.
Print Assumptions C08_tolist_mode.
Print Assumptions C08_invariant_score_arrange.
Print Assumptions C08_normal_form_unit_columns.
Print Assumptions C08_normal_form_unit_columns_mode.
Print Assumptions C08_normal_form_arrange_unit_columns.
Print Assumptions C08_normal_form_zero_weight.
Print Assumptions C08_normal_form_zero_weight_mode.
Print Assumptions C08_normal_form_all_one.
Print Assumptions C08_normal_form_arrange_all_one.
Print Assumptions C08_normal_form_sorted_desc.

(* non-vacuity: concrete non-symmetric instances over Z *)
Example C08_example_roundtrip :
  let K := mkK [2; -3]%Z [[[1; 2]; [3; 4]; [5; 6]]; [[7; 8]; [9; 10]]]%Z in
  k_tovec 0%Z true K = [2; -3; 1; 3; 5; 2; 4; 6; 7; 9; 8; 10]%Z /\
  k_from_vector 0%Z 1%Z (k_tovec 0%Z true K) [3; 2] true = K.
Proof. split; reflexivity. Qed.
Example C08_example_redistribute_extract :
  let K := mkK [2; -3]%Z [[[1; 2]; [3; 4]]; [[5; 6]; [7; 8]]]%Z in
  k_redistribute 1%Z Z.mul 1 K = mkK [1; 1]%Z [[[1; 2]; [3; 4]]; [[10; -18]; [14; -24]]]%Z /\
  den_k 0%Z 1%Z Z.add Z.mul K [1; 0] = (-42)%Z /\
  den_k 0%Z 1%Z Z.add Z.mul (k_redistribute 1%Z Z.mul 1 K) [1; 0] = (-42)%Z /\
  k_extract 0%Z [1] K = mkK [-3]%Z [[[2]; [4]]; [[6]; [8]]]%Z.
Proof. repeat split; reflexivity. Qed.

(* the hypothesis bundle of the normal-form theorems is satisfiable: the 1-norm over Qc (exact rationals) is such an oracle *)
Theorem C08_normal_form_unit_columns_Qc_1norm : forall neg root sort (K : ktensor Qcanon.Qc) n r,
  n < length (kfactors K) -> r < krank K ->
  unit_or_zero Qcanon.Qc (Qcanon.Q2Qc 0%Q) (Qcanon.Q2Qc 1%Q) qnrm
    (nth n (kfactors (k_normalize (Qcanon.Q2Qc 0%Q) (Qcanon.Q2Qc 1%Q) Qcanon.Qcmult Qcanon.Qcopp Qcanon.Qcinv qnrm qp neg root
                        (argsort_desc qle) WNone sort None K)) []) r.
Proof. exact normal_form_unit_columns_Qc. Qed.
Theorem C08_normal_form_sorted_desc_Qc : forall neg root wf (K : ktensor Qcanon.Qc),
  Sorted (fun a b => Qcanon.Qcle b a)
    (kweights (k_normalize (Qcanon.Q2Qc 0%Q) (Qcanon.Q2Qc 1%Q) Qcanon.Qcmult Qcanon.Qcopp Qcanon.Qcinv qnrm qp neg root
                 (argsort_desc qle) wf true None K)).
Proof. exact normal_form_sorted_desc_Qc. Qed.
Print Assumptions C08_normal_form_unit_columns_Qc_1norm.
Print Assumptions C08_normal_form_sorted_desc_Qc.

(* non-vacuity of the wave-2 theorems: concrete non-symmetric instances (more in Proofs/C08Vec.v, Proofs/C08NormalForm.v) *)
Example C08_example_update_permute :
  k_update 0%Z [None; Some 0; Some 1] exData exU = mkK [11; 12]%Z [[[1; 3]; [2; 4]]; [[5; 8]; [6; 9]; [7; 10]]]%Z /\
  k_update 0%Z [Some 1] [5; 6; 7; 8; 9; 10]%Z exU = mkK [1; 1]%Z [[[0; 0]; [0; 0]]; [[5; 8]; [6; 9]; [7; 10]]]%Z /\
  kshape (k_permute [1; 0] exK) = [2; 3].
Proof. repeat split; reflexivity. Qed.
(* tolist() on an order-2 tensor with a NEGATIVE weight: sign once (factor 0), root twice *)
Example C08_example_tolist_even_order_negative_weight :
  k_tolist Z.mul ex_root Z.sgn Z.abs (Z.eqb 1) exL = [[[2; -6]; [6; -12]; [10; -18]]; [[14; 24]; [18; 30]]]%Z /\
  den_k 0%Z 1%Z Z.add Z.mul (mkK [1; 1]%Z (k_tolist Z.mul ex_root Z.sgn Z.abs (Z.eqb 1) exL)) [2; 1] =
  den_k 0%Z 1%Z Z.add Z.mul exL [2; 1].
Proof. split; reflexivity. Qed.
(* fixsigns(other) on the former A-29 witness (identity factors against their negatives, three negative correlations per
   component): two of the three factors are negated, the tensor is unchanged, one negative correlation remains *)
Example C08_example_fixsigns_other_odd :
  let I2 := [[1; 0]; [0; 1]]%Z in let M2 := [[-1; 0]; [0; -1]]%Z in
  let A := mkK [1; 1]%Z [I2; I2; I2] in let B := mkK [1; 1]%Z [M2; M2; M2] in
  let A' := k_fixsigns_other_core 0%Z 1%Z Z.add Z.mul Z.opp (fun x => Z.ltb x 0) Z.leb A B in
  kfactors A' = [M2; M2; I2] /\ den_k 0%Z 1%Z Z.add Z.mul A' [1; 1; 1] = 1%Z /\
  fso_scores 0%Z Z.add Z.mul A B 0 = [-1; -1; -1]%Z /\ fso_scores 0%Z Z.add Z.mul A' B 0 = [1; 1; -1]%Z.
Proof. vm_compute. repeat split; reflexivity. Qed.
