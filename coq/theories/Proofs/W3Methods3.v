(* Proofs/W3Methods3.v — ktensor.redistribute (Gen/GenMethods3.v, `self` is a record that the method updates and returns):
   the primitive kt_redistribute of Np/NpZ3.v, which the generated get_mttkrp_factors calls for `U.redistribute(k)`, is
   exactly what the generated method computes on a well-formed ktensor (every row of the factor has one entry per weight). *)
From Coq Require Import List ZArith Arith Bool Lia.
From PV Require Import Np.NpZ Np.NpZ2 Np.NpZ3 Np.NpZ3e Proofs.NpZProofs Gen.GenMethods3 Proofs.W3Bridge Proofs.W3Laws.
Import ListNotations.
Local Open Scope Z_scope.

Definition row_r (w : vec) (r : nat) (row : vec) : vec := zmap2 Z.mul (firstn r row) (firstn r w) ++ skipn r row.
Definition w_r (w : vec) (r : nat) : vec := repeat 1 r ++ skipn r w.

Lemma row_step : forall r row w, (r < length row)%nat -> (r < length w)%nat ->
  nth r (row_r w r row) 0 = nth r row 0 /\
  upd (row_r w r row) r (nth r row 0 * nth r w 0) = row_r w (S r) row.
Proof.
  unfold row_r. induction r as [|r IH]; intros [|x row] [|y w] Hr Hw; cbn [length] in *; try lia.
  - split; reflexivity.
  - destruct (IH row w) as [E1 E2]; [lia|lia|]. cbn [firstn skipn zmap2 app nth upd]. split; [exact E1|]. f_equal. exact E2.
Qed.

Lemma w_step : forall r w, (r < length w)%nat -> nth r (w_r w r) 0 = nth r w 0 /\ upd (w_r w r) r 1 = w_r w (S r).
Proof.
  unfold w_r. induction r as [|r IH]; intros [|y w] Hw; cbn [length] in *; try lia.
  - split; reflexivity.
  - destruct (IH w) as [E1 E2]; [lia|]. cbn [repeat skipn app nth upd]. split; [exact E1|]. f_equal. exact E2.
Qed.

Lemma w_r_length w r : (r <= length w)%nat -> length (w_r w r) = length w.
Proof. intros H. unfold w_r. rewrite app_length, repeat_length, skipn_length. lia. Qed.

Lemma row_r_length w r row : (r <= length row)%nat -> (r <= length w)%nat -> length (row_r w r row) = length row.
Proof.
  intros H1 H2. unfold row_r. rewrite app_length, skipn_length.
  assert (E : forall (a b : vec), length a = length b -> length (zmap2 Z.mul a b) = length a).
  { induction a as [|x a IHa]; intros [|y b] Hab; cbn in *; try lia. f_equal. apply IHa. lia. }
  rewrite E by (rewrite !firstn_length; lia). rewrite firstn_length. lia.
Qed.

Lemma upd_upd {A} (l : list A) : forall k x y, upd (upd l k x) k y = upd l k y.
Proof. induction l as [|a l IH]; intros [|k] x y; cbn; auto. f_equal. apply IH. Qed.

Lemma upd_nth_id {A} (d : A) (l : list A) : forall m, upd l m (nth m l d) = l.
Proof. induction l as [|x l IH]; intros [|m]; cbn; auto. f_equal. apply IH. Qed.

Lemma row_r_full w row : length row = length w -> row_r w (length w) row = zmap2 Z.mul row w.
Proof. intros H. unfold row_r. rewrite (firstn_all w). rewrite <- H. rewrite firstn_all, skipn_all, app_nil_r. reflexivity. Qed.

Lemma w_r_full w : w_r w (length w) = map (fun _ => 1) w.
Proof. unfold w_r. rewrite skipn_all, app_nil_r. induction w; cbn; [reflexivity|]. f_equal. assumption. Qed.

(* the state after the first r components have been absorbed *)
Definition kt_r (k : ktz) (m : nat) (r : nat) : ktz :=
  mkkt (w_r (kt_weights k) r) (upd (kt_factors k) m (map (row_r (kt_weights k) r) (nth m (kt_factors k) []))).

Definition redist_step (mode : Z) (r : Z) (s : ktz) : res ktz :=
  if idx_ok (kt_weights s) r && kt_scale_col_ok s mode r
  then (let s' := kt_scale_col s mode r (znth 0 (kt_weights s) r) in if idx_ok (kt_weights s') r then Ok (kt_set_weight s' r 1) else Err)
  else Err.

Lemma redist_step_ok (k : ktz) (m r : nat) :
  (m < length (kt_factors k))%nat -> (r < length (kt_weights k))%nat ->
  (forall row, In row (nth m (kt_factors k) []) -> length row = length (kt_weights k)) ->
  redist_step (Z.of_nat m) (Z.of_nat r) (kt_r k m r) = Ok (kt_r k m (S r)).
Proof.
  intros Hm Hr Hrows. unfold redist_step. set (w := kt_weights k) in *. set (fs := kt_factors k) in *. set (F := nth m fs []) in *.
  assert (Hwl : length (w_r w r) = length w) by (apply w_r_length; lia).
  assert (E1 : idx_ok (kt_weights (kt_r k m r)) (Z.of_nat r) = true).
  { cbn [kt_r kt_weights]. fold w. rewrite idx_ok_nat. apply Nat.ltb_lt. rewrite Hwl. exact Hr. }
  assert (Efs : nth m (upd fs m (map (row_r w r) F)) [] = map (row_r w r) F) by (apply upd_nth_same; exact Hm).
  assert (E2 : kt_scale_col_ok (kt_r k m r) (Z.of_nat m) (Z.of_nat r) = true).
  { unfold kt_scale_col_ok. cbn [kt_r kt_factors]. fold w fs F. apply andb_true_intro. split.
    - rewrite idx_ok_nat. apply Nat.ltb_lt. rewrite upd_length. exact Hm.
    - rewrite znth_nat. rewrite upd_nth_same by exact Hm. unfold np_col_ok. apply forallb_forall. intros row Hin. apply in_map_iff in Hin as (row0 & <- & Hin0).
      rewrite idx_ok_nat. apply Nat.ltb_lt. pose proof (Hrows row0 Hin0) as Hl0. rewrite row_r_length by lia. lia. }
  rewrite E1, E2. cbn [andb].
  assert (E3 : idx_ok (kt_weights (kt_scale_col (kt_r k m r) (Z.of_nat m) (Z.of_nat r) (znth 0 (kt_weights (kt_r k m r)) (Z.of_nat r)))) (Z.of_nat r) = true)
    by (cbn [kt_scale_col kt_weights]; exact E1).
  rewrite E3. f_equal. unfold kt_set_weight, kt_scale_col, kt_r. cbn [kt_weights kt_factors]. fold w fs F.
  destruct (w_step r w Hr) as [Ew1 Ew2].
  f_equal.
  - rewrite np_set_nonneg by lia. rewrite Nat2Z.id. exact Ew2.
  - rewrite np_set_nonneg by lia. rewrite Nat2Z.id, (znth_nat [] _ m). rewrite upd_nth_same by exact Hm. rewrite upd_upd. f_equal.
    rewrite map_map. apply map_ext_in. intros row Hin.
    pose proof (Hrows row Hin) as Hl0. destruct (row_step r row w) as [Er1 Er2]; [lia|exact Hr|].
    rewrite np_set_nonneg by lia. rewrite Nat2Z.id, ?znth_nat, Er1, ?Ew1. exact Er2.
Qed.

Theorem redistribute_prim (k : ktz) (mode : Z) :
  (forall row, In row (znth [] (kt_factors k) mode) -> length row = length (kt_weights k)) ->
  ktensor_redistribute k mode = if kt_redistribute_ok k mode then Ok (kt_redistribute k mode) else Err.
Proof.
  intros Hrows. unfold ktensor_redistribute, kt_redistribute_ok, kt_ndims, kt_ncomponents.
  destruct ((0 <=? mode) && (mode <? zlen (kt_factors k))) eqn:Em; cbn [negb]; [|reflexivity].
  apply andb_true_iff in Em as [Em1 Em2]. apply Z.leb_le in Em1. apply Z.ltb_lt in Em2.
  set (m := Z.to_nat mode). assert (Hmode : mode = Z.of_nat m) by (unfold m; lia).
  assert (Hm : (m < length (kt_factors k))%nat) by (unfold zlen in Em2; lia).
  rewrite Hmode in *. rewrite znth_nat in Hrows.
  rewrite (np_for_foldM _ (redist_step (Z.of_nat m)))
    by (intros r s _; unfold redist_step; destruct (idx_ok (kt_weights s) r && kt_scale_col_ok s (Z.of_nat m) r); [|reflexivity];
        destruct (idx_ok _ r); reflexivity).
  unfold zlen at 1. rewrite np_arange_0.
  assert (L : forall c r, (r + c = length (kt_weights k))%nat ->
            foldM (redist_step (Z.of_nat m)) (map Z.of_nat (seq r c)) (kt_r k m r) = Ok (kt_r k m (length (kt_weights k)))).
  { induction c as [|c IH]; intros r Hrc.
    - cbn. replace r with (length (kt_weights k)) by lia. reflexivity.
    - cbn [seq map foldM]. rewrite redist_step_ok by (try exact Hrows; lia). cbn [bind]. apply IH. lia. }
  assert (E0 : kt_r k m 0 = k).
  { unfold kt_r, w_r, row_r. cbn [repeat skipn app firstn zmap2]. destruct k as [w fs]. cbn [kt_weights kt_factors]. f_equal.
    rewrite map_id. apply upd_nth_id. }
  pose proof (L (length (kt_weights k)) 0%nat (Nat.add_0_l _)) as HL. rewrite E0 in HL. rewrite HL. cbn [bind]. f_equal.
  unfold kt_r, kt_redistribute. rewrite w_r_full. f_equal.
  rewrite np_set_nonneg by lia. rewrite Nat2Z.id, znth_nat. f_equal. apply map_ext_in. intros row Hin.
  apply row_r_full. apply Hrows. exact Hin.
Qed.
