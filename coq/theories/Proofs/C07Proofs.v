(* Proofs/C07Proofs.v — permute / reshape / squeeze are exact index maps (proofs for Props/C07.v). *)
From Coq Require Import List Arith Lia Bool Permutation Ring.
From PV Require Import Base.Index Base.Perm Base.Sum Np.Array Model.Sparse Model.Repr Model.C07Ops Proofs.C07Index.
Import ListNotations.

(* ------------------------------------------------------------------ squeeze index lemmas *)

Lemma sqz_all {A} s (l : list A) : forallb (Nat.ltb 1) s = true -> length l = length s -> sqz s l = l.
Proof.
  revert l; induction s as [|d s IH]; intros [|x l] H HL; cbn in *; try discriminate; auto.
  apply andb_true_iff in H as [H1 H2]. rewrite H1. f_equal. apply IH; auto.
Qed.

Lemma sqz_index s i : inb s i = true ->
  sub2ind (sqz s s) (sqz s i) = sub2ind s i /\ inb (sqz s s) (sqz s i) = true /\ size (sqz s s) = size s.
Proof.
  revert i; induction s as [|d s IH]; intros [|x i] H; cbn [inb] in H; try discriminate.
  - cbn. auto.
  - apply andb_true_iff in H as [Hx Hi]. apply Nat.ltb_lt in Hx.
    destruct (IH _ Hi) as (E1 & E2 & E3). cbn [sqz].
    destruct (Nat.ltb_spec 1 d) as [Hd|Hd].
    + cbn [sub2ind inb]. rewrite E1, E2, !size_cons, E3.
      repeat split; auto. apply andb_true_iff; split; auto. now apply Nat.ltb_lt.
    + assert (d = 1) by lia. subst d. assert (x = 0) by lia. subst x.
      cbn [sub2ind]. rewrite size_cons. repeat split; auto; lia.
Qed.

Lemma sqz_nil_zero s i : sqz s s = [] -> inb s i = true -> i = repeat 0 (length s).
Proof.
  revert i; induction s as [|d s IH]; intros [|x i] E H; cbn [inb] in H; try discriminate; auto.
  apply andb_true_iff in H as [Hx Hi]. apply Nat.ltb_lt in Hx. cbn [sqz] in E.
  destruct (Nat.ltb_spec 1 d) as [Hd|Hd]; [discriminate|].
  cbn [length repeat]. f_equal; [lia|]. now apply IH.
Qed.

Lemma sqz_inj s i j : inb s i = true -> inb s j = true -> sqz s i = sqz s j -> i = j.
Proof.
  intros Hi Hj E. apply (sub2ind_inj s); auto.
  destruct (sqz_index s i Hi) as (<- & _ & _). destruct (sqz_index s j Hj) as (<- & _ & _). now rewrite E.
Qed.

Lemma size_pos_nozero s : forallb (Nat.ltb 0) s = true -> 0 < size s.
Proof.
  induction s as [|d s IH]; [cbn; lia|]. cbn [forallb]. intros H. apply andb_true_iff in H as [H1 H2].
  apply Nat.ltb_lt in H1. specialize (IH H2). rewrite size_cons. nia.
Qed.

Lemma sqz_size s : forallb (Nat.ltb 0) s = true -> size (sqz s s) = size s.
Proof.
  induction s as [|d s IH]; cbn [forallb sqz]; auto. intros H. apply andb_true_iff in H as [H1 H2].
  apply Nat.ltb_lt in H1. destruct (Nat.ltb_spec 1 d) as [Hd|Hd]; rewrite !size_cons, ?IH; auto.
  assert (d = 1) by lia. subst. lia.
Qed.

(* sqn (keep the sizes different from 1: the repaired tensor.squeeze) — index lemmas for EVERY shape, size-0 modes included *)
Lemma sqn_sqz {A} s (l : list A) : forallb (Nat.ltb 0) s = true -> sqn s l = sqz s l.
Proof.
  revert l; induction s as [|d s IH]; intros [|x l] H; cbn [sqn sqz]; auto.
  cbn [forallb] in H. apply andb_true_iff in H as [H1 H2]. apply Nat.ltb_lt in H1. rewrite (IH l H2).
  destruct (Nat.eqb_spec d 1) as [->|Hd]; [reflexivity|].
  destruct (Nat.ltb_spec 1 d); [reflexivity|lia].
Qed.

Lemma ne1_lt1 s : forallb (Nat.ltb 0) s = true ->
  forallb (fun d => negb (Nat.eqb d 1)) s = forallb (Nat.ltb 1) s.
Proof.
  induction s as [|d s IH]; [reflexivity|]. cbn [forallb]. intros H. apply andb_true_iff in H as [H1 H2].
  apply Nat.ltb_lt in H1. rewrite (IH H2). f_equal.
  destruct (Nat.eqb_spec d 1) as [->|Hd]; [reflexivity|]. destruct (Nat.ltb_spec 1 d); [reflexivity|lia].
Qed.

Lemma sqn_all {A} s (l : list A) : forallb (fun d => negb (Nat.eqb d 1)) s = true -> length l = length s -> sqn s l = l.
Proof.
  revert l; induction s as [|d s IH]; intros [|x l] H HL; cbn in *; try discriminate; auto.
  apply andb_true_iff in H as [H1 H2]. apply negb_true_iff in H1. rewrite H1. f_equal. apply IH; auto.
Qed.

Lemma sqn_size s : size (sqn s s) = size s.
Proof.
  induction s as [|d s IH]; cbn [sqn]; auto.
  destruct (Nat.eqb_spec d 1) as [->|Hd]; rewrite !size_cons, ?IH; lia.
Qed.

Lemma sqn_index s i : inb s i = true ->
  sub2ind (sqn s s) (sqn s i) = sub2ind s i /\ inb (sqn s s) (sqn s i) = true.
Proof.
  revert i; induction s as [|d s IH]; intros [|x i] H; cbn [inb] in H; try discriminate.
  - cbn. auto.
  - apply andb_true_iff in H as [Hx Hi]. apply Nat.ltb_lt in Hx.
    destruct (IH _ Hi) as (E1 & E2). cbn [sqn].
    destruct (Nat.eqb_spec d 1) as [->|Hd].
    + assert (x = 0) by lia. subst x. cbn [sub2ind]. split; auto; lia.
    + cbn [sub2ind inb]. rewrite E1, E2.
      split; auto. apply andb_true_iff; split; auto. now apply Nat.ltb_lt.
Qed.

Lemma sqn_has_zero s : In 0 s -> In 0 (sqn s s).
Proof.
  induction s as [|d s IH]; [intros []|]. intros [->|H]; cbn [sqn].
  - cbn. auto.
  - destruct (Nat.eqb d 1); [now apply IH|right; now apply IH].
Qed.

(* ------------------------------------------------------------------ dense *)
Section Dense.
Context {V : Type} (v0 : V).

Lemma all_ones_perm p n : is_perm p n -> forallb (Nat.eqb 1) p = true -> p = [] /\ n = 0.
Proof.
  intros Hp Ha. destruct n as [|n].
  - apply is_perm_length in Hp. destruct p; [auto|discriminate].
  - exfalso. assert (H0 : In 0 p) by (apply (is_perm_In p (S n) 0 Hp); lia).
    rewrite forallb_forall in Ha. specialize (Ha 0 H0). discriminate.
Qed.

Lemma np_transpose_nil (T : dense V) : wf_dense T -> dshape T = [] -> np_transpose v0 T [] = T.
Proof.
  destruct T as [s d]. unfold wf_dense. cbn. intros W ->. cbn in W.
  destruct d as [|x [|y d]]; cbn in W; try discriminate. reflexivity.
Qed.

Lemma permute_d_perm (T : dense V) p : wf_dense T -> is_perm p (length (dshape T)) ->
  permute_d v0 T p = Some (np_transpose v0 T p).
Proof.
  intros W Hp. unfold permute_d. pose proof (is_perm_length _ _ Hp) as HL. rewrite HL, Nat.eqb_refl. cbn [negb].
  destruct (Nat.eqb_spec (length (dshape T)) 0) as [H0|H0].
  - assert (p = []) as -> by (apply length_zero_iff_nil; lia).
    rewrite np_transpose_nil; auto. now apply length_zero_iff_nil.
  - destruct (Nat.eqb (length (dshape T)) 1 && forallb (Nat.eqb 1) p) eqn:Ha.
    + apply andb_true_iff in Ha as [_ Ha]. destruct (all_ones_perm _ _ Hp Ha) as [_ HN]. lia.
    + apply is_permb_spec in Hp. now rewrite Hp.
Qed.

Lemma den_transpose (T : dense V) p i : is_perm p (length (dshape T)) -> length i = length (dshape T) ->
  den_dense v0 (np_transpose v0 T p) i = den_dense v0 T (pick 0 (invperm p) i).
Proof.
  intros Hp HL. unfold np_transpose.
  destruct (inb (pick 0 p (dshape T)) i) eqn:E.
  - now rewrite den_tabulate.
  - rewrite den_tabulate_out by auto. rewrite inb_pick_inv in E by auto. now rewrite den_dense_out.
Qed.

Lemma transpose_inverse (T : dense V) p : wf_dense T -> is_perm p (length (dshape T)) ->
  np_transpose v0 (np_transpose v0 T p) (invperm p) = T.
Proof.
  intros W Hp. pose proof (is_perm_length _ _ Hp) as HpL. pose proof (invperm_is_perm _ _ Hp) as Hq.
  apply (dense_ext v0); [apply wf_tabulate|exact W| |].
  - unfold np_transpose. rewrite !dshape_tabulate. now apply (pick_invperm_pick 0 p (length (dshape T))).
  - intros i Hi. set (T' := np_transpose v0 T p) in *.
    assert (Hs : dshape (np_transpose v0 T' (invperm p)) = dshape T).
    { unfold np_transpose, T'. rewrite !dshape_tabulate. now apply (pick_invperm_pick 0 p (length (dshape T))). }
    rewrite Hs in Hi. pose proof (inb_length _ _ Hi) as HiL.
    assert (HT' : length (dshape T') = length (dshape T)) by (unfold T', np_transpose; rewrite dshape_tabulate, pick_length; lia).
    rewrite den_transpose by (rewrite HT'; auto).
    rewrite (invperm_invperm p _ Hp). unfold T'. rewrite den_transpose by (auto; rewrite pick_length; lia).
    now rewrite (pick_invperm_pick 0 p (length (dshape T))).
Qed.

Theorem permute_dense_correct (T : dense V) p : wf_dense T -> is_perm p (length (dshape T)) ->
  exists R, permute_d v0 T p = Some R /\ wf_dense R /\ dshape R = pick 0 p (dshape T) /\
    (forall i, length i = length (dshape T) -> den_dense v0 R i = den_dense v0 T (pick 0 (invperm p) i)) /\
    permute_d v0 R (invperm p) = Some T.
Proof.
  intros W Hp. exists (np_transpose v0 T p). pose proof (is_perm_length _ _ Hp) as HpL.
  split; [now apply permute_d_perm|]. split; [apply wf_tabulate|]. split; [reflexivity|]. split.
  - intros i HL. now apply den_transpose.
  - rewrite permute_d_perm.
    + now rewrite transpose_inverse.
    + apply wf_tabulate.
    + unfold np_transpose. rewrite dshape_tabulate, pick_length, HpL. now apply invperm_is_perm.
Qed.

Theorem reshape_dense_correct (T : dense V) s' : wf_dense T -> size s' = size (dshape T) ->
  exists R, reshape_d v0 T s' = Some R /\ wf_dense R /\ dshape R = s' /\ ddata R = ddata T /\
    (forall i, inb s' i = true -> den_dense v0 R i = den_dense v0 T (ind2sub (dshape T) (sub2ind s' i))) /\
    (forall i, inb (dshape T) i = true ->
        inb s' (ind2sub s' (sub2ind (dshape T) i)) = true /\
        den_dense v0 R (ind2sub s' (sub2ind (dshape T) i)) = den_dense v0 T i) /\
    reshape_d v0 R (dshape T) = Some T.
Proof.
  intros W Hs. exists (np_reshapeF v0 T s'). unfold reshape_d. rewrite Hs, Nat.eqb_refl.
  split; [reflexivity|]. split; [apply wf_tabulate|]. split; [reflexivity|].
  split; [now apply np_reshapeF_data|]. split; [intros i Hi; now apply den_reshapeF|]. split.
  - intros i Hi. pose proof (sub2ind_lt _ _ Hi) as Hlt. rewrite <- Hs in Hlt.
    split; [now apply inb_ind2sub|].
    rewrite den_reshapeF by (auto using inb_ind2sub).
    rewrite sub2ind_ind2sub by auto. now rewrite ind2sub_sub2ind.
  - cbn [dshape np_reshapeF tabulate]. rewrite Hs, Nat.eqb_refl. f_equal.
    assert (E : ddata (np_reshapeF v0 (np_reshapeF v0 T s') (dshape T)) = ddata T).
    { rewrite np_reshapeF_data; [now apply np_reshapeF_data|apply wf_tabulate|]. unfold np_reshapeF. rewrite dshape_tabulate. lia. }
    destruct T as [s d]. cbn [dshape ddata] in *.
    change (np_reshapeF v0 (np_reshapeF v0 (mkDense s d) s') s)
      with (mkDense s (ddata (np_reshapeF v0 (np_reshapeF v0 (mkDense s d) s') s))). now rewrite E.
Qed.

(* the formulation of tensor.squeeze before /repo 649a706 (tests `shape > 1`): the same function on positive sizes *)
Definition squeeze_d_pos (T : dense V) : sq_res (V:=V) (dense V) :=
  let s := dshape T in
  if forallb (Nat.ltb 1) s then SqT T
  else match sqz s s with
       | [] => SqScalar (nth 0 (ddata T) v0)
       | s' => SqT (mkDense s' (ddata T))
       end.

Lemma squeeze_d_pos_eq (T : dense V) : forallb (Nat.ltb 0) (dshape T) = true -> squeeze_d v0 T = squeeze_d_pos T.
Proof. intros H. unfold squeeze_d, squeeze_d_pos. now rewrite (ne1_lt1 _ H), (sqn_sqz _ _ H). Qed.

(* tensor.squeeze on EVERY shape (size-0 modes included: they are kept; N-C07-6 repaired): the modes of size 1 are dropped,
   the F-order data is unchanged, every entry keeps its value at the squeezed subscript; a scalar exactly when every mode
   is a singleton *)
Theorem squeeze_dense_any (T : dense V) : wf_dense T ->
  match squeeze_d v0 T with
  | SqT R => wf_dense R /\ dshape R = sqn (dshape T) (dshape T) /\ ddata R = ddata T /\
             (forall i, inb (dshape T) i = true ->
                inb (dshape R) (sqn (dshape T) i) = true /\ den_dense v0 R (sqn (dshape T) i) = den_dense v0 T i)
  | SqScalar v => sqn (dshape T) (dshape T) = [] /\ (forall i, inb (dshape T) i = true -> v = den_dense v0 T i)
  end.
Proof.
  intros W. unfold squeeze_d. destruct (forallb (fun d => negb (Nat.eqb d 1)) (dshape T)) eqn:Hall.
  - split; auto. split; [now rewrite sqn_all|]. split; auto. intros i Hi.
    rewrite sqn_all by (auto; now apply inb_length). auto.
  - destruct (sqn (dshape T) (dshape T)) as [|d s'] eqn:Es.
    + split; auto. intros i Hi. destruct (sqn_index _ _ Hi) as (E1 & _). rewrite Es in E1.
      unfold den_dense. rewrite Hi, <- E1. now destruct (sqn (dshape T) i).
    + split; [|split; [reflexivity|split; [reflexivity|]]].
      * unfold wf_dense. cbn [ddata dshape]. rewrite <- Es, sqn_size. exact W.
      * intros i Hi. destruct (sqn_index _ _ Hi) as (E1 & E2). cbn [dshape]. rewrite <- Es. split; auto.
        unfold den_dense. cbn [dshape ddata]. rewrite E2, Hi, E1. reflexivity.
Qed.

(* a holder with a mode of size 0 (no element): squeeze answers with a tensor that keeps every size-0 mode and holds no
   element — never a scalar, never a refusal *)
Theorem squeeze_dense_zero_mode (T : dense V) : wf_dense T -> In 0 (dshape T) ->
  exists R, squeeze_d v0 T = SqT R /\ wf_dense R /\ dshape R = sqn (dshape T) (dshape T) /\ In 0 (dshape R) /\
            ddata R = [] /\ ddata T = [].
Proof.
  intros W H0. pose proof (squeeze_dense_any T W) as H.
  assert (Hd : ddata T = []).
  { apply length_zero_iff_nil. unfold wf_dense in W. rewrite W. clear -H0.
    induction (dshape T) as [|d s IH]; [destruct H0|]. rewrite size_cons. destruct H0 as [->|H0]; [lia|].
    rewrite (IH H0). lia. }
  destruct (squeeze_d v0 T) as [R|v].
  - destruct H as (WR & Hs & Hdat & _). exists R. split; [reflexivity|]. split; [exact WR|]. split; [exact Hs|].
    split; [rewrite Hs; now apply sqn_has_zero|]. split; [now rewrite Hdat|exact Hd].
  - destruct H as [Hn _]. apply sqn_has_zero in H0. rewrite Hn in H0. destruct H0.
Qed.

Theorem squeeze_dense_correct (T : dense V) : wf_dense T -> forallb (Nat.ltb 0) (dshape T) = true ->
  match squeeze_d v0 T with
  | SqT R => wf_dense R /\ dshape R = sqz (dshape T) (dshape T) /\ ddata R = ddata T /\
             (forall i, inb (dshape T) i = true ->
                inb (dshape R) (sqz (dshape T) i) = true /\ den_dense v0 R (sqz (dshape T) i) = den_dense v0 T i)
  | SqScalar v => sqz (dshape T) (dshape T) = [] /\ (forall i, inb (dshape T) i = true -> v = den_dense v0 T i)
  end.
Proof.
  intros W Hpos. pose proof (squeeze_dense_any T W) as H.
  destruct (squeeze_d v0 T) as [R|v].
  - destruct H as (WR & Hs & Hdat & Hden). rewrite (sqn_sqz _ _ Hpos) in Hs.
    repeat split; auto; rewrite <- (sqn_sqz _ i Hpos); now apply Hden.
  - rewrite (sqn_sqz _ _ Hpos) in H. exact H.
Qed.

End Dense.

(* ------------------------------------------------------------------ sparse *)
Section SparseOps.
Context {V : Type} (v0 : V) (isz : V -> bool).

Lemma last_match_map (f : idx -> idx) i subs (vals : list V) d :
  (forall j, In j subs -> idx_eqb (f i) (f j) = idx_eqb i j) ->
  last_match (f i) (combine (map f subs) vals) d = last_match i (combine subs vals) d.
Proof.
  revert vals d; induction subs as [|j subs IH]; intros [|v vals] d H; cbn; auto.
  rewrite H by (cbn; auto). apply IH. intros; apply H; cbn; auto.
Qed.

Lemma idx_eqb_inj (f : idx -> idx) i j : (f i = f j -> i = j) -> idx_eqb (f i) (f j) = idx_eqb i j.
Proof.
  intros H. destruct (idx_eqb i j) eqn:E.
  - apply idx_eqb_spec in E. subst. apply idx_eqb_refl.
  - apply idx_eqb_neq. intros E2. apply H in E2. subst. now rewrite idx_eqb_refl in E.
Qed.

(* den under an index map that is injective on {i} ∪ stored subscripts *)
Lemma den_sp_map (f : idx -> idx) (P : idx -> Prop) S s' i :
  (forall a b, P a -> P b -> f a = f b -> a = b) -> Forall P (ssubs S) -> P i ->
  den_sp v0 (mkSp s' (map f (ssubs S)) (svals S)) (f i) = den_sp v0 S i.
Proof.
  intros Hinj HP Hi. unfold den_sp, entries. cbn [ssubs svals]. apply last_match_map.
  intros j Hj. apply idx_eqb_inj. rewrite Forall_forall in HP. auto.
Qed.

Lemma den_sp_map_out (f : idx -> idx) S s' i' :
  (forall j, In j (ssubs S) -> f j <> i') -> den_sp v0 (mkSp s' (map f (ssubs S)) (svals S)) i' = v0.
Proof.
  intros H. apply den_sp_notin. cbn [ssubs]. rewrite in_map_iff. intros (j & E & Hj). now apply (H j).
Qed.

Lemma wf_sp_map (f : idx -> idx) (P : idx -> Prop) S s' :
  (forall a b, P a -> P b -> f a = f b -> a = b) -> Forall P (ssubs S) ->
  (forall a, P a -> inb s' (f a) = true) ->
  wf_sp isz S -> wf_sp isz (mkSp s' (map f (ssubs S)) (svals S)).
Proof.
  intros Hinj HP Hb (HL & Hn & _ & Hz). rewrite Forall_forall in HP. unfold wf_sp. cbn [sshape ssubs svals].
  repeat split; auto.
  - now rewrite map_length.
  - apply NoDup_map_inj; auto.
  - rewrite Forall_forall. intros j Hj. apply in_map_iff in Hj as (a & <- & Ha). auto.
Qed.

(* ---- permute ---- *)
Lemma pick_perm_inj p n (i j : idx) : is_perm p n -> length i = n -> length j = n -> pick 0 p i = pick 0 p j -> i = j.
Proof.
  intros Hp Hi Hj E. rewrite <- (pick_invperm_pick 0 p n i), <- (pick_invperm_pick 0 p n j) by auto. now rewrite E.
Qed.

Theorem permute_sparse_correct (S : sparse V) p :
  is_perm p (length (sshape S)) -> Forall (fun j => length j = length (sshape S)) (ssubs S) ->
  exists R, permute_sp S p = Some R /\ sshape R = pick 0 p (sshape S) /\ svals R = svals S /\ nnz R = nnz S /\
    (forall i, length i = length (sshape S) -> den_sp v0 R i = den_sp v0 S (pick 0 (invperm p) i)) /\
    (wf_sp isz S -> wf_sp isz R) /\
    permute_sp R (invperm p) = Some S.
Proof.
  intros Hp HL. set (N := length (sshape S)) in *. pose proof (is_perm_length _ _ Hp) as HpL.
  pose proof (invperm_is_perm _ _ Hp) as Hq.
  unfold permute_sp. fold N. rewrite (proj2 (is_permb_spec p N) Hp).
  eexists; split; [reflexivity|]. cbn [sshape ssubs svals]. split; [reflexivity|]. split; [reflexivity|].
  split; [unfold nnz; cbn; now rewrite map_length|]. split; [|split].
  - intros i Hi.
    rewrite <- (pick_pick_invperm 0 p N i) at 1 by auto.
    apply (den_sp_map (pick 0 p) (fun j => length j = N)); auto.
    + intros a b Ha Hb. now apply (pick_perm_inj p N).
    + rewrite pick_length, invperm_length. lia.
  - intros W. apply (wf_sp_map (pick 0 p) (fun j => inb (sshape S) j = true)); auto.
    + intros a b Ha Hb. apply (pick_perm_inj p N); auto; now apply inb_length.
    + now destruct W as (_ & _ & Hb & _).
    + intros a Ha. rewrite inb_pick; auto. now apply inb_length.
  - rewrite pick_length, HpL. rewrite (proj2 (is_permb_spec (invperm p) N) Hq).
    rewrite (pick_invperm_pick 0 p N) by auto. rewrite map_map.
    destruct S as [s subs vals]. cbn in *. f_equal. f_equal.
    rewrite <- (map_id subs) at 2. apply map_ext_in. intros j Hj. rewrite Forall_forall in HL.
    apply (pick_invperm_pick 0 p N); auto.
Qed.

(* ---- reshape ---- *)
Lemma keep_modes_lt N old k : In k (keep_modes N old) -> k < N.
Proof. unfold keep_modes. intros H. apply filter_In in H as [H _]. apply in_seq in H. lia. Qed.

Lemma keep_modes_cover N old k : k < N -> In k (keep_modes N old) \/ In k old.
Proof.
  intros Hk. unfold keep_modes. destruct (existsb (Nat.eqb k) old) eqn:E.
  - right. apply existsb_exists in E as (x & Hx & Ex). apply Nat.eqb_eq in Ex. now subst.
  - left. apply filter_In. split; [apply in_seq; lia|]. now rewrite E.
Qed.

Lemma keep_modes_all N : keep_modes N (seq 0 N) = [].
Proof.
  unfold keep_modes. assert (G : forall l, (forall k, In k l -> In k (seq 0 N)) ->
    filter (fun k => negb (existsb (Nat.eqb k) (seq 0 N))) l = []).
  { induction l as [|a l IH]; intros H; cbn; auto.
    assert (Ha : existsb (Nat.eqb a) (seq 0 N) = true).
    { apply existsb_exists. exists a. split; [apply H; cbn; auto|apply Nat.eqb_refl]. }
    rewrite Ha. cbn. apply IH. intros; apply H; cbn; auto. }
  apply G. auto.
Qed.

Section Reshape.
Variables (s s' : shape) (old : list nat).
Hypothesis Hold : Forall (fun k => k < length s) old.
Hypothesis Hsize : size s' = size (pick 0 old s).

Lemma reshape_row_inb i : inb s i = true ->
  inb (pick 0 (keep_modes (length s) old) s ++ s') (reshape_row s s' old i) = true.
Proof.
  intros Hi. unfold reshape_row. rewrite inb_app by (now rewrite !pick_length).
  apply andb_true_iff; split.
  - apply inb_pick_sub; auto. intros k. apply keep_modes_lt.
  - apply inb_ind2sub. rewrite Hsize. apply sub2ind_lt. apply inb_pick_sub; auto.
    now apply Forall_forall.
Qed.

Lemma reshape_row_inj i j : inb s i = true -> inb s j = true ->
  reshape_row s s' old i = reshape_row s s' old j -> i = j.
Proof.
  intros Hi Hj E. unfold reshape_row in E.
  apply app_inv_length_eq in E; [|now rewrite !pick_length]. destruct E as [E1 E2].
  assert (Ho : forall x, inb s x = true -> inb (pick 0 old s) (pick 0 old x) = true).
  { intros x Hx. apply inb_pick_sub; auto. now apply Forall_forall. }
  apply ind2sub_inj in E2; try (rewrite Hsize; apply sub2ind_lt; auto).
  apply sub2ind_inj in E2; auto.
  apply (pick_cover_ext i j (keep_modes (length s) old) old); auto.
  - apply inb_length in Hi, Hj. lia.
  - intros k Hk. apply keep_modes_cover. apply inb_length in Hi. lia.
Qed.
End Reshape.

Theorem reshape_sparse_correct (S : sparse V) s' old :
  Forall (fun k => k < length (sshape S)) old -> size s' = size (pick 0 old (sshape S)) ->
  Forall (fun j => inb (sshape S) j = true) (ssubs S) ->
  exists R, reshape_sp S s' old = Some R /\
    sshape R = pick 0 (keep_modes (length (sshape S)) old) (sshape S) ++ s' /\
    svals R = svals S /\ nnz R = nnz S /\ (wf_sp isz S -> wf_sp isz R) /\
    (forall i, inb (sshape S) i = true ->
       inb (sshape R) (reshape_row (sshape S) s' old i) = true /\
       den_sp v0 R (reshape_row (sshape S) s' old i) = den_sp v0 S i) /\
    (forall i', (forall i, inb (sshape S) i = true -> reshape_row (sshape S) s' old i <> i') -> den_sp v0 R i' = v0).
Proof.
  intros Hold Hsize Hb. unfold reshape_sp. rewrite Hsize, Nat.eqb_refl.
  eexists; split; [reflexivity|]. cbn [sshape ssubs svals]. split; [reflexivity|]. split; [reflexivity|].
  split; [unfold nnz; cbn; now rewrite map_length|]. split; [|split].
  - intros W. apply (wf_sp_map (reshape_row (sshape S) s' old) (fun j => inb (sshape S) j = true)); auto.
    + intros a b. now apply reshape_row_inj.
    + intros a. now apply reshape_row_inb.
  - intros i Hi. split; [now apply reshape_row_inb|].
    apply (den_sp_map (reshape_row (sshape S) s' old) (fun j => inb (sshape S) j = true)); auto.
    intros a b. now apply reshape_row_inj.
  - intros i' H. apply den_sp_map_out. intros j Hj. apply H. rewrite Forall_forall in Hb. auto.
Qed.

Lemma reshape_row_all s s' i : length i = length s ->
  reshape_row s s' (seq 0 (length s)) i = ind2sub s' (sub2ind s i).
Proof.
  intros HL. unfold reshape_row. rewrite keep_modes_all. cbn [pick map app].
  rewrite pick_seq. rewrite <- HL. now rewrite pick_seq.
Qed.

Theorem reshape_sparse_all_correct (S : sparse V) s' :
  size s' = size (sshape S) -> Forall (fun j => inb (sshape S) j = true) (ssubs S) ->
  exists R, reshape_sp_all S s' = Some R /\ sshape R = s' /\ svals R = svals S /\ nnz R = nnz S /\
    (wf_sp isz S -> wf_sp isz R) /\
    (forall i', inb s' i' = true -> den_sp v0 R i' = den_sp v0 S (ind2sub (sshape S) (sub2ind s' i'))) /\
    (forall i, inb (sshape S) i = true -> den_sp v0 R (ind2sub s' (sub2ind (sshape S) i)) = den_sp v0 S i) /\
    Forall (fun j => inb s' j = true) (ssubs R) /\
    reshape_sp_all R (sshape S) = Some S.
Proof.
  intros Hsize Hb. unfold reshape_sp_all.
  assert (Hold : Forall (fun k => k < length (sshape S)) (seq 0 (length (sshape S)))).
  { apply Forall_forall. intros k Hk. apply in_seq in Hk. lia. }
  assert (Hsz : size s' = size (pick 0 (seq 0 (length (sshape S))) (sshape S))) by (now rewrite pick_seq).
  destruct (reshape_sparse_correct S s' _ Hold Hsz Hb) as (R & HR & Hsh & Hv & Hn & Hw & Hden & _).
  exists R. split; auto. rewrite keep_modes_all in Hsh. cbn in Hsh. split; auto. split; auto. split; auto. split; auto.
  assert (Hfwd : forall i, inb (sshape S) i = true -> den_sp v0 R (ind2sub s' (sub2ind (sshape S) i)) = den_sp v0 S i).
  { intros i Hi. destruct (Hden i Hi) as [_ E]. rewrite reshape_row_all in E by (now apply inb_length). exact E. }
  split; [|split; auto].
  - intros i' Hi'. pose proof (sub2ind_lt _ _ Hi') as Hlt. rewrite Hsize in Hlt.
    rewrite <- (Hfwd (ind2sub (sshape S) (sub2ind s' i'))) by (now apply inb_ind2sub).
    rewrite sub2ind_ind2sub by auto. now rewrite ind2sub_sub2ind.
  - unfold reshape_sp in HR. rewrite <- Hsz, Nat.eqb_refl in HR. inversion HR as [HR']. clear HR.
    cbn [ssubs sshape svals]. split.
    + rewrite Forall_forall. intros j Hj. apply in_map_iff in Hj as (a & <- & Ha).
      rewrite Forall_forall in Hb. rewrite reshape_row_all by (apply inb_length; auto).
      apply inb_ind2sub. rewrite Hsize. apply sub2ind_lt. auto.
    + unfold reshape_sp. cbn [sshape ssubs svals]. rewrite keep_modes_all. cbn [pick map app].
      rewrite pick_seq, Hsize, Nat.eqb_refl. rewrite keep_modes_all. cbn [pick map app].
      destruct S as [s subs vals]. cbn [sshape ssubs svals] in *. f_equal. f_equal. rewrite map_map.
      rewrite <- (map_id subs) at 2. apply map_ext_in. intros j Hj. rewrite Forall_forall in Hb.
      specialize (Hb j Hj). pose proof (sub2ind_lt _ _ Hb) as Hlt.
      rewrite (reshape_row_all s s' j) by (now apply inb_length).
      rewrite (reshape_row_all s' s) by (rewrite ind2sub_length; reflexivity).
      rewrite sub2ind_ind2sub by lia. now apply ind2sub_sub2ind.
Qed.

(* ---- squeeze ---- *)
Theorem squeeze_sparse_correct (S : sparse V) :
  Forall (fun j => inb (sshape S) j = true) (ssubs S) ->
  match squeeze_sp v0 S with
  | SqT R => sshape R = sqz (sshape S) (sshape S) /\ svals R = svals S /\ nnz R = nnz S /\
             (wf_sp isz S -> wf_sp isz R) /\
             (forall i, inb (sshape S) i = true ->
                inb (sshape R) (sqz (sshape S) i) = true /\ den_sp v0 R (sqz (sshape S) i) = den_sp v0 S i)
  | SqScalar v => sqz (sshape S) (sshape S) = [] /\ (forall i, inb (sshape S) i = true -> v = den_sp v0 S i)
  end.
Proof.
  intros Hb. unfold squeeze_sp. destruct (forallb (Nat.ltb 1) (sshape S)) eqn:Hall.
  - split; [now rewrite sqz_all|]. split; auto. split; auto. split; auto.
    intros i Hi. rewrite sqz_all by (auto; now apply inb_length). auto.
  - destruct (sqz (sshape S) (sshape S)) as [|d r] eqn:Es.
    + split; auto. intros i Hi. now rewrite (sqz_nil_zero _ _ Es Hi).
    + cbn [sshape ssubs svals]. split; [reflexivity|]. split; [reflexivity|].
      split; [unfold nnz; cbn; now rewrite map_length|]. rewrite <- Es. split.
      * intros W. apply (wf_sp_map (sqz (sshape S)) (fun j => inb (sshape S) j = true)); auto.
        -- intros a b. apply sqz_inj.
        -- intros a Ha. now destruct (sqz_index _ _ Ha) as (_ & E & _).
      * intros i Hi. split; [now destruct (sqz_index _ _ Hi) as (_ & E & _)|].
        apply (den_sp_map (sqz (sshape S)) (fun j => inb (sshape S) j = true)); auto.
        intros a b. apply sqz_inj.
Qed.

End SparseOps.

(* ------------------------------------------------------------------ Kruskal / Tucker *)
Section KT.
Variable V : Type.
Variables (v0 v1 : V) (vadd vmul vsub : V -> V -> V) (vopp : V -> V).
Hypothesis Vring : ring_theory v0 v1 vadd vmul vsub vopp (@eq V).
Add Ring Vr07 : Vring.

Lemma prodv_perm l l' : Permutation l l' -> prodv v1 vmul l = prodv v1 vmul l'.
Proof.
  induction 1 as [|a l l' _ IH|a b l|l l' l'' _ IH1 _ IH2]; cbn; auto.
  - now rewrite IH.
  - ring.
  - congruence.
Qed.

Lemma kprod_as_prodv (As : list (matrix (V:=V))) i r : length i = length As ->
  kprod v0 v1 vmul As i r = prodv v1 vmul (map (fun ax => mget v0 (fst ax) (snd ax) r) (combine As i)).
Proof.
  revert i; induction As as [|A As IH]; intros [|x i] H; cbn in *; try discriminate; auto.
  f_equal. apply IH. lia.
Qed.

Lemma kprod_pick (As : list (matrix (V:=V))) i p r : is_perm p (length As) -> length i = length As ->
  kprod v0 v1 vmul (pick [] p As) (pick 0 p i) r = kprod v0 v1 vmul As i r.
Proof.
  intros Hp HL. rewrite !kprod_as_prodv by (auto; now rewrite !pick_length).
  rewrite combine_pick by auto. apply prodv_perm. apply Permutation_map.
  apply pick_Permutation. rewrite combine_length, HL, Nat.min_id. exact Hp.
Qed.

Theorem permute_kruskal_correct (K : ktensor V) p : is_perm p (length (kfactors K)) ->
  exists R, permute_k K p = Some R /\ kweights R = kweights K /\ kshape R = pick 0 p (kshape K) /\
    (forall i, length i = length (kfactors K) ->
       den_k v0 v1 vadd vmul R i = den_k v0 v1 vadd vmul K (pick 0 (invperm p) i)) /\
    permute_k R (invperm p) = Some K.
Proof.
  intros Hp. set (N := length (kfactors K)) in *. pose proof (is_perm_length _ _ Hp) as HpL.
  pose proof (invperm_is_perm _ _ Hp) as Hq.
  unfold permute_k. fold N. rewrite (proj2 (is_permb_spec p N) Hp). eexists; split; [reflexivity|].
  cbn [kweights kfactors]. split; [reflexivity|].
  assert (Hks : kshape (mkK (kweights K) (pick [] p (kfactors K))) = pick 0 p (kshape K)).
  { unfold kshape. cbn [kfactors]. now rewrite map_pick. }
  split; [exact Hks|]. split.
  - intros i Hi. unfold den_k. rewrite Hks. unfold krank. cbn [kweights kfactors].
    assert (HkL : length (kshape K) = N) by (unfold kshape; now rewrite map_length).
    rewrite inb_pick_inv by (rewrite HkL; auto).
    destruct (inb (kshape K) (pick 0 (invperm p) i)); auto.
    apply sum_n_ext. intros r _. f_equal.
    rewrite <- (pick_pick_invperm 0 p N i) at 1 by auto.
    apply kprod_pick; auto. rewrite pick_length, invperm_length. lia.
  - rewrite pick_length, HpL. rewrite (proj2 (is_permb_spec (invperm p) N) Hq).
    rewrite (pick_invperm_pick [] p N) by auto. now destruct K.
Qed.

(* Tucker *)
Lemma tprod_as_prodv (Us : list (matrix (V:=V))) i j : length i = length Us -> length j = length Us ->
  tprod v0 v1 vmul Us i j =
  prodv v1 vmul (map (fun u => mget v0 (fst u) (fst (snd u)) (snd (snd u))) (combine Us (combine i j))).
Proof.
  revert i j; induction Us as [|U Us IH]; intros [|x i] [|y j] Hi Hj; cbn in *; try discriminate; auto.
  f_equal. apply IH; lia.
Qed.

Lemma tprod_pick (Us : list (matrix (V:=V))) i j p : is_perm p (length Us) -> length i = length Us -> length j = length Us ->
  tprod v0 v1 vmul (pick [] p Us) (pick 0 p i) (pick 0 p j) = tprod v0 v1 vmul Us i j.
Proof.
  intros Hp Hi Hj. rewrite !tprod_as_prodv by (auto; now rewrite !pick_length).
  rewrite (combine_pick 0 0) by lia. rewrite combine_pick by (rewrite combine_length; lia).
  apply prodv_perm. apply Permutation_map. apply pick_Permutation.
  rewrite !combine_length, Hi, Hj, !Nat.min_id. exact Hp.
Qed.

Lemma allsubs_pick_perm s p : is_perm p (length s) ->
  Permutation (map (pick 0 (invperm p)) (allsubs (pick 0 p s))) (allsubs s).
Proof.
  intros Hp. pose proof (is_perm_length _ _ Hp) as HpL. pose proof (invperm_is_perm _ _ Hp) as Hq.
  assert (Hin : forall j, In j (allsubs (pick 0 p s)) -> length j = length s).
  { intros j Hj. apply in_allsubs, inb_length in Hj. rewrite pick_length in Hj. lia. }
  apply NoDup_Permutation.
  - apply NoDup_map_inj; [apply allsubs_NoDup|]. intros a b Ha Hb E.
    apply (pick_perm_inj (invperm p) (length s)); auto.
  - apply allsubs_NoDup.
  - intros x. rewrite in_map_iff. split.
    + intros (j & <- & Hj). pose proof (Hin j Hj) as HjL. apply in_allsubs in Hj. apply in_allsubs.
      now rewrite <- inb_pick_inv.
    + intros Hx. apply in_allsubs in Hx. pose proof (inb_length _ _ Hx) as HxL.
      exists (pick 0 p x). split; [now apply (pick_invperm_pick 0 p (length s))|].
      apply in_allsubs. now rewrite inb_pick.
Qed.

Theorem permute_tucker_correct (T : ttensor V) p :
  wf_dense (tcore T) -> length (dshape (tcore T)) = length (tfactors T) -> is_perm p (length (tfactors T)) ->
  exists R, permute_t v0 T p = Some R /\ tshape R = pick 0 p (tshape T) /\
    dshape (tcore R) = pick 0 p (dshape (tcore T)) /\ wf_dense (tcore R) /\
    (forall i, length i = length (tfactors T) ->
       den_t v0 v1 vadd vmul R i = den_t v0 v1 vadd vmul T (pick 0 (invperm p) i)) /\
    permute_t v0 R (invperm p) = Some T.
Proof.
  intros W HN Hp. set (N := length (tfactors T)) in *. pose proof (is_perm_length _ _ Hp) as HpL.
  pose proof (invperm_is_perm _ _ Hp) as Hq.
  assert (Hp' : is_perm p (length (dshape (tcore T)))) by (now rewrite HN).
  destruct (permute_dense_correct v0 (tcore T) p W Hp') as (C & HC & WC & HsC & HdC & HinvC).
  unfold permute_t. fold N. rewrite (proj2 (is_permb_spec p N) Hp), HC. eexists; split; [reflexivity|].
  assert (Hts : tshape (mkT C (pick [] p (tfactors T))) = pick 0 p (tshape T)).
  { unfold tshape. cbn [tfactors]. now rewrite map_pick. }
  split; [exact Hts|]. cbn [tcore tfactors]. split; [exact HsC|]. split; [exact WC|]. split.
  - intros i Hi. unfold den_t. rewrite Hts. cbn [tcore tfactors].
    assert (HtL : length (tshape T) = N) by (unfold tshape; now rewrite map_length).
    rewrite inb_pick_inv by (rewrite HtL; auto).
    destruct (inb (tshape T) (pick 0 (invperm p) i)); auto.
    rewrite HsC.
    rewrite <- (sum_over_perm V v0 v1 vadd vmul vsub vopp Vring _ _ _ (allsubs_pick_perm (dshape (tcore T)) p Hp')).
    rewrite (sum_over_map V v0 vadd).
    apply (sum_over_ext V v0 vadd). intros j Hj.
    apply in_allsubs, inb_length in Hj. rewrite pick_length, HpL in Hj.
    rewrite HdC by lia. f_equal.
    rewrite <- (pick_pick_invperm 0 p N i) at 1 by auto.
    rewrite <- (pick_pick_invperm 0 p N j) at 1 by auto.
    apply tprod_pick; auto; rewrite pick_length, invperm_length; lia.
  - rewrite pick_length, HpL. rewrite (proj2 (is_permb_spec (invperm p) N) Hq), HinvC.
    rewrite (pick_invperm_pick [] p N) by auto. now destruct T.
Qed.

End KT.

(* ------------------------------------------------------------------ the holders agree *)
Section Agree.
Variable V : Type.
Variables (v0 v1 : V) (vadd vmul vsub : V -> V -> V) (vopp : V -> V).
Hypothesis Vring : ring_theory v0 v1 vadd vmul vsub vopp (@eq V).

Theorem permute_repr_agree (T : dense V) (S : sparse V) (K : ktensor V) (Tk : ttensor V) p N :
  wf_dense T -> length (dshape T) = N -> length (sshape S) = N ->
  Forall (fun j => length j = N) (ssubs S) -> length (kfactors K) = N ->
  wf_dense (tcore Tk) -> length (dshape (tcore Tk)) = N -> length (tfactors Tk) = N ->
  is_perm p N ->
  (forall i, length i = N -> den_sp v0 S i = den_dense v0 T i /\ den_k v0 v1 vadd vmul K i = den_dense v0 T i /\
                             den_t v0 v1 vadd vmul Tk i = den_dense v0 T i) ->
  exists T' S' K' Tk', permute_d v0 T p = Some T' /\ permute_sp S p = Some S' /\ permute_k K p = Some K' /\
    permute_t v0 Tk p = Some Tk' /\
    (forall i, length i = N -> den_sp v0 S' i = den_dense v0 T' i /\ den_k v0 v1 vadd vmul K' i = den_dense v0 T' i /\
                               den_t v0 v1 vadd vmul Tk' i = den_dense v0 T' i).
Proof.
  intros W HT HS HSl HK WC HC HTk Hp Hag. subst N.
  destruct (permute_dense_correct v0 T p W Hp) as (T' & E1 & _ & _ & D1 & _).
  rewrite <- HS in Hp, HSl. destruct (permute_sparse_correct v0 (fun _ => false) S p Hp HSl) as (S' & E2 & _ & _ & _ & D2 & _).
  rewrite HS, <- HK in Hp. destruct (permute_kruskal_correct V v0 v1 vadd vmul vsub vopp Vring K p Hp) as (K' & E3 & _ & _ & D3 & _).
  rewrite HK, <- HTk in Hp. rewrite <- HTk in HC.
  destruct (permute_tucker_correct V v0 v1 vadd vmul vsub vopp Vring Tk p WC HC Hp) as (Tk' & E4 & _ & _ & _ & D4 & _).
  exists T', S', K', Tk'. repeat (split; [assumption|]). intros i Hi.
  assert (Hq : length (pick 0 (invperm p) i) = length (dshape T)).
  { rewrite pick_length, invperm_length. apply is_perm_length in Hp. lia. }
  destruct (Hag _ Hq) as (A1 & A2 & A3).
  rewrite D1, D2, D3, D4 by lia. auto.
Qed.

End Agree.

Section Agree2.
Context {V : Type} (v0 : V).

Theorem reshape_repr_agree (T : dense V) (S : sparse V) s' : wf_dense T -> sshape S = dshape T ->
  Forall (fun j => inb (sshape S) j = true) (ssubs S) -> size s' = size (dshape T) ->
  (forall i, inb (dshape T) i = true -> den_sp v0 S i = den_dense v0 T i) ->
  exists T' S', reshape_d v0 T s' = Some T' /\ reshape_sp_all S s' = Some S' /\
    forall i, inb s' i = true -> den_sp v0 S' i = den_dense v0 T' i.
Proof.
  intros W Hs Hb Hsz Hag.
  destruct (reshape_dense_correct v0 T s' W Hsz) as (T' & E1 & _ & _ & _ & D1 & _).
  rewrite <- Hs in Hsz. destruct (reshape_sparse_all_correct v0 (fun _ => false) S s' Hsz Hb) as (S' & E2 & _ & _ & _ & _ & D2 & _).
  exists T', S'. split; auto. split; auto. intros i Hi. rewrite D1, D2 by auto. rewrite Hs. apply Hag.
  apply inb_ind2sub. rewrite <- Hs, <- Hsz. now apply sub2ind_lt.
Qed.

Theorem squeeze_repr_agree (T : dense V) (S : sparse V) : wf_dense T -> sshape S = dshape T ->
  forallb (Nat.ltb 0) (dshape T) = true ->
  Forall (fun j => inb (sshape S) j = true) (ssubs S) ->
  (forall i, inb (dshape T) i = true -> den_sp v0 S i = den_dense v0 T i) ->
  match squeeze_d v0 T, squeeze_sp v0 S with
  | SqT T', SqT S' => sshape S' = dshape T' /\
       forall i, inb (dshape T) i = true -> den_sp v0 S' (sqz (dshape T) i) = den_dense v0 T' (sqz (dshape T) i)
  | SqScalar a, SqScalar b => a = b
  | _, _ => False
  end.
Proof.
  intros W Hs Hpos Hb Hag.
  pose proof (squeeze_dense_correct v0 T W Hpos) as HD.
  pose proof (squeeze_sparse_correct v0 (fun _ => false) S Hb) as HS.
  assert (Hex : inb (dshape T) (repeat 0 (length (dshape T))) = true).
  { clear -Hpos. induction (dshape T) as [|d s IH]; cbn [forallb length repeat inb] in *; auto.
    apply andb_true_iff in Hpos as [H1 H2]. rewrite H1. cbn. auto. }
  destruct (squeeze_d v0 T) as [T'|a] eqn:ED; destruct (squeeze_sp v0 S) as [S'|b] eqn:ES.
  - destruct HD as (_ & HsT & _ & HdT). destruct HS as (HsS & _ & _ & _ & HdS). split; [now rewrite HsS, HsT, Hs|].
    intros i Hi. rewrite <- Hs in *. destruct (HdS i Hi) as [_ ->]. rewrite Hs in *. destruct (HdT i Hi) as [_ ->]. auto.
  - destruct HD as (_ & HsT & _). destruct HS as (HsS & _). rewrite (squeeze_d_pos_eq v0 T Hpos) in ED. unfold squeeze_d_pos in ED. rewrite Hs in HsS.
    destruct (forallb (Nat.ltb 1) (dshape T)) eqn:Hall.
    + rewrite sqz_all in HsS by auto. rewrite HsS in Hex. cbn in Hex.
      rewrite HsS in Hall. cbn in Hall. unfold squeeze_sp in ES. rewrite Hs, HsS in ES. cbn in ES. discriminate.
    + rewrite HsS in ED. discriminate.
  - destruct HD as (HsT & _). destruct HS as (HsS & _). unfold squeeze_sp in ES. rewrite Hs in *.
    destruct (forallb (Nat.ltb 1) (dshape T)) eqn:Hall; [|rewrite HsT in ES; discriminate].
    rewrite (squeeze_d_pos_eq v0 T Hpos) in ED. unfold squeeze_d_pos in ED. rewrite Hall in ED. discriminate.
  - destruct HD as (_ & HdT). destruct HS as (_ & HdS). rewrite Hs in HdS.
    rewrite (HdT _ Hex), (HdS _ Hex). symmetry. now apply Hag.
Qed.
End Agree2.
