(* Proofs/C02KruskalAnyProofs.v — ktensor.innerprod with a dense / sparse / Tucker operand (ktensor.py:1070):
     res = Σ_r weights[r] * other.ttv([A_1[:, r], ..., A_N[:, r]])
   The ttv over ALL modes with the r-th factor columns is the contraction of the operand with the r-th rank-one term, so the
   weighted sum is the inner product with the array the Kruskal tensor denotes — for the array g the operand denotes, whatever holds
   it (compose with C02_ttv_dense / C02_ttv_sparse / C02_ttv_tucker for the operand's own ttv). *)
From Coq Require Import List Arith Lia Bool Permutation Ring.
From PV Require Import Base.Index Base.Perm Base.Sum Np.Array Model.Sparse Model.Repr Model.C02Spec Model.C02Dense Model.C02Sparse
                       Model.C02SpMore Proofs.C02DenseProofs Proofs.C02SparseProofs Proofs.C02MttkrpProofs
                       Proofs.C02ModesProofs Proofs.C02TenmatProofs Proofs.C02PermProofs Proofs.C02IndicatorProofs.
Import ListNotations.

Lemma compl_all N : compl N (seq 0 N) = [].
Proof.
  unfold compl. assert (H : forall l, (forall m, In m l -> In m (seq 0 N)) ->
    filter (fun m => negb (existsb (Nat.eqb m) (seq 0 N))) l = []).
  { induction l as [|x l IH]; intros Hl; [reflexivity|]. cbn [filter].
    rewrite (proj2 (existsb_eqb_in x (seq 0 N))) by (apply Hl; cbn; auto). cbn [negb]. apply IH. intros; apply Hl; cbn; auto. }
  apply H. auto.
Qed.

Section P.
Variable V : Type.
Variables (v0 v1 : V) (vadd vmul vsub : V -> V -> V) (vopp : V -> V).
Hypothesis Vring : ring_theory v0 v1 vadd vmul vsub vopp (@eq V).
Add Ring Vr16 : Vring.

Local Notation "x + y" := (vadd x y).
Local Notation "x * y" := (vmul x y).
Local Notation Sn := (sum_n v0 vadd).
Local Notation So := (sum_over v0 vadd).
Local Notation kp := (kprod v0 v1 vmul).
Local Notation pp := (pprod v0 v1 vmul).

(* column r of every factor matrix: self.factor_matrices[n][:, r] *)
Definition kcols (As : list (@matrix V)) (r : nat) : list (list V) :=
  map (fun A : @matrix V => map (fun x => mget v0 A x r) (seq 0 (nrows A))) As.

Lemma pprod_kcols r : forall (As : list (@matrix V)) (pre a : idx), inb (map (@nrows V) As) a = true ->
  pp (combine (seq (length pre) (length As)) (kcols As r)) (pre ++ a) = kp As a r.
Proof.
  induction As as [|A As IH]; intros pre a Ha; [reflexivity|].
  destruct a as [|x a]; [discriminate|]. cbn [map inb] in Ha. apply andb_true_iff in Ha as [Hx Ha]. apply Nat.ltb_lt in Hx.
  cbn [length seq kcols map combine pprod kprod]. fold (kcols As r).
  rewrite app_nth2 by lia. rewrite Nat.sub_diag. cbn [nth].
  rewrite (nth_map_seq V v0 (fun x0 => mget v0 A x0 r)) by exact Hx. f_equal.
  replace (pre ++ x :: a) with ((pre ++ [x]) ++ a) by (now rewrite <- app_assoc).
  replace (S (length pre)) with (length (pre ++ [x])) by (rewrite app_length; cbn; lia).
  now apply IH.
Qed.

(* the ttv over all modes with the r-th columns = contraction with the r-th rank-one term *)
Lemma spec_ttv_all_cols (g : idx -> V) (As : list (@matrix V)) r :
  spec_ttv v0 vadd vmul g (map (@nrows V) As) (seq 0 (length As)) (kcols As r) [] =
  So (allsubs (map (@nrows V) As)) (fun a => g a * kp As a r).
Proof.
  set (s := map (@nrows V) As). assert (HN : length s = length As) by (unfold s; now rewrite map_length).
  rewrite (spec_ttv_indicator V v0 v1 vadd vmul vsub vopp Vring (fun _ => true)).
  - apply sum_over_ext. intros a Ha. apply in_allsubs in Ha. rewrite HN, compl_all.
    change (pick 0 [] a) with (@nil nat). cbn [idx_eqb]. f_equal.
    exact (pprod_kcols r As [] a Ha).
  - apply seq_NoDup.
  - intros x Hx. apply in_seq in Hx. lia.
  - unfold kcols. now rewrite map_length, seq_length.
  - unfold ttv_shape. rewrite HN, compl_all. reflexivity.
Qed.

(* ---- ktensor.innerprod(other) for a non-Kruskal operand denoting g ---- *)
Theorem innerprod_k_any (K : ktensor V) (g : idx -> V) :
  Sn (krank K) (fun r => nth r (kweights K) v0 *
      spec_ttv v0 vadd vmul g (kshape K) (seq 0 (length (kfactors K))) (kcols (kfactors K) r) []) =
  spec_innerprod v0 vadd vmul g (den_k v0 v1 vadd vmul K) (kshape K).
Proof.
  unfold spec_innerprod, kshape.
  transitivity (Sn (krank K) (fun r => So (allsubs (map (@nrows V) (kfactors K)))
                  (fun a => g a * (nth r (kweights K) v0 * kp (kfactors K) a r)))).
  { apply sum_n_ext. intros r _. rewrite spec_ttv_all_cols. rewrite <- (sum_over_scale_l _ _ _ _ _ _ _ Vring).
    apply sum_over_ext. intros a _. ring. }
  unfold sum_n. rewrite (sum_over_swap _ _ _ _ _ _ _ Vring). apply sum_over_ext. intros a Ha. apply in_allsubs in Ha.
  unfold den_k, kshape. rewrite Ha. unfold sum_n. now rewrite (sum_over_scale_l _ _ _ _ _ _ _ Vring).
Qed.

End P.
