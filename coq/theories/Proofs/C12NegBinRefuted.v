(* Proofs/C12NegBinRefuted.v — handles.negative_binomial_grad as it stands in the source is NOT the
   derivative of handles.negative_binomial (DESIGN Appendix A-34: (num_trials + 1) instead of
   (num_trials + data)).  The full statement is kept visible as a Definition, refuted at a concrete
   point, and the derivative the loss really has is proved next to it.
   When the source is repaired this file stops compiling (negbin_refuted becomes false) and
   Proofs/C12NegBin.v, which proves the positive theorem, takes its place (see C12NegBin.v). *)
From Coq Require Import Reals Lra.
From Coquelicot Require Import Coquelicot.
From PV Require Import Np.NpR Gen.GenHandles Proofs.C12Handles.
Local Open Scope R_scope.

Definition negative_binomial_deriv_stmt : Prop :=
  forall x m r, 0 <= m ->
    is_derive (fun m => negative_binomial x m r) m (negative_binomial_grad x m r).

(* what the derivative of the loss in the source is, on the whole domain m >= 0 *)
Lemma negative_binomial_true_deriv x m r : 0 <= m ->
  is_derive (fun m => negative_binomial x m r) m ((r + x) / (1 + m) - x / (m + EPS)).
Proof. intros Hm. unfold negative_binomial. deriv. Qed.

(* witness: data 3, model value 1, one trial *)
Lemma negative_binomial_refuted : ~ negative_binomial_deriv_stmt.
Proof.
  intros H. specialize (H 3 1 1 ltac:(lra)).
  pose proof (negative_binomial_true_deriv 3 1 1 ltac:(lra)) as T.
  apply is_derive_unique in H. apply is_derive_unique in T. rewrite H in T.
  unfold negative_binomial_grad in T. pose proof eps_pos. lra.
Qed.

(* the part of the statement that does hold for the code as it is: data value 1 (where r + 1 = r + x) *)
Lemma negative_binomial_deriv_partial m r : 0 <= m ->
  is_derive (fun m => negative_binomial 1 m r) m (negative_binomial_grad 1 m r).
Proof. intros Hm. unfold negative_binomial, negative_binomial_grad. deriv. Qed.
