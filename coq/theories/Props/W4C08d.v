(* Props/W4C08d.v — the GENERATED classmethod ktensor.from_vector (Gen/GenKtensor4b.v) computes the hand model k_from_vector
   of Model/C08Kruskal.v, and the round trip tovec -> from_vector over the two GENERATED functions (Gen/GenKtensor4.v,
   GenKtensor4b.v, both regenerated from /repo/pyttb/ktensor.py on every run).  Only statements, `exact`, Print Assumptions. *)
From Coq Require Import List ZArith Arith Bool.
From PV Require Import Np.NpZ Np.NpZ2 Np.NpZ3 Np.NpZ3c Np.NpZ3d Np.NpZ3e Np.NpZ4 Np.NpZ4c Model.Repr Model.C08Kruskal Model.W4Ktensor
  Proofs.W4FromVectorModel Gen.GenKtensor4 Gen.GenKtensor4b.
Import ListNotations.
Local Open Scope Z_scope.

Theorem C08_gen_from_vector_model : forall (cls : unit) (data shape : vec) (cw : bool) (k : ktz),
  (forall x, In x shape -> 0 <= x) -> ktensor_from_vector cls data shape cw = Ok k ->
  to_K k = k_from_vector 0 1 data (nats shape) cw.
Proof. exact gen_from_vector_model. Qed.
Print Assumptions C08_gen_from_vector_model.

(* what the generated tovec writes for a well-formed tensor, the generated from_vector reads back exactly *)
Theorem C08_gen_vec_roundtrip : forall (self k' : ktz) (v : vec),
  (forall f row, In f (kt_factors self) -> In row f -> zlen row = zlen (kt_weights self)) ->
  ktensor_tovec self true = Ok v -> ktensor_from_vector tt v (kt_shape self) true = Ok k' -> k' = self.
Proof. exact gen_vec_roundtrip. Qed.
Print Assumptions C08_gen_vec_roundtrip.

Example C08_gen_vec_roundtrip_example :
  bind (ktensor_tovec (mkkt [2; 3] [[[1; 4]; [2; 5]; [3; 6]]; [[7; 8]]]) true) (fun v => ktensor_from_vector tt v [3; 1] true)
    = Ok (mkkt [2; 3] [[[1; 4]; [2; 5]; [3; 6]]; [[7; 8]]]).
Proof. reflexivity. Qed.
