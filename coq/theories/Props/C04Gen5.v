(* Props/C04Gen5.v — C04, wave 5: the region FILTER of sptensor.__getitem__ / _set_subtensor over the translator-GENERATED
   sptensor.subdims (Gen/GenSptensor4.v; its bridge Props/W4C04.v C04_gen_subdims_bridge belongs to the translator and is claimed
   by this check), composed with the generated tt_renumber of Props/C04Gen.v.  Only statements, `exact`, Print Assumptions. *)
From Coq Require Import List Arith ZArith Bool.
From PV Require Import Base.Index Np.Array Model.Sparse Np.NpZ Np.NpZ2 Np.NpZ3 Gen.GenUtils3 Gen.GenSptensor4.
From PV Require Import Model.C04Model Proofs.C04GenBridge Proofs.C04GenRegion Proofs.C04GenSubdims.
Import ListNotations.

(* the generated subdims loop (np.isin masks, mode by mode) on the key forms of the specification - integers (negative: normalised
   by __getitem__ / __setitem__ before the call), slices with any bounds / step (Python slice semantics), index lists - returns
   exactly the stored positions whose subscript lies in the region, ascending: the filter `insideb` of the hand model.  Any number
   of modes, any stored order, any number of stored entries >= 1 *)
Theorem C04_gen_subdims_filter : forall (s : shape) (subs : list idx) (vals : vec) es ls,
  region_lists s es = Some ls -> subs <> [] -> s <> [] -> (forall p, In p subs -> length p = length s) ->
  sptensor_subdims (mkspt (map zs subs) vals (zs s)) (zkeys s es)
  = Ok (map Z.of_nat (filter (fun l => insideb ls (nth l subs [])) (seq 0 (length subs)))).
Proof. exact gen_subdims_filter. Qed.
Print Assumptions C04_gen_subdims_filter.

(* sptensor.__getitem__(region), BOTH generated functions inside: loc = subdims(region); subs[loc], vals[loc]; tt_renumber; the
   columns of the kept modes — that object is the model's sp_region_get S es and holds at every subscript j of the result what S
   holds at the position j selects.  Value type, shape, number of modes and stored order arbitrary *)
Theorem C04_gen_getitem_region : forall {V : Type} (v0 : V) (S : sparse V) es ls (zv : vec) loc ns nsh,
  length (ssubs S) = length (svals S) -> (forall p, In p (ssubs S) -> length p = length (sshape S)) ->
  region_lists (sshape S) es = Some ls ->
  Forall (fun x : bool * list nat => NoDup (snd x)) ls ->
  sshape S <> [] ->
  sptensor_subdims (mkspt (map zs (ssubs S)) zv (zs (sshape S))) (zkeys (sshape S) es) = Ok loc ->
  loc <> [] ->
  tt_renumber (np_take [] (map zs (ssubs S)) loc) (zs (sshape S)) (zkeys (sshape S) es) = Ok (ns, nsh) ->
  let R := mkSp (unzs (keepc ls nsh)) (map (fun r => unzs (keepc ls r)) ns) (np_take v0 (svals S) loc) in
  loc = map Z.of_nat (filter (fun l => insideb ls (nth l (ssubs S) [])) (seq 0 (length (ssubs S)))) /\
  sp_region_get S es = Some R /\
  sshape R = kept_shape ls /\
  (forall j, inb (kept_shape ls) j = true -> den_sp v0 R j = den_sp v0 S (select ls j)).
Proof. exact @gen_getitem_region. Qed.
Print Assumptions C04_gen_getitem_region.

(* "Delete what currently occupies the specified range" of sptensor._set_subtensor (zero and sparse right-hand sides), the
   GENERATED subdims inside: rmloc = subdims(key); kploc = setdiff1d(range(nnz), rmloc); subs[kploc], vals[kploc] = the stored
   entries OUTSIDE the region, in stored order *)
Theorem C04_gen_delete_region : forall {V : Type} (v0 : V) (s : shape) (subs : list idx) (vals : list V) (zv : vec) es ls,
  region_lists s es = Some ls -> subs <> [] -> s <> [] -> (forall p, In p subs -> length p = length s) ->
  length subs = length vals ->
  exists rmloc, sptensor_subdims (mkspt (map zs subs) zv (zs s)) (zkeys s es) = Ok rmloc /\
    let kploc := np_setdiff1d (np_arange 0 (Z.of_nat (length subs))) rmloc in
    let kept := filter (fun e : idx * V => negb (insideb ls (fst e))) (combine subs vals) in
    np_take [] (map zs subs) kploc = map zs (map fst kept) /\ np_take v0 vals kploc = map snd kept.
Proof. exact @gen_delete_region. Qed.
Print Assumptions C04_gen_delete_region.

(* S[region] = 0 (Case I(b)i of sptensor._set_subtensor): whenever the executable sparse model performs it from a well-formed state
   with stored entries, its new RAW state (subscripts, values, stored order) is exactly what that deletion - generated subdims on the
   resized shape and the zero-padded subscripts - leaves; the new shape is grow(shape, demands of the key) *)
Theorem C04_gen_set_region_zero : forall {V : Type} (v0 : V) (isz : V -> bool), isz v0 = true ->
  forall (S S' : sparse V) es out (zv : vec),
  wf_sp isz S -> ssubs S <> [] ->
  step_sparse v0 isz S (OSet (KRegion es) (RScalar v0)) = Some (S', out) ->
  let s' := sshape S' in
  let subs1 := map (sp_pad (length s')) (ssubs S) in
  s' = grow (sshape S) (map elem_need es) /\
  exists rmloc, sptensor_subdims (mkspt (map zs subs1) zv (zs s')) (zkeys s' es) = Ok rmloc /\
    let kploc := np_setdiff1d (np_arange 0 (Z.of_nat (length subs1))) rmloc in
    np_take [] (map zs subs1) kploc = map zs (ssubs S') /\ np_take v0 (svals S) kploc = svals S'.
Proof. exact @gen_set_region_zero. Qed.
Print Assumptions C04_gen_set_region_zero.

Example C04_gen_getitem_region_example :
  let es := [C04Model.KList [3; 1]%Z; C04Model.KInt (-1); C04Model.KSlice (Some 4%Z) None (Some (-2)%Z)] in
  sptensor_subdims (mkspt (map zs [[3; 2; 4]; [0; 2; 0]; [1; 1; 4]; [3; 0; 2]]%nat) [7; 8; 9; 6]%Z (zs [4; 3; 5]%nat)) (zkeys [4; 3; 5]%nat es) = Ok [0%Z] /\
  tt_renumber (np_take [] (map zs [[3; 2; 4]; [0; 2; 0]; [1; 1; 4]; [3; 0; 2]]%nat) [0%Z]) (zs [4; 3; 5]%nat) (zkeys [4; 3; 5]%nat es)
    = Ok ([[0; 0; 0]%Z], [2; 0; 3]%Z).
Proof. exact gen_getitem_region_example. Qed.
