(* Proofs/C17Argsort.v — wave 4 (audit E): the tie order of np_argsort stated as a theorem.
   np_argsort (Np/NpZ.v) is the model of np.argsort(kind="stable"): the positions come out ordered by
   (key, position) — among equal keys the earlier position first — and it is the ONLY permutation of
   0..n-1 ordered that way.  (numpy's default kind promises only "a valid argsort"; pyttb calls
   np.argsort on mode lists that tt_dimscheck has already checked to be free of repetitions, where every
   valid argsort is the stable one: argsort_nodup_unique.) *)
From Coq Require Import List ZArith Arith Bool Lia Permutation Sorted.
From PV Require Import Base.Index Np.NpZ Proofs.NpZProofs.
Import ListNotations.
Local Open Scope Z_scope.

(* order on (key, position) pairs *)
Definition plex (p q : Z * Z) : Prop := fst p < fst q \/ (fst p = fst q /\ snd p < snd q).
(* the same order on positions of a key vector l *)
Definition keylt (l : vec) (i j : Z) : Prop := znth 0 l i < znth 0 l j \/ (znth 0 l i = znth 0 l j /\ i < j).
(* weak order by key alone: what ANY valid argsort satisfies *)
Definition keyle (l : vec) (i j : Z) : Prop := znth 0 l i <= znth 0 l j.

Lemma iota_sorted o n : StronglySorted Z.lt (map Z.of_nat (seq o n)).
Proof.
  revert o; induction n as [|n IH]; intros o; cbn; constructor; auto.
  rewrite Forall_forall. intros y Hy. apply in_map_iff in Hy as (k & <- & Hk). apply in_seq in Hk. lia.
Qed.

Lemma ins_pair_lex p l : StronglySorted plex l -> (forall q, In q l -> snd p < snd q) -> StronglySorted plex (ins_pair p l).
Proof.
  induction l as [|q r IH]; intros Hs Hp; cbn [ins_pair].
  - repeat constructor.
  - apply StronglySorted_inv in Hs as [Hr Hq]. rewrite Forall_forall in Hq.
    assert (Hpq : snd p < snd q) by (apply Hp; now left).
    destruct (Z.leb_spec (fst p) (fst q)) as [Hle|Hgt].
    + constructor; [constructor; [exact Hr|now rewrite Forall_forall]|].
      rewrite Forall_forall. intros x [<-|Hx].
      * unfold plex. lia.
      * specialize (Hq x Hx). assert (snd p < snd x) by (apply Hp; now right). unfold plex in *. lia.
    + constructor.
      * apply IH; [exact Hr|]. intros x Hx. apply Hp. now right.
      * rewrite Forall_forall. intros x Hx. eapply Permutation_in in Hx; [|apply ins_pair_perm].
        destruct Hx as [<-|Hx]; [unfold plex; lia|now apply Hq].
Qed.

Lemma isort_pairs_lex ps : StronglySorted Z.lt (map snd ps) -> StronglySorted plex (isort_pairs ps).
Proof.
  induction ps as [|p ps IH]; intros Hs; cbn [isort_pairs fold_right]; [constructor|].
  cbn [map] in Hs. apply StronglySorted_inv in Hs as [Hs Hp]. rewrite Forall_forall in Hp.
  apply ins_pair_lex; [now apply IH|]. intros q Hq.
  eapply Permutation_in in Hq; [|apply isort_pairs_perm]. apply Hp. now apply in_map.
Qed.

Lemma snd_tagged l : map snd (tagged l) = map Z.of_nat (seq 0 (length l)).
Proof. unfold tagged. apply map_snd_combine. now rewrite map_length, seq_length. Qed.

Lemma StronglySorted_map_in {X Y} (P : X -> X -> Prop) (R : Y -> Y -> Prop) (f : X -> Y) l :
  (forall a b, In a l -> In b l -> P a b -> R (f a) (f b)) -> StronglySorted P l -> StronglySorted R (map f l).
Proof.
  induction l as [|a l IH]; intros H Hs; cbn [map]; [constructor|].
  apply StronglySorted_inv in Hs as [Hs Ha]. rewrite Forall_forall in Ha. constructor.
  - apply IH; [|exact Hs]. intros x y Hx Hy. apply H; now right.
  - rewrite Forall_forall. intros y Hy. apply in_map_iff in Hy as (x & <- & Hx). apply H; [now left|now right|now apply Ha].
Qed.

(* stability: positions ordered by (key, position) *)
Theorem np_argsort_stable l : StronglySorted (keylt l) (np_argsort l).
Proof.
  unfold np_argsort. apply (StronglySorted_map_in plex); [|apply isort_pairs_lex; rewrite snd_tagged; apply iota_sorted].
  intros a b Ha Hb Hab.
  eapply Permutation_in in Ha; [|apply isort_pairs_perm]. eapply Permutation_in in Hb; [|apply isort_pairs_perm].
  apply in_tagged in Ha as (ka & _ & Sa & Fa). apply in_tagged in Hb as (kb & _ & Sb & Fb).
  unfold keylt. rewrite Sa, Sb, !znth_nat, <- Fa, <- Fb, <- Sa, <- Sb. exact Hab.
Qed.

(* a strict order has at most one sorted arrangement of a given collection *)
Lemma sorted_perm_unique {X} (R : X -> X -> Prop) (l1 l2 : list X) :
  (forall a b, R a b -> R b a -> False) ->
  StronglySorted R l1 -> StronglySorted R l2 -> Permutation l1 l2 -> l1 = l2.
Proof.
  intros Has. revert l2. induction l1 as [|a l1 IH]; intros l2 H1 H2 HP.
  - apply Permutation_nil in HP. now subst.
  - destruct l2 as [|b l2]; [apply Permutation_sym, Permutation_nil in HP; discriminate|].
    apply StronglySorted_inv in H1 as [H1 Ha]. apply StronglySorted_inv in H2 as [H2 Hb].
    rewrite Forall_forall in Ha, Hb.
    assert (E : a = b).
    { assert (Ia : In a (b :: l2)) by (eapply Permutation_in; [exact HP|now left]).
      assert (Ib : In b (a :: l1)) by (eapply Permutation_in; [apply Permutation_sym; exact HP|now left]).
      destruct Ia as [->|Ia]; [reflexivity|]. destruct Ib as [->|Ib]; [reflexivity|].
      exfalso. apply (Has a b); [now apply Ha|now apply Hb]. }
    subst b. f_equal. apply IH; auto. now apply Permutation_cons_inv in HP.
Qed.

(* np_argsort is the unique stable argsort *)
Theorem np_argsort_unique l p :
  Permutation p (map Z.of_nat (seq 0 (length l))) -> StronglySorted (keylt l) p -> p = np_argsort l.
Proof.
  intros HP Hs. apply (sorted_perm_unique (keylt l)); [unfold keylt; intros; lia|exact Hs|apply np_argsort_stable|].
  eapply perm_trans; [exact HP|apply Permutation_sym, np_argsort_perm].
Qed.

(* a valid argsort (what the default kind promises): a permutation of the positions along which the keys do not decrease *)
Definition valid_argsort (l p : vec) : Prop :=
  Permutation p (map Z.of_nat (seq 0 (length l))) /\ StronglySorted (keyle l) p.

Lemma keylt_keyle l p : StronglySorted (keylt l) p -> StronglySorted (keyle l) p.
Proof.
  induction 1 as [|a p Hs IH Ha]; constructor; auto.
  rewrite Forall_forall in *. intros x Hx. specialize (Ha x Hx). unfold keylt, keyle in *. lia.
Qed.

Theorem np_argsort_valid l : valid_argsort l (np_argsort l).
Proof. split; [apply np_argsort_perm|apply keylt_keyle, np_argsort_stable]. Qed.

(* without repeated keys every valid argsort is the stable one (the situation of every np.argsort call in pyttb_utils:
   tt_dimscheck sorts a mode list already checked to be repetition-free, the row helpers sort np.unique first-occurrence
   positions) *)
Lemma nth_inj_nodup (l : vec) i j : NoDup l -> (i < length l)%nat -> (j < length l)%nat -> nth i l 0 = nth j l 0 -> i = j.
Proof. intros Hn Hi Hj E. now apply (proj1 (NoDup_nth l 0) Hn). Qed.

Theorem argsort_nodup_unique l p : NoDup l -> valid_argsort l p -> p = np_argsort l.
Proof.
  intros Hn [HP Hs]. apply np_argsort_unique; [exact HP|].
  assert (Hin : forall x, In x p -> exists k, x = Z.of_nat k /\ (k < length l)%nat).
  { intros x Hx. eapply Permutation_in in Hx; [|exact HP]. apply in_map_iff in Hx as (k & <- & Hk). apply in_seq in Hk. eauto with zarith. }
  assert (Hnd : NoDup p).
  { eapply Permutation_NoDup; [apply Permutation_sym; exact HP|].
    apply FinFun.Injective_map_NoDup; [intros a b; apply Nat2Z.inj|apply seq_NoDup]. }
  clear HP. induction Hs as [|a p Hs IH Ha]; constructor.
  - apply IH; [intros x Hx; apply Hin; now right|now inversion Hnd].
  - rewrite Forall_forall in *. intros x Hx. specialize (Ha x Hx). unfold keyle in Ha. unfold keylt.
    destruct (Hin a (or_introl eq_refl)) as (ka & -> & Hka). destruct (Hin x (or_intror Hx)) as (kx & -> & Hkx).
    rewrite !znth_nat in *. left.
    assert (nth ka l 0 <> nth kx l 0); [|lia].
    intros E. apply (nth_inj_nodup l ka kx Hn Hka Hkx) in E. subst kx. inversion Hnd; subst. contradiction.
Qed.

(* everything in one statement *)
Theorem argsort_stable_all (l : vec) :
  Permutation (np_argsort l) (map Z.of_nat (seq 0 (length l))) /\
  np_take 0 l (np_argsort l) = np_sort l /\ Sorted Z.le (np_sort l) /\
  StronglySorted (keylt l) (np_argsort l) /\
  (forall p, Permutation p (map Z.of_nat (seq 0 (length l))) -> StronglySorted (keylt l) p -> p = np_argsort l) /\
  (NoDup l -> forall p, valid_argsort l p -> p = np_argsort l).
Proof.
  split; [apply np_argsort_perm|]. split; [apply take_argsort|]. split; [apply np_sort_sorted|].
  split; [apply np_argsort_stable|]. split; [apply np_argsort_unique|]. intros Hn p. now apply argsort_nodup_unique.
Qed.

(* non-vacuity: repeated keys, the earlier position first; the other valid argsort is not the stable one *)
Example argsort_ties : np_argsort [2; 1; 2; 1; 0] = [4; 1; 3; 0; 2].
Proof. reflexivity. Qed.
Example argsort_other_valid : valid_argsort [1; 1] [1; 0] /\ [1; 0] <> np_argsort [1; 1].
Proof.
  split; [|discriminate]. split; [apply perm_swap|].
  apply SSorted_cons; [apply SSorted_cons; [apply SSorted_nil|apply Forall_nil]|].
  apply Forall_cons; [unfold keyle; vm_compute; discriminate|apply Forall_nil].
Qed.
