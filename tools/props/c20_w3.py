"""C20, wave 3: further input classes for the generators and aggregating constructors.

* memory layout: function outputs / element vectors / subscript and value arrays that are C-ordered, transposed views,
  strided (non-contiguous) views, negatively strided, of integer dtype;
* histories: a second call with the same function object / the same arrays, the input mutated after the call, sequences of
  random generators under ONE global seed (the captured uniform stream must be the stream of RandomState(seed), the global
  state afterwards must be that generator's state: nothing else is drawn, nothing is reseeded);
* degenerate requests: zero sizes, no element, the empty shape, no (subscript, value) pair, order='C';
* aggregator: duplicate-heavy unsorted input with groups that every reducer sends to zero.
"""
import math
from fractions import Fraction

from vcheck import Case, gz, gzlist, gnlist, gnmat
import tgen

OPS = ("ff2", "gen_o", "diag2", "aggregator_z", "kff2", "rand_seq")
REJECT = ("AssertionError", "ValueError")
REJECT_Z = REJECT + ("TypeError",)
BIG = 2 ** 40


def _C20():
    try:
        from props import c20 as M
    except ImportError:
        import c20 as M
    return M


# ---------------------------------------------------------------- arrays in a given memory layout
def relayout(np, base, layout):
    """an array EQUAL to base (same shape, same entries) held in the given memory layout"""
    if layout == "F":
        return np.asfortranarray(base.copy())
    if layout == "C":
        return np.ascontiguousarray(base.copy())
    if layout == "T":            # transposed view of a C-contiguous array: F-contiguous, does not own its data
        return np.ascontiguousarray(base.T).T
    if layout == "strided":      # every second element of a larger array along every axis
        sl = tuple(slice(None, None, 2) for _ in base.shape)
        big = np.full(tuple(2 * d for d in base.shape), 77, dtype=base.dtype)
        big[sl] = base
        return big[sl]
    if layout == "rev":          # negative strides
        sl = tuple(slice(None, None, -1) for _ in base.shape)
        return np.ascontiguousarray(base[sl])[sl]
    raise ValueError(layout)


def mk_array(np, oshape, ovals, layout, dtype):
    """the logical array of shape oshape whose first-index-fastest listing is ovals"""
    base = np.array(ovals, dtype=(float if dtype == "float" else np.int64)).reshape(tuple(oshape), order="F")
    return relayout(np, base, layout)


LAYOUTS = ("F", "C", "T", "strided", "rev")


# ---------------------------------------------------------------- generators
def _zero_planted(rng, red, k):
    """k values (k >= 2) that the reducer sends to ZERO (None if the reducer has no such group of that size)"""
    nz = [-3, -2, -1, 1, 2, 3, 4]
    if red in ("RSum", "RMean"):
        v = [rng.choice(nz) for _ in range(k - 1)]
        if sum(v) == 0:
            v[0] += 1
        v.append(-sum(v))
        rng.shuffle(v)
        return v
    if red == "RMax":
        v = [rng.choice([-3, -2, -1, 0]) for _ in range(k - 1)] + [0]
        rng.shuffle(v)
        return v
    if red == "RMin":
        v = [rng.choice([3, 2, 1, 0]) for _ in range(k - 1)] + [0]
        rng.shuffle(v)
        return v
    if red == "RProd":
        v = [rng.choice(nz) for _ in range(k - 1)] + [0]
        rng.shuffle(v)
        return v
    if red == "RFirst":
        return [0] + [rng.choice(nz) for _ in range(k - 1)]
    if red == "RLast":
        return [rng.choice(nz) for _ in range(k - 1)] + [0]
    if red == "RFirstMinusRest":
        rest = [rng.choice(nz) for _ in range(k - 1)]
        return [sum(rest)] + rest
    if red == "RTenFirstPlusLast":
        a = rng.choice([-1, 1, 0])
        return [a] + [rng.choice(nz) for _ in range(k - 2)] + [-10 * a]
    return None


def _gen_aggregator(rng, big):
    C20 = _C20()
    cases = []
    names = list(C20.REDUCERS_W3)
    for k in range(len(names) * (16 if big else 5)):
        red = names[k % len(names)]
        rname = C20.REDUCERS_W3[red]
        shp = tgen.rand_shape(rng, maxn=4, maxcells=48, maxdim=4)
        allsubs = tgen.all_subs(shp)
        pool = rng.sample(allsubs, min(len(allsubs), rng.choice([1, 2, 3, 4])))
        groups = []
        for gi, sub in enumerate(pool):
            size = rng.choice([2, 3, 4, 6])
            v = _zero_planted(rng, rname, size) if (gi == 0 or rng.random() < 0.4) else None
            if v is None:
                pool_v = [-3, -2, 0, 0, 0, 1, 2, 3] if rname == "RMean" else [-3, -2, -1, 0, 1, 2, 3] + ([] if rname == "RProd" else [BIG, -BIG])
                v = [rng.choice(pool_v) for _ in range(size)]
                if rname == "RMean":                       # keep the mean an integer
                    v[-1] += (-sum(v)) % size
            groups.append([(list(sub), x) for x in v])
        # a random merge that keeps each group's internal order (first / last are positional): unsorted input
        pairs = []
        while any(groups):
            g = rng.choice([g for g in groups if g])
            pairs.append(g.pop(0))
        subs = [p[0] for p in pairs]
        vals = [p[1] for p in pairs]
        mem = [rng.choice(["C", "F", "strided", "rev"]), rng.choice(["float", "int", "strided"])] if k % 2 else None
        args = {"shape": list(shp) if rng.random() < 0.7 else None, "N": len(shp), "subs": subs, "vals": vals, "reducer": red}
        if mem:
            args["mem"] = mem
        cases.append(Case("aggregator", args, True))
    # no pair at all / sizes below one / no shape to infer from
    for red in ("sum", "max", "np.min", "first_minus_rest"):
        for zs in ([2, 3], [4], [1, 1, 1], [0, 2], [2, 0], [-1, 2], None):
            cases.append(Case("aggregator_z", {"shape": zs, "N": (2 if zs is None else len(zs)), "subs": [], "vals": [],
                                               "reducer": red}, False))
        cases.append(Case("aggregator_z", {"shape": [2, 0], "N": 2, "subs": [[1, 0]], "vals": [3], "reducer": red}, False))
        cases.append(Case("aggregator_z", {"shape": [2, 3], "N": 2, "subs": [[1, 0], [1, 0]], "vals": [3, -3], "reducer": red}, True))
    return cases


def gen(rng, tier):
    big = tier == "thorough"
    cases = []
    # ---- tensor.from_function: layouts x dtypes x output shapes (right count, wrong count), zero sizes
    shapes = [[2, 3], [3, 2, 2], [4], [1, 3], [2, 1, 2], [2, 2, 2, 2], [3, 1], [1], [1, 1]]
    shapes += [tgen.rand_shape(rng, maxn=4, maxcells=36) for _ in range(20 if big else 4)]
    zshapes = [[0], [0, 2], [2, 0], [3, 0, 2], [0, 0]]
    for shp in shapes + zshapes:
        n = math.prod(shp)
        vals = [rng.choice([-9, -4, -1, 0, 2, 3, 5, 7, BIG]) for _ in range(n)]
        if n:
            vals[0] = 11
        oshapes = [list(shp), [n], list(shp)[::-1], [1, n], [n, 1]]
        if len(shp) >= 3:
            oshapes.append([shp[0] * shp[1]] + list(shp[2:]))
        for oshape in oshapes:
            for layout in (LAYOUTS if big else rng.sample(LAYOUTS, 3)):
                dtype = rng.choice(["float", "int"])
                cases.append(Case("ff2", {"shape": list(shp), "oshape": oshape, "ovals": vals, "layout": layout, "dtype": dtype}, n > 1))
        # wrong number of elements
        cases.append(Case("ff2", {"shape": list(shp), "oshape": [n + 1], "ovals": vals + [5], "layout": "C", "dtype": "int"}, True))
        if len(shp) >= 2 and n:
            wrong = [shp[0] + 1] + list(shp[1:])
            cases.append(Case("ff2", {"shape": list(shp), "oshape": wrong, "ovals": [rng.randint(1, 9) for _ in range(math.prod(wrong))],
                                      "layout": rng.choice(LAYOUTS), "dtype": "float"}, True))
    # ---- tenones / tenzeros with order='C' / 'F', zero sizes included
    for zs in [[2, 3], [3], [1, 2, 2], [0, 2], [2, 0], [0], [3, 0, 2], [-1, 2], [], [2, 1]] + \
              [[rng.choice([0, 1, 2, 3]) for _ in range(rng.randint(1, 4))] for _ in range(12 if big else 4)]:
        for fn in ("tenones", "tenzeros"):
            for order in ("C", "F"):
                cases.append(Case("gen_o", {"fn": fn, "shape": zs, "order": order}, True))
    # ---- tendiag / sptendiag: repeated and zero elements, no element, the empty shape, layouts of the element vector
    evs = [[2, 2, 2], [0, 0], [0, 5, 0], [0, 0, 0, 7], [3, 0, 3, 0], [5, 5], [0], [4], [], [1, 2, 3], [0, 1], [1, 0], [BIG, 0, -BIG]]
    evs += [[rng.choice([0, 0, 2, 2, -3]) for _ in range(rng.randint(1, 4))] for _ in range(10 if big else 3)]
    dsh = [None, [], [1], [2], [5], [2, 2], [3, 3], [1, 4], [4, 1, 2], [3, 3, 3], [2, 5], [0, 2], [2, 0], [-1, 3]]
    for e in evs:
        for shp in dsh:
            N = len(e)
            cs = [N] * N if shp is None else [max(N, d) for d in shp]
            if math.prod(cs) > 400 or len(cs) > 4:
                continue
            for kind in ("tendiag", "sptendiag"):
                if not big and rng.random() < 0.35:
                    continue
                args = {"kind": kind, "e": e, "shape": shp, "edtype": rng.choice(["float", "int"]),
                        "elayout": rng.choice(["plain", "plain", "strided", "rev", "row2d", "col2d", "list"]),
                        "order": rng.choice(["F", "C"]) if kind == "tendiag" else None}
                cases.append(Case("diag2", args, N > 1))
    # ---- ktensor.from_function: zero-size modes, layouts, integer outputs
    for _ in range(40 if big else 12):
        shp = [rng.choice([0, 1, 2, 3, 4]) for _ in range(rng.randint(1, 4))]
        R = rng.randint(1, 3)
        outs = [[[rng.randint(-4, 5) for _ in range(R)] for _ in range(d)] for d in shp]
        cases.append(Case("kff2", {"shape": shp, "R": R, "outs": outs, "layout": rng.choice(LAYOUTS), "dtype": rng.choice(["float", "float", "float", "int"])},
                          math.prod(shp) > 1))
    # ---- aggregator
    cases += _gen_aggregator(rng, big)
    # ---- teneye: size-1 corners, order 6, order='C', numpy integer arguments
    for m, n, kw in [(6, 1, {}), (8, 1, {}), (6, 2, {}), (2, 1, {"order": "C"}), (4, 2, {"order": "C"}), (2, 3, {"npint": True}),
                     (4, 1, {"npint": True, "order": "C"}), (2, 5, {})] + ([(6, 3, {})] if big else []):
        x = [Fraction(rng.randint(-3, 3), rng.randint(1, 3)) for _ in range(n)]
        if all(v == 0 for v in x):
            x[0] = Fraction(2, 3)
        cases.append(Case("teneye", dict({"m": m, "n": n, "x": [[v.numerator, v.denominator] for v in x]}, **kw), True))
    # ---- random sparse generators asked for a tensor without cells (every request is at least the size: rejected)
    for zs in ([0, 2], [2, 0, 3], [0]):
        for r in (Fraction(0), Fraction(1), Fraction(1, 2)):
            cases.append(Case("sp_from_function", {"shape": zs, "p": r.numerator, "q": r.denominator, "fn": "ones", "seed": 5}, False))
            cases.append(Case("sptenrand", {"shape": zs, "mode": "nonzeros", "p": r.numerator, "q": r.denominator, "seed": 5}, False))
        for r in (Fraction(1, 2), Fraction(1)):
            cases.append(Case("sptenrand", {"shape": zs, "mode": "density", "p": r.numerator, "q": r.denominator, "seed": 5}, False))
    # ---- requests handed over as numpy scalars (np.prod(shape) // 2 is an np.int64; a float32 density)
    for shp in ([3, 4], [2, 3], [5], [2, 2, 2]):
        total = math.prod(shp)
        for r in (Fraction(1), Fraction(total // 4), Fraction(total // 2), Fraction(total - 1), Fraction(0)):
            cases.append(Case("sptenrand", {"shape": shp, "mode": "nonzeros", "p": r.numerator, "q": 1, "seed": 300 + total, "ntype": "np"}, True))
            cases.append(Case("sp_from_function", {"shape": shp, "p": r.numerator, "q": 1, "fn": "counter", "seed": 300 + total, "ntype": "np"}, True))
        for r in (Fraction(1, 2), Fraction(1, 4), Fraction(3, 4)):
            cases.append(Case("sptenrand", {"shape": shp, "mode": "density", "p": r.numerator, "q": r.denominator, "seed": 310 + total, "ntype": "np"}, True))
            cases.append(Case("sp_from_function", {"shape": shp, "p": r.numerator, "q": r.denominator, "fn": "ones", "seed": 310 + total, "ntype": "np"}, True))
    # ---- sequences of random generators under ONE global seed
    seed = 1000
    pool_shapes = [[2, 3], [3], [4, 3, 2], [2, 2, 2], [1, 5], [5, 4]]
    for _ in range(60 if big else 16):
        calls = []
        for _k in range(rng.randint(1, 4)):
            shp = rng.choice(pool_shapes)
            total = math.prod(shp)
            kind = rng.choice(["tenrand", "sptenrand_n", "sptenrand_d", "spff_u", "spff_c"])
            if kind == "tenrand":
                calls.append({"op": "tenrand", "args": {"shape": shp}})
            elif kind == "sptenrand_n":
                calls.append({"op": "sptenrand", "args": {"shape": shp, "mode": "nonzeros", "p": rng.choice([0, 1, 2, total // 2, total - 1, total]), "q": 1}})
            elif kind == "sptenrand_d":
                r = rng.choice([Fraction(1, 4), Fraction(1, 2), Fraction(3, 4), Fraction(1, 8), Fraction(7, 8), Fraction(1)])
                calls.append({"op": "sptenrand", "args": {"shape": shp, "mode": "density", "p": r.numerator, "q": r.denominator}})
            else:
                r = rng.choice([Fraction(1), Fraction(2), Fraction(total - 1), Fraction(1, 2), Fraction(total // 2), Fraction(total)])
                calls.append({"op": "sp_from_function", "args": {"shape": shp, "p": r.numerator, "q": r.denominator,
                                                                 "fn": "uniform" if kind == "spff_u" else "counter"}})
        cases.append(Case("rand_seq", {"seed": seed, "calls": calls}, True))
        seed += 1
    return cases


# ---------------------------------------------------------------- running pyttb
def _dobs(np, T):
    o = tgen.obs_dense(np, T)
    o["tshape"] = [int(d) for d in T.shape]
    o["fcontig"] = bool(T.data.flags["F_CONTIGUOUS"])
    return o


def _run_sub(np, ttb, sub):
    """one generator call inside a sequence (no reseeding); returns (observation, captured uniform calls)"""
    C20 = _C20()
    if sub["op"] == "tenrand":
        with C20.Capture(np) as cap:
            try:
                T = ttb.tenrand(tuple(sub["args"]["shape"]))
                o = C20._obs_tenrand(np, T, cap.calls)
            except Exception as ex:
                o = C20._exc(ex)
        return o, [x.copy() for x in cap.calls]
    c = Case(sub["op"], sub["args"], True)
    res, calls = C20._call_random(np, ttb, c, reseed=False)
    return C20._pack_random(np, c, res, calls), calls


def run(c, np, ttb):
    C20 = _C20()
    a = c.args
    if c.op == "ff2":
        out = mk_array(np, a["oshape"], a["ovals"], a["layout"], a["dtype"])
        keep = out.copy()
        asked = []

        def f(s):
            asked.append([int(x) for x in s])
            return out
        T1 = ttb.tensor.from_function(f, tuple(a["shape"]))
        o1 = _dobs(np, T1)
        T2 = ttb.tensor.from_function(f, tuple(a["shape"]))          # a second call with the same function / array object
        return {"ok": o1, "second": _dobs(np, T2), "first_after": _dobs(np, T1), "asked": asked,
                "out_kept": bool(np.array_equal(out, keep)), "dtype": str(T1.data.dtype)}
    if c.op == "gen_o":
        fn = ttb.tenones if a["fn"] == "tenones" else ttb.tenzeros
        return {"ok": _dobs(np, fn(tuple(a["shape"]), order=a["order"]))}
    if c.op == "diag2":
        base = np.array(a["e"], dtype=(float if a["edtype"] == "float" else np.int64))
        lay = a["elayout"]
        if lay in ("strided", "rev"):
            e = relayout(np, base, lay)
        elif lay == "row2d":
            e = base.reshape((1, -1))
        elif lay == "col2d":
            e = np.asfortranarray(base.reshape((-1, 1)))
        elif lay == "list":
            e = [float(v) if a["edtype"] == "float" else int(v) for v in a["e"]]
        else:
            e = base
        shp = None if a["shape"] is None else tuple(a["shape"])
        if a["kind"] == "tendiag":
            X = ttb.tendiag(e, shp, order=a["order"])
            obs = lambda: _dobs(np, X)                                   # noqa: E731
        else:
            X = ttb.sptendiag(e, shp)
            obs = lambda: C20._sp_obs(np, X)                             # noqa: E731
        o1 = obs()
        if isinstance(e, np.ndarray) and e.size:
            e[...] = 55                                                  # the caller reuses its vector afterwards
        return {"ok": o1, "after_mutation": obs()}
    if c.op == "aggregator_z":
        subs = np.array(a["subs"], dtype=int).reshape((len(a["subs"]), a["N"]))
        vals = np.array(a["vals"], dtype=float).reshape((len(a["vals"]), 1))
        shp = None if a["shape"] is None else tuple(a["shape"])
        return {"ok": C20._sp_obs(np, ttb.sptensor.from_aggregator(subs, vals, shp, C20._reducer(np, a["reducer"])))}
    if c.op == "kff2":
        mats = [mk_array(np, [len(rows), a["R"]], [rows[i][r] for r in range(a["R"]) for i in range(len(rows))], a["layout"], a["dtype"])
                for rows in a["outs"]]
        it = iter(mats)
        asked = []

        def f(s):
            asked.append([int(x) for x in s])
            return next(it)
        K = ttb.ktensor.from_function(f, tuple(a["shape"]), a["R"])
        return {"weights": [tgen.exact(x) for x in np.asarray(K.weights).ravel()],
                "factors": [[[tgen.exact(x) for x in row] for row in np.asarray(F).tolist()] for F in K.factor_matrices],
                "fshapes": [[int(d) for d in np.asarray(F).shape] for F in K.factor_matrices],
                "asked": asked, "kshape": [int(d) for d in K.shape], "ncomp": int(K.ncomponents)}
    if c.op == "rand_seq":
        def once():
            np.random.seed(a["seed"])
            outs, allcalls = [], []
            for sub in a["calls"]:
                o, calls = _run_sub(np, ttb, sub)
                outs.append(o)
                allcalls.extend(calls)
            return outs, allcalls, float(np.random.uniform())
        o1, c1, t1 = once()
        o2, c2, t2 = once()
        rs = np.random.RandomState(a["seed"])          # an independent generator object with the same seed
        stream_ok = all(np.array_equal(rs.uniform(size=x.shape), x) for x in c1)
        state_ok = float(rs.uniform()) == t1
        repro = o1 == o2 and t1 == t2 and len(c1) == len(c2) and all(np.array_equal(x, y) for x, y in zip(c1, c2))
        return {"subs": o1, "stream_ok": bool(stream_ok), "state_ok": bool(state_ok), "repro": bool(repro), "ncalls": len(c1)}
    raise ValueError(c.op)


# ---------------------------------------------------------------- Gallina
def _gzshape_opt(s):
    return "None" if s is None else f"(Some {gzlist(s)})"


def _dense_lit(o):
    return tgen.gdense(o["shape"], o["data"])


def check(c, o):
    C20 = _C20()
    a = c.args
    if c.op == "ff2":
        model = f"(zfrom_function {gnlist(a['shape'])} (mkDense {gnlist(a['oshape'])} {gzlist(a['ovals'])}))"
        if "exc" in o:
            return f"opt_eqb dense_eqb {model} None" if o["exc"] in REJECT else "false"
        k = o["ok"]
        if not tgen.all_int(k["data"]) or o["asked"] != [a["shape"], a["shape"]] or k["tshape"] != k["shape"] or not k["fcontig"]:
            return "false"
        if o["second"] != k or o["first_after"] != k or not o["out_kept"]:
            return "false"
        return f"opt_eqb dense_eqb {model} (Some {_dense_lit(k)})"
    if c.op == "gen_o":
        fn = "ztenones_chk" if a["fn"] == "tenones" else "ztenzeros_chk"
        if "exc" in o:
            return f"opt_eqb dense_eqb ({fn} {gzlist(a['shape'])}) None" if o["exc"] in REJECT else "false"
        k = o["ok"]
        if not tgen.all_int(k["data"]) or k["tshape"] != k["shape"] or not k["fcontig"]:
            return "false"
        return f"opt_eqb dense_eqb ({fn} {gzlist(a['shape'])}) (Some {_dense_lit(k)})"
    if c.op == "diag2":
        so = _gzshape_opt(a["shape"])
        N = len(a["e"])
        if a["kind"] == "tendiag":
            model = f"(ztendiag_req {gzlist(a['e'])} {so})"
            if "exc" in o:
                return f"opt_eqb dense_eqb {model} None" if o["exc"] in REJECT_Z else "false"
            k = o["ok"]
            if not tgen.all_int(k["data"]) or k["tshape"] != k["shape"] or not k["fcontig"] or o["after_mutation"] != k:
                return "false"
            return (f"opt_eqb dense_eqb {model} (Some {_dense_lit(k)}) && "
                    f"nvec_eqb (diag_shape_z {N} {so}) {gnlist(k['shape'])}")
        model = f"(zsptendiag_req {gzlist(a['e'])} {so})"
        if "exc" in o:
            return f"opt_sp_agrees None {model}" if o["exc"] in REJECT_Z else "false"
        k = o["ok"]
        if not C20._sp_ok(k) or o["after_mutation"] != k:
            return "false"
        return f"opt_sp_agrees (Some {C20.gsp(k)}) {model} && nvec_eqb (diag_shape_z {N} {so}) {gnlist(k['shape'])}"
    if c.op == "aggregator_z":
        model = (f"(zaggregator_z {_gzshape_opt(a['shape'])} {a['N']} {gnmat(a['subs'])} {gzlist(a['vals'])} "
                 f"{C20.REDUCERS_W3[a['reducer']]})")
        if "exc" in o:
            return f"opt_sp_agrees None {model}" if o["exc"] in REJECT else "false"
        if not C20._sp_ok(o["ok"]):
            return "false"
        return f"opt_sp_agrees (Some {C20.gsp(o['ok'])}) {model}"
    if c.op == "kff2":
        if a["dtype"] == "int":          # the Kruskal constructor admits float factor matrices only
            return "true" if o.get("exc") == "AssertionError" else "false"
        if "exc" in o:
            return "false"
        if o["asked"] != [[d, a["R"]] for d in a["shape"]] or o["kshape"] != a["shape"] or o["ncomp"] != a["R"]:
            return "false"
        if o["fshapes"] != [[d, a["R"]] for d in a["shape"]]:
            return "false"
        if not tgen.all_int(o["weights"]) or not all(tgen.all_int(r) for f in o["factors"] for r in f):
            return "false"
        outs = "[" + "; ".join(tgen.gmatrix(f) for f in a["outs"]) + "]"
        facs = "[" + "; ".join(tgen.gmatrix(f) for f in o["factors"]) + "]"
        return (f"vec_eqb (kweights (zkfrom_function {a['R']} {outs})) {gzlist(o['weights'])} && "
                f"list_eqb mat_eqb (kfactors (zkfrom_function {a['R']} {outs})) {facs}")
    if c.op == "rand_seq":
        if "exc" in o or not (o["stream_ok"] and o["state_ok"] and o["repro"]):
            return "false"
        parts = []
        for sub, so in zip(a["calls"], o["subs"]):
            so = dict(so, repro=True)
            e = C20.coq_check(Case(sub["op"], dict(sub["args"], seed=a["seed"]), True), so)
            if e is not None:
                parts.append("(" + e + ")")
        return " && ".join(parts) if parts else "true"
    raise ValueError(c.op)


# ---------------------------------------------------------------- brute-force oracle (pure Python)
def _diag_expect(a):
    """(rejected?, shape, {subscript: value}) demanded by the property"""
    N = len(a["e"])
    shape = [N] * N if a["shape"] is None else [max(N, d) for d in a["shape"]]
    if not shape:
        # an order-0 tensor: dense cannot be generated; sparse only when there is nothing to place
        return (a["kind"] == "tendiag" or N > 0), shape, {}
    if any(d <= 0 for d in shape):
        return a["kind"] == "sptendiag", shape, {}     # only with N = 0; a dense tensor may have a zero size
    return False, shape, {tuple([k] * len(shape)): a["e"][k] for k in range(N) if a["e"][k] != 0}


def oracle(c, o):
    C20 = _C20()
    a = c.args
    if c.op == "ff2":
        n = math.prod(a["shape"])
        good = len(a["ovals"]) == n
        if "exc" in o:
            return None if not good else f"raised {o['exc']}"
        if not good:
            return "function output of the wrong size accepted"
        for key in ("ok", "second", "first_after"):
            k = o[key]
            if k["shape"] != a["shape"] or k["tshape"] != a["shape"] or k["data"] != a["ovals"]:
                return f"{key}: data is not the function's output laid out first-index-fastest"
        if not o["out_kept"]:
            return "the function's array was modified"
    elif c.op == "gen_o":
        bad = (not a["shape"]) or any(d < 0 for d in a["shape"])
        if "exc" in o:
            return None if bad else f"admissible shape {a['shape']} raised {o['exc']}"
        if bad:
            return f"ill-formed shape {a['shape']} accepted"
        k = o["ok"]
        if k["shape"] != a["shape"] or k["tshape"] != a["shape"] or k["data"] != [1 if a["fn"] == "tenones" else 0] * math.prod(a["shape"]):
            return "wrong shape or entries"
    elif c.op == "diag2":
        rej, shape, want = _diag_expect(a)
        if "exc" in o:
            return None if rej else f"raised {o['exc']}: {o.get('msg')}"
        if rej:
            return f"request that cannot be met accepted (elements {a['e']}, shape {a['shape']})"
        k = o["ok"]
        if k["shape"] != shape:
            return f"shape {k['shape']} != rule {shape}"
        if o["after_mutation"] != k:
            return "the tensor changed when the caller's element vector was overwritten"
        if a["kind"] == "tendiag":
            for s, v in zip(tgen.all_subs(shape), k["data"]):
                if v != want.get(tuple(s), 0):
                    return f"entry {s} = {v}, expected {want.get(tuple(s), 0)}"
        else:
            w = C20._wf_sparse(k, shape)
            if w:
                return w
            got = {tuple(s): v for s, v in zip(k["subs"], k["vals"])}
            if got != want:
                return f"stored entries {got} != diagonal {want}"
    elif c.op == "aggregator_z":
        bad = (a["shape"] is None and not a["subs"]) or (a["shape"] is not None and any(d <= 0 for d in a["shape"]))
        if "exc" in o:
            return None if bad else f"raised {o['exc']}: {o.get('msg')}"
        if bad:
            return "request that cannot be met accepted"
        k = o["ok"]
        w = C20._wf_sparse(k, a["shape"])
        if w:
            return w
        got = {tuple(s): v for s, v in zip(k["subs"], k["vals"])}
        if k["shape"] != a["shape"] or got != C20._agg_expected(a):
            return f"stored entries {got} != reduced groups {C20._agg_expected(a)}"
    elif c.op == "kff2":
        if a["dtype"] == "int":
            return None
        if "exc" in o:
            return f"raised {o['exc']}"
        if o["asked"] != [[d, a["R"]] for d in a["shape"]]:
            return f"the function was called with {o['asked']}"
        if o["weights"] != [1] * a["R"] or o["factors"] != a["outs"] or o["kshape"] != a["shape"]:
            return "weights not all one, factors differ from the function's outputs, or wrong shape"
    elif c.op == "rand_seq":
        if "exc" in o:
            return f"raised {o['exc']}"
        if not o["repro"]:
            return "the sequence is not reproducible under the same global seed"
        if not o["stream_ok"]:
            return "the uniform draws are not the stream of the global generator seeded with the given seed"
        if not o["state_ok"]:
            return "the global generator's state after the calls is not the state after exactly the captured draws"
        for sub, so in zip(a["calls"], o["subs"]):
            r = C20.oracle(Case(sub["op"], dict(sub["args"], seed=a["seed"]), True), dict(so, repro=True))
            if r:
                return f"{sub['op']} {sub['args']}: {r}"
    return None
