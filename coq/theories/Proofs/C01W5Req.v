(* Proofs/C01W5Req.v — fifth wave: X.ttm(matrices, dims | exclude_dims) AS CALLED. The request is resolved by the GENERATED
   tt_dimscheck (Gen/GenUtils.v, re-translated from pyttb/pyttb_utils.py on every run; alignment theorem dimscheck_align of
   Proofs/C02ModesProofs.v, owned by C02, instantiated here with multiplicands that are ndarrays OR scipy coo matrices):
   it returns the designated modes in ascending order and, for the k-th of them, the position of the matrix the caller
   attached to that mode; the loop of Model/C01W5.v (ttm_chain) run on exactly these (mode, matrix) pairs — whatever the
   receiver's container, whatever containers the intermediate results take — densifies to the sequence of mode products. *)
From Coq Require Import List ZArith Arith Bool Lia Ring.
From PV Require Import Base.Index Base.Perm Base.Sum Np.NpZ Np.Array Model.Sparse Model.Repr Model.C07Ops Model.C01Conv
  Model.C01Unique Model.C01Coo Model.C02Spec Model.C02Dense Model.C01Ttm Model.C01W3 Model.C01W5
  Model.C02Modes Gen.GenUtils Proofs.C02ModesProofs Proofs.C01W5.
Import ListNotations.

Section W5Req.
Variable V : Type.
Variables (v0 v1 : V) (vadd vmul vsub : V -> V -> V) (vopp : V -> V) (isz : V -> bool).
Hypothesis Vring : ring_theory v0 v1 vadd vmul vsub vopp (@eq V).
Hypothesis isz_spec : forall v, isz v = true <-> v = v0.
Variable spdot : coo V -> coo V -> coo V.
Hypothesis Hsp : spdot_spec v0 vadd vmul spdot.

Definition fdflt : factor V := FDense [].

Theorem ttm_as_called (h : holder V) dims excl (ms : list (factor V)) :
  wf_holder isz h ->
  let N := Z.of_nat (length (holder_shape h)) in
  admissible N dims excl (zlen ms) ->
  let d := req_modes N dims excl in
  exists vidx, tt_dimscheck N (Some (zlen ms)) dims excl = Ok (np_sort d, Some vidx) /\
    let ps := combine (nats (np_sort d)) (map (znth fdflt ms) vidx) in
    ps = combine (nats (np_sort d)) (map (attach fdflt d ms) (nats (np_sort d))) /\
    (chain_ok V v0 vadd (holder_shape h) ps ->
     exists h', ttm_chain v0 vadd vmul isz spdot h ps = Some h' /\ wf_holder isz h' /\
       holder_full v0 h' = ttm_pairs v0 vadd vmul (holder_full v0 h) ps).
Proof.
  intros W N Hadm d.
  destruct (dimscheck_align fdflt N dims excl ms Hadm) as (vidx & E & Hmap & _).
  exists vidx. split; [exact E|]. cbn zeta. split; [now rewrite Hmap|].
  intros Hc. exact (ttm_chain_correct V v0 v1 vadd vmul vsub vopp isz Vring isz_spec spdot Hsp _ h W Hc).
Qed.

End W5Req.
