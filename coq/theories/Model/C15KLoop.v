(* Model/C15KLoop.v — wave 5: pyttb/ktensor.py ktensor.symmetrize AS WRITTEN, statement by statement, with its in-place
   updates (Model/C15K.v gives the closed form of the same body; Proofs/C15KLoop.v proves the two equal):

     assert np.array_equal(self.shape, self.shape[0] * np.ones(self.ndims))        -> cubical_shape, KErr = AssertionError
     K = self.copy(); K.normalize("all")                                           -> C08's normalize (model k_normalize /
                                                                                      loops py_normalize, Proofs/C08Loop2.v)
     weights = K.weights; factor_matrices = K.factor_matrices; fm0 = factor_matrices[0]
     V = fm0
     for i in range(1, K.ndims):                                                   -> fold_left (align_mode fm0) rest
         fmi = factor_matrices[i]
         for j in range(fm0.shape[1]):                                             -> fold_left (align_col fm0) (seq 0 R)
             if fm0[:, [j]].T @ fmi[:, [j]] < 0:                                      (the product is read from the CURRENT fmi)
                 fmi[:, [j]] = -fmi[:, [j]]                                        -> opp_col j
                 weights[j] = -weights[j]                                          -> upd_nth j vopp
         V = V + fmi                                                               -> madd
     V = V / K.ndims                                                               -> mdiv
     if np.mod(K.ndims, 2) == 1:
         for j in range(K.ncomponents):                                            -> fold_left odd_col (seq 0 (krank K1))
             if weights[j] < 0:  weights[j] = -weights[j];  V[:, [j]] = -V[:, [j]]
     return ttb.ktensor([V.copy() for i in range(K.ndims)], weights)

   The state of the two inner loops is the pair (matrix under modification, weights).  [neg] is the oracle for "x < 0".
   Definitions only. *)
From Coq Require Import List Arith Lia Bool.
From PV Require Import Base.Index Base.Perm Base.Sum Np.Array Model.Repr Model.C08Kruskal Model.C15Sym Model.C15K.
Import ListNotations.

Inductive kres (A : Type) : Type := KOk (a : A) | KErr.
Arguments KOk {A} a.
Arguments KErr {A}.

Section KL15.
Context {V : Type} (v0 v1 : V) (vadd vmul : V -> V -> V) (vopp vinv : V -> V) (neg : V -> bool).
Notation mat := (list (list V)).

(* A[:, [j]] = -A[:, [j]] *)
Definition opp_col (j : nat) (A : mat) : mat := map (upd_nth j vopp) A.

(* one pass of the inner alignment loop: the test on the current state and the two in-place updates *)
Definition align_col (fm0 : mat) (st : mat * list V) (j : nat) : mat * list V :=
  if neg (coldot v0 vadd vmul fm0 (fst st) j) then (opp_col j (fst st), upd_nth j vopp (snd st)) else st.

(* V + fmi (equal shapes) *)
Fixpoint zipw {A : Type} (f : A -> A -> A) (a b : list A) : list A :=
  match a, b with x :: a', y :: b' => f x y :: zipw f a' b' | _, _ => [] end.
Definition madd (A B : mat) : mat := zipw (zipw vadd) A B.

(* one pass of the loop over the modes i >= 1: state (V, weights) *)
(* (R = fm0.shape[1] = the number of components: the constructor of ktensor guarantees that every factor has one column per weight) *)
Definition align_mode (fm0 : mat) (R : nat) (st : mat * list V) (fmi : mat) : mat * list V :=
  let r := fold_left (align_col fm0) (seq 0 R) (fmi, snd st) in
  (madd (fst st) (fst r), snd r).

(* V / N *)
Definition mdiv (N : nat) (A : mat) : mat := map (map (fun a => vmul a (vinv (of_nat v0 v1 vadd N)))) A.

(* one pass of the odd-order repair loop: state (V, weights) *)
Definition odd_col (st : mat * list V) (j : nat) : mat * list V :=
  if neg (nth j (snd st) v0) then (opp_col j (fst st), upd_nth j vopp (snd st)) else st.

(* the body after normalize("all") *)
Definition k15_loop (K1 : ktensor V) : ktensor V :=
  match kfactors K1 with
  | [] => K1
  | fm0 :: rest =>
      let N := S (length rest) in
      let a := fold_left (align_mode fm0 (krank K1)) rest (fm0, kweights K1) in
      let Vd := mdiv N (fst a) in
      let o := if Nat.odd N then fold_left odd_col (seq 0 (krank K1)) (Vd, snd a) else (Vd, snd a) in
      mkK (snd o) (repeat (fst o) N)
  end.

(* np.array_equal(self.shape, self.shape[0] * np.ones(self.ndims)) *)
Definition cubical_shape (s : list nat) : bool := forallb (Nat.eqb (hd 0 s)) s.

(* the whole method; [normalize_all] = K.normalize("all") of C08 *)
Definition k_symmetrize_code (normalize_all : ktensor V -> ktensor V) (K : ktensor V) : kres (ktensor V) :=
  if cubical_shape (kshape K) then KOk (k15_loop (normalize_all K)) else KErr.
End KL15.
