(* Props/C19.v — ill-formed requests are rejected, not answered.
   For each operation: guard_<op> (the checks the code performs, Model/C19Guards.v) = decide (pre_<op>), i.e.
   pre = false -> Err and pre = true -> Ok tt; where the code is still weaker (known findings A-28, C19-N11, C19-N18;
   empty data in collapse; 0-element matricised operands): the full statement is refuted by a witness and the
   partial statement is proved.  Only statements, `exact`, Print Assumptions. *)
From Coq Require Import List ZArith Bool.
From PV Require Import Np.NpZ Np.NpZ3 Np.NpZ3e Gen.GenUtils Gen.GenUtils3 Gen.GenMethods3 Model.C19Guards Proofs.C19Proofs Proofs.C19Ttv Proofs.C19More
  Proofs.C19W3 Proofs.C19Gen3 Proofs.C19W4.
Import ListNotations.
Local Open Scope Z_scope.

(* generic: what "guard = decide pre" means, and that a rejected mutating request leaves the receiver unchanged *)
Theorem C19_decide_rejects : forall (g : res unit) p, g = decide p -> p = false -> g = Err.
Proof. exact decide_rejects. Qed.
Print Assumptions C19_decide_rejects.
Theorem C19_decide_accepts : forall (g : res unit) p, g = decide p -> p = true -> g = Ok tt.
Proof. exact decide_accepts. Qed.
Print Assumptions C19_decide_accepts.
Theorem C19_receiver_unchanged : forall S (g : res unit) (upd : S -> S) (s : S), g = Err -> run_mut g upd s = (s, false).
Proof. exact @run_mut_rejected. Qed.
Print Assumptions C19_receiver_unchanged.

(* ---- tensor ---- *)
Theorem C19_tensor_ctor : forall dshape shape, guard_tensor_ctor dshape shape = decide (pre_tensor_ctor dshape shape).
Proof. exact tensor_ctor_decides. Qed.
Print Assumptions C19_tensor_ctor.
Example C19_tensor_ctor_ex : guard_tensor_ctor [2; 3] (Some [3; 3]) = Err /\ guard_tensor_ctor [2; 3] (Some [3; 2]) = Ok tt.
Proof. split; reflexivity. Qed.

Theorem C19_tensor_reshape : forall s new, guard_tensor_reshape s new = decide (pre_tensor_reshape s new).
Proof. exact tensor_reshape_decides. Qed.
Print Assumptions C19_tensor_reshape.

Theorem C19_tensor_innerprod : forall s u, guard_tensor_innerprod s u = decide (pre_tensor_innerprod s u).
Proof. exact tensor_innerprod_decides. Qed.
Print Assumptions C19_tensor_innerprod.

(* C19-N01 repaired (the order is compared with range(ndims)); what is left is A-28 (known): order [1] on a 1-way tensor *)
Theorem C19_tensor_permute_refuted : ~ tensor_permute_stmt.
Proof. exact tensor_permute_refuted. Qed.
Print Assumptions C19_tensor_permute_refuted.
Theorem C19_tensor_permute_partial : forall s order,
  (ndim s =? 1) && all_ones order = false ->
  guard_tensor_permute s order = decide (pre_tensor_permute s order).
Proof. exact tensor_permute_partial. Qed.
Print Assumptions C19_tensor_permute_partial.
Example C19_tensor_permute_ex : guard_tensor_permute [2; 3; 4] [2; 0; 1] = Ok tt /\ guard_tensor_permute [2; 3; 4] [2; 0; 0] = Err
  /\ guard_tensor_permute [2; 3] [-1; 0] = Err /\ guard_tensor_permute [2; 3] [1; 1] = Err /\ guard_tensor_permute [2; 3; 4] [-1; -2; -3] = Err.
Proof. repeat split; reflexivity. Qed.

(* dense element-wise binary operations (C19-N02 repaired: tenfun_binary compares the shapes) *)
Theorem C19_tensor_binop : forall s u, guard_tensor_binop s u = decide (pre_tensor_binop s u).
Proof. exact tensor_binop_decides. Qed.
Print Assumptions C19_tensor_binop.
Example C19_tensor_binop_ex : guard_tensor_binop [2; 3] [1; 3] = Err /\ guard_tensor_binop [2; 3] [2; 3] = Ok tt.
Proof. split; reflexivity. Qed.

(* contract (C19-N03 repaired: modes are range-checked first) *)
Theorem C19_tensor_contract : forall s i1 i2, guard_tensor_contract s i1 i2 = decide (pre_tensor_contract s i1 i2).
Proof. exact tensor_contract_decides. Qed.
Print Assumptions C19_tensor_contract.
Example C19_tensor_contract_ex : guard_tensor_contract [3; 3] (-1) 0 = Err /\ guard_tensor_contract [3; 2; 3] 2 0 = Ok tt
  /\ guard_tensor_contract [3; 2; 3] 1 0 = Err.
Proof. repeat split; reflexivity. Qed.

(* mttkrp(U, n) on a dense tensor *)
Theorem C19_tensor_mttkrp : forall s us n, guard_tensor_mttkrp s us n = decide (pre_mttkrp s us n).
Proof. exact tensor_mttkrp_decides. Qed.
Print Assumptions C19_tensor_mttkrp.
Example C19_tensor_mttkrp_ex : guard_tensor_mttkrp [2; 3; 4] [(2, 2); (3, 2); (4, 2)] 0 = Ok tt
  /\ guard_tensor_mttkrp [2; 3; 4] [(2, 2); (4, 2); (3, 2)] 0 = Err /\ guard_tensor_mttkrp [2; 3; 4] [(2, 2); (3, 2); (4, 2)] (-1) = Err.
Proof. repeat split; reflexivity. Qed.

(* collapse(dims) over the generated tt_dimscheck *)
Theorem C19_tensor_collapse_refuted : ~ tensor_collapse_stmt.
Proof. exact tensor_collapse_refuted. Qed.
Print Assumptions C19_tensor_collapse_refuted.
Theorem C19_tensor_collapse_partial : forall s d, zprod s <> 0 -> guard_tensor_collapse s d = decide (pre_collapse s d).
Proof. exact tensor_collapse_partial. Qed.
Print Assumptions C19_tensor_collapse_partial.
Example C19_tensor_collapse_ex : guard_tensor_collapse [2; 3; 4] [2; 0] = Ok tt /\ guard_tensor_collapse [2; 3; 4] [0; 0] = Err
  /\ guard_tensor_collapse [2; 3; 4] [3] = Err.
Proof. repeat split; reflexivity. Qed.

(* ---- requests shared by several classes ---- *)
(* "two operands of the same shape": sptensor + - * & | ==, ktensor innerprod / +, ttensor innerprod, tenmat +, sumtensor + / innerprod *)
Theorem C19_same_shape : forall s u, guard_same_shape s u = decide (pre_same_shape s u).
Proof. exact same_shape_decides. Qed.
Print Assumptions C19_same_shape.
(* "sorted(order) == range(N)" (sptensor/ktensor/ttensor.permute, dimorder of the algorithms) is exactly "order is a permutation" *)
Theorem C19_sorted_perm : forall s order, guard_sorted_perm s order = decide (pre_perm s order).
Proof. exact sorted_perm_decides. Qed.
Print Assumptions C19_sorted_perm.
Example C19_sorted_perm_ex : guard_sorted_perm [2; 3; 4] [2; 0; 1] = Ok tt /\ guard_sorted_perm [2; 3; 4] [1; 1; 0] = Err /\ guard_sorted_perm [2; 3; 4] [-1; 0; 1] = Err.
Proof. repeat split; reflexivity. Qed.

(* ---- sptensor ---- *)
Theorem C19_sptensor_innerprod : forall s e u, guard_sptensor_innerprod s e u = decide (pre_sptensor_innerprod s e u).
Proof. exact sptensor_innerprod_decides. Qed.
Print Assumptions C19_sptensor_innerprod.
Example C19_sptensor_innerprod_ex : guard_sptensor_innerprod [2; 3] true [3; 2] = Err /\ guard_sptensor_innerprod [2; 3] true [2; 3] = Ok tt.
Proof. split; reflexivity. Qed.
(* the constructor (C19-N05, C19-N14, C19-N16 repaired), for every rectangular subscript array (rows of one length; at least
   one column when there are rows) *)
Theorem C19_sptensor_ctor : forall s subs nvals, rect_array subs ->
  guard_sptensor_ctor s subs nvals = decide (pre_sptensor_ctor s subs nvals).
Proof. exact sptensor_ctor_decides. Qed.
Print Assumptions C19_sptensor_ctor.
Example C19_sptensor_ctor_ex : guard_sptensor_ctor [4] [[0]; [3]] 3 = Err /\ guard_sptensor_ctor [2; 3] [[0; 2]; [1; 1]] 2 = Ok tt
  /\ guard_sptensor_ctor [2; 3] [[0; 3]; [1; 1]] 2 = Err /\ guard_sptensor_ctor [2; 3] [[0; -1]; [1; 1]] 2 = Err
  /\ guard_sptensor_ctor [2; 3] [] 3 = Err /\ guard_sptensor_ctor [2; 3] [] 0 = Ok tt.
Proof. repeat split; reflexivity. Qed.

(* ---- ktensor ---- *)
Theorem C19_ktensor_ctor : forall ms w, guard_ktensor_ctor ms w = decide (pre_ktensor_ctor ms w).
Proof. exact ktensor_ctor_decides. Qed.
Print Assumptions C19_ktensor_ctor.
Theorem C19_ktensor_arrange : forall R p, guard_ktensor_arrange R p = decide (pre_ktensor_arrange R p).
Proof. exact ktensor_arrange_decides. Qed.
Print Assumptions C19_ktensor_arrange.
Example C19_ktensor_arrange_ex : guard_ktensor_arrange 3 [2; 0; 1] = Ok tt /\ guard_ktensor_arrange 2 [0; 0] = Err /\ guard_ktensor_arrange 2 [-1; 0] = Err.
Proof. repeat split; reflexivity. Qed.
(* a single mode argument (ktensor.redistribute, C19-N07 repaired; ktensor.normalize(mode)): the guard is Python's membership test
   "mode in range(ndims)" on the enumerated modes, the precondition the comparison 0 <= mode < ndims *)
Theorem C19_mode : forall s n, guard_mode s n = decide (pre_mode s n).
Proof. exact mode_decides. Qed.
Print Assumptions C19_mode.
Example C19_mode_ex : guard_mode [2; 3; 4] 2 = Ok tt /\ guard_mode [2; 3; 4] 3 = Err /\ guard_mode [2; 3; 4] (-1) = Err /\ guard_mode [] 0 = Err.
Proof. repeat split; reflexivity. Qed.
(* the same over the GENERATED ktensor.redistribute (Gen/GenMethods3.v, regenerated from pyttb/ktensor.py on every run): on a
   Kruskal tensor whose factor `mode` has one entry per weight in every row the method raises exactly when guard_mode does, i.e.
   exactly when the precondition fails; a request outside the precondition is rejected whatever the receiver holds (a rejected
   call yields no new state: the generated method is a function of the receiver) *)
Theorem C19_mode_redistribute_gen : forall (k : ktz) (mode : Z),
  (forall row, In row (znth [] (kt_factors k) mode) -> length row = length (kt_weights k)) ->
  okres (ktensor_redistribute k mode) = guard_mode (kt_sizes k) mode /\
  okres (ktensor_redistribute k mode) = decide (pre_mode (kt_sizes k) mode).
Proof. exact redistribute_gen_guard. Qed.
Print Assumptions C19_mode_redistribute_gen.
Theorem C19_mode_redistribute_gen_rejects : forall (k : ktz) (mode : Z),
  pre_mode (kt_sizes k) mode = false -> ktensor_redistribute k mode = Err.
Proof. exact redistribute_gen_rejects. Qed.
Print Assumptions C19_mode_redistribute_gen_rejects.
Example C19_mode_redistribute_gen_ex :
  kt_sizes (mkkt [2; 3] [[[1; 1]; [2; 0]]; [[1; 2]]]) = [2; 1] /\
  okres (ktensor_redistribute (mkkt [2; 3] [[[1; 1]; [2; 0]]; [[1; 2]]]) 1) = Ok tt /\
  ktensor_redistribute (mkkt [2; 3] [[[1; 1]; [2; 0]]; [[1; 2]]]) 2 = Err /\
  ktensor_redistribute (mkkt [2; 3] [[[1; 1]; [2; 0]]; [[1; 2]]]) (-1) = Err.
Proof. repeat split; reflexivity. Qed.
Theorem C19_ktensor_extract : forall R idx, guard_ktensor_extract R idx = decide (pre_ktensor_extract R idx).
Proof. exact ktensor_extract_decides. Qed.
Print Assumptions C19_ktensor_extract.

(* ---- ttensor ---- *)
Theorem C19_ttensor_ctor : forall core ms, guard_ttensor_ctor core ms = decide (pre_ttensor_ctor core ms).
Proof. exact ttensor_ctor_decides. Qed.
Print Assumptions C19_ttensor_ctor.
Example C19_ttensor_ctor_ex : guard_ttensor_ctor [2; 3] [(4, 2); (5, 3)] = Ok tt /\ guard_ttensor_ctor [2; 3] [(4, 3); (5, 2)] = Err.
Proof. split; reflexivity. Qed.

(* ---- sptenmat (A-44 repaired) ---- *)
Theorem C19_sptenmat_ctor : forall mr mc rd cd ts, guard_sptenmat_ctor mr mc rd cd ts = decide (pre_sptenmat_ctor mr mc rd cd ts).
Proof. exact sptenmat_ctor_decides. Qed.
Print Assumptions C19_sptenmat_ctor.
Example C19_sptenmat_ctor_ex : guard_sptenmat_ctor 2 1 [0] [1] [2; 2] = Err /\ guard_sptenmat_ctor 1 1 [0] [1] [2; 2] = Ok tt.
Proof. split; reflexivity. Qed.

(* ---- tenmat product, sumtensor constructor, khatrirao, import_data ---- *)
Theorem C19_tenmat_mul : forall a b, guard_tenmat_mul a b = decide (pre_tenmat_mul a b).
Proof. exact tenmat_mul_decides. Qed.
Print Assumptions C19_tenmat_mul.
Theorem C19_sumtensor_ctor : forall l, guard_all_same_shape l = decide (pre_all_same_shape l).
Proof. exact all_same_shape_decides. Qed.
Print Assumptions C19_sumtensor_ctor.
Theorem C19_khatrirao : forall ms, guard_khatrirao ms = decide (pre_khatrirao ms).
Proof. exact khatrirao_decides. Qed.
Print Assumptions C19_khatrirao.
Theorem C19_import : forall t n k, guard_import t n k = decide (pre_import t n k).
Proof. exact import_decides. Qed.
Print Assumptions C19_import.

(* ---- algorithm options ---- *)
Theorem C19_cp_als : forall s rank init dimorder, guard_cp_als s rank init dimorder = decide (pre_cp_als s rank init dimorder).
Proof. exact cp_als_decides. Qed.
Print Assumptions C19_cp_als.
Example C19_cp_als_ex : guard_cp_als [2; 3; 4] 2 InitRandom (Some [0; 1; 2; 2]) = Err /\ guard_cp_als [2; 3; 4] 2 (InitK [2; 3; 4] 2) (Some [2; 0; 1]) = Ok tt
  /\ guard_cp_als [2; 3; 4] 2 (InitK [2; 4; 3] 2) None = Err.
Proof. repeat split; reflexivity. Qed.
Theorem C19_hosvd : forall s ranks dimorder, guard_hosvd s ranks dimorder = decide (pre_hosvd s ranks dimorder).
Proof. exact hosvd_decides. Qed.
Print Assumptions C19_hosvd.

Theorem C19_cp_apr : forall s rank init alg_ok, guard_cp_apr s rank init alg_ok = decide (pre_cp_apr s rank init alg_ok).
Proof. exact cp_apr_decides. Qed.
Print Assumptions C19_cp_apr.
Theorem C19_tucker_als : forall s ranks init dimorder maxiters,
  guard_tucker_als s ranks init dimorder maxiters = decide (pre_tucker_als s ranks init dimorder maxiters).
Proof. exact tucker_als_decides. Qed.
Print Assumptions C19_tucker_als.
Example C19_tucker_als_ex : guard_tucker_als [3; 2] [2; 2; 1] InitRandom None 1 = Err /\ guard_tucker_als [2; 3; 4] [2] InitRandom (Some [2; 0; 1]) 1 = Ok tt
  /\ guard_tucker_als [2; 3; 4] [2; 2; 2] (InitList [(9, 9); (3, 2); (4, 2)]) None 1 = Ok tt
  /\ guard_tucker_als [2; 3; 4] [2; 2; 2] (InitList [(2, 2); (4, 2); (3, 2)]) None 1 = Err.
Proof. repeat split; reflexivity. Qed.

(* ---- further multilinear products ---- *)
(* sptensor.ttv / ktensor.ttv / ttensor.ttv / sumtensor.ttv: tt_dimscheck + the size loop, nothing else can fail *)
Theorem C19_ttv_checks : forall s vlens dims excl, guard_ttv_checks s vlens dims excl = decide (pre_ttv s vlens dims excl).
Proof. exact ttv_checks_decides. Qed.
Print Assumptions C19_ttv_checks.
Example C19_ttv_checks_ex : guard_ttv_checks [2; 3; 4] [3; 2] None (Some [2]) = Err /\ guard_ttv_checks [2; 3; 4] [2; 3] None (Some [2]) = Ok tt
  /\ guard_ttv_checks [2; 3; 4] [4; 3; 2] None None = Err.
Proof. repeat split; reflexivity. Qed.
Theorem C19_sptensor_collapse : forall s d, guard_sptensor_collapse s d = decide (pre_collapse s d).
Proof. exact sptensor_collapse_decides. Qed.
Print Assumptions C19_sptensor_collapse.
Theorem C19_ttensor_mttkrp : forall s us n, guard_ttensor_mttkrp s us n = decide (pre_mttkrp s us n).
Proof. exact ttensor_mttkrp_decides. Qed.
Print Assumptions C19_ttensor_mttkrp.

(* ---- mode selection through the generated tt_dimscheck (A-42 repaired) ---- *)
Theorem C19_dimscheck_rejects_bad_modes : forall N M d, modes_ok N d = false -> tt_dimscheck N M (Some d) None = Err.
Proof. exact dimscheck_rejects_bad_modes. Qed.
Print Assumptions C19_dimscheck_rejects_bad_modes.
Example C19_dimscheck_ex : tt_dimscheck 2 (Some 2) (Some [1; 1]) None = Err /\ tt_dimscheck 2 None (Some [5]) None = Err
  /\ tt_dimscheck 3 (Some 2) (Some [2; 0]) None = Ok ([0; 2], Some [1; 0]).
Proof. repeat split; reflexivity. Qed.
Theorem C19_tensor_ttv_rejects_bad_modes : forall s vlens d, modes_ok (ndim s) d = false -> guard_tensor_ttv s vlens (Some d) None = Err.
Proof. exact tensor_ttv_rejects_bad_modes. Qed.
Print Assumptions C19_tensor_ttv_rejects_bad_modes.
Theorem C19_tensor_ttm_rejects_bad_modes : forall s ms d tr, modes_ok (ndim s) d = false -> guard_tensor_ttm s ms (Some d) None tr = Err.
Proof. exact tensor_ttm_rejects_bad_modes. Qed.
Print Assumptions C19_tensor_ttm_rejects_bad_modes.
(* the full statements: every request (explicit modes / excluded modes / default; one multiplicand per listed mode or per
   tensor mode) is rejected exactly when its precondition fails *)
Theorem C19_tensor_ttv : forall s vlens dims excl, guard_tensor_ttv s vlens dims excl = decide (pre_tensor_ttv s vlens dims excl).
Proof. exact tensor_ttv_decides. Qed.
Print Assumptions C19_tensor_ttv.
Theorem C19_tensor_ttm : forall s ms dims excl tr, guard_tensor_ttm s ms dims excl tr = decide (pre_tensor_ttm s ms dims excl tr).
Proof. exact tensor_ttm_decides. Qed.
Print Assumptions C19_tensor_ttm.
Example C19_tensor_ttm_ex : guard_tensor_ttm [2; 3; 4] [(5, 4); (6, 2)] (Some [2; 0]) None false = Ok tt
  /\ guard_tensor_ttm [2; 3; 4] [(5, 2); (6, 4)] (Some [2; 0]) None false = Err
  /\ guard_tensor_ttm [2; 3] [(2, 2); (2, 2)] (Some [0; 0]) None false = Err.
Proof. repeat split; reflexivity. Qed.
Theorem C19_tensor_ttv_rejects_both : forall s vlens d e, guard_tensor_ttv s vlens (Some d) (Some e) = Err.
Proof. exact tensor_ttv_rejects_both. Qed.
Print Assumptions C19_tensor_ttv_rejects_both.
Theorem C19_tensor_ttv_rejects_negative : forall s vlens d x, In x d -> x < 0 -> guard_tensor_ttv s vlens (Some d) None = Err.
Proof. exact tensor_ttv_rejects_negative. Qed.
Print Assumptions C19_tensor_ttv_rejects_negative.
Theorem C19_tensor_ttv_rejects_exclude_range : forall s vlens e x,
  In x e -> ~ (0 <= x < ndim s) -> guard_tensor_ttv s vlens None (Some e) = Err.
Proof. exact tensor_ttv_rejects_exclude_range. Qed.
Print Assumptions C19_tensor_ttv_rejects_exclude_range.
Theorem C19_tensor_ttv_rejects_count : forall s vlens d, (forall x, In x d -> 0 <= x < ndim s) -> NoDup d ->
  (zlen vlens > ndim s \/ (zlen vlens <> ndim s /\ zlen vlens <> zlen d)) -> guard_tensor_ttv s vlens (Some d) None = Err.
Proof. exact tensor_ttv_rejects_count. Qed.
Print Assumptions C19_tensor_ttv_rejects_count.
Theorem C19_tensor_ttm_rejects_both : forall s ms d e tr, guard_tensor_ttm s ms (Some d) (Some e) tr = Err.
Proof. exact tensor_ttm_rejects_both. Qed.
Print Assumptions C19_tensor_ttm_rejects_both.
Theorem C19_tensor_ttm_rejects_negative : forall s ms d x tr, In x d -> x < 0 -> guard_tensor_ttm s ms (Some d) None tr = Err.
Proof. exact tensor_ttm_rejects_negative. Qed.
Print Assumptions C19_tensor_ttm_rejects_negative.
Theorem C19_tensor_ttm_rejects_count : forall s ms d tr, (forall x, In x d -> 0 <= x < ndim s) -> NoDup d ->
  (zlen ms > ndim s \/ (zlen ms <> ndim s /\ zlen ms <> zlen d)) -> guard_tensor_ttm s ms (Some d) None tr = Err.
Proof. exact tensor_ttm_rejects_count. Qed.
Print Assumptions C19_tensor_ttm_rejects_count.
Example C19_tensor_ttv_ex : guard_tensor_ttv [2; 3; 4] [4; 2] (Some [2; 0]) None = Ok tt /\ guard_tensor_ttv [2; 3; 4] [2; 4] (Some [2; 0]) None = Err.
Proof. split; reflexivity. Qed.

(* modes beyond the order of the tensor *)
Theorem C19_tensor_ttv_rejects_out_of_range : forall s vlens d x,
  In x d -> ndim s <= x -> guard_tensor_ttv s vlens (Some d) None = Err.
Proof. exact tensor_ttv_rejects_out_of_range. Qed.
Print Assumptions C19_tensor_ttv_rejects_out_of_range.

(* ---- wave 3 ---- *)
(* element-wise + / - of two matricised tensors: rejected exactly when the matrix shapes differ (both operands hold at least
   one element, as every constructible tenmat does; without that the statement fails on (0,1) against (1,0)) *)
Theorem C19_tenmat_binop : forall ts rd cd us urd ucd,
  zprod (mshape ts rd cd) <> 0 -> zprod (mshape us urd ucd) <> 0 ->
  guard_tenmat_binop ts rd cd us urd ucd = decide (pre_tenmat_binop ts rd cd us urd ucd).
Proof. exact tenmat_binop_decides. Qed.
Print Assumptions C19_tenmat_binop.
Theorem C19_tenmat_binop_refuted : ~ tenmat_binop_stmt.
Proof. exact tenmat_binop_refuted. Qed.
Print Assumptions C19_tenmat_binop_refuted.
Example C19_tenmat_binop_ex : guard_tenmat_binop [2; 3] [0; 1] [] [2; 3] [] [0; 1] = Err       (* 6 x 1 against 1 x 6 *)
  /\ guard_tenmat_binop [1; 3] [0] [1] [1; 3] [1] [0] = Err                                       (* 1 x 3 against 3 x 1 *)
  /\ guard_tenmat_binop [2; 3; 4] [0] [1; 2] [2; 12] [0] [1] = Ok tt.
Proof. repeat split; reflexivity. Qed.

(* cp_als(optdims): a non-empty list of distinct modes of the tensor (C19-N15 repaired) *)
Theorem C19_cp_optdims : forall s d, guard_cp_optdims s d = decide (pre_cp_optdims s d).
Proof. exact cp_optdims_decides. Qed.
Print Assumptions C19_cp_optdims.
Example C19_cp_optdims_ex : guard_cp_optdims [2; 3; 4] [2; 0] = Ok tt /\ guard_cp_optdims [2; 3; 4] [0; 5] = Err
  /\ guard_cp_optdims [2; 3; 4] [1; 1] = Err /\ guard_cp_optdims [2; 3; 4] [] = Err.
Proof. repeat split; reflexivity. Qed.

(* matricisation requests, over the GENERATED gather_wrap_dims: rdims ++ cdims must be a permutation of the modes *)
Theorem C19_to_tenmat : forall s rd cd, guard_to_tenmat s rd cd = decide (pre_to_tenmat s rd cd).
Proof. exact to_tenmat_decides. Qed.
Print Assumptions C19_to_tenmat.
Theorem C19_to_sptenmat : forall s rd cd, guard_to_sptenmat s rd cd = decide (pre_to_tenmat s rd cd).
Proof. exact to_sptenmat_decides. Qed.
Print Assumptions C19_to_sptenmat.
Example C19_to_tenmat_ex : guard_to_tenmat [2; 3; 4] [2] [0; 1] = Ok tt /\ guard_to_tenmat [2; 3; 4] [2] [0] = Err
  /\ guard_to_tenmat [2; 3; 4] [2] [0; 1; 2] = Err /\ guard_to_sptenmat [2; 3; 4] [1] [0; -1] = Err.
Proof. repeat split; reflexivity. Qed.
(* the tenmat constructor: only the element count of the data is compared (C19-N11, open) *)
Theorem C19_tenmat_ctor_refuted : ~ tenmat_ctor_stmt.
Proof. exact tenmat_ctor_refuted. Qed.
Print Assumptions C19_tenmat_ctor_refuted.
Theorem C19_tenmat_ctor_partial : forall d rd cd ts, rows d = zprod (pickz ts rd) -> rows d <> 0 ->
  guard_tenmat_ctor d rd cd ts = decide (pre_tenmat_ctor d rd cd ts).
Proof. exact tenmat_ctor_partial. Qed.
Print Assumptions C19_tenmat_ctor_partial.
(* the constructor is answered EXACTLY when the mode lists partition the modes and the element count of the data is prod(tshape);
   hence "answered although ill-formed" is exactly n11_region (partition, right count, other matrix shape) — the trigger of
   C19-N11 — and every well-formed request is answered *)
Theorem C19_tenmat_ctor_exact : forall d rd cd ts,
  guard_tenmat_ctor d rd cd ts = decide (is_permb (ndim ts) (rd ++ cd) && (rows d * cols d =? zprod ts)).
Proof. exact tenmat_ctor_exact. Qed.
Print Assumptions C19_tenmat_ctor_exact.
Theorem C19_tenmat_ctor_gap : forall d rd cd ts,
  (is_ok (guard_tenmat_ctor d rd cd ts) && negb (pre_tenmat_ctor d rd cd ts)) = n11_region d rd cd ts /\
  (pre_tenmat_ctor d rd cd ts = true -> guard_tenmat_ctor d rd cd ts = Ok tt).
Proof. exact tenmat_ctor_gap. Qed.
Print Assumptions C19_tenmat_ctor_gap.
Example C19_tenmat_ctor_gap_ex : n11_region (6, 4) [2] [0; 1] [2; 3; 4] = true /\ n11_region (4, 6) [2] [0; 1] [2; 3; 4] = false
  /\ n11_region (4, 7) [2] [0; 1] [2; 3; 4] = false /\ n11_region (1, 24) [2] [0; 1] [2; 3; 4] = true.
Proof. repeat split; reflexivity. Qed.
Example C19_tenmat_ctor_ex : guard_tenmat_ctor (4, 6) [2] [0; 1] [2; 3; 4] = Ok tt /\ guard_tenmat_ctor (4, 7) [2] [0; 1] [2; 3; 4] = Err
  /\ guard_tenmat_ctor (4, 6) [2] [0; 0] [2; 3; 4] = Err.
Proof. repeat split; reflexivity. Qed.
(* tensor.nvecs(n, r): the mode argument (through to_tenmat(rdims = [n]) and the generated helper) *)
Theorem C19_nvecs : forall s n, guard_nvecs s n = decide (pre_mode s n).
Proof. exact nvecs_decides. Qed.
Print Assumptions C19_nvecs.
(* tensor.ttt(other, selfdims, otherdims) *)
Theorem C19_ttt : forall s u sd od, guard_ttt s u sd od = decide (pre_ttt s u sd od).
Proof. exact ttt_decides. Qed.
Print Assumptions C19_ttt.
Example C19_ttt_ex : guard_ttt [2; 3; 4] [4; 2; 5] [2; 0] [0; 1] = Ok tt /\ guard_ttt [2; 3; 4] [4; 2; 5] [0; 2] [0; 1] = Err
  /\ guard_ttt [2; 3; 4] [2; 3; 4] [0; 0] [0; 0] = Err /\ guard_ttt [2; 3; 4] [2; 3; 4] [-1] [-1] = Err.
Proof. repeat split; reflexivity. Qed.
(* linear indices, over the GENERATED tt_ind2sub: answered exactly for -prod(shape) <= k < prod(shape) *)
Theorem C19_linear_index : forall s k, guard_linear_index s k = decide (pre_linear_index s k).
Proof. exact linear_index_decides. Qed.
Print Assumptions C19_linear_index.
Example C19_linear_index_ex : guard_linear_index [2; 3] 5 = Ok tt /\ guard_linear_index [2; 3] 6 = Err /\ guard_linear_index [2; 3] (-1) = Ok tt
  /\ guard_linear_index [2; 3] (-6) = Ok tt /\ guard_linear_index [2; 3] (-7) = Err.
Proof. repeat split; reflexivity. Qed.
(* tensor.scale(factor, dims), over the GENERATED tt_dimscheck: dims is a set of modes, the factor has the sizes of the listed
   modes in ascending mode order *)
Theorem C19_scale : forall s f d, guard_scale s f d = decide (pre_scale s f d).
Proof. exact scale_decides. Qed.
Print Assumptions C19_scale.
Example C19_scale_ex : guard_scale [2; 3; 4] [2; 4] [0; 2] = Ok tt /\ guard_scale [2; 3; 4] [4; 2] [0; 2] = Err
  /\ guard_scale [2; 3; 4] [2; 1] [0; 2] = Err /\ guard_scale [2; 3; 4] [2; 2] [0; 0] = Err
  /\ guard_scale [2; 3; 4] [2; 4] [2; 0] = Ok tt /\ guard_scale [2; 3; 4] [4; 2] [2; 0] = Err.
Proof. repeat split; reflexivity. Qed.
(* mttkrp on a Kruskal tensor and on a sum of a dense and a Kruskal part (C19-N09 repaired: get_mttkrp_factors compares the
   column counts) *)
Theorem C19_ktensor_mttkrp : forall s us n, guard_ktensor_mttkrp s us n = decide (pre_mttkrp s us n).
Proof. exact ktensor_mttkrp_decides. Qed.
Print Assumptions C19_ktensor_mttkrp.
Theorem C19_sumtensor_mttkrp : forall s us n, guard_sumtensor_mttkrp s us n = decide (pre_mttkrp s us n).
Proof. exact sumtensor_mttkrp_decides. Qed.
Print Assumptions C19_sumtensor_mttkrp.
Example C19_ktensor_mttkrp_ex : guard_ktensor_mttkrp [2; 3; 4] [(2, 2); (3, 2); (4, 2)] 1 = Ok tt
  /\ guard_ktensor_mttkrp [2; 3; 4] [(2, 2); (3, 2); (4, 3)] 1 = Err /\ guard_ktensor_mttkrp [2; 3; 4] [(2, 2); (4, 2); (3, 2)] 0 = Err
  /\ guard_ktensor_mttkrp [2; 2; 2] [(2, 2); (2, 2); (2, 1)] 0 = Err /\ guard_sumtensor_mttkrp [2; 2; 2] [(2, 2); (2, 2); (2, 1)] 0 = Err.
Proof. repeat split; reflexivity. Qed.

(* ttm on a Tucker tensor: tt_dimscheck and the size loop (an empty selection of modes is answered); on a sparse tensor:
   the chain of single-matrix products, rejected exactly like the dense ttm *)
Theorem C19_ttensor_ttm : forall s ms dims excl tr, guard_ttensor_ttm s ms dims excl tr = decide (pre_ttensor_ttm s ms dims excl tr).
Proof. exact ttensor_ttm_decides. Qed.
Print Assumptions C19_ttensor_ttm.
Theorem C19_sptensor_ttm : forall s ms dims excl tr, guard_sptensor_ttm s ms dims excl tr = decide (pre_ttm s ms dims excl tr).
Proof. exact sptensor_ttm_decides. Qed.
Print Assumptions C19_sptensor_ttm.
Example C19_ttensor_ttm_ex : guard_ttensor_ttm [2; 3; 4] [(5, 4); (6, 2)] (Some [2; 0]) None false = Ok tt
  /\ guard_ttensor_ttm [2; 3; 4] [(5, 2); (6, 4)] (Some [2; 0]) None false = Err
  /\ guard_ttensor_ttm [2; 3; 4] [(4, 5); (2, 6)] (Some [2; 0]) None true = Ok tt
  /\ guard_sptensor_ttm [2; 3; 4] [(5, 2); (6, 4)] (Some [2; 0]) None false = Err.
Proof. repeat split; reflexivity. Qed.

(* the first step of every mttkrp, over the GENERATED get_mttkrp_factors (Gen/GenUtils3.v, regenerated from pyttb_utils.py on this
   run): on a list of matrices U it refuses exactly when guard_mttkrp_factors refuses their shapes (list length, mode range,
   one column count among the matrices other than U[n]) *)
Theorem C19_get_mttkrp_factors : forall U n N,
  is_ok (get_mttkrp_factors (USeq U) n N) = is_ok (guard_mttkrp_factors N (map mshp U) n).
Proof. exact get_mttkrp_factors_guard. Qed.
Print Assumptions C19_get_mttkrp_factors.
Theorem C19_get_mttkrp_factors_rejects : forall U n N,
  mttkrp_cols_ok N (map mshp U) n = false \/ zlen U <> N \/ ~ (0 <= n < N) -> get_mttkrp_factors (USeq U) n N = Err.
Proof. exact get_mttkrp_factors_rejects. Qed.
Print Assumptions C19_get_mttkrp_factors_rejects.
Example C19_get_mttkrp_factors_ex :
  get_mttkrp_factors (USeq [[[1; 2]; [3; 4]]; [[1; 2; 3]; [4; 5; 6]]; [[1; 2]; [3; 4]]]) 2 3 = Err /\
  is_ok (get_mttkrp_factors (USeq [[[1; 2]; [3; 4]]; [[1; 2; 3]; [4; 5; 6]]; [[1; 2]; [3; 4]]]) 1 3) = true.
Proof. split; reflexivity. Qed.
(* mttkrp on a sparse tensor (C19-N09 repaired: the helper compares the column counts; C19-N20 repaired: the row counts are compared
   before the loop over the columns, so matrices that have NO column are rejected too when a row count is wrong): exact for
   every request *)
Theorem C19_sptensor_mttkrp : forall s us n, guard_sptensor_mttkrp s us n = decide (pre_mttkrp s us n).
Proof. exact sptensor_mttkrp_decides. Qed.
Print Assumptions C19_sptensor_mttkrp.
Example C19_sptensor_mttkrp_ex : guard_sptensor_mttkrp [2; 3; 4] [(2, 2); (3, 2); (4, 2)] 1 = Ok tt
  /\ guard_sptensor_mttkrp [2; 3; 4] [(2, 2); (3, 2); (4, 1)] 1 = Err /\ guard_sptensor_mttkrp [2; 3; 4] [(2, 2); (4, 2); (3, 2)] 0 = Err
  /\ guard_sptensor_mttkrp [2; 2; 2] [(2, 2); (2, 3); (2, 2)] 2 = Err
  /\ guard_sptensor_mttkrp [2; 3; 4] [(2, 0); (5, 0); (4, 0)] 0 = Err /\ guard_sptensor_mttkrp [2; 3; 4] [(2, 0); (3, 0); (4, 0)] 0 = Ok tt.
Proof. repeat split; reflexivity. Qed.
(* sptensor.extract (C19-N17 repaired), for a rectangular subscript array with at least one row *)
Theorem C19_sptensor_extract : forall s subs,
  subs <> [] -> (forall row, In row subs -> zlen row = zlen (hd [] subs)) ->
  guard_sptensor_extract s subs = decide (pre_subs s subs).
Proof. exact sptensor_extract_decides. Qed.
Print Assumptions C19_sptensor_extract.
Example C19_sptensor_extract_ex : guard_sptensor_extract [2; 3] [[0; 2]; [1; 1]] = Ok tt /\ guard_sptensor_extract [2; 3] [[0; 3]; [1; 1]] = Err
  /\ guard_sptensor_extract [2; 3] [[0; -1]; [1; 1]] = Err /\ guard_sptensor_extract [2; 3; 4] [[0; 2]; [1; 1]] = Err
  /\ guard_sptensor_extract [2; 3] [[0]; [1]] = Err /\ guard_sptensor_extract [3] [[0; 0]; [1; 1]] = Err.
Proof. repeat split; reflexivity. Qed.
(* sptensor.from_aggregator: the guard calls the GENERATED tt_subscheck / tt_valscheck / tt_sizecheck (Gen/GenUtils3.v) on the
   arrays the method hands them; a subscript array without elements skips the comparisons (C19-N18, known) *)
Theorem C19_from_aggregator_gen_checks : forall s subs nvals,
  okres (tt_subscheck (nd_ints [zlen subs; zlen (hd [] subs)] (concat subs)) false) =
    chk ((zlen subs * zlen (hd [] subs) =? 0) || forallb (forallb (fun x => 0 <=? x)) subs) /\
  okres (tt_valscheck (nd_ints [nvals; 1] (np_full nvals 0)) false) = Ok tt /\
  okres (tt_sizecheck (nd_ints [ndim s] s) false) = chk (all_pos s).
Proof. exact from_aggregator_gen_checks. Qed.
Print Assumptions C19_from_aggregator_gen_checks.
Theorem C19_from_aggregator_gen_hand : forall s subs nvals, guard_from_aggregator s subs nvals = guard_from_aggregator_hand s subs nvals.
Proof. exact from_aggregator_gen_hand. Qed.
Print Assumptions C19_from_aggregator_gen_hand.
(* a subscript array WITHOUT rows: only the shape is looked at, whatever the number of values (the region of C19-N18) *)
Theorem C19_from_aggregator_no_rows : forall s nvals, guard_from_aggregator s [] nvals = decide (all_pos s).
Proof. exact from_aggregator_no_rows. Qed.
Print Assumptions C19_from_aggregator_no_rows.
Theorem C19_from_aggregator_refuted : ~ from_aggregator_stmt.
Proof. exact from_aggregator_refuted. Qed.
Print Assumptions C19_from_aggregator_refuted.
Theorem C19_from_aggregator_partial : forall s subs nvals,
  all_pos s = true -> subs <> [] -> hd [] subs <> [] -> (forall row, In row subs -> zlen row = zlen (hd [] subs)) ->
  guard_from_aggregator s subs nvals = decide (pre_sptensor_ctor s subs nvals).
Proof. exact from_aggregator_partial. Qed.
Print Assumptions C19_from_aggregator_partial.
Example C19_from_aggregator_ex : guard_from_aggregator [2; 3] [[0; 2]; [1; 1]] 2 = Ok tt /\ guard_from_aggregator [2; 3] [[0; 3]; [1; 1]] 2 = Err
  /\ guard_from_aggregator [2; 3] [[0; 2]; [1; 1]] 3 = Err /\ guard_from_aggregator [2; 3] [[0]; [1]] 2 = Err
  /\ guard_from_aggregator [2; 3] [[0; 2; 0]; [1; 1; 0]] 2 = Err /\ guard_from_aggregator [2; 3] [[0; -1]; [1; 1]] 2 = Err
  /\ guard_from_aggregator [2; 0] [[0; 2]; [1; 1]] 2 = Err /\ guard_from_aggregator [2; 3] [] 2 = Ok tt.
Proof. repeat split; reflexivity. Qed.

(* gcp_opt: rank, optimizer and initial guess: "random", a Kruskal tensor, or a list of factor matrices (C19-N19 repaired: the
   list is compared with the rank and the shape of the data like a Kruskal tensor) *)
Theorem C19_gcp_opt : forall s rank init opt_ok, guard_gcp_opt s rank init opt_ok = decide (pre_gcp_opt s rank init opt_ok).
Proof. exact gcp_opt_decides. Qed.
Print Assumptions C19_gcp_opt.
Example C19_gcp_opt_ex : guard_gcp_opt [3; 2] 2 (InitK [3; 2] 2) true = Ok tt /\ guard_gcp_opt [3; 2] 2 (InitK [3; 2] 3) true = Err
  /\ guard_gcp_opt [3; 2] 2 (InitK [2; 3] 2) true = Err /\ guard_gcp_opt [3; 2] 0 InitRandom true = Err
  /\ guard_gcp_opt [3; 2] 2 InitRandom false = Err /\ guard_gcp_opt [3; 2] 2 (InitList [(3, 2); (2, 3)]) true = Err
  /\ guard_gcp_opt [3; 2] 2 (InitList [(3, 2); (2, 2)]) true = Ok tt /\ guard_gcp_opt [3; 2] 2 (InitList [(3, 3); (2, 3)]) true = Err
  /\ guard_gcp_opt [3; 1] 2 (InitList [(3, 2); (3, 2)]) true = Err /\ guard_gcp_opt [3; 2] 0 (InitList [(3, 0); (2, 0)]) true = Err.
Proof. repeat split; reflexivity. Qed.

(* ---- wave 4: further operations ---- *)
(* sptensor.innerprod(other), other a Kruskal / Tucker tensor (C19-N21 repaired in 76fa98e: the shape comparison precedes the
   "all entries are zero" early return): rejected exactly when the shapes differ, whether or not the receiver stores an entry.
   The Example's third instance is the witness of C19-N21 *)
Theorem C19_sptensor_innerprod_kt : forall s e u, guard_sptensor_innerprod_kt s e u = decide (pre_sptensor_innerprod s e u).
Proof. exact sptensor_innerprod_kt_decides. Qed.
Print Assumptions C19_sptensor_innerprod_kt.
Example C19_sptensor_innerprod_kt_ex : guard_sptensor_innerprod_kt [2; 3] false [2; 3] = Ok tt /\ guard_sptensor_innerprod_kt [2; 3] false [3; 2] = Err
  /\ guard_sptensor_innerprod_kt [2; 3] true [3; 2] = Err /\ guard_sptensor_innerprod_kt [2; 3] true [2; 3] = Ok tt.
Proof. repeat split; reflexivity. Qed.
(* sptensor.contract / sptensor.nvecs: the range tests of db95721 / 453f75b (C19-N22 / C19-N23 repaired) *)
Theorem C19_sptensor_contract : forall s i1 i2, guard_sptensor_contract s i1 i2 = decide (pre_tensor_contract s i1 i2).
Proof. exact sptensor_contract_decides. Qed.
Print Assumptions C19_sptensor_contract.
Theorem C19_sptensor_nvecs : forall s n, guard_sptensor_nvecs s n = decide (pre_mode s n).
Proof. exact sptensor_nvecs_decides. Qed.
Print Assumptions C19_sptensor_nvecs.
Example C19_sptensor_contract_ex : guard_sptensor_contract [3; 2; 3] 0 2 = Ok tt /\ guard_sptensor_contract [3; 2; 3] 0 1 = Err
  /\ guard_sptensor_contract [3; 2; 3] (-3) 2 = Err /\ guard_sptensor_contract [3; 3] (-2) 0 = Err /\ guard_sptensor_nvecs [2; 3] 2 = Err
  /\ guard_sptensor_nvecs [2; 3] 1 = Ok tt.
Proof. repeat split; reflexivity. Qed.
(* sptensor.scale(factor, dims) over the generated tt_dimscheck (C19-N24 repaired in d89c921: a receiver that stores no entry
   compares the factor's shape before it returns its copy): rejected exactly when a mode argument is bad or the factor does not
   have the sizes of the listed modes.  The Example's third instance is of the class of C19-N24 *)
Theorem C19_sptensor_scale : forall s e f d, guard_sptensor_scale s e f d = decide (pre_sptensor_scale s e f d).
Proof. exact sptensor_scale_decides. Qed.
Print Assumptions C19_sptensor_scale.
Example C19_sptensor_scale_ex : guard_sptensor_scale [2; 3; 4] false [4; 2] [2; 0] = Err /\ guard_sptensor_scale [2; 3; 4] false [2; 4] [2; 0] = Ok tt
  /\ guard_sptensor_scale [2; 3; 4] true [4; 2] [2; 0] = Err /\ guard_sptensor_scale [2; 3; 4] true [2; 4] [2; 2] = Err
  /\ guard_sptensor_scale [2; 3] true [5] [0] = Err /\ guard_sptensor_scale [2; 3; 4] true [2; 4] [2; 0] = Ok tt.
Proof. repeat split; reflexivity. Qed.
(* ktensor.update(modes, data) (in place; C19-N25 repaired in b9311d6): the guard model of the validation pass (sortedness test with
   "<", validation loop adding up the needed length, length test — all before the first assignment) rejects exactly when the
   precondition fails.  Props/C19W5K.v states the same over the method as generated from ktensor.py, second pass included *)
Theorem C19_ktensor_update : forall s R modes dlen, guard_ktensor_update s R modes dlen = decide (pre_ktensor_update s R modes dlen).
Proof. exact ktensor_update_decides. Qed.
Print Assumptions C19_ktensor_update.
Example C19_ktensor_update_ex : guard_ktensor_update [2; 3] 2 [-1; 0; 1] 12 = Ok tt /\ guard_ktensor_update [2; 3] 2 [0; 1] 9 = Err
  /\ guard_ktensor_update [2; 3] 2 [0; 5] 10 = Err /\ guard_ktensor_update [2; 3] 2 [-2] 4 = Err /\ guard_ktensor_update [2; 3] 2 [0; 0] 8 = Err
  /\ guard_ktensor_update [2; 3] 2 [1; 0] 10 = Err /\ guard_ktensor_update [2; 3] 2 [1] 7 = Ok tt.
Proof. repeat split; reflexivity. Qed.
(* X.mask(W) for dense, sparse and Kruskal receivers: the mask has the order of the receiver and no mode of it is longer
   (tensor.mask compares the orders since 553ad5e: C19-N26 repaired) *)
Theorem C19_mask : forall s w, guard_mask s w = decide (pre_mask s w).
Proof. exact mask_decides. Qed.
Print Assumptions C19_mask.
Example C19_mask_ex : guard_mask [2; 3] [2; 2] = Ok tt /\ guard_mask [2; 3] [3; 2] = Err /\ guard_mask [2; 3] [2] = Err
  /\ guard_mask [2; 3] [2; 3; 1] = Err /\ guard_mask [2; 3] [2; 3] = Ok tt.
Proof. repeat split; reflexivity. Qed.
