(* Proofs/C10W8Full.v — wave 8: hosvd END TO END over the translator-GENERATED WHOLE function pyttb/hosvd.py::hosvd (Gen/GenHosvdFull.v:
   argument checks on ranks / dimorder, defaults, threshold, mode loop, final core, returned ttensor) instantiated with real tensors:
   T_V := R, T_Tensor := dense R, T_Mat := matrix R, T_TT := ttensor R; the holder type T_X of the input stays arbitrary.
   Kernel contracts (hypotheses): k_ndims / k_normsqr / k_as_tensor read the data tensor, k_not_permutation is the permutation test,
   k_thresh tol n d = tol^2 n / d, k_shrink reads entry k (as Proofs/C10GenR.v), k_ttm_all_t Y fm = Y x_n fm_n^T over all modes,
   k_ttensor = the ttensor constructor; the loop kernels are constrained only by the PER-RUN eigen contract run_ok of Proofs/C10GenR.v.
   Combines Proofs/W4SHosvdFull.v (bridge of the whole function) with Proofs/C10Gen.v / C10GenR.v / C10GenStruct.v / C10SeqCore.v. *)
From Coq Require Import String List Arith Lia Bool ZArith Reals Lra Permutation.
From PV Require Import Base.Index Base.Sum Np.Array Np.NpR Model.Sparse Model.Repr Model.W4SPrelude Gen.GenHosvd Gen.GenHosvdFull Model.C10Tucker Model.C10Loop Model.C14Nvecs
                       Proofs.C10Ttm Proofs.C10Proofs Proofs.C10Spectral Proofs.C10Proj Proofs.C10ProjR Proofs.C10LoopProofs Proofs.C10Recon Proofs.C10Concrete
                       Proofs.C10Rayleigh Proofs.C10Isometry Proofs.C10Seq Proofs.W4SHosvd Proofs.W4SHosvdR Proofs.W4SHosvdFull Proofs.C10Gen Proofs.C10GenR
                       Proofs.C10SeqCore Proofs.C10GenStruct.
Import ListNotations.

(* what the caller asked for, defaults resolved as hosvd resolves them *)
Definition req_order (d : nat) (dimorder : option (list nat)) : list nat := match dimorder with None => seq 0 d | Some o => o end.
Definition req_ranks (d : nat) (ranks : option (list nat)) : list nat := match ranks with None => repeat 0 d | Some r => r end.
(* hosvd's two argument checks (both hold for the defaults) *)
Definition admissible (d : nat) (dimorder ranks : option (list nat)) : Prop :=
  length (req_ranks d ranks) = d /\ Permutation (req_order d dimorder) (seq 0 d).

Section FullR.
Variable T_X : Type.
Variable c_emptyMat : @matrix R.
Variable k_ndims : T_X -> nat.
Variable k_not_permutation : nat -> list nat -> bool.
Variable k_normsqr : T_X -> R.
Variable k_thresh : R -> R -> nat -> R.
Variable k_as_tensor : T_X -> dense R.
Variable k_unfold : dense R -> nat -> @matrix R.
Variable k_gram : @matrix R -> @matrix R.
Variable k_eigh : @matrix R -> list R * @matrix R.
Variable k_argsort_desc : list R -> list nat.
Variable k_take : list R -> list nat -> list R.
Variable k_select_cols : @matrix R -> list nat -> @matrix R.
Variable k_shrink : dense R -> list (@matrix R) -> nat -> dense R.
Variable k_ttm_all_t : dense R -> list (@matrix R) -> dense R.
Variable k_ttensor : dense R -> list (@matrix R) -> ttensor R.

Hypothesis ndims_spec : forall X, k_ndims X = length (dshape (k_as_tensor X)).
Hypothesis perm_spec : forall d o, k_not_permutation d o = false <-> Permutation o (seq 0 d).
Hypothesis normsqr_spec : forall X, k_normsqr X = nrm2 (dense R) (innerR (dshape (k_as_tensor X))) (k_as_tensor X).
Hypothesis thresh_spec : forall tol n d, k_thresh tol n d = (tol * tol * n / INR d)%R.
Hypothesis shrink_reads_k : forall Y fm k U, nth_error fm k = Some U -> k_shrink Y fm k = shrink1R Y U k.
Hypothesis ttm_all_spec : forall Y fm, k_ttm_all_t Y fm = ttm_all 0%R Rplus Rmult Y (transposed 0%R fm).
Hypothesis ttensor_spec : forall G fm, k_ttensor G fm = mkT G fm.

Notation gfull := (GenHosvdFull.hosvd_full R T_X (dense R) (@matrix R) (ttensor R) Rleb 0%R Rplus c_emptyMat k_ndims k_not_permutation
  k_normsqr k_thresh k_as_tensor k_unfold k_gram k_eigh k_argsort_desc k_take k_select_cols k_shrink k_ttm_all_t k_ttensor).
Notation gmodes := (GenHosvd.hosvd_modes R (dense R) (@matrix R) Rleb 0%R Rplus k_unfold k_gram k_eigh k_argsort_desc k_take
  k_select_cols k_shrink).
Notation runok := (run_ok k_unfold k_gram k_eigh k_argsort_desc k_take k_select_cols).

(* the mode-loop call the whole function makes for a request *)
Definition full_modes_call (X : T_X) (tol : R) (dimorder : option (list nat)) (sq : bool) (ranks : option (list nat)) :=
  let d := k_ndims X in
  gmodes (req_order d dimorder) (req_ranks d ranks) (k_thresh tol (k_normsqr X) d) (k_as_tensor X) (repeat c_emptyMat d) sq.

(* ---- 1. the whole function = argument checks ; mode loop ; epilogue ---- *)
Theorem gen_full_unfold X tol verb dimorder sq ranks :
  (~ admissible (k_ndims X) dimorder ranks -> gfull X tol verb dimorder sq ranks = None) /\
  (admissible (k_ndims X) dimorder ranks ->
   gfull X tol verb dimorder sq ranks =
   match full_modes_call X tol dimorder sq ranks with
   | None => None
   | Some (fm, rk, Y) => Some (k_ttensor (if sq then Y else k_ttm_all_t Y fm) fm)
   end).
Proof.
  rewrite (hosvd_full_bridge R T_X (dense R) (@matrix R) (ttensor R)).
  unfold h_hosvd, h_order, admissible, full_modes_call, req_order, req_ranks, GenHosvd.hosvd_modes. cbv zeta.
  set (d := k_ndims X). set (rk := match ranks with None => repeat 0 d | Some r => r end).
  rewrite (hosvd_loop_bridge R (dense R) (@matrix R)).
  destruct (length rk =? d) eqn:El; cbn [negb].
  - apply Nat.eqb_eq in El. destruct dimorder as [o|].
    + destruct (k_not_permutation d o) eqn:Ep.
      * split; [reflexivity|]. intros (_ & Hp). apply perm_spec in Hp. congruence.
      * split; [intros Hn; exfalso; apply Hn; split; [exact El|now apply perm_spec]|]. intros _.
        destruct (h_loop _ _ _ _ _ _ _ _ _ _ _ _ _ _ _ o _) as [[[Y fm] r']|]; reflexivity.
    + split; [intros Hn; exfalso; apply Hn; split; [exact El|apply Permutation_refl]|]. intros _.
      destruct (h_loop _ _ _ _ _ _ _ _ _ _ _ _ _ _ _ (seq 0 d) _) as [[[Y fm] r']|]; reflexivity.
  - apply Nat.eqb_neq in El. split; [reflexivity|]. intros (Hl & _). contradiction.
Qed.

(* rejected EXACTLY on the argument checks: besides them only the mode loop can raise *)
Theorem gen_full_none_iff X tol verb dimorder sq ranks :
  gfull X tol verb dimorder sq ranks = None <->
  (~ admissible (k_ndims X) dimorder ranks \/ full_modes_call X tol dimorder sq ranks = None).
Proof.
  destruct (gen_full_unfold X tol verb dimorder sq ranks) as (Hrej & Hacc).
  assert (Hdec : admissible (k_ndims X) dimorder ranks \/ ~ admissible (k_ndims X) dimorder ranks).
  { unfold admissible. destruct (Nat.eq_dec (length (req_ranks (k_ndims X) ranks)) (k_ndims X)) as [E|E]; [|right; tauto].
    destruct (k_not_permutation (k_ndims X) (req_order (k_ndims X) dimorder)) eqn:Ep.
    - right. intros (_ & Hp). apply perm_spec in Hp. congruence.
    - left. split; [exact E|now apply perm_spec]. }
  split.
  - intros H. destruct Hdec as [Ha|Hn]; [|now left]. right. rewrite (Hacc Ha) in H.
    destruct (full_modes_call X tol dimorder sq ranks) as [[[fm rk] Y]|]; [discriminate|reflexivity].
  - intros [Hn|Hl]; [now apply Hrej|]. destruct Hdec as [Ha|Hn]; [|now apply Hrej]. rewrite (Hacc Ha), Hl. reflexivity.
Qed.

(* a request with all ranks GIVEN (non-zero) that passes the checks is never rejected: the generated function returns *)
Lemma given_loop_total t sq d : forall order ranks fm Y,
  (forall k, In k order -> k < d) -> length ranks = d -> length fm = d -> (forall k, k < d -> nth k ranks 0 <> 0) ->
  exists r, GenHosvd.hosvd_modes_loop1 R (dense R) (@matrix R) Rleb 0%R Rplus k_unfold k_gram k_eigh k_argsort_desc k_take
              k_select_cols k_shrink t sq order (Y, fm, ranks) = Some r.
Proof.
  induction order as [|k order IH]; intros ranks fm Y Hin Hr Hf Hnz; [eexists; reflexivity|].
  assert (Hk : k < d) by (apply Hin; now left).
  cbn [GenHosvd.hosvd_modes_loop1].
  destruct (k_eigh (k_gram (k_unfold Y k))) as [D Vm].
  rewrite (nth_error_nth' ranks 0) by lia.
  destruct (nth k ranks 0 =? 0) eqn:Ez; [apply Nat.eqb_eq in Ez; exfalso; now apply (Hnz k Hk)|].
  rewrite (nth_error_nth' ranks 0) by lia.
  rewrite (sk_set_upd fm k _ ltac:(lia)).
  apply IH; [intros j Hj; apply Hin; now right|exact Hr|now rewrite upd_length|exact Hnz].
Qed.

Theorem gen_full_given_total X tol verb dimorder sq r :
  admissible (k_ndims X) dimorder (Some r) -> (forall k, k < k_ndims X -> nth k r 0 <> 0) ->
  exists T, gfull X tol verb dimorder sq (Some r) = Some T.
Proof.
  intros Ha Hnz. destruct (gen_full_unfold X tol verb dimorder sq (Some r)) as (_ & Hacc). rewrite (Hacc Ha).
  destruct Ha as (Hl & Hp). destruct (perm_range _ _ Hp) as (_ & Hin & _).
  unfold full_modes_call, GenHosvd.hosvd_modes.
  destruct (given_loop_total (k_thresh tol (k_normsqr X) (k_ndims X)) sq (k_ndims X) (req_order (k_ndims X) dimorder)
              (req_ranks (k_ndims X) (Some r)) (repeat c_emptyMat (k_ndims X)) (k_as_tensor X)) as ([[Y fm] rk] & E).
  - intros k Hk. now apply Hin.
  - exact Hl.
  - apply repeat_length.
  - exact Hnz.
  - rewrite E. eexists. reflexivity.
Qed.

(* ---- 2. END TO END: what a returned ttensor satisfies ---- *)
Theorem gen_full_end_to_end X tol verb dimorder sq ranks T :
  let Xd := k_as_tensor X in let s := dshape Xd in let d := length s in
  let o := req_order d dimorder in let rq := req_ranks d ranks in
  admissible d dimorder ranks -> (forall k, k < d -> nth k rq 0 <= nth k s 0) ->
  gfull X tol verb dimorder sq ranks = Some T ->
  exists fm rk,
    T = mkT (if sq then tcore T else ttm_all 0%R Rplus Rmult Xd (transposed 0%R fm)) fm /\
    length fm = d /\ length rk = d /\
    (runok sq fm o Xd ->
       (* core relation, both strategies *)
       T = mkT (ttm_all 0%R Rplus Rmult Xd (transposed 0%R fm)) fm /\
       (* factors: demanded column counts, orthonormal columns *)
       (forall k, k < d ->
          let U := nth k fm [] in let r := nth k rk 0 in
          (nth k rq 0 <> 0 -> r = nth k rq 0) /\ 0 < r <= nth k s 0 /\
          nrows U = nth k s 0 /\ ncols U = r /\ orthocolsR (nth k s 0) r U) /\
       (* automatic ranks: relative error <= tol (squared and square-root forms) *)
       (rq = repeat 0 d -> 0 < d -> (0 <= tol)%R ->
          (nrm2 (dense R) (innerR s) (subR s Xd (tfull_ttm 0%R Rplus Rmult T)) <= tol * tol * nrm2 (dense R) (innerR s) Xd)%R /\
          (sqrt (nrm2 (dense R) (innerR s) (subR s Xd (tfull_ttm 0%R Rplus Rmult T))) <= tol * sqrt (nrm2 (dense R) (innerR s) Xd))%R)).
Proof.
  intros Xd s d o rq Ha Hle H.
  assert (Ed : k_ndims X = d) by apply ndims_spec.
  destruct (gen_full_unfold X tol verb dimorder sq ranks) as (_ & Hacc). rewrite Ed in Hacc. rewrite (Hacc Ha) in H. clear Hacc.
  unfold full_modes_call in H. rewrite Ed in H. fold o rq Xd in H.
  destruct (gmodes o rq (k_thresh tol (k_normsqr X) d) Xd (repeat c_emptyMat d) sq) as [[[fm rk] Y]|] eqn:E; [|discriminate].
  inversion H as [HT]. clear H. rewrite ttensor_spec, ttm_all_spec.
  destruct Ha as (Hl & Hp). fold o rq in Hl, Hp.
  destruct (gen_hosvd_bookkeeping R (dense R) (@matrix R) Rleb 0%R Rplus k_unfold k_gram k_eigh k_argsort_desc k_take k_select_cols k_shrink
              shrink1R shrink_reads_k [] _ sq d o rq _ Xd fm rk Y Hp Hl (repeat_length _ _) E) as (L1 & L2 & _ & HY).
  assert (Hns : sq = false -> Y = Xd) by (intros ->; exact HY).
  exists fm, rk. split; [|split; [exact L1|split; [exact L2|]]].
  { destruct sq; [reflexivity|]. now rewrite (Hns eq_refl). }
  intros Hrun.
  destruct (gen_hosvd_structure k_unfold k_gram k_eigh k_argsort_desc k_take k_select_cols k_shrink shrink_reads_k
              sq Xd o rq _ (repeat c_emptyMat d) fm rk Y Hp Hl (repeat_length _ _) Hle E Hrun) as (_ & Hfac & Hcore).
  assert (HG : mkT (if sq then Y else ttm_all 0%R Rplus Rmult Y (transposed 0%R fm)) fm =
               mkT (ttm_all 0%R Rplus Rmult Xd (transposed 0%R fm)) fm).
  { destruct sq; [now rewrite (Hcore eq_refl)|now rewrite (Hns eq_refl)]. }
  split; [exact HG|]. split; [exact Hfac|].
  intros Hz Hd Htol. rewrite HG.
  assert (B : (nrm2 (dense R) (innerR s) (subR s Xd (tfull_ttm 0%R Rplus Rmult (mkT (ttm_all 0%R Rplus Rmult Xd (transposed 0%R fm)) fm)))
               <= tol * tol * nrm2 (dense R) (innerR s) Xd)%R).
  { rewrite Hz, thresh_spec, normsqr_spec in E. fold Xd s in E.
    apply (gen_hosvd_error_bound k_unfold k_gram k_eigh k_argsort_desc k_take k_select_cols k_shrink shrink_reads_k
             sq Xd o (repeat c_emptyMat d) fm rk Y (tol * tol)%R Hp Hd (repeat_length _ _)); [nra|exact E|exact Hrun]. }
  split; [exact B|].
  apply sqrt_le_1_alt in B. rewrite sqrt_mult_alt in B by nra. rewrite sqrt_square in B by exact Htol. exact B.
Qed.
End FullR.

(* ---------------------------------------------------------------------------------------- *)
(* non-vacuity: the WHOLE generated function on the 2 x 3 array [[3,0,0],[0,1,0]] with the example kernels of Proofs/C10GenR.v,    *)
(* dimorder (1,0), sequential, automatic ranks, tol = sqrt(1/2)                                                                      *)
(* ---------------------------------------------------------------------------------------- *)
Definition exk_notperm (d : nat) (o : list nat) : bool := negb (dimorder_ok d o).
Definition exk_ndims (X : dense R) : nat := length (dshape X).
Definition exk_normsqr (X : dense R) : R := nrm2 (dense R) (innerR (dshape X)) X.
Definition exk_thresh (tol n : R) (d : nat) : R := (tol * tol * n / INR d)%R.
Definition exk_ttm_all_t (Y : dense R) (fm : list (@matrix R)) : dense R := ttm_all 0%R Rplus Rmult Y (transposed 0%R fm).

Lemma exk_perm_spec : forall d o, exk_notperm d o = false <-> Permutation o (seq 0 d).
Proof. intros d o. unfold exk_notperm. rewrite negb_false_iff. apply dimorder_ok_iff. Qed.

Example gen_full_example :
  exists T,
  GenHosvdFull.hosvd_full R (dense R) (dense R) (@matrix R) (ttensor R) Rleb 0%R Rplus [] exk_ndims exk_notperm exk_normsqr exk_thresh (fun X => X)
    exk_unfold exk_gram exk_eigh exk_argsort exk_take exk_select exk_shrink exk_ttm_all_t (@mkT R)
    exX (sqrt (1 / 2)) 0%R (Some [1; 0]) true None = Some T /\
  admissible 2 (Some [1; 0]) None /\
  run_ok exk_unfold exk_gram exk_eigh exk_argsort exk_take exk_select true exUs [1; 0] exX /\
  T = mkT (ttm_all 0%R Rplus Rmult exX (transposed 0%R exUs)) exUs /\
  (sqrt (nrm2 (dense R) (innerR [2; 3]%nat) (subR [2; 3]%nat exX (tfull_ttm 0%R Rplus Rmult T))) <= sqrt (1 / 2) * sqrt (nrm2 (dense R) (innerR [2; 3]%nat) exX))%R.
Proof.
  destruct gen_hosvd_example as (ranks' & Y' & Hg & _ & _ & Hok & _).
  assert (Ha : admissible 2 (Some [1; 0]) None) by (split; [reflexivity|apply perm_swap]).
  destruct (gen_full_unfold (dense R) [] exk_ndims exk_notperm exk_normsqr exk_thresh (fun X => X) exk_unfold exk_gram exk_eigh exk_argsort
              exk_take exk_select exk_shrink exk_ttm_all_t (@mkT R) exk_perm_spec exX (sqrt (1 / 2)) 0%R (Some [1; 0]) true None) as (_ & Hacc).
  specialize (Hacc Ha).
  assert (Hcall : full_modes_call (dense R) [] exk_ndims exk_normsqr exk_thresh (fun X => X) exk_unfold exk_gram exk_eigh exk_argsort
              exk_take exk_select exk_shrink exX (sqrt (1 / 2)) (Some [1; 0]) true None = Some (exUs, ranks', Y')).
  { unfold full_modes_call, exk_thresh, exk_normsqr, exk_ndims, req_order, req_ranks. change (length (dshape exX)) with 2.
    rewrite sqrt_sqrt by lra. exact Hg. }
  rewrite Hcall in Hacc.
  exists (mkT Y' exUs). split; [exact Hacc|]. split; [exact Ha|]. split; [exact Hok|].
  destruct (gen_full_end_to_end (dense R) [] exk_ndims exk_notperm exk_normsqr exk_thresh (fun X => X) exk_unfold exk_gram exk_eigh exk_argsort
              exk_take exk_select exk_shrink exk_ttm_all_t (@mkT R) (fun X => eq_refl) exk_perm_spec (fun X => eq_refl) (fun t n d => eq_refl)
              exk_shrink_reads_k (fun Y fm => eq_refl) (fun G fm => eq_refl)
              exX (sqrt (1 / 2)) 0%R (Some [1; 0]) true None (mkT Y' exUs) Ha) as (fm & rk & HT & _ & _ & Hall).
  - intros k Hk. cbn. destruct k as [|[|k]]; cbn; lia.
  - exact Hacc.
  - assert (Efm : fm = exUs) by (injection HT; auto).
    subst fm. destruct (Hall Hok) as (HT' & _ & Hb). split; [exact HT'|].
    apply Hb; [reflexivity|cbn; lia|apply sqrt_pos].
Qed.
