(* Proofs/C04NpAdv.v — numpy advanced indexing on region keys with index lists (the A-16 key class, dense side; model in
   Model/C04Extra.v) against the outer product the property demands (resolve_get / sptensor):
   * np_adv_positions_in_region: for EVERY shape and key, each position numpy selects lies inside the outer-product region —
     pyttb's dense tensor reads / assigns a sub-selection (the zipped "diagonal") of the block the property speaks about;
   * a16_dense_sparse_disagree: the refutation kept as known finding A-16 — a dense tensor that follows numpy's rule and a
     well-formed sparse tensor denoting the same array return different reads (different shape AND different values);
     the same for a scalar write (different final arrays). *)
From Coq Require Import List Arith ZArith Lia Bool.
From PV Require Import Base.Index Np.Array Model.Sparse Model.Harness Model.C04Model Model.C04Harness Model.C04Extra
  Proofs.C04Dense Proofs.C04Sparse.
Import ListNotations.

Notation Inl := (fun (x : nat) (l : list nat) => In x l).

Lemma region_lists_length s : forall es ls, region_lists s es = Some ls -> length es = length ls.
Proof.
  induction s as [|d s IH]; intros [|e es] ls H; cbn in H; try discriminate.
  - now inversion H.
  - destruct (elem_indices d e); [|discriminate]. destruct (region_lists s es) as [r|] eqn:R; [|discriminate].
    inversion H. cbn. f_equal. now apply IH.
Qed.

Lemma map_snd_combine {A B} (a : list A) (b : list B) : length a = length b -> map snd (combine a b) = b.
Proof.
  revert b; induction a as [|x a IH]; intros [|y b] H; cbn in *; try discriminate; auto. f_equal. apply IH. lia.
Qed.

Lemma lead_len_le_filter {A} (f : A -> bool) l : lead_len f l <= length (filter f l).
Proof. induction l as [|x l IH]; cbn; auto. destruct (f x); cbn; lia. Qed.

Lemma F2_length {A B} (R : A -> B -> Prop) l1 l2 : Forall2 R l1 l2 -> length l1 = length l2.
Proof. induction 1; cbn; auto. Qed.

Lemma skipn_app_cons {A} (t1 : list A) j t3 : skipn (S (length t1)) (t1 ++ j :: t3) = t3.
Proof. induction t1; cbn in *; auto. Qed.
Lemma firstn_app_exact {A} (t1 t2 : list A) : firstn (length t1) (t1 ++ t2) = t1.
Proof. induction t1; cbn; congruence. Qed.

Lemma adv_lengths_ok (fl : list (bool * list nat)) L :
  forallb (fun l => Nat.eqb (length l) L || Nat.eqb (length l) 1) (map snd (filter (fun x => fst x) fl)) = true ->
  Forall (fun x : bool * list nat => fst x = true -> length (snd x) = L \/ length (snd x) = 1) fl.
Proof.
  induction fl as [|[b l] r IH]; cbn; intros H; constructor.
  - cbn. intros ->. cbn in H. apply andb_true_iff in H as [H _]. apply orb_true_iff in H as [H|H]; apply Nat.eqb_eq in H; auto.
  - apply IH. destruct b; cbn in H; auto. now apply andb_true_iff in H as [_ H].
Qed.

Lemma adv_build_in (fl : list (bool * list nat)) j L :
  Forall (fun x : bool * list nat => fst x = true -> length (snd x) = L \/ length (snd x) = 1) fl -> j < L ->
  forall sv, Forall2 Inl sv (map snd (filter (fun x => negb (fst x)) fl)) ->
  Forall2 Inl (adv_build fl j sv) (map snd fl).
Proof.
  intros Hf Hj. induction Hf as [|[b l] r Hx Hr IH]; intros sv Hsv; cbn; [constructor|].
  destruct b; cbn [fst negb filter] in *.
  - constructor; auto. cbn [snd] in *. apply nth_In.
    destruct (Hx eq_refl) as [E|E]; destruct (Nat.eqb_spec (length l) 1); lia.
  - cbn [map snd] in Hsv. inversion Hsv as [|x l' sv' r' Hin Hrest]; subst. constructor; auto.
Qed.

Lemma split_adv_index (t : list nat) (sl : list (list nat)) pos L :
  pos <= length sl -> Forall2 Inl t (firstn pos sl ++ [seq 0 L] ++ skipn pos sl) ->
  nth pos t 0 < L /\ Forall2 Inl (firstn pos t ++ skipn (S pos) t) sl.
Proof.
  intros Hp H. apply Forall2_app_inv_r in H as (t1 & t2 & H1 & H2 & ->).
  assert (L1 : length t1 = pos).
  { apply F2_length in H1. rewrite firstn_length in H1. lia. }
  cbn [app] in H2. inversion H2 as [|j l' t3 r' Hj H3]; subst.
  rewrite app_nth2 by lia. rewrite Nat.sub_diag. cbn [nth]. split.
  - apply in_seq in Hj. lia.
  - rewrite firstn_app_exact, skipn_app_cons.
    rewrite <- (firstn_skipn (length t1) sl). now apply Forall2_app.
Qed.

Theorem np_adv_positions_in_region s es os ps ls :
  np_adv_positions s es = Some (os, ps) -> region_lists s es = Some ls ->
  Forall (fun p => In p (cartF (map snd ls))) ps.
Proof.
  unfold np_adv_positions. destruct s as [|d0 s0]; [discriminate|]. intros H Hl. rewrite Hl in H. cbv zeta in H.
  set (fl := combine (map is_adv es) (map snd ls)) in *.
  set (L := fold_right Nat.max 0 _) in *.
  match type of H with (if ?c then _ else _) = _ => destruct c eqn:Hlen; [|discriminate] end.
  set (sl := map snd (filter (fun x : bool * list nat => negb (fst x)) fl)) in *.
  set (pos := if forallb _ _ then _ else 0) in *.
  inversion H; subst os ps. clear H.
  assert (Hpos : pos <= length sl).
  { unfold pos, sl. rewrite map_length.
    match goal with |- (if ?c then _ else _) <= _ => destruct c end;
      [apply (lead_len_le_filter (fun x : bool * list nat => negb (fst x)))|lia]. }
  assert (Hsnd : map snd fl = map snd ls).
  { unfold fl. apply map_snd_combine. rewrite !map_length. eapply region_lists_length; eauto. }
  apply Forall_forall. intros p Hp. apply in_map_iff in Hp as (t & <- & Ht).
  apply in_cartF in Ht. apply split_adv_index in Ht as [Hj Hsv]; auto.
  apply in_cartF. rewrite <- Hsnd. apply (adv_build_in fl _ L); auto. now apply adv_lengths_ok.
Qed.

(* reads: every value numpy returns is the value of the array at a position of the outer-product block *)
Corollary np_adv_get_values_in_region {V} (v0 : V) (T : dense V) es os vs ls :
  np_adv_get v0 T es = Some (os, vs) -> region_lists (dshape T) es = Some ls ->
  Forall (fun v => exists p, In p (cartF (map snd ls)) /\ v = den_dense v0 T p) vs.
Proof.
  unfold np_adv_get. destruct (has_list es); [|discriminate].
  destruct (np_adv_positions (dshape T) es) as [[os' ps]|] eqn:E; [|discriminate]. intros H Hl. inversion H; subst.
  pose proof (np_adv_positions_in_region _ _ _ _ _ E Hl) as Hin.
  apply Forall_forall. intros v Hv. apply in_map_iff in Hv as (p & <- & Hp).
  rewrite Forall_forall in Hin. eauto.
Qed.

(* ------------------------------------------------------------------------------------------------ *)
(* the refutation (known finding A-16)                                                                *)
(* ------------------------------------------------------------------------------------------------ *)
Local Open Scope Z_scope.
Definition a16_T : dense Z := mkDense [2; 3]%nat [2; 0; 0; 1; 3; 0].
Definition a16_S : sparse Z := mkSp [2; 3]%nat [[1; 1]; [0; 0]; [0; 2]]%nat [1; 2; 3].
Definition a16_key : list kelem := [KList [0; 1]; KList [0; 2]].

Example a16_numpy_read : np_adv_get 0 a16_T a16_key = Some ([2%nat], [2; 0]).
Proof. reflexivity. Qed.
Example a16_outer_read_dense_spec : option_map snd (step_dense 0 a16_T (OGet (KRegion a16_key))) = Some ([2; 2]%nat, [2; 0; 3; 0]).
Proof. reflexivity. Qed.
Example a16_sparse_read : option_map snd (step_sparse 0 zisz a16_S (OGet (KRegion a16_key))) = Some ([2; 2]%nat, [2; 0; 3; 0]).
Proof. reflexivity. Qed.

Theorem a16_dense_sparse_disagree :
  exists (T : dense Z) (S : sparse Z) (es : list kelem),
    wf_spb zisz S = true /\ full 0 S = T /\
    (* reads *)
    np_adv_get 0 T es <> option_map snd (step_sparse 0 zisz S (OGet (KRegion es))) /\
    (* writes: the arrays differ afterwards *)
    (forall T' S', np_adv_set_scalar 0 T es 9 = Some T' ->
                   step_sparse 0 zisz S (OSet (KRegion es) (RScalar 9)) = Some (S', ([], [])) -> full 0 S' <> T').
Proof.
  exists a16_T, a16_S, a16_key. repeat split; try reflexivity.
  - vm_compute. discriminate.
  - intros T' S' HT HS. vm_compute in HT, HS. inversion HT; inversion HS; subst. vm_compute. discriminate.
Qed.

(* where there is a single advanced element numpy and the outer product coincide on this instance (non-vacuity of the agreement
   region of the correspondence stream) *)
Example a16_single_list_agrees :
  np_adv_get 0 a16_T [KList [1; 0]; KSlice None None (Some 2)] =
  option_map snd (step_dense 0 a16_T (OGet (KRegion [KList [1; 0]; KSlice None None (Some 2)]))).
Proof. reflexivity. Qed.
