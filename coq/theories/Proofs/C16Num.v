(* Proofs/C16Num.v — arithmetic facts behind the two number conversions of the file format.
   (1) SEVENTEEN SIGNIFICANT DIGITS. The round-trip theorems of Props/C16.v carry the hypothesis parse (print v) = v.
       For the default format '%.16e' (1 + 16 = 17 significant decimal digits) this file proves, over the rationals and
       without axioms, that the hypothesis follows from CORRECT ROUNDING of the two conversions alone: if d is any
       rational within half a unit of the 17th significant digit of a nonzero binary64 number x (what a correctly rounded
       printf writes), then x is STRICTLY nearer to d than every other binary64 number (so a strtod that returns a
       nearest double — whatever its tie rule — returns x). Zero is printed exactly. [sixteen_digits_collide]: with 16
       digits ('%.15e') two neighbouring doubles share their nearest decimal.
   (2) NARROW SUBSCRIPT TYPES (finding C16-N4, repaired in /repo dda4ae2). The old code computed `A.subs[i, :] + 1` in the
       integer type (range lo..hi) of the subscript array: the written subscript was s + 1 exactly when s <> hi
       (narrow_subs_exact, kept as the arithmetic of the old defect). The repaired code converts to Python integers first
       (`str(int(s) + 1)`): the text written is s + b in Z whatever the type, and the sparse import with the same base reads
       s back — at s = hi as well (narrow_subs_roundtrip). *)
From Coq Require Import String.
From Coq Require Import List ZArith QArith Qabs Qpower Lia Lqa.
From PV Require Import Model.C16IO Model.C16Lines Model.C16Big.
Import ListNotations.
Local Open Scope Q_scope.

Lemma two_ne0 : ~ 2 == 0.
Proof. intro H. discriminate H. Qed.

Lemma pow2_pos e : 0 < 2 ^ e.
Proof. apply Qpower_0_lt. reflexivity. Qed.

(* e <= e' : 2^e' is an integer multiple of 2^e *)
Lemma pow2_ge e e' : (e <= e')%Z -> 2 ^ e' == inject_Z (2 ^ (e' - e)) * 2 ^ e.
Proof.
  intro H. rewrite Zpower_Qpower by lia.
  rewrite <- Qpower_plus by exact two_ne0.
  replace (e' - e + e)%Z with e' by lia. reflexivity.
Qed.

(* e' < e : 2^e' is at most half of 2^e *)
Lemma pow2_lt e e' : (e' < e)%Z -> 2 * 2 ^ e' <= 2 ^ e.
Proof.
  intro H.
  assert (H1 : 2 ^ e' <= 2 ^ (e - 1)) by (apply Qpower_le_compat_l; [lia | discriminate]).
  assert (H2 : 2 ^ (e - 1) == 2 ^ e / 2).
  { unfold Zminus. rewrite Qpower_plus by exact two_ne0. reflexivity. }
  rewrite H2 in H1. pose proof (pow2_pos e). pose proof (pow2_pos e').
  apply Qmult_le_l with (z := 2) in H1; [| reflexivity].
  setoid_replace (2 * (2 ^ e / 2)) with (2 ^ e) in H1 by field. exact H1.
Qed.
Lemma inj_le a b : (a <= b)%Z -> inject_Z a <= inject_Z b.
Proof. intro H. rewrite <- Zle_Qle. exact H. Qed.

Lemma inj_pred a : inject_Z (a - 1) == inject_Z a - 1.
Proof. unfold Zminus, Qminus. rewrite inject_Z_plus. reflexivity. Qed.
Lemma inj_succ a : inject_Z (a + 1) == inject_Z a + 1.
Proof. rewrite inject_Z_plus. reflexivity. Qed.

(* the neighbours of M * 2^e among the numbers n * 2^e' with |n| < 2^53 are at least 2^e away, provided the
   exponent e' is not below e, or M is large (|M| > 2^52) *)
Lemma gap_gen (M e n e' : Z) :
  (Z.abs n < 2 ^ 53)%Z -> ((e <= e')%Z \/ (2 ^ 52 + 1 <= Z.abs M)%Z) ->
  ~ inject_Z n * 2 ^ e' == inject_Z M * 2 ^ e ->
  inject_Z n * 2 ^ e' <= inject_Z M * 2 ^ e - 2 ^ e \/ inject_Z M * 2 ^ e + 2 ^ e <= inject_Z n * 2 ^ e'.
Proof.
  intros Hn Hc Hne. pose proof (pow2_pos e) as Hu. set (u := 2 ^ e) in *.
  destruct (Z_le_gt_dec e e') as [Hee | Hee].
  - (* multiples of u *)
    pose proof (pow2_ge e e' Hee) as Hw. fold u in Hw.
    set (N := (n * 2 ^ (e' - e))%Z).
    assert (Hy : inject_Z n * 2 ^ e' == inject_Z N * u).
    { rewrite Hw. unfold N. rewrite inject_Z_mult. ring. }
    rewrite Hy in *.
    assert (HNM : N <> M) by (intro E; apply Hne; rewrite E; reflexivity).
    destruct (Z_lt_ge_dec N M) as [Hlt | Hge].
    + left. assert (H1 : inject_Z N <= inject_Z M - 1) by (rewrite <- inj_pred; apply inj_le; lia). nra.
    + right. assert (H1 : inject_Z M + 1 <= inject_Z N) by (rewrite <- inj_succ; apply inj_le; lia). nra.
  - destruct Hc as [Hc | HM]; [lia |].
    assert (Hw : 2 * 2 ^ e' <= u) by (apply pow2_lt; lia).
    pose proof (pow2_pos e') as Hw0. set (w := 2 ^ e') in *.
    assert (Hn1 : - inject_Z (2 ^ 53) <= inject_Z n <= inject_Z (2 ^ 53)).
    { split; [rewrite <- inject_Z_opp|]; apply inj_le; lia. }
    destruct (Z_lt_ge_dec M 0) as [Hneg | Hpos].
    + right. assert (H1 : inject_Z M <= - inject_Z (2 ^ 52 + 1)) by (rewrite <- inject_Z_opp; apply inj_le; lia).
      assert (H2 : - inject_Z (2 ^ 53) * w <= inject_Z n * w) by (apply Qmult_le_compat_r; [tauto | lra]).
      assert (H3 : inject_Z M * u <= - inject_Z (2 ^ 52 + 1) * u) by (apply Qmult_le_compat_r; [tauto | lra]).
      change (inject_Z (2 ^ 53)) with (9007199254740992 # 1) in *.
      change (inject_Z (2 ^ 52 + 1)) with (4503599627370497 # 1) in *. clearbody u w. lra.
    + left. assert (H1 : inject_Z (2 ^ 52 + 1) <= inject_Z M) by (apply inj_le; lia).
      assert (H2 : inject_Z n * w <= inject_Z (2 ^ 53) * w) by (apply Qmult_le_compat_r; [tauto | lra]).
      assert (H3 : inject_Z (2 ^ 52 + 1) * u <= inject_Z M * u) by (apply Qmult_le_compat_r; [tauto | lra]).
      change (inject_Z (2 ^ 53)) with (9007199254740992 # 1) in *.
      change (inject_Z (2 ^ 52 + 1)) with (4503599627370497 # 1) in *. clearbody u w. lra.
Qed.

Definition emin : Z := (-1074)%Z.
Definition dbl (m e : Z) : Q := inject_Z m * 2 ^ e.
(* the canonical representation of a nonzero binary64 number: 53-bit significand, or a subnormal at the least exponent *)
Definition canonical (m e : Z) : Prop :=
  ((2 ^ 52 <= Z.abs m < 2 ^ 53)%Z /\ (emin <= e)%Z) \/ (e = emin /\ (0 < Z.abs m < 2 ^ 52)%Z).
Definition is_double (y : Q) : Prop :=
  exists n e', (Z.abs n < 2 ^ 53)%Z /\ (emin <= e')%Z /\ y == dbl n e'.

Lemma abs_dbl m e : Qabs (dbl m e) == inject_Z (Z.abs m) * 2 ^ e.
Proof.
  unfold dbl. rewrite Qabs_Qmult. rewrite (Qabs_pos (2 ^ e)) by (apply Qlt_le_weak, pow2_pos). reflexivity.
Qed.

(* from a gap g around x that exceeds t, and a decimal d within t/2 of x: x is strictly the nearest *)
Lemma nearest_from_gap (x y d t g : Q) :
  t < g -> 2 * Qabs (d - x) <= t -> (y <= x - g \/ x + g <= y) -> Qabs (d - x) < Qabs (d - y).
Proof.
  intros Htg Hd Hgap. revert Hd. apply Qabs_case; intros H1 Hd; apply Qabs_case; intros H2; destruct Hgap; lra.
Qed.

Theorem seventeen_digits (m e : Z) (d t : Q) :
  canonical m e -> 0 < t -> inject_Z (10 ^ 16) * t <= Qabs (dbl m e) -> 2 * Qabs (d - dbl m e) <= t ->
  forall y, is_double y -> ~ y == dbl m e -> Qabs (d - dbl m e) < Qabs (d - y).
Proof.
  intros Hc Ht Hdig Hd y (n & e' & Hn & He' & Hy) Hne.
  rewrite abs_dbl in Hdig. pose proof (pow2_pos e) as Hu.
  assert (Hne' : ~ inject_Z n * 2 ^ e' == inject_Z m * 2 ^ e) by (intro E; apply Hne; rewrite Hy; exact E).
  rewrite Hy. unfold dbl in *.
  destruct (Z.eq_dec (Z.abs m) (2 ^ 52)) as [Hb | Hnb].
  - (* significand 2^52: the lower neighbour is half a unit away; see x as (2m) * 2^(e-1) *)
    pose proof (pow2_ge (e - 1) e ltac:(lia)) as H2e. replace (e - (e - 1))%Z with 1%Z in H2e by lia.
    change (inject_Z (2 ^ 1)) with 2 in H2e. pose proof (pow2_pos (e - 1)) as Hh.
    assert (Hx : inject_Z m * 2 ^ e == inject_Z (2 * m) * 2 ^ (e - 1)).
    { rewrite H2e, inject_Z_mult. change (inject_Z 2) with 2. ring. }
    assert (Hne2 : ~ inject_Z n * 2 ^ e' == inject_Z (2 * m) * 2 ^ (e - 1)) by (rewrite <- Hx; exact Hne').
    assert (H2m : (2 ^ 52 + 1 <= Z.abs (2 * m))%Z) by (rewrite Z.abs_mul, Hb; vm_compute; discriminate).
    pose proof (gap_gen (2 * m) (e - 1) n e' Hn (or_intror H2m) Hne2) as Hgap.
    rewrite <- Hx in Hgap.
    apply nearest_from_gap with (t := t) (g := 2 ^ (e - 1)); [| exact Hd | exact Hgap].
    rewrite Hb in Hdig. change (inject_Z (10 ^ 16)) with (10000000000000000 # 1) in Hdig.
    change (inject_Z (2 ^ 52)) with (4503599627370496 # 1) in Hdig.
    set (u := 2 ^ e) in *. set (h := 2 ^ (e - 1)) in *. clearbody u h. lra.
  - assert (Hcase : (e <= e')%Z \/ (2 ^ 52 + 1 <= Z.abs m)%Z).
    { destruct Hc as [[Hm _] | [He _]]; [right; lia | left; lia]. }
    pose proof (gap_gen m e n e' Hn Hcase Hne') as Hgap.
    apply nearest_from_gap with (t := t) (g := 2 ^ e); [| exact Hd | exact Hgap].
    assert (Hm : inject_Z (Z.abs m) <= inject_Z (2 ^ 53 - 1)).
    { apply inj_le. destruct Hc as [[Hm _] | [_ Hm]]; lia. }
    assert (Hmu : inject_Z (Z.abs m) * 2 ^ e <= inject_Z (2 ^ 53 - 1) * 2 ^ e).
    { apply Qmult_le_compat_r; [exact Hm | lra]. }
    change (inject_Z (10 ^ 16)) with (10000000000000000 # 1) in Hdig.
    change (inject_Z (2 ^ 53 - 1)) with (9007199254740991 # 1) in Hmu.
    set (u := 2 ^ e) in *. clearbody u. lra.
Qed.

(* 16 significant digits ('%.15e') are not enough: two neighbouring doubles share their nearest 16-digit decimal *)
Example sixteen_digits_collide :
  let x := dbl (8 * 10 ^ 15 + 1) (-3) in let y := dbl (8 * 10 ^ 15 + 2) (-3) in let d := inject_Z (10 ^ 15) in let t := 1 in
  canonical (8 * 10 ^ 15 + 1) (-3) /\ canonical (8 * 10 ^ 15 + 2) (-3) /\ ~ x == y /\
  inject_Z (10 ^ 15) * t <= Qabs x /\ inject_Z (10 ^ 15) * t <= Qabs y /\
  2 * Qabs (d - x) <= t /\ 2 * Qabs (d - y) <= t.
Proof.
  cbv zeta. repeat split; try (left; unfold emin; split; lia); try (vm_compute; intro H; discriminate H).
Qed.

(* ---------------------------------------------------------------- (2) subscript + 1 in a narrow integer type *)
Local Open Scope Z_scope.
Definition wrap (lo hi z : Z) : Z := lo + (z - lo) mod (hi - lo + 1).

Lemma wrap_below_max lo hi s : lo <= 0 <= s -> s < hi -> wrap lo hi (s + 1) = s + 1.
Proof. intros H1 H2. unfold wrap. rewrite Z.mod_small by lia. lia. Qed.

Lemma wrap_at_max lo hi : lo <= 0 <= hi -> wrap lo hi (hi + 1) = lo.
Proof.
  intros H. unfold wrap. replace (hi + 1 - lo) with (1 * (hi - lo + 1)) by lia.
  rewrite Z.mod_mul by lia. lia.
Qed.

Theorem narrow_subs_exact lo hi s : lo <= 0 <= s -> s <= hi -> (wrap lo hi (s + 1) = s + 1 <-> s <> hi).
Proof.
  intros H1 H2. split.
  - intros E Es. subst s. rewrite wrap_at_max in E by lia. lia.
  - intro Hne. apply wrap_below_max; lia.
Qed.

(* (history, old code) the wrapped subscript text was rejected by the sparse import with index base 1 (subscript - 1 is
   negative), on whichever entry line it stood *)
Theorem narrow_subs_rejected (T : Type) lo hi (pre post : list (token T)) :
  lo <= 0 <= hi -> zsubs_of T 1 (pre ++ Int (wrap lo hi (hi + 1)) :: post) = None.
Proof.
  intros H. rewrite wrap_at_max by lia. induction pre as [| t pre IH]; cbn [app zsubs_of].
  - unfold zsub_of. destruct (0 <=? lo - 1) eqn:E; [apply Z.leb_le in E; lia | reflexivity].
  - rewrite IH. destruct (zsub_of T 1 t); reflexivity.
Qed.

(* the repaired export writes s + b computed in Z (Python integers): a row of subscripts of ANY integer type, its largest
   value hi included, is read back by the sparse import with the same index base *)
Theorem narrow_subs_roundtrip (T : Type) (b hi : Z) (i : list Z) : Forall (fun s => 0 <= s <= hi) i ->
  zsubs_of T b (map (fun s => Int (s + b)) i) = Some i.
Proof.
  induction i as [|s i IH]; intros H; [reflexivity|]. inversion H as [|? ? Hs Hi]; subst. cbn [map zsubs_of].
  unfold zsub_of. replace (s + b - b) with s by lia. destruct (Z.leb_spec 0 s); [|lia]. now rewrite IH.
Qed.
Example narrow_subs_uint8_max : zsubs_of unit 1 [Int (255 + 1); Int (0 + 1); Int (127 + 1)] = Some [255; 0; 127].
Proof. reflexivity. Qed.

Example narrow_subs_uint8 : wrap 0 255 (255 + 1) = 0 /\ wrap (-128) 127 (127 + 1) = -128 /\ wrap 0 255 (254 + 1) = 255.
Proof. vm_compute. repeat split; reflexivity. Qed.
