(* Proofs/C02CollapseReq.v — collapse over the modes in the CALLER's order: the defining sum of collapse does not depend on the order in
   which the collapsed modes are listed (it is the ttv with all-ones vectors, whose invariance is C02_ttv_perm_invariant), so
   tensor.collapse / sptensor.collapse, which run on the modes sorted by the GENERATED tt_dimscheck, return the sum over the modes
   exactly as the caller named them. *)
From Coq Require Import List ZArith Arith Bool Lia Permutation Ring.
From PV Require Import Base.Index Base.Perm Base.Sum Np.NpZ Np.Array Model.Sparse Model.Repr Model.C02Spec Model.C02Dense Model.C02Modes
                       Model.C02Tenmat Model.C02SpMore Model.C02DimsReq Gen.GenUtils
                       Proofs.NpZProofs Proofs.UtilsProofs Proofs.C02DenseProofs Proofs.C02ModesProofs Proofs.C02PermProofs Proofs.C02TenmatProofs
                       Proofs.C02SpMoreProofs Proofs.C02DimsReqProofs.
Import ListNotations.

Section P.
Variable V : Type.
Variables (v0 v1 : V) (vadd vmul vsub : V -> V -> V) (vopp : V -> V).
Hypothesis Vring : ring_theory v0 v1 vadd vmul vsub vopp (@eq V).
Variable isz : V -> bool.

Theorem spec_collapse_perm (f : idx -> V) s dims dims' i' :
  NoDup dims -> (forall x, In x dims -> x < length s) -> Permutation dims dims' ->
  length i' = length (compl (length s) dims) ->
  spec_collapse v0 vadd f s dims i' = spec_collapse v0 vadd f s dims' i'.
Proof.
  intros Hnd Hr HP Hi.
  rewrite !(spec_collapse_as_ttv V v0 v1 vadd vmul vsub vopp Vring). unfold ones_for.
  apply (spec_ttv_perm_pairs V v0 v1 vadd vmul vsub vopp Vring); auto.
  - now rewrite map_length.
  - now rewrite map_length.
  - now apply combine_map_perm.
Qed.

Lemma sorted_facts N (d : vec) : (forall x, In x d -> (0 <= x < Z.of_nat N)%Z) -> NoDup d ->
  Permutation (nats (np_sort d)) (nats d) /\ NoDup (nats (np_sort d)) /\ (forall x, In x (nats (np_sort d)) -> x < N) /\
  compl N (nats (np_sort d)) = compl N (nats d).
Proof.
  intros Hr Hn.
  assert (HP : Permutation (nats (np_sort d)) (nats d)) by (apply Permutation_map, np_sort_perm).
  split; [exact HP|]. split.
  - apply (Permutation_NoDup (Permutation_sym HP)). apply nats_NoDup; auto. intros x Hx. apply Hr in Hx. lia.
  - split.
    + intros x Hx. apply (Permutation_in x HP) in Hx. now apply (nats_range _ d).
    + apply compl_ext. intros x. split; intros Hx; [now apply (Permutation_in x HP)|now apply (Permutation_in x (Permutation_sym HP))].
Qed.

(* tensor.collapse(dims) with the default reducer, as called, some mode kept: the sum over the modes as the caller listed them *)
Theorem collapse_dense_req_caller (X : dense V) (d : vec) :
  wf_dense X -> dims_ok (Z.of_nat (length (dshape X))) None d ->
  compl (length (dshape X)) (nats d) <> [] ->
  exists Y, impl_collapse_req v0 (sumv v0 vadd) X (Some d) = Ok Y /\
    dshape Y = ttv_shape (dshape X) (nats d) /\ wf_dense Y /\
    forall i', inb (ttv_shape (dshape X) (nats d)) i' = true ->
      den_dense v0 Y i' = spec_collapse v0 vadd (den_dense v0 X) (dshape X) (nats d) i'.
Proof.
  intros W Hok Hne. destruct Hok as (Hr & Hn & _).
  destruct (sorted_facts (length (dshape X)) d Hr Hn) as (HP & Hnd & Hrs & Ec).
  rewrite (impl_collapse_req_dims V v0 (sumv v0 vadd) X d (conj Hr (conj Hn I))).
  eexists. split; [reflexivity|].
  destruct (impl_collapse_sum_correct V v0 v1 vadd vmul vsub vopp Vring X (nats (np_sort d)) W) as (S1 & W1 & D1).
  { intros E. rewrite Ec in E. contradiction. }
  unfold ttv_shape in *. rewrite Ec in S1, D1. split; [exact S1|]. split; [exact W1|].
  intros i' Hi. rewrite (D1 i' Hi).
  apply spec_collapse_perm; auto. rewrite Ec. apply inb_length in Hi. now rewrite pick_length in Hi.
Qed.

(* sptensor.collapse (sum) on the sorted modes = the sum over the caller's listing *)
Theorem collapse_sparse_caller (S : sparse V) (d : vec) i' : wf_sp isz S ->
  (forall x, In x d -> (0 <= x < Z.of_nat (length (sshape S)))%Z) -> NoDup d ->
  inb (ttv_shape (sshape S) (nats d)) i' = true ->
  impl_collapse_sp v0 vadd S (nats (np_sort d)) i' = spec_collapse v0 vadd (den_sp v0 S) (sshape S) (nats d) i'.
Proof.
  intros W Hr Hn Hi.
  destruct (sorted_facts (length (sshape S)) d Hr Hn) as (HP & Hnd & Hrs & Ec).
  rewrite (impl_collapse_sp_correct V v0 v1 vadd vmul vsub vopp Vring isz S _ i' W Hnd Hrs) by (unfold ttv_shape in *; now rewrite Ec).
  apply spec_collapse_perm; auto. rewrite Ec. apply inb_length in Hi. unfold ttv_shape in Hi. now rewrite pick_length in Hi.
Qed.
End P.
