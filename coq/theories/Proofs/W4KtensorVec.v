(* Proofs/W4KtensorVec.v — bridges for ktensor.tovec and ktensor.update of Gen/GenKtensor4.v against the hand references
   of Model/W4KtensorVec.v, and their laws.  tovec: the generated code allocates zeros and fills them by slice stores at
   a running offset (two nested loops); the reference is the concatenation of the weights and all columns. *)
From Coq Require Import List ZArith Arith Bool Lia.
From PV Require Import Np.NpZ Np.NpZ2 Np.NpZ3 Np.NpZ3c Np.NpZ3d Np.NpZ3e Np.NpZ4 Proofs.NpZProofs Model.W4Ktensor Model.W4KtensorVec
  Proofs.W4Loops Proofs.W4Slices Gen.GenKtensor4.
Import ListNotations.
Local Open Scope Z_scope.

Lemma zlen_cons {A} (x : A) l : zlen (x :: l) = 1 + zlen l.
Proof. unfold zlen. cbn [length]. lia. Qed.
Lemma zlen_app {A} (a b : list A) : zlen (a ++ b) = zlen a + zlen b.
Proof. unfold zlen. rewrite app_length. lia. Qed.
Lemma zlen_nonneg {A} (l : list A) : 0 <= zlen l.
Proof. unfold zlen. lia. Qed.
Lemma zlen_arange R : 0 <= R -> zlen (np_arange 0 R) = R.
Proof. intros H. unfold np_arange, zlen. rewrite map_length, seq_length. lia. Qed.
Lemma zlen_np_col f r : zlen (np_col f r) = np_nrows f.
Proof. unfold np_col, np_nrows, zlen. now rewrite map_length. Qed.
Lemma zsum_nrows_nonneg (fs : list mat) : 0 <= zsum (map np_nrows fs).
Proof. unfold zsum. induction fs as [|f fs IH]; cbn [map fold_right]; [lia|]. unfold np_nrows at 1, zlen. lia. Qed.
Lemma split_at {A} (l : list A) (k : Z) : 0 <= k <= zlen l ->
  l = firstn (Z.to_nat k) l ++ skipn (Z.to_nat k) l /\ zlen (firstn (Z.to_nat k) l) = k /\ zlen (skipn (Z.to_nat k) l) = zlen l - k.
Proof.
  intros H. split; [symmetry; apply firstn_skipn|]. unfold zlen in *. rewrite firstn_length, skipn_length. lia.
Qed.

(* for r in l: x[off : off + n] = h r; off += n     (raises unless g r) — fills a block of len(l) * n reserved entries *)
Lemma np_for_blocks {X} (g : X -> bool) (h : X -> vec) (n : Z) (body : X -> vec * Z -> res (bool * (vec * Z))) (l : list X) :
  0 <= n ->
  (forall r x off, body r (x, off) =
     if g r && (zlen (h r) =? n) && np_set_slice_ok x (mkslice (Some off) (Some (off + n)) None) (h r)
     then Ok (false, (np_set_slice x (mkslice (Some off) (Some (off + n)) None) (h r), off + n)) else Err) ->
  (forall r, In r l -> zlen (h r) = n) ->
  forall pre zs rest, zlen zs = n * zlen l ->
    np_for l body (pre ++ zs ++ rest, zlen pre) =
    if forallb g l then Ok ((pre ++ concat (map h l)) ++ rest, zlen (pre ++ concat (map h l))) else Err.
Proof.
  intros Hn Hb. induction l as [|r l IH]; intros Hh pre zs rest Hz; cbn [np_for forallb map concat].
  - assert (zs = []) by (destruct zs; [reflexivity|unfold zlen in Hz; cbn in Hz; lia]). subst zs. cbn [app]. now rewrite app_nil_r.
  - rewrite Hb. destruct (g r); cbn [andb]; [|reflexivity].
    rewrite (Hh r) by (left; reflexivity). rewrite Z.eqb_refl. cbn [andb].
    rewrite zlen_cons in Hz. pose proof (zlen_nonneg l) as Hl.
    destruct (split_at zs n) as (Ez & E1 & E2); [nia|].
    set (old := firstn (Z.to_nat n) zs) in *. set (zs' := skipn (Z.to_nat n) zs) in *.
    rewrite Ez, <- (app_assoc old zs' rest).
    destruct (set_slice_block pre old (zs' ++ rest) (h r) (zlen pre) (zlen pre + n)) as [S1 S2].
    { pose proof (Hh r (or_introl eq_refl)) as Hr. unfold zlen in *. lia. }
    { reflexivity. } { rewrite (Hh r) by (left; reflexivity). reflexivity. }
    rewrite S1, S2. cbn [bind fst snd].
    replace (zlen pre + n) with (zlen (pre ++ h r)) by (rewrite zlen_app, (Hh r) by (left; reflexivity); reflexivity).
    rewrite (app_assoc pre (h r)). rewrite IH.
    + rewrite <- !app_assoc. reflexivity.
    + intros r' Hr'. apply Hh. right. exact Hr'.
    + rewrite E2. lia.
Qed.

(* for f in fs: <fill the block of f>  — over all factors *)
Lemma outer_loop (R : Z) (body : mat -> vec * Z -> res (bool * (vec * Z))) : 0 <= R ->
  (forall f pre zs rest, zlen zs = np_nrows f * R ->
     body f (pre ++ zs ++ rest, zlen pre) =
     if forallb (fun r => np_col_ok f r) (np_arange 0 R)
     then Ok (false, ((pre ++ H_vec_factor R f) ++ rest, zlen (pre ++ H_vec_factor R f))) else Err) ->
  forall fs pre zs, zlen zs = R * zsum (map np_nrows fs) ->
    np_for fs body (pre ++ zs, zlen pre) =
    if forallb (fun f => forallb (fun r => np_col_ok f r) (np_arange 0 R)) fs
    then Ok (pre ++ concat (map (H_vec_factor R) fs), zlen (pre ++ concat (map (H_vec_factor R) fs))) else Err.
Proof.
  intros HR Hb. induction fs as [|f fs IH]; intros pre zs Hz; cbn [np_for forallb map concat zsum fold_right].
  - assert (zs = []) by (destruct zs; [reflexivity|unfold zlen in Hz; cbn in Hz; lia]). subst zs. now rewrite !app_nil_r.
  - cbn [map] in Hz. change (zsum (np_nrows f :: map np_nrows fs)) with (np_nrows f + zsum (map np_nrows fs)) in Hz.
    pose proof (zsum_nrows_nonneg fs) as Hs. assert (Hf : 0 <= np_nrows f) by apply zlen_nonneg.
    destruct (split_at zs (np_nrows f * R)) as (Ez & E1 & E2); [nia|].
    set (z1 := firstn _ zs) in *. set (z2 := skipn _ zs) in *.
    rewrite Ez. rewrite (Hb f pre z1 z2 E1).
    destruct (forallb _ (np_arange 0 R)); cbn [andb bind fst snd]; [|reflexivity].
    rewrite IH by (rewrite E2; lia). rewrite <- !app_assoc. reflexivity.
Qed.

Theorem tovec_bridge (self : ktz) (incl : bool) : ktensor_tovec self incl = H_tovec self incl.
Proof.
  unfold ktensor_tovec, H_tovec, H_cols_ok, kt_ncomponents.
  set (R := zlen (kt_weights self)). set (S := zsum (kt_shape self)).
  assert (HR : 0 <= R) by apply zlen_nonneg.
  assert (HS : 0 <= S) by apply zsum_nrows_nonneg.
  (* the loop nest, for any reserved tail *)
  assert (L : forall pre zs, zlen zs = R * S ->
    np_for (kt_factors self)
      (fun (f_10 : mat) '(x_8, offset_9) =>
         bind (np_for (np_arange 0 R)
                 (fun (r_13 : Z) '(x_11, offset_12) =>
                    if np_col_ok f_10 r_13 && (zlen (np_col f_10 r_13) =? np_nrows f_10) &&
                       np_set_slice_ok x_11 (mkslice (Some offset_12) (Some (offset_12 + np_nrows f_10)) None) (np_col f_10 r_13)
                    then let x_14 := np_set_slice x_11 (mkslice (Some offset_12) (Some (offset_12 + np_nrows f_10)) None) (np_col f_10 r_13) in
                         let offset_15 := offset_12 + np_nrows f_10 in Ok (false, (x_14, offset_15))
                    else Err) (x_8, offset_9))
              (fun '(x_16, offset_17) => Ok (false, (x_16, offset_17)))) (pre ++ zs, zlen pre) =
    if forallb (fun f => forallb (fun r => np_col_ok f r) (np_arange 0 R)) (kt_factors self)
    then Ok (pre ++ concat (map (H_vec_factor R) (kt_factors self)), zlen (pre ++ concat (map (H_vec_factor R) (kt_factors self)))) else Err).
  { intros pre zs Hz. apply (outer_loop R); [exact HR| |exact Hz].
    intros f pre' zs' rest Hz'.
    rewrite (np_for_blocks (fun r => np_col_ok f r) (fun r => np_col f r) (np_nrows f)).
    - destruct (forallb _ (np_arange 0 R)); reflexivity.
    - apply zlen_nonneg.
    - intros r x off. reflexivity.
    - intros r _. apply zlen_np_col.
    - rewrite zlen_arange by exact HR. exact Hz'. }
  destruct incl.
  - unfold np_zeros_ok. replace (0 <=? R * (S + 1)) with true by (symmetry; apply Z.leb_le; nia).
    unfold np_zeros, np_full. replace (Z.to_nat (R * (S + 1))) with (Z.to_nat R + Z.to_nat (R * S))%nat by nia.
    rewrite repeat_app.
    destruct (set_slice_block [] (repeat 0 (Z.to_nat R)) (repeat 0 (Z.to_nat (R * S))) (kt_weights self) 0 R) as [S1 S2].
    { rewrite repeat_length. unfold R, zlen. lia. } { reflexivity. } { reflexivity. }
    cbn [app] in S1, S2. rewrite S1, S2. cbn [bind].
    change (kt_weights self ++ repeat 0 (Z.to_nat (R * S)), R) with (kt_weights self ++ repeat 0 (Z.to_nat (R * S)), zlen (kt_weights self)).
    rewrite L by (unfold zlen; rewrite repeat_length; lia).
    destruct (forallb _ (kt_factors self)); reflexivity.
  - unfold np_zeros_ok. replace (0 <=? R * S) with true by (symmetry; apply Z.leb_le; nia). cbn [bind].
    change (np_zeros (R * S), 0) with ([] ++ np_zeros (R * S), zlen (@nil Z)).
    rewrite L by (unfold np_zeros, np_full, zlen; rewrite repeat_length; lia).
    destruct (forallb _ (kt_factors self)); reflexivity.
Qed.

(* ---------------------------------------------------------------- update *)
Lemma py_slice_init (l : vec) : py_slice 0 l (mkslice None (Some (-1)) None) = firstn (length l - 1) l.
Proof.
  unfold py_slice, slice_indices. cbn [sl_step sl_start sl_stop].
  replace (1 <? 0) with false by reflexivity. replace (-1 <? 0) with true by reflexivity.
  set (b := if -1 + zlen l <? 0 then 0 else -1 + zlen l).
  assert (Hb : b = Z.of_nat (length l - 1)) by (unfold b, zlen; destruct (Z.ltb_spec (-1 + Z.of_nat (length l)) 0); lia).
  assert (Hs : slice_len 0 b 1 = b).
  { unfold slice_len. replace (1 <? 0) with false by reflexivity. destruct (Z.ltb_spec 0 b); [rewrite Z.div_1_r; lia|lia]. }
  rewrite Hs, Hb, Nat2Z.id.
  replace (seq 0 (length l - 1)) with (seq 0 (length (firstn (length l - 1) l))) by (rewrite firstn_length; f_equal; lia).
  apply (map_seq_nth_eq 0). intros j Hj. rewrite firstn_length in Hj.
  rewrite Z.add_0_l, Z.mul_1_r, znth_nat. symmetry. apply nth_firstn_lt. lia.
Qed.

Lemma asc_guard (l : vec) :
  np_bcast_ok (firstn (length l - 1) l) (tl l) = true /\ np_all (np_lt_vv (firstn (length l - 1) l) (tl l)) = asc l.
Proof.
  assert (Hlen : zlen (firstn (length l - 1) l) = zlen (tl l)).
  { unfold zlen. rewrite firstn_length. destruct l; cbn [length tl]; lia. }
  split; [unfold np_bcast_ok; rewrite Hlen, Z.eqb_refl; reflexivity|].
  unfold np_lt_vv. rewrite Hlen, Z.eqb_refl. clear Hlen.
  induction l as [|x l IH]; [reflexivity|]. destruct l as [|y t]; [reflexivity|].
  cbn [length tl asc]. replace (S (S (length t)) - 1)%nat with (S (length t)) by lia. cbn [firstn zmap2b].
  cbn [length tl] in IH. replace (S (length t) - 1)%nat with (length t) in IH by lia.
  unfold np_all in *. cbn [forallb]. rewrite IH. reflexivity.
Qed.

Lemma znth_map0 {A} (f : A -> Z) (d : A) (l : list A) k : f d = 0 -> znth 0 (map f l) k = f (znth d l k).
Proof.
  intros Hd. unfold znth, zlen. rewrite map_length.
  destruct ((if k <? 0 then k + Z.of_nat (length l) else k) <? 0); [now rewrite Hd|].
  rewrite <- Hd. apply map_nth.
Qed.

Lemma np_for_update_loop (data : vec) (body : Z -> ktz * Z -> res (bool * (ktz * Z))) :
  (forall k st, body k st = bind (H_update_step data k st) (fun st' => Ok (false, st'))) ->
  forall modes st, np_for modes body st = H_update_loop data modes st.
Proof.
  intros Hb. induction modes as [|k ms IH]; intros st; cbn [np_for H_update_loop]; [reflexivity|].
  rewrite Hb. destruct (H_update_step data k st) as [st'|]; cbn [bind fst snd]; [apply IH|reflexivity].
Qed.

Lemma np_for_needed (self : ktz) (body : Z -> Z -> res (bool * Z)) :
  (forall k n, body k n = bind (H_need_step self k n) (fun n' => Ok (false, n'))) ->
  forall modes n, np_for modes body n = H_needed self modes n.
Proof.
  intros Hb. induction modes as [|k ms IH]; intros n; cbn [np_for H_needed]; [reflexivity|].
  rewrite Hb. destruct (H_need_step self k n) as [n'|]; cbn [bind fst snd]; [apply IH|reflexivity].
Qed.

Theorem update_bridge (self : ktz) (modes data : vec) : ktensor_update self modes data = H_update self modes data.
Proof.
  unfold ktensor_update, H_update. cbv zeta. rewrite py_slice_init.
  destruct (asc_guard modes) as [G1 G2]. rewrite G1, G2.
  destruct (asc modes); [|reflexivity].
  rewrite (np_for_needed self).
  2:{ intros k n. unfold H_need_step, kt_ncomponents, kt_ndims, kt_shape.
      destruct (k =? -1); [reflexivity|].
      destruct ((0 <=? k) && (k <? zlen (kt_factors self))) eqn:Hk; [|reflexivity].
      apply andb_true_iff in Hk as [H0 H1]. apply Z.leb_le in H0. apply Z.ltb_lt in H1.
      replace (idx_ok (map np_nrows (kt_factors self)) k) with true
        by (symmetry; unfold idx_ok, zlen in *; rewrite map_length; apply andb_true_iff; split; [apply Z.leb_le|apply Z.ltb_lt]; lia).
      rewrite (znth_map0 np_nrows [] (kt_factors self) k eq_refl). reflexivity. }
  destruct (H_needed self modes 0) as [needed|]; cbn [bind]; [|reflexivity].
  destruct (zlen data <? needed); [reflexivity|].
  rewrite (np_for_update_loop data).
  - destruct (H_update_loop data modes (self, 0)) as [[s l]|]; reflexivity.
  - intros k [s loc]. unfold H_update_step, H_chunk, kt_ncomponents, kt_ndims, kt_shape. cbn [fst snd].
    destruct (k =? -1).
    + destruct (zlen data <? loc + zlen (kt_weights s)); reflexivity.
    + destruct (k <? zlen (kt_factors s)); [|reflexivity].
      replace (idx_ok (map np_nrows (kt_factors s)) k) with (idx_ok (kt_factors s) k) by (unfold idx_ok, zlen; now rewrite map_length).
      rewrite (znth_map0 np_nrows [] (kt_factors s) k eq_refl).
      destruct (idx_ok (kt_factors s) k); [|reflexivity].
      destruct (zlen data <? _); [reflexivity|]. cbn [andb]. rewrite andb_true_r.
      destruct (np_reshape2_ok _ _ _); reflexivity.
Qed.
