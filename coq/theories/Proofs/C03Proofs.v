(* Proofs/C03Proofs.v — the modelled sparse algorithms compute the element-wise specification (C03) and
   return well-formed tensors (C06), for every pair of well-formed operands in ANY stored order. *)
From Coq Require Import List Arith Lia Bool Permutation.
From PV Require Import Base.Index Np.Array Model.Sparse Model.C03Ops Proofs.C03Lemmas.
Import ListNotations.

Lemma NoDup_app_intro {A} (l1 l2 : list A) :
  NoDup l1 -> NoDup l2 -> (forall x, In x l1 -> ~ In x l2) -> NoDup (l1 ++ l2).
Proof.
  induction l1 as [|a l1 IH]; intros H1 H2 Hd; cbn; auto.
  inversion H1 as [|? ? Ha H1']; subst. constructor.
  - rewrite in_app_iff. intros [H|H]; [contradiction|]. apply (Hd a); cbn; auto.
  - apply IH; auto. intros x Hx. apply Hd. cbn; auto.
Qed.

Lemma NoDup_map_fst_filter {A B} (p : A * B -> bool) (l : list (A * B)) :
  NoDup (map fst l) -> NoDup (map fst (filter p l)).
Proof.
  induction l as [|e l IH]; cbn; intros H; auto. inversion H as [|? ? Ha H']; subst.
  destruct (p e); cbn; auto. constructor; auto.
  intros Hin. apply Ha. apply in_map_iff in Hin as (e' & E & He'). apply filter_In in He' as [He' _].
  rewrite <- E. now apply in_map.
Qed.

Section Proofs.
Context {V : Type} (v0 : V) (isz : V -> bool).
Hypothesis isz_spec : forall v, isz v = true <-> v = v0.

Notation den := (den_sp v0).
Notation wf := (wf_sp isz).
Notation wfs := (@wf_struct V).

(* ------------------------------------------------------------------------------------------ *)
(* building blocks                                                                             *)
(* ------------------------------------------------------------------------------------------ *)

(* a tensor built from a list of (subscript, value) pairs with distinct in-bounds subscripts, explicit
   zeros dropped: well-formed, and its value at a listed subscript is the listed value *)
Lemma wf_of_drop s (es : list (idx * V)) :
  NoDup (map fst es) -> (forall e, In e es -> inb s (fst e) = true) -> wf (of_entries s (drop_zeros isz es)).
Proof.
  intros Hn Hb. unfold wf_sp, of_entries, drop_zeros. cbn [sshape ssubs svals]. repeat split.
  - now rewrite !map_length.
  - now apply NoDup_map_fst_filter.
  - rewrite Forall_forall. intros i Hi. apply in_map_iff in Hi as (e & <- & He).
    apply filter_In in He as [He _]. auto.
  - rewrite Forall_forall. intros v Hv. apply in_map_iff in Hv as (e & <- & He).
    apply filter_In in He as [_ He]. now apply negb_true_iff in He.
Qed.

Lemma den_of_drop_in s (es : list (idx * V)) i v :
  NoDup (map fst es) -> In (i, v) es -> den (of_entries s (drop_zeros isz es)) i = v.
Proof.
  intros Hn Hin. destruct (isz v) eqn:Hz.
  - apply isz_spec in Hz. subst v. apply den_sp_notin. unfold of_entries, drop_zeros. cbn [ssubs].
    intros Hi. apply in_map_iff in Hi as ([j w] & Ej & He). cbn in Ej. subst j.
    apply filter_In in He as [He Hw]. cbn in Hw.
    assert (w = v0).
    { rewrite <- (last_match_in i w es v0 Hn He). now apply last_match_in. }
    subst w. rewrite (proj2 (isz_spec v0) eq_refl) in Hw. discriminate.
  - unfold den_sp. rewrite entries_of_entries. apply last_match_in.
    + now apply NoDup_map_fst_filter.
    + apply filter_In. split; auto. cbn. now rewrite Hz.
Qed.

Lemma den_of_drop_notin s (es : list (idx * V)) i :
  ~ In i (map fst es) -> den (of_entries s (drop_zeros isz es)) i = v0.
Proof.
  intros Hni. apply den_sp_notin. unfold of_entries, drop_zeros. cbn [ssubs]. intros Hi. apply Hni.
  apply in_map_iff in Hi as (e & <- & He). apply filter_In in He as [He _]. now apply in_map.
Qed.

(* constant-valued tensors on a list of distinct in-bounds subscripts *)
Lemma wf_sp_const s subs (c : V) : NoDup subs -> (forall i, In i subs -> inb s i = true) -> c <> v0 ->
  wf (sp_const s subs c).
Proof.
  intros Hn Hb Hc. unfold wf_sp, sp_const. cbn [sshape ssubs svals]. repeat split; auto.
  - now rewrite map_length.
  - now apply Forall_forall.
  - rewrite Forall_forall. intros v Hv. apply in_map_iff in Hv as (_ & <- & _). now apply (isz_false v0 isz isz_spec).
Qed.

Lemma den_sp_const s subs (c : V) i : NoDup subs ->
  den (sp_const s subs c) i = if mem i subs then c else v0.
Proof.
  intros Hn. destruct (mem i subs) eqn:Hm.
  - apply mem_spec in Hm. unfold den_sp. rewrite entries_sp_const. apply last_match_in.
    + rewrite map_map. cbn. now rewrite map_id.
    + apply in_map_iff. exists i. auto.
  - apply mem_false in Hm. now apply den_sp_notin.
Qed.

(* in a well-formed tensor "stored" and "nonzero" coincide *)
Lemma mem_subs (A : sparse V) i : wf A -> mem i (ssubs A) = negb (isz (den A i)).
Proof.
  intros W. destruct (mem i (ssubs A)) eqn:Hm.
  - apply mem_spec in Hm. apply (in_subs_iff v0 isz isz_spec A i W) in Hm.
    apply (isz_false v0 isz isz_spec) in Hm. now rewrite Hm.
  - apply mem_false in Hm. rewrite den_sp_notin by auto. now rewrite (proj2 (isz_spec v0) eq_refl).
Qed.

Lemma wf_inb (A : sparse V) i : wfs A -> In i (ssubs A) -> inb (sshape A) i = true.
Proof. intros (_ & _ & Hb) Hi. rewrite Forall_forall in Hb. auto. Qed.

Lemma NoDup_fst_entries (A : sparse V) : wfs A -> NoDup (map fst (entries A)).
Proof. intros (HL & Hn & _). now rewrite map_fst_entries. Qed.

Lemma in_entries_inb (A : sparse V) e : wfs A -> In e (entries A) -> inb (sshape A) (fst e) = true.
Proof.
  intros W He. apply (wf_inb A); auto. destruct e as [i v]. unfold entries in He. now apply in_combine_l in He.
Qed.

(* implicit-zero positions *)
Lemma in_zero_subs (A : sparse V) i : In i (zero_subs A) <-> inb (sshape A) i = true /\ ~ In i (ssubs A).
Proof.
  unfold zero_subs, rows_diff. rewrite filter_In, in_allsubs, negb_true_iff. now rewrite mem_false.
Qed.

Lemma NoDup_zero_subs (A : sparse V) : NoDup (zero_subs A).
Proof. apply NoDup_filter, allsubs_NoDup. Qed.

(* ------------------------------------------------------------------------------------------ *)
(* unary operations                                                                            *)
(* ------------------------------------------------------------------------------------------ *)

Theorem impl_ones_correct (one : V) (A : sparse V) : one <> v0 -> wf A ->
  wf (impl_ones one A) /\ sshape (impl_ones one A) = sshape A /\
  forall i, den (impl_ones one A) i = bval v0 one (negb (isz (den A i))).
Proof.
  intros H1 W. pose proof (wf_sp_struct isz A W) as Ws. destruct Ws as (HL & Hn & Hb).
  split; [|split; [reflexivity|]].
  - apply wf_sp_const; auto. now apply Forall_forall.
  - intros i. unfold impl_ones. rewrite den_sp_const by auto. now rewrite mem_subs.
Qed.

Theorem impl_not_correct (one : V) (A : sparse V) : one <> v0 -> wf A ->
  wf (impl_not one A) /\ sshape (impl_not one A) = sshape A /\
  forall i, inb (sshape A) i = true -> den (impl_not one A) i = bval v0 one (isz (den A i)).
Proof.
  intros H1 W. split; [|split; [reflexivity|]].
  - apply wf_sp_const; auto using NoDup_zero_subs. intros i Hi. now apply in_zero_subs in Hi.
  - intros i Hi. unfold impl_not. rewrite den_sp_const by apply NoDup_zero_subs.
    destruct (mem i (zero_subs A)) eqn:Hm.
    + apply mem_spec, in_zero_subs in Hm as [_ Hm]. apply mem_false in Hm. rewrite mem_subs in Hm by auto.
      apply negb_false_iff in Hm. now rewrite Hm.
    + apply mem_false in Hm. rewrite in_zero_subs in Hm.
      destruct (isz (den A i)) eqn:Hz; auto. exfalso. apply Hm. split; auto.
      apply mem_false. rewrite mem_subs by auto. now rewrite Hz.
Qed.

Section Neg.
Variable vopp : V -> V.
Hypothesis vopp_nz : forall v, v <> v0 -> vopp v <> v0.
Hypothesis vopp_0 : vopp v0 = v0.

Lemma last_match_map_snd (g : V -> V) i (l1 : list idx) (l2 : list V) d :
  last_match i (combine l1 (map g l2)) (g d) = g (last_match i (combine l1 l2) d).
Proof.
  revert l2 d; induction l1 as [|j l1 IH]; intros [|v l2] d; cbn; auto.
  destruct (idx_eqb i j); apply IH.
Qed.

Theorem impl_neg_correct (A : sparse V) : wf A ->
  wf (impl_neg vopp A) /\ sshape (impl_neg vopp A) = sshape A /\
  forall i, den (impl_neg vopp A) i = vopp (den A i).
Proof.
  intros (HL & Hn & Hb & Hz). split; [|split; [reflexivity|]].
  - unfold wf_sp, impl_neg. cbn [sshape ssubs svals]. repeat split; auto.
    + now rewrite map_length.
    + rewrite Forall_forall in *. intros v Hv. apply in_map_iff in Hv as (w & <- & Hw).
      apply (isz_false v0 isz isz_spec). apply vopp_nz. apply (isz_false v0 isz isz_spec). auto.
  - intros i. unfold den_sp, impl_neg, entries. cbn [ssubs svals].
    rewrite <- vopp_0 at 1. apply last_match_map_snd.
Qed.
End Neg.

End Proofs.
