(* Model/Harness.v — boolean comparison helpers used by the generated correspondence cases. *)
From Coq Require Import List ZArith Bool.
From PV Require Import Np.NpZ.
Import ListNotations.
Local Open Scope Z_scope.

Fixpoint list_eqb {A} (eqb : A -> A -> bool) (l1 l2 : list A) : bool :=
  match l1, l2 with
  | [], [] => true
  | x :: l1', y :: l2' => eqb x y && list_eqb eqb l1' l2'
  | _, _ => false
  end.
Definition vec_eqb := list_eqb Z.eqb.
Definition mat_eqb := list_eqb vec_eqb.
Definition bvec_eqb := list_eqb Bool.eqb.
Definition nvec_eqb := list_eqb Nat.eqb.
Definition nmat_eqb := list_eqb nvec_eqb.
Definition opt_eqb {A} (eqb : A -> A -> bool) (o1 o2 : option A) : bool :=
  match o1, o2 with
  | None, None => true
  | Some x, Some y => eqb x y
  | _, _ => false
  end.
Definition res_eqb {A} (eqb : A -> A -> bool) (r1 r2 : res A) : bool :=
  match r1, r2 with
  | Err, Err => true
  | Ok x, Ok y => eqb x y
  | _, _ => false
  end.
Definition pair_eqb {A B} (ea : A -> A -> bool) (eb : B -> B -> bool) (p q : A * B) : bool :=
  ea (fst p) (fst q) && eb (snd p) (snd q).
