(* Proofs/C03AsIsProofs.v — finding A-06: pyttb's position pairing in sptensor.__mul__ (sparse, sparse), as
   transliterated in Model/C03AsIs.v over the generated tt_intersect_rows, does NOT compute the element-wise
   product for all well-formed operands; witness = the same two tensors stored in opposite orders. *)
From Coq Require Import List ZArith Bool Lia.
From PV Require Import Base.Index Np.NpZ Np.Array Gen.GenUtils Model.Sparse Model.Harness Model.C03Ops Model.C03AsIs.
Import ListNotations.
Local Open Scope Z_scope.

Definition wA : sparse Z := mkSp [2; 2]%nat [[1; 1]; [0; 0]]%nat [3; 2].
Definition wB : sparse Z := mkSp [2; 2]%nat [[0; 0]; [1; 1]]%nat [5; 7].

Lemma wf_wA : wf_sp zisz wA.
Proof.
  unfold wf_sp, wA; cbn. repeat split; auto.
  - repeat constructor; cbn; intuition discriminate.
Qed.
Lemma wf_wB : wf_sp zisz wB.
Proof.
  unfold wf_sp, wB; cbn. repeat split; auto.
  - repeat constructor; cbn; intuition discriminate.
Qed.

Theorem mul_asis_refuted : ~ mul_asis_stmt.
Proof.
  intros H. destruct (H wA wB wf_wA wf_wB eq_refl) as (R & E & D).
  vm_compute in E. inversion E; subst R. specialize (D [0; 0]%nat). vm_compute in D. discriminate.
Qed.

(* the same operands stored in the same order are multiplied correctly by the code as it is *)
Example mul_asis_aligned :
  impl_mul_asis (mkSp [2; 2]%nat [[0; 0]; [1; 1]]%nat [2; 3]) wB = Ok (mkSp [2; 2]%nat [[0; 0]; [1; 1]]%nat [10; 21]).
Proof. reflexivity. Qed.
