(* Proofs/C15Old.v — pyttb's OLD dense symmetrisation (tensor.symmetrize with version != None), transliterated as
   impl_sym_old in Model/C15Impl.v, meets the spec for all orders, groups and values:
     * the table sym_perms holds, for pairwise disjoint groups, permutations of all modes that fix every mode outside
       the groups; X.permute(p) read at i is X at i with the values of each group moved to the rearranged positions;
     * summing X.permute(perm[g] = gp) over the rearrangements gp of the POSITIONS equals summing over the
       rearrangements of the VALUES at g (the list of all rearrangements of 0..k-1 is duplicate free and closed under
       inversion), hence the explicit average over sym_perms is the group-after-group spec average;
     * the spec average is invariant under every row of sym_perms, so the "max-fix" loop Y = max(Y, Y.permute(p))
       changes nothing (max a a = a). *)
From Coq Require Import List Arith Lia Bool Permutation Ring.
From PV Require Import Base.Index Base.Perm Base.Sum Np.Array Model.Sparse Model.Repr Model.C15Sym Model.C15Impl
  Proofs.C15Proofs Proofs.C15Orbit Proofs.C15ImplProofs Proofs.C07Index.
Import ListNotations.

(* ------------------------------------------------------------------------------------------------ *)
(* the list of all rearrangements of a duplicate-free list is duplicate free                         *)
(* ------------------------------------------------------------------------------------------------ *)
Lemma NoDup_app_intro {A} (l1 l2 : list A) : NoDup l1 -> NoDup l2 -> (forall x, In x l1 -> ~ In x l2) -> NoDup (l1 ++ l2).
Proof.
  induction l1 as [|a l1 IH]; intros H1 H2 D; cbn; auto.
  inversion H1; subst. constructor.
  - rewrite in_app_iff. intros [H|H]; [contradiction|]. apply (D a); [now left|exact H].
  - apply IH; auto. intros x Hx. apply D. now right.
Qed.

Lemma NoDup_flat_map {A B} (f : A -> list B) l : NoDup l -> (forall a, In a l -> NoDup (f a)) ->
  (forall a b x, In a l -> In b l -> In x (f a) -> In x (f b) -> a = b) -> NoDup (flat_map f l).
Proof.
  induction 1 as [|a l Ha Hn IH]; intros Hf Hd; cbn; [constructor|].
  apply NoDup_app_intro.
  - apply Hf. now left.
  - apply IH; [intros b Hb; apply Hf; now right|]. intros b c x Hb Hc. apply Hd; now right.
  - intros x Hx Hx'. apply in_flat_map in Hx' as (b & Hb & Hxb).
    assert (E : a = b) by (apply (Hd a b x); auto; [now left|now right]). subst. contradiction.
Qed.

Lemma insert_all_NoDup x l : ~ In x l -> NoDup (insert_all x l).
Proof.
  induction l as [|y l IH]; intros H; cbn.
  - constructor; [intros []|constructor].
  - constructor.
    + intros Hin. apply in_map_iff in Hin as (z & E & _). inversion E; subst. apply H. now left.
    + apply NoDup_map_inj_in; [apply IH; intros Hx; apply H; now right|]. intros a b _ _ E. now inversion E.
Qed.

Lemma insert_all_remove x l z : ~ In x l -> In z (insert_all x l) -> remove Nat.eq_dec x z = l.
Proof.
  revert z; induction l as [|y l IH]; intros z H Hz; cbn in Hz.
  - destruct Hz as [<-|[]]. cbn. destruct (Nat.eq_dec x x); [reflexivity|contradiction].
  - destruct Hz as [<-|Hz].
    + rewrite remove_cons. now apply notin_remove.
    + apply in_map_iff in Hz as (z' & <- & Hz'). cbn [remove]. destruct (Nat.eq_dec x y) as [->|n].
      * exfalso. apply H. now left.
      * f_equal. apply IH; auto. intros Hx. apply H. now right.
Qed.

Lemma perms_NoDup l : NoDup l -> NoDup (perms l).
Proof.
  induction 1 as [|x l Hx Hn IH]; cbn; [constructor; [intros []|constructor]|].
  assert (Hp : forall p, In p (perms l) -> ~ In x p).
  { intros p Hp Hin. apply Hx. eapply Permutation_in; [symmetry; apply perms_sound; exact Hp|exact Hin]. }
  apply NoDup_flat_map; auto.
  - intros p Hpin. apply insert_all_NoDup. now apply Hp.
  - intros p q z Hpin Hqin Hz1 Hz2.
    rewrite <- (insert_all_remove x p z), <- (insert_all_remove x q z); auto.
Qed.

Lemma perms_seq_in k sg : is_perm sg k -> In sg (perms (seq 0 k)).
Proof. intros H. apply perms_complete. symmetry. exact H. Qed.

(* the rearrangements of 0..k-1 are closed under inversion *)
Lemma invperm_perms_Permutation k : Permutation (map invperm (perms (seq 0 k))) (perms (seq 0 k)).
Proof.
  apply NoDup_Permutation_bis.
  - apply NoDup_map_inj_in; [apply perms_NoDup, seq_NoDup|].
    intros a b Ha Hb E.
    rewrite <- (invperm_invperm a k), <- (invperm_invperm b k) by (now apply perms_seq_is_perm). now rewrite E.
  - rewrite map_length. lia.
  - intros z Hz. apply in_map_iff in Hz as (a & <- & Ha). apply perms_seq_in, invperm_is_perm.
    now apply perms_seq_is_perm.
Qed.

Lemma perms_length_len l : length (perms l) = length (perms (seq 0 (length l))).
Proof. rewrite (perms_as_picks l). now rewrite map_length. Qed.

Lemma length_flat_map_const {A B} (f : A -> list B) l c : (forall a, In a l -> length (f a) = c) ->
  length (flat_map f l) = length l * c.
Proof.
  induction l as [|a l IH]; intros H; cbn; auto. rewrite app_length, IH, H; auto; [now left|].
  intros b Hb. apply H. now right.
Qed.

(* ------------------------------------------------------------------------------------------------ *)
(* writing jointly rearranged (position, value) lists                                                *)
(* ------------------------------------------------------------------------------------------------ *)
Lemma put_joint tau a b i : is_perm tau (length a) -> length b = length a -> okg (length i) a ->
  put (pick 0 tau a) (pick 0 tau b) i = put a b i.
Proof.
  intros Ht Hb Hok. pose proof (is_perm_length _ _ Ht) as HLt.
  assert (Pa : Permutation (pick 0 tau a) a) by (now apply pick_Permutation).
  assert (Hok' : okg (length i) (pick 0 tau a)) by (apply (okg_perm _ a); auto; now symmetry).
  apply idx_ext; [now rewrite !length_put|]. intros m.
  destruct (in_dec Nat.eq_dec m a) as [Hin|Hout].
  - destruct (In_nth a m 0 Hin) as (t & Ht' & <-).
    assert (Hint : In t tau) by (apply (is_perm_In tau (length a) t Ht); lia).
    pose proof (index_of_lt t tau Hint) as Hlt. pose proof (nth_index_of t tau Hint) as Hn.
    set (t' := index_of t tau) in *.
    rewrite (nth_put_in a b i t) by auto.
    assert (E : nth t a 0 = nth t' (pick 0 tau a) 0) by (rewrite nth_pick by lia; now rewrite Hn).
    rewrite E. rewrite nth_put_in; auto; rewrite ?pick_length; try lia.
    rewrite nth_pick by lia. now rewrite Hn.
  - rewrite !nth_put_out; auto. intros H. apply Hout. eapply Permutation_in; eauto.
Qed.

Lemma put_seq_id i : put (seq 0 (length i)) i i = i.
Proof.
  assert (Hok : okg (length i) (seq 0 (length i))).
  { split; [apply seq_NoDup|]. intros m Hm. apply in_seq in Hm. lia. }
  apply idx_ext; [now rewrite length_put|]. intros m.
  destruct (Nat.lt_ge_cases m (length i)) as [Hm|Hm].
  - assert (E : nth m (seq 0 (length i)) 0 = m) by (now apply seq_nth). rewrite <- E at 1.
    apply nth_put_in; auto; rewrite seq_length; auto.
  - rewrite !nth_overflow; auto. now rewrite length_put.
Qed.

(* ------------------------------------------------------------------------------------------------ *)
(* the rows of sym_perms                                                                             *)
(* ------------------------------------------------------------------------------------------------ *)
(* a permutation of all N modes that fixes every mode outside the groups of G *)
Definition row_ok (N : nat) (G : list (list nat)) (p : list nat) : Prop :=
  is_perm p N /\ forall m, m < N -> (forall g, In g G -> ~ In m g) -> nth m p 0 = m.

Lemma is_perm_okg p N : is_perm p N -> okg N p.
Proof.
  intros H. split; [eapply is_perm_NoDup; eauto|]. intros m Hm. now apply (is_perm_In p N m H).
Qed.

(* perm[g] = gp on a permutation p that fixes g pointwise is again a permutation *)
Lemma put_row_perm N g gp p : okg N g -> Permutation g gp -> is_perm p N -> (forall m, In m g -> nth m p 0 = m) ->
  is_perm (put g gp p) N /\ (forall m, ~ In m g -> nth m (put g gp p) 0 = nth m p 0).
Proof.
  intros Hok P Hp Hfix. pose proof (okg_perm N g gp Hok P) as Hokp. pose proof (Permutation_length P) as HL.
  pose proof (is_perm_length _ _ Hp) as HpL. pose proof (is_perm_NoDup _ _ Hp) as HpN.
  assert (Hokg' : okg (length p) g) by (now rewrite HpL).
  set (q := put g gp p).
  assert (Hlen : length q = N) by (unfold q; now rewrite length_put).
  assert (Hout : forall m, ~ In m g -> nth m q 0 = nth m p 0) by (intros m Hm; unfold q; now apply nth_put_out).
  split; [|exact Hout].
  assert (Hin : forall t, t < length g -> nth (nth t g 0) q 0 = nth t gp 0).
  { intros t Ht. unfold q. apply nth_put_in; auto. }
  (* a position outside g never holds a member of g *)
  assert (Hsep : forall b, b < N -> ~ In b g -> ~ In (nth b p 0) g).
  { intros b Hb Hbg Hmem. pose proof (Hfix _ Hmem) as E.
    assert (Hlt : nth b p 0 < N) by (apply (is_perm_In p N _ Hp), nth_In; lia).
    apply Hbg. rewrite (proj1 (NoDup_nth p 0) HpN b (nth b p 0)); auto; lia. }
  unfold is_perm. apply NoDup_Permutation_bis.
  - apply (NoDup_nth _ 0). rewrite Hlen. intros a b Ha Hb E.
    destruct (in_dec Nat.eq_dec a g) as [Ia|Oa], (in_dec Nat.eq_dec b g) as [Ib|Ob].
    + destruct (In_nth g a 0 Ia) as (t & Ht & <-). destruct (In_nth g b 0 Ib) as (t' & Ht' & <-).
      rewrite !Hin in E by lia. destruct Hokp as [Hnp _].
      rewrite (proj1 (NoDup_nth gp 0) Hnp t t'); auto; lia.
    + exfalso. destruct (In_nth g a 0 Ia) as (t & Ht & <-). rewrite Hin in E by lia. rewrite (Hout b Ob) in E.
      apply (Hsep b Hb Ob). rewrite <- E. eapply Permutation_in; [symmetry; exact P|]. apply nth_In. lia.
    + exfalso. destruct (In_nth g b 0 Ib) as (t & Ht & <-). rewrite Hin in E by lia. rewrite (Hout a Oa) in E.
      apply (Hsep a Ha Oa). rewrite E. eapply Permutation_in; [symmetry; exact P|]. apply nth_In. lia.
    + rewrite (Hout a Oa), (Hout b Ob) in E. apply (proj1 (NoDup_nth p 0) HpN); auto; lia.
  - rewrite seq_length. lia.
  - intros x Hx. apply in_seq. split; [lia|]. cbn. destruct (In_nth _ x 0 Hx) as (t & Ht & <-). rewrite Hlen in Ht.
    destruct (in_dec Nat.eq_dec t g) as [It|Ot].
    + destruct (In_nth g t 0 It) as (u & Hu & <-). rewrite Hin by lia. apply (proj2 Hokp). apply nth_In. lia.
    + rewrite (Hout t Ot). apply (is_perm_In p N _ Hp), nth_In. lia.
Qed.

Lemma sym_perms_row_ok N G : groups_ok N G -> forall p, In p (sym_perms N G) -> row_ok N G p.
Proof.
  induction G as [|g G IH]; intros HG p Hp.
  - cbn in Hp. destruct Hp as [<-|[]]. split; [apply Permutation_refl|]. intros m Hm _. now apply seq_nth.
  - destruct HG as (Hok & D & HG). cbn in Hp. apply in_flat_map in Hp as (p' & Hp' & Hp).
    apply in_map_iff in Hp as (gp & <- & Hgp). destruct (IH HG p' Hp') as [Hperm Hfix].
    assert (Hfixg : forall m, In m g -> nth m p' 0 = m).
    { intros m Hm. apply Hfix; [now apply (proj2 Hok)|]. intros g' Hg' Hm'. exact (D g' Hg' m Hm Hm'). }
    destruct (put_row_perm N g gp p' Hok (perms_sound g gp Hgp) Hperm Hfixg) as [Hq Hout]. split; auto.
    intros m Hm Hnot. rewrite Hout by (apply Hnot; now left). apply Hfix; auto. intros g' Hg'. apply Hnot. now right.
Qed.

Lemma row_fixes_group N g G p : okg N g -> (forall g', In g' G -> disjoint g g') -> row_ok N G p ->
  forall m, In m g -> nth m p 0 = m.
Proof.
  intros Hok D [_ Hfix] m Hm. apply Hfix; [now apply (proj2 Hok)|]. intros g' Hg' Hm'. exact (D g' Hg' m Hm Hm').
Qed.

(* X.permute(p with p[g] = gp) read at i: first the subscript read by X.permute(p), then the values of the group
   positions moved from g to gp *)
Lemma put_row_index N g gp p i : okg N g -> Permutation g gp -> is_perm p N -> (forall m, In m g -> nth m p 0 = m) ->
  length i = N ->
  put (put g gp p) i i = put gp (pick 0 g i) (put p i i) /\ pick 0 g (put p i i) = pick 0 g i.
Proof.
  intros Hok P Hp Hfix HN. pose proof (okg_perm N g gp Hok P) as Hokp. pose proof (Permutation_length P) as HL.
  pose proof (is_perm_length _ _ Hp) as HpL.
  destruct (put_row_perm N g gp p Hok P Hp Hfix) as [Hq Hout]. set (q := put g gp p) in *.
  pose proof (is_perm_length _ _ Hq) as HqL.
  assert (Hokq : okg (length i) q) by (rewrite HN; now apply is_perm_okg).
  assert (Hokpi : okg (length i) p) by (rewrite HN; now apply is_perm_okg).
  assert (Hrd : forall k, k < N -> nth (nth k p 0) (put p i i) 0 = nth k i 0).
  { intros k Hk. apply nth_put_in; auto; lia. }
  assert (Hrq : forall k, k < N -> nth (nth k q 0) (put q i i) 0 = nth k i 0).
  { intros k Hk. apply nth_put_in; auto; lia. }
  assert (Hpick : pick 0 g (put p i i) = pick 0 g i).
  { unfold pick. apply map_ext_in. intros m Hm. rewrite <- (Hfix m Hm) at 1. apply Hrd. now apply (proj2 Hok). }
  split; [|exact Hpick].
  apply idx_ext; [now rewrite !length_put|]. intros x.
  destruct (Nat.lt_ge_cases x N) as [Hx|Hx].
  2:{ rewrite !nth_overflow; auto; rewrite ?length_put; lia. }
  destruct (in_dec Nat.eq_dec x gp) as [Hin|Hnot].
  - destruct (In_nth gp x 0 Hin) as (t & Ht & <-).
    rewrite (nth_put_in gp) by (rewrite ?length_put, ?HN, ?pick_length; auto; lia).
    rewrite nth_pick by lia.
    assert (E : nth t gp 0 = nth (nth t g 0) q 0).
    { unfold q. symmetry. apply nth_put_in; auto; [now rewrite HpL|lia]. }
    rewrite E. apply Hrq. apply (proj2 Hok), nth_In. lia.
  - assert (Hnotg : ~ In x g) by (intros H; apply Hnot; eapply Permutation_in; eauto).
    rewrite (nth_put_out gp) by exact Hnot.
    assert (Hxin : In x p) by (now apply (is_perm_In p N x Hp)).
    pose proof (index_of_lt x p Hxin) as Hk. pose proof (nth_index_of x p Hxin) as Hn. set (k := index_of x p) in *.
    assert (Hkg : ~ In k g).
    { intros Hkg. rewrite (Hfix k Hkg) in Hn. apply Hnotg. rewrite <- Hn. exact Hkg. }
    rewrite <- Hn at 2. rewrite Hrd by lia.
    rewrite <- Hn at 1. rewrite <- (Hout k Hkg). apply Hrq. lia.
Qed.

Section Old15.
Variable V : Type.
Variables (v0 v1 : V) (vadd vmul vsub : V -> V -> V) (vopp vinv : V -> V).
Hypothesis Vring : ring_theory v0 v1 vadd vmul vsub vopp (@eq V).
Add Ring Vr15old : Vring.
Notation "x + y" := (vadd x y).
Notation "x * y" := (vmul x y).
Notation ofn := (of_nat v0 v1 vadd).
Notation symg := (sym_group v0 v1 vadd vmul vinv).
Notation ssym := (spec_sym v0 v1 vadd vmul vinv).
Notation sumo := (sum_over v0 vadd).

Lemma ofn_add a b : ofn (a + b)%nat = ofn a + ofn b.
Proof. induction a as [|a IH]; cbn; [ring|]. rewrite IH. ring. Qed.

Lemma ofn_mul a b : ofn (a * b)%nat = ofn a * ofn b.
Proof. induction a as [|a IH]; cbn; [ring|]. rewrite ofn_add, IH. ring. Qed.

Lemma sum_over_flat_map {A B} (f : A -> list B) l (h : B -> V) :
  sumo (flat_map f l) h = sumo l (fun a => sumo (f a) h).
Proof.
  induction l as [|a l IH]; cbn [flat_map]; [reflexivity|].
  rewrite (sum_over_app V v0 v1 vadd vmul vsub vopp Vring), IH. reflexivity.
Qed.

(* summing over the rearrangements of the POSITIONS = summing over the rearrangements of the VALUES *)
Lemma moved_sum (X : idx -> V) g v i : okg (length i) g -> length v = length g ->
  sumo (perms g) (fun gp => X (put gp v i)) = sumo (perms v) (fun u => X (put g u i)).
Proof.
  intros Hok Hv. set (k := length g).
  rewrite (perms_as_picks g), (perms_as_picks v), Hv. fold k.
  rewrite !(sum_over_map V v0 vadd).
  rewrite <- (sum_over_perm V v0 v1 vadd vmul vsub vopp Vring _ _ (fun sg => X (put g (pick 0 sg v) i))
                (invperm_perms_Permutation k)).
  rewrite (sum_over_map V v0 vadd).
  apply sum_over_ext. intros sg Hsg. pose proof (perms_seq_is_perm k sg Hsg) as Hp.
  pose proof (is_perm_length _ _ Hp) as HsL. f_equal.
  assert (Pg : Permutation (pick 0 sg g) g) by (apply pick_Permutation; exact Hp).
  rewrite <- (put_joint (invperm sg) (pick 0 sg g) v i).
  - now rewrite (pick_invperm_pick 0 sg k g Hp eq_refl).
  - rewrite pick_length, HsL. now apply invperm_is_perm.
  - rewrite pick_length. unfold k in HsL. lia.
  - apply (okg_perm _ g); auto. now symmetry.
Qed.

Hypothesis char0 : forall n, n <> 0 -> ofn n <> v0.
Hypothesis vinv_l : forall x, x <> v0 -> vinv x * x = v1.

Lemma sym_perms_length N G : length (sym_perms N G) <> 0.
Proof.
  induction G as [|g G IH]; cbn; [lia|].
  rewrite (length_flat_map_const _ _ (length (perms g))).
  - apply Nat.neq_mul_0. split; [exact IH|apply perms_nonempty].
  - intros p _. now rewrite map_length.
Qed.

(* the explicit average over all rows of sym_perms = the group-after-group spec average *)
Lemma old_avg_spec N G : groups_ok N G -> forall (X : idx -> V) i, length i = N ->
  sym_old_avg v0 v1 vadd vmul vinv N X G i = ssym X G i.
Proof.
  unfold sym_old_avg, permuted. induction G as [|g G IH]; intros HG X i Hi.
  - cbn [sym_perms spec_sym fold_left length]. unfold sum_over. cbn [map sumv].
    rewrite <- Hi, put_seq_id.
    assert (E : ofn 1 = v1) by (cbn; ring). rewrite E.
    assert (H1 : vinv v1 * v1 = v1) by (apply vinv_l; rewrite <- E; apply char0; lia).
    transitivity (X i * (vinv v1 * v1)); [ring|]. rewrite H1. ring.
  - destruct HG as (Hok & D & HG). cbn [spec_sym fold_left]. change (fold_left symg G (symg X g)) with (ssym (symg X g) G).
    rewrite <- (IH HG (symg X g) i Hi). cbn [sym_perms].
    set (SP := sym_perms N G). set (ng := length (perms g)).
    rewrite (length_flat_map_const _ SP ng) by (intros p _; now rewrite map_length).
    rewrite sum_over_flat_map.
    assert (Hrow : forall p, In p SP -> sumo (map (fun gp => put g gp p) (perms g)) (fun q => X (put q i i))
                                       = ofn ng * symg X g (put p i i)).
    { intros p Hp. destruct (sym_perms_row_ok N G HG p Hp) as [Hperm Hfix].
      assert (Hfixg : forall m, In m g -> nth m p 0 = m) by (apply (row_fixes_group N g G p Hok D); split; auto).
      rewrite (sum_over_map V v0 vadd).
      set (j := put p i i). assert (Hj : length j = N) by (unfold j; now rewrite length_put).
      rewrite (sum_over_ext V v0 vadd _ _ (fun gp => X (put gp (pick 0 g j) j))).
      2:{ intros gp Hgp. destruct (put_row_index N g gp p i Hok (perms_sound g gp Hgp) Hperm Hfixg Hi) as [E1 E2].
          fold j in E1, E2. now rewrite E1, E2. }
      rewrite (moved_sum X g (pick 0 g j) j) by (rewrite ?Hj; auto; apply pick_length).
      unfold sym_group. set (ps := perms (pick 0 g j)).
      assert (Hps : length ps = ng).
      { unfold ps, ng. rewrite perms_length_len, (perms_length_len g). now rewrite pick_length. }
      rewrite Hps. set (Sg := sumo ps (fun vals => X (put g vals j))).
      assert (Hn : ofn ng <> v0) by (apply char0; unfold ng; apply perms_nonempty).
      transitivity ((vinv (ofn ng) * ofn ng) * Sg); [rewrite (vinv_l _ Hn); ring|ring]. }
    rewrite (sum_over_ext V v0 vadd SP _ (fun p => ofn ng * symg X g (put p i i))) by exact Hrow.
    rewrite (sum_over_scale_l V v0 v1 vadd vmul vsub vopp Vring).
    set (Sp := sumo SP (fun p => symg X g (put p i i))).
    rewrite ofn_mul. set (a := ofn (length SP)). set (b := ofn ng).
    assert (Ha : a <> v0) by (apply char0; apply sym_perms_length).
    assert (Hb : b <> v0) by (apply char0; unfold ng; apply perms_nonempty).
    assert (Hab : a * b <> v0).
    { unfold a, b. rewrite <- ofn_mul. apply char0. apply Nat.neq_mul_0.
      split; [apply sym_perms_length|apply perms_nonempty]. }
    pose proof (vinv_l _ Ha) as Ia. pose proof (vinv_l _ Hab) as Iab.
    assert (Hbc : b * vinv (a * b) = vinv a).
    { transitivity ((vinv a * a) * (b * vinv (a * b))); [rewrite Ia; ring|].
      transitivity (vinv a * (vinv (a * b) * (a * b))); [ring|]. rewrite Iab. ring. }
    transitivity (Sp * (b * vinv (a * b))); [ring|]. now rewrite Hbc.
Qed.

(* a tensor symmetric in every group is invariant under every row of sym_perms *)
Lemma sym_row_invariant N G : groups_ok N G -> forall (Y : idx -> V), (forall g, In g G -> sym_inN V N Y g) ->
  forall p, In p (sym_perms N G) -> forall i, length i = N -> Y (put p i i) = Y i.
Proof.
  induction G as [|g G IH]; intros HG Y HY p Hp i Hi.
  - cbn in Hp. destruct Hp as [<-|[]]. now rewrite <- Hi, put_seq_id.
  - destruct HG as (Hok & D & HG). cbn in Hp. apply in_flat_map in Hp as (p' & Hp' & Hp).
    apply in_map_iff in Hp as (gp & <- & Hgp). destruct (sym_perms_row_ok N G HG p' Hp') as [Hperm Hfix].
    assert (Hfixg : forall m, In m g -> nth m p' 0 = m) by (apply (row_fixes_group N g G p' Hok D); split; auto).
    pose proof (perms_sound g gp Hgp) as P.
    destruct (put_row_index N g gp p' i Hok P Hperm Hfixg Hi) as [E1 E2]. rewrite E1, <- E2.
    set (j := put p' i i). assert (Hj : length j = N) by (unfold j; now rewrite length_put).
    assert (Hokj : okg (length j) g) by (now rewrite Hj).
    destruct (moved_is_rearranged g gp j Hokj P) as [P1 P2]. rewrite P2.
    rewrite (HY g (or_introl eq_refl) j _ Hj P1). unfold j. apply (IH HG); auto.
    intros g' Hg'. apply HY. now right.
Qed.

(* the max-fix loop on a tensor that every row leaves invariant *)
Section MaxFix.
Variable vmax : V -> V -> V.
Hypothesis vmax_idem : forall a, vmax a a = a.

Lemma maxfix_noop N ps : forall (Y : idx -> V),
  (forall p, In p ps -> forall i, length i = N -> Y (put p i i) = Y i) ->
  forall i, length i = N -> fold_left (maxfix_step vmax) ps Y i = Y i.
Proof.
  induction ps as [|p ps IH]; intros Y HY i Hi; cbn [fold_left]; auto.
  assert (Hstep : forall j, length j = N -> maxfix_step vmax Y p j = Y j).
  { intros j Hj. unfold maxfix_step, permuted. rewrite (HY p (or_introl eq_refl) j Hj). apply vmax_idem. }
  rewrite IH; auto. intros q Hq j Hj. rewrite !Hstep by (rewrite ?length_put; auto). apply HY; auto. now right.
Qed.

(* OLD symmetrize = the spec, at every N-way subscript (no size condition is needed for the formula itself) *)
Theorem impl_sym_old_correct N G : groups_ok N G -> forall (X : idx -> V) i, length i = N ->
  impl_sym_old v0 v1 vadd vmul vinv vmax N X G i = ssym X G i.
Proof.
  intros HG X i Hi. unfold impl_sym_old.
  rewrite (maxfix_noop N); auto; [now apply old_avg_spec|].
  intros p Hp j Hj. rewrite !old_avg_spec by (rewrite ?length_put; auto).
  apply (sym_row_invariant N G HG); auto.
  intros g Hg. now apply (spec_sym_symmetric V v0 v1 vadd vmul vsub vopp vinv (fun _ _ => true) Vring N G HG).
Qed.

(* NEW symmetrize = OLD symmetrize at every in-bounds subscript (cubical, pairwise disjoint groups) *)
Lemma sym_versions_agree (veqb : V -> V -> bool) : (forall a b, veqb a b = true <-> a = b) ->
  forall s G, groups_ok (length s) G -> (forall g, In g G -> group_cubical s g = true) ->
  forall (X : idx -> V) i, inb s i = true ->
  impl_sym_new v0 v1 vadd vmul vinv veqb s X G i = impl_sym_old v0 v1 vadd vmul vinv vmax (length s) X G i.
Proof.
  intros Hveq s G HG Hc X i Hi. rewrite (impl_sym_old_correct (length s) G HG X i (inb_length s i Hi)).
  apply (impl_sym_new_correct V v0 v1 vadd vmul vsub vopp vinv veqb Vring Hveq char0 vinv_l).
  - intros g Hg. split; [eapply groups_ok_okg; eauto|auto].
  - exact Hi.
Qed.
End MaxFix.

End Old15.
