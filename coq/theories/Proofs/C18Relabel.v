(* Proofs/C18Relabel.v — C18 "relabelling the modes of the data, of the guess and of the mode order consistently relabels the
   modes of the result", ALGORITHM level, for the CP-ALS sweep model of Model/C09Als.v:
   running the sweeps on  X' = X.permute(p)  (X'(i') = X(pick (invperm p) i'), shape pick p s),  the start with its factor list
   permuted (pick p U)  and the mode order mapped by  m |-> index_of m p  gives, after every number of sweeps, the SAME weights,
   the SAME saved mttkrp and the factor list  pick p (U of the original run)  — list equality, for every solve / scaling oracle.
   Uses the Kruskal permute lemma of C07 (Proofs/C07Proofs.v: kprod_pick, allsubs_pick_perm) and C07Index.pick_Permutation.
   All shapes, orders, ranks, permutations, values of a commutative ring. *)
From Coq Require Import List Arith Lia Bool Ring Permutation.
From PV Require Import Base.Index Base.Perm Base.Sum Np.Array Model.Sparse Model.Repr Model.C09Als
  Proofs.C07Index Proofs.C07Proofs Proofs.C09Identity Proofs.C09Monotone Proofs.C18Repr.
Import ListNotations.

Section Relabel.
Variable V : Type.
Variables (v0 v1 : V) (vadd vmul vsub : V -> V -> V) (vopp : V -> V).
Hypothesis Vring : ring_theory v0 v1 vadd vmul vsub vopp (@eq V).
Add Ring Vr18r : Vring.

Local Notation mx := (@matrix V).
Local Notation "x + y" := (vadd x y).
Local Notation "x * y" := (vmul x y).
Local Notation SUM := (sum_over v0 vadd).
Local Notation SUMN := (sum_n v0 vadd).
Local Notation mg := (mget v0).
Local Notation kpr := (kprod v0 v1 vmul).
Local Notation kex := (kprod_ex v0 v1 vmul).
Local Notation mtk := (mttkrp_den v0 v1 vadd vmul).
Local Notation gramh := (gramhad v0 v1 vadd vmul).
Local Notation grama := (gramall v0 v1 vadd vmul).
Local Notation gramm := (gram v0 vadd vmul).

(* ---------- lists ---------- *)
Lemma nth_repeat_lt {A} (x d : A) n k : k < n -> nth k (repeat x n) d = x.
Proof. revert k; induction n as [|n IH]; intros [|k] H; cbn; auto; try lia. apply IH. lia. Qed.

(* replacing entry m of a list and then relabelling = relabelling and replacing the entry that now holds mode m *)
Lemma upd_pick {A} (d : A) p N (l : list A) m (b : A) : is_perm p N -> length l = N -> m < N ->
  upd (pick d p l) (index_of m p) b = pick d p (upd l m b).
Proof.
  intros Hp Hl Hm. pose proof (is_perm_length _ _ Hp) as Hlp.
  assert (Hin : In m p) by (apply (is_perm_In p N m Hp); exact Hm).
  pose proof (index_of_lt m p Hin) as Hlt.
  apply (nth_ext _ _ d d).
  - now rewrite upd_length, !pick_length.
  - intros k Hk. rewrite upd_length, pick_length in Hk.
    rewrite nth_upd by (now rewrite pick_length).
    rewrite !nth_pick by exact Hk.
    assert (Hkp : nth k p 0 < N) by (apply (is_perm_In p N _ Hp); apply nth_In; exact Hk).
    rewrite nth_upd by lia.
    destruct (Nat.eqb_spec k (index_of m p)) as [E|E].
    + subst k. rewrite nth_index_of by exact Hin. now rewrite Nat.eqb_refl.
    + destruct (Nat.eqb_spec (nth k p 0) m) as [E2|E2]; [|reflexivity].
      exfalso. apply E. rewrite <- E2. symmetry. apply index_of_nth; [eapply is_perm_NoDup; eauto|exact Hk].
Qed.

(* ---------- the Khatri-Rao row without mode n as a full Kruskal product with a matrix of ones in mode n ---------- *)
Definition onesmx (x r : nat) : mx := repeat (repeat v1 (S r)) (S x).
Lemma mget_onesmx x r : mg (onesmx x r) x r = v1.
Proof. unfold mget, onesmx. rewrite (nth_repeat_lt _ _ (S x) x) by lia. apply nth_repeat_lt. lia. Qed.

Lemma kex_as_kpr (As : list mx) : forall n i r (J : mx), n < length As -> length i = length As ->
  mg J (nth n i 0) r = v1 -> kpr (upd As n J) i r = kex n As i r.
Proof.
  induction As as [|A As IH]; intros n i r J Hn Hi HJ; cbn in Hn; [lia|].
  destruct i as [|x i]; cbn in Hi; [lia|].
  destruct n as [|n]; cbn [upd kprod kprod_ex nth] in *.
  - rewrite HJ. ring.
  - rewrite (IH n i r J) by (auto; lia). reflexivity.
Qed.

Lemma kex_pick (As : list mx) (i : idx) p m r : is_perm p (length As) -> length i = length As -> m < length As ->
  kex (index_of m p) (pick [] p As) (pick 0 p i) r = kex m As i r.
Proof.
  intros Hp Hi Hm. pose proof (is_perm_length _ _ Hp) as Hlp.
  assert (Hin : In m p) by (apply (is_perm_In p _ m Hp); exact Hm).
  pose proof (index_of_lt m p Hin) as Hlt.
  set (J := onesmx (nth m i 0) r).
  rewrite <- (kex_as_kpr (pick [] p As) (index_of m p) (pick 0 p i) r J).
  - transitivity (kpr (pick [] p (upd As m J)) (pick 0 p i) r).
    { f_equal. exact (upd_pick [] p (length As) As m J Hp eq_refl Hm). }
    rewrite (kprod_pick V v0 v1 vadd vmul vsub vopp Vring) by (now rewrite upd_length).
    apply kex_as_kpr; auto. apply mget_onesmx.
  - now rewrite pick_length.
  - now rewrite !pick_length.
  - rewrite nth_pick by exact Hlt. rewrite nth_index_of by exact Hin. apply mget_onesmx.
Qed.

(* ---------- mttkrp of the relabelled problem ---------- *)
Lemma mttkrp_den_pick s (X : idx -> V) (As : list mx) p m j r :
  is_perm p (length s) -> length As = length s -> m < length s ->
  mtk (pick 0 p s) (fun i' => X (pick 0 (invperm p) i')) (pick [] p As) (index_of m p) j r = mtk s X As m j r.
Proof.
  intros Hp HA Hm. pose proof (is_perm_length _ _ Hp) as Hlp.
  assert (Hin : In m p) by (apply (is_perm_In p _ m Hp); exact Hm).
  unfold mttkrp_den.
  rewrite <- (sum_over_perm V v0 v1 vadd vmul vsub vopp Vring _ _ _ (allsubs_pick_perm s p Hp)).
  rewrite (sum_over_map V v0 vadd). apply (sum_over_ext V v0 vadd). intros i' Hi'.
  apply in_allsubs, inb_length in Hi'. rewrite pick_length, Hlp in Hi'.
  assert (E1 : nth m (pick 0 (invperm p) i') 0 = nth (index_of m p) i' 0).
  { rewrite nth_pick by (rewrite invperm_length; lia). now rewrite nth_invperm by lia. }
  rewrite E1. destruct (Nat.eqb (nth (index_of m p) i' 0) j); [|reflexivity]. f_equal.
  rewrite <- (pick_pick_invperm 0 p (length s) i' Hp Hi') at 1.
  apply kex_pick; [now rewrite HA| |lia].
  rewrite pick_length, invperm_length. lia.
Qed.

(* ---------- Gram / Hadamard matrix of the relabelled problem ---------- *)
Lemma gramall_prodv (As : list mx) r t : grama As r t = prodv v1 vmul (map (fun A => gramm A r t) As).
Proof. induction As as [|A As IH]; cbn; auto. now rewrite IH. Qed.

Lemma gramall_pick (As : list mx) p r t : is_perm p (length As) -> grama (pick [] p As) r t = grama As r t.
Proof.
  intros Hp. rewrite !gramall_prodv. apply (prodv_perm V v0 v1 vadd vmul vsub vopp Vring).
  apply Permutation_map. now apply pick_Permutation.
Qed.

Definition onesrow (r t : nat) : mx := [repeat v1 (S (Nat.max r t))].
Lemma gram_onesrow r t : gramm (onesrow r t) r t = v1.
Proof.
  unfold gram, onesrow, nrows. cbn [length]. unfold sum_n. cbn [seq]. rewrite sum_over_cons, sum_over_nil.
  unfold mget. cbn [nth]. rewrite !nth_repeat_lt by lia. ring.
Qed.

Lemma gramhad_as_gramall (As : list mx) : forall n r t (J : mx), n < length As -> gramm J r t = v1 ->
  grama (upd As n J) r t = gramh n As r t.
Proof.
  induction As as [|A As IH]; intros n r t J Hn HJ; cbn in Hn; [lia|].
  destruct n as [|n]; cbn [upd gramall gramhad].
  - rewrite HJ. ring.
  - rewrite (IH n r t J) by (auto; lia). reflexivity.
Qed.

Lemma gramhad_pick (As : list mx) p m r t : is_perm p (length As) -> m < length As ->
  gramh (index_of m p) (pick [] p As) r t = gramh m As r t.
Proof.
  intros Hp Hm. pose proof (is_perm_length _ _ Hp) as Hlp.
  assert (Hin : In m p) by (apply (is_perm_In p _ m Hp); exact Hm).
  pose proof (index_of_lt m p Hin) as Hlt.
  rewrite <- (gramhad_as_gramall (pick [] p As) (index_of m p) r t (onesrow r t)) by (rewrite ?pick_length; auto using gram_onesrow).
  transitivity (grama (pick [] p (upd As m (onesrow r t))) r t).
  { f_equal. exact (upd_pick [] p (length As) As m _ Hp eq_refl Hm). }
  rewrite gramall_pick by (now rewrite upd_length).
  apply gramhad_as_gramall; auto using gram_onesrow.
Qed.

(* ---------- one update, one sweep, k sweeps ---------- *)
Variables (solve : mx -> mx -> mx) (scale : nat -> mx -> list V * mx) (R : nat).
Variables (s : shape) (X : idx -> V) (p : list nat).
Hypothesis Hp : is_perm p (length s).

Local Notation X' := (fun i' => X (pick 0 (invperm p) i')).
Local Notation mk := (fun U n => mttkrp_mat v0 v1 vadd vmul s X U n R).
Local Notation mk' := (fun U n => mttkrp_mat v0 v1 vadd vmul (pick 0 p s) X' U n R).
Local Notation upd1 := (als_update v0 v1 vadd vmul mk solve scale R).
Local Notation upd1' := (als_update v0 v1 vadd vmul mk' solve scale R).

(* the two runs are in step: same weights, same saved mttkrp, factor list relabelled *)
Definition relabelled (st st' : als_state V) : Prop :=
  length (st_U st) = length s /\ st_w st' = st_w st /\ st_U st' = pick [] p (st_U st) /\ st_P st' = st_P st.

Lemma mttkrp_mat_pick (U : list mx) m : length U = length s -> m < length s ->
  mk' (pick [] p U) (index_of m p) = mk U m.
Proof.
  intros HU Hm. pose proof (is_perm_length _ _ Hp) as Hlp.
  assert (Hin : In m p) by (apply (is_perm_In p _ m Hp); exact Hm).
  unfold mttkrp_mat. rewrite nth_pick by (now apply index_of_lt). rewrite nth_index_of by exact Hin.
  unfold tabmx. apply map_ext. intros j. apply map_ext. intros r. now apply mttkrp_den_pick.
Qed.

Lemma ymat_pick (U : list mx) m : length U = length s -> m < length s ->
  ymat v0 v1 vadd vmul (index_of m p) (pick [] p U) R = ymat v0 v1 vadd vmul m U R.
Proof.
  intros HU Hm. unfold ymat, tabmx. apply map_ext. intros r. apply map_ext. intros t.
  apply gramhad_pick; rewrite HU; auto.
Qed.

Lemma update_relabel it st st' m : relabelled st st' -> m < length s ->
  relabelled (upd1 it st m) (upd1' it st' (index_of m p)).
Proof.
  intros (HL & Hw & HU & HP) Hm. unfold als_update. rewrite HU.
  rewrite mttkrp_mat_pick, ymat_pick by auto.
  repeat split; cbn [st_w st_U st_P]; auto.
  - now rewrite upd_length.
  - apply (upd_pick [] p (length s)); auto.
Qed.

Lemma sweep_relabel it dims : Forall (fun m => m < length s) dims -> forall st st', relabelled st st' ->
  relabelled (als_sweep v0 v1 vadd vmul mk solve scale R it dims st)
             (als_sweep v0 v1 vadd vmul mk' solve scale R it (map (fun m => index_of m p) dims) st').
Proof.
  induction 1 as [|m ds Hm _ IH]; intros st st' H; cbn [als_sweep fold_left map]; auto.
  apply IH. now apply update_relabel.
Qed.

Lemma iter_relabel k dims st st' : Forall (fun m => m < length s) dims -> relabelled st st' ->
  relabelled (als_iter v0 v1 vadd vmul mk solve scale R k dims st)
             (als_iter v0 v1 vadd vmul mk' solve scale R k (map (fun m => index_of m p) dims) st').
Proof.
  intros Hd H. induction k as [|k IH]; cbn [als_iter]; auto. now apply sweep_relabel.
Qed.

(* C18_relabel (algorithm level) *)
Theorem relabel_algorithm (k : nat) (dims : list nat) (st : als_state V) :
  map (@nrows V) (st_U st) = s -> Forall (fun m => m < length s) dims ->
  let st' := mkAls (st_w st) (pick [] p (st_U st)) (st_P st) in
  let dims' := map (fun m => index_of m p) dims in
  let r := als_iter v0 v1 vadd vmul mk solve scale R k dims st in
  let r' := als_iter v0 v1 vadd vmul mk' solve scale R k dims' st' in
  st_w r' = st_w r /\ st_U r' = pick [] p (st_U r) /\ st_P r' = st_P r.
Proof.
  intros Hs Hd st' dims' r r'.
  assert (H0 : relabelled st st').
  { repeat split; auto. rewrite <- Hs. now rewrite map_length. }
  destruct (iter_relabel k dims st st' Hd H0) as (_ & Hw & HU & HP). auto.
Qed.

(* ... hence the MODEL returned for the relabelled problem is the relabelled model: it denotes the permuted array *)
Corollary relabel_algorithm_den (k : nat) (dims : list nat) (st : als_state V) (i : idx) :
  map (@nrows V) (st_U st) = s -> Forall (fun m => m < length s) dims -> length i = length s ->
  let st' := mkAls (st_w st) (pick [] p (st_U st)) (st_P st) in
  let dims' := map (fun m => index_of m p) dims in
  st_den V v0 v1 vadd vmul (als_iter v0 v1 vadd vmul mk' solve scale R k dims' st') (pick 0 p i)
  = st_den V v0 v1 vadd vmul (als_iter v0 v1 vadd vmul mk solve scale R k dims st) i.
Proof.
  intros Hs Hd Hi st' dims'. subst dims'.
  assert (H0 : relabelled st st').
  { repeat split; auto. rewrite <- Hs. now rewrite map_length. }
  destruct (iter_relabel k dims st st' Hd H0) as (HL & Hw & HU & _).
  unfold st_den, st_model. rewrite Hw, HU.
  set (r := als_iter v0 v1 vadd vmul mk solve scale R k dims st) in *.
  apply (denk_pick V v0 v1 vadd vmul vsub vopp Vring (mkK (st_w r) (st_U r)) p i); cbn [kfactors]; rewrite HL; auto.
Qed.

End Relabel.

Print Assumptions relabel_algorithm.
Print Assumptions relabel_algorithm_den.
