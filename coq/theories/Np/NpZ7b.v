(* Wave 7 (translator option "m7"): primitives for sptenmat.__init__ (pyttb/sptenmat.py).
   subs is a list of rows; vals is the list of its entries (1-d and column shapes are not distinguished); the empty 1-d array
   stored where a matrix is expected is the matrix without rows. *)
From Coq Require Import List ZArith Bool Lia.
From PV Require Import Np.NpZ Np.NpZ2 Np.NpZ7.
Import ListNotations.
Local Open Scope Z_scope.

Record stmz := mk_stmz { stm7_subs : mat; stm7_vals : vec; stm7_rdims : vec; stm7_cdims : vec; stm7_tshape : vec }.

Definition np7_col_ok (m : mat) (k : Z) : bool := forallb (fun r => k <? zlen r) m.          (* m[:, k] is defined (k >= 0) *)
Definition np7_col (m : mat) (k : Z) : vec := map (fun r => znth 0 r k) m.                  (* m[:, k] *)
Definition np7_max (v : vec) : Z := match v with [] => 0 | x :: r => fold_left Z.max r x end. (* np.max(v), v not empty *)
Definition np7_rect (m : mat) : bool := match m with [] => true | r :: m' => forallb (fun r' => zlen r' =? zlen r) m' end.

(* np.unique(m, axis=0, return_inverse=True): sorted distinct rows; for every row of m its position among them *)
Fixpoint np7_index_of (r : vec) (u : mat) : Z :=
  match u with [] => 0 | q :: u' => if row_eqb r q then 0 else 1 + np7_index_of r u' end.
Definition np7_unique_rows_inv (m : mat) : mat * vec :=
  let u := fst (np_unique_rows m) in (u, map (fun r => np7_index_of r u) m).

(* numpy_groupies.aggregate(loc, vals, size=n, func=sum): out[g] = sum of vals[i] with loc[i] = g *)
Definition np7_accum_ok (loc vals : vec) (size : Z) : bool :=
  (zlen loc =? zlen vals) && forallb (fun g => (0 <=? g) && (g <? size)) loc.
Definition np7_accum_sum (loc vals : vec) (size : Z) : vec :=
  map (fun g => fold_right Z.add 0 (map snd (filter (fun p => fst p =? g) (combine loc vals)))) (np_arange 0 size).

(* np.nonzero(v)[0] for 1-d v *)
Definition np7_nonzero (v : vec) : vec :=
  map snd (filter (fun p => negb (fst p =? 0)) (combine v (np_arange 0 (zlen v)))).
