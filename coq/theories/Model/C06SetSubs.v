(* Model/C06SetSubs.v — wave 5: positional transliteration of the core of sptensor._set_subscripts (pyttb/sptensor.py:2446-2482),
   `S[subs] = vals` for pairwise distinct in-bounds target rows (the np.unique step has removed repeated targets):
     _, tf = tt_ismember_rows(newsubs, self.subs)              position of every target inside the coordinate list (-1: absent)
     Group A  self.vals[tf[idxa]] = newvals[idxa]               stored and assigned a nonzero value: overwritten IN PLACE
     Group B  keepsubs = setdiff1d(range(nnz), tf[idxb]); subs = subs[keepsubs]; vals = vals[keepsubs]     stored and assigned zero: deleted
     Group C  vstack((subs, newsubs[idxc])), vstack((vals, newvals[idxc]))                                absent and nonzero: appended
   The positions tf are looked up ONCE, before anything is changed: Group A has to be written before Group B compacts the lists
   (set_subs_BA = the other order, with the stale positions: Proofs/C06SetSubs.v shows it depends on the stored order).
   Definitions only. *)
From Coq Require Import List Bool Arith.
From PV Require Import Base.Index Np.Array Model.Sparse.
Import ListNotations.
Local Open Scope nat_scope.

Section SetSubs.
Context {V : Type} (v0 : V) (isz : V -> bool).

(* tt_ismember_rows(search, source)[1] for one search row: the position of the LAST equal row of source, None for -1 *)
Fixpoint locate (i : idx) (subs : list idx) : option nat :=
  match subs with
  | [] => None
  | j :: r => match locate i r with
              | Some p => Some (S p)
              | None => if idx_eqb i j then Some 0 else None
              end
  end.

Definition tagged (t : list (idx * V)) (subs : list idx) : list ((idx * V) * option nat) := map (fun e => (e, locate (fst e) subs)) t.

(* Group A: the scatter `vals[tf[idxa]] = newvals[idxa]`, one assignment per selected target, in order *)
Definition scatterA (vals : list V) (tg : list ((idx * V) * option nat)) : list V :=
  fold_left (fun vs x => match snd x with Some p => if isz (snd (fst x)) then vs else upd vs p (snd (fst x)) | None => vs end) tg vals.
(* Group B: removesubs = tf[idxb] *)
Definition removeB (tg : list ((idx * V) * option nat)) : list nat :=
  flat_map (fun x => match snd x with Some p => if isz (snd (fst x)) then [p] else [] | None => [] end) tg.
(* keepsubs = np.setdiff1d(range(0, nnz), removesubs): the remaining positions, ascending *)
Definition keepB (n : nat) (rem : list nat) : list nat := filter (fun p => negb (existsb (Nat.eqb p) rem)) (seq 0 n).
(* Group C: newsubs[idxc], newvals[idxc] *)
Definition addC (tg : list ((idx * V) * option nat)) : list (idx * V) :=
  flat_map (fun x => match snd x with None => if isz (snd (fst x)) then [] else [fst x] | Some _ => [] end) tg.

Definition set_subs_AB (S : sparse V) (t : list (idx * V)) : sparse V :=
  let tg := tagged t (ssubs S) in
  let vals1 := scatterA (svals S) tg in
  let keep := keepB (length (ssubs S)) (removeB tg) in
  let new := addC tg in
  mkSp (sshape S) (map (fun p => nth p (ssubs S) []) keep ++ map fst new) (map (fun p => nth p vals1 v0) keep ++ map snd new).

(* the other order: delete first, then write Group A at the positions looked up BEFORE the deletion *)
Definition set_subs_BA (S : sparse V) (t : list (idx * V)) : sparse V :=
  let tg := tagged t (ssubs S) in
  let keep := keepB (length (ssubs S)) (removeB tg) in
  let vals1 := scatterA (map (fun p => nth p (svals S) v0) keep) tg in
  let new := addC tg in
  mkSp (sshape S) (map (fun p => nth p (ssubs S) []) keep ++ map fst new) (vals1 ++ map snd new).

(* `newsubs, idx = np.unique(newsubs[::-1], axis=0, return_index=True); newvals = newvals[::-1][idx]`: of several assignments to one
   subscript the LAST one is kept (np.unique also sorts the rows: that only decides the order in which Group C is appended) *)
Definition dedup_last (t : list (idx * V)) : list (idx * V) :=
  fold_right (fun e acc => if existsb (idx_eqb (fst e)) (map fst acc) then acc else e :: acc) [] t.
Definition set_subscripts (S : sparse V) (t : list (idx * V)) : sparse V := set_subs_AB S (dedup_last t).

(* the value a list of targets with pairwise distinct subscripts assigns to i *)
Fixpoint tlook (i : idx) (t : list (idx * V)) : option V :=
  match t with [] => None | (j, v) :: r => if idx_eqb i j then Some v else tlook i r end.
End SetSubs.
