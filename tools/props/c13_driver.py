"""C13 — the gcp_opt driver stream (wave 5): every class of request the driver distinguishes (objective given as enum / tuple,
data dense / sparse / neither, mask none / tensor / array, init random / ktensor / list / other with right and wrong shapes and
ranks, optimizer stochastic / L-BFGS-B / neither) is issued with RECORDING solver objects (subclasses of SGD / Adam / LBFGSB whose
solve() only records its arguments), so the driver's own argument handling and dispatch are observed in isolation and compared in
Coq with the decision procedure Alg/C13Driver.v::gcp_opt."""
import itertools
import math
import traceback

from vcheck import Case, gbool

OBJ = {"gaussian": "Gaussian", "poisson": "Poisson", "bernoulli_odds": "BernoulliOdds", "bernoulli_logit": "BernoulliLogit",
       "poisson_log": "PoissonLog", "rayleigh": "Rayleigh", "gamma": "Gamma", "huber": "Huber", "negative_binomial": "NegBinomial",
       "beta": "Beta"}
NEEDS_PARAM = ("huber", "negative_binomial", "beta")
INITS = ["random", ["ktensor", True, True], ["ktensor", False, True], ["ktensor", True, False],
         ["list", True, True], ["list", False, True], ["list", True, False], ["list_bad"], "other_str", "other_int"]
MESSAGES = [("Objective must either", "EObjectiveTuple"), ("Input data must be tensor or sptensor", "EDataType"),
            ("Cannot specify missing entries for sparse", "ESparseMask"), ("Initial guess must have the shape", "EInitShape"),
            ("Unexpected input for init", "EInitUnexpected"), ("Must select a supported optimizer", "EOptimizer"),
            ("For sparse tensor must use", "ESparseLbfgsb"), ("Mask isn't supported for stochastic", "EStochasticMask")]
USER_LB = 0.5


def driver_cases(rng, big):
    cases = []
    objs = [("enum", o) for o in ("gaussian", "poisson", "bernoulli_odds", "rayleigh", "huber", "poisson_log", "beta")] + [("tuple", 3), ("tuple", 2), ("tuple", 4)]
    full = [t for t in itertools.product(("dense", "sparse", "other"), objs, ("none", "tensor", "array"), INITS, ("sgd", "adam", "lbfgsb", "other"))
            # setup's validity test on an object that is no tensor is outside the model
            if not (t[0] == "other" and t[1] not in (("enum", "gaussian"), ("tuple", 3), ("tuple", 2)))]
    # every dispatch class with an acceptable objective and initial guess (so that the later checks and the calls are reached) ...
    core = list(itertools.product(("dense", "sparse"), (("enum", "gaussian"), ("enum", "poisson"), ("tuple", 3)), ("none", "tensor", "array"),
                                  ("random", ["ktensor", True, True], ["list", True, True]), ("sgd", "adam", "lbfgsb", "other")))
    # ... and the whole product of request classes (quick: a sample of it)
    rest = full if big else rng.sample(full, 260)
    for data, obj, mask, init, opt in core + rest:
        a = {"data": data, "obj": list(obj), "mask": mask, "init": init, "opt": opt, "binary": rng.random() < 0.4,
             "shape": list(rng.choice([(2, 3), (3, 2, 2), (2, 2)])), "R": rng.randint(1, 2), "seed": rng.randrange(10 ** 6),
             "sampler": rng.random() < 0.5}
        cases.append(Case("driver", a, True))
    return cases


def _classify(ex):
    """which raise of the driver fired: by the frame that raised (setup / the ktensor constructor under _get_initial_guess / the
    driver itself) and, for the driver's own ValueErrors, by the message"""
    frames = [f.name for f in traceback.extract_tb(ex.__traceback__)]
    last = traceback.extract_tb(ex.__traceback__)[-1]
    own = last.filename.endswith("gcp_opt.py")
    if "setup" in frames and not own:
        return "ESetup" if isinstance(ex, ValueError) else None
    if "_get_initial_guess" in frames and not own:
        return "EInitCtor"
    if own and isinstance(ex, ValueError):
        for text, tag in MESSAGES:
            if text in str(ex):
                return tag
    return None


def run_driver(a):
    import numpy as np
    import pyttb as ttb
    from pyttb.gcp import optimizers, samplers, handles, fg_setup
    rs = np.random.RandomState(a["seed"])
    shp, R = tuple(a["shape"]), a["R"]
    n = math.prod(shp)
    vals = rs.randint(0, 2 if a["binary"] else 4, size=shp).astype(float)
    vals.flat[0], vals.flat[1] = 1.0, 0.0          # at least one nonzero and one zero
    dense = ttb.tensor(vals.copy())
    X = dense if a["data"] == "dense" else dense.to_sptensor() if a["data"] == "sparse" else vals.copy()
    # objective
    kind, what = a["obj"]
    user = (handles.gaussian, handles.gaussian_grad, USER_LB, None)[:what] if kind == "tuple" else None
    objective = user if kind == "tuple" else handles.Objectives[what.upper()]
    valid, expect_handles = True, None
    if kind == "enum":
        try:
            expect_handles = fg_setup.setup(objective, X if a["data"] != "other" else None)
        except Exception:          # the data-validity oracle of the model; the want of the additional parameter is decided by the
            valid = what in NEEDS_PARAM          # model's own table (setup_lb = None), whatever the data
    else:
        expect_handles = user[:3] if what == 3 else None
    # mask
    mvals = (rs.rand(*shp) < 0.6).astype(float)
    mvals.flat[0], mvals.flat[1] = 0.0, 1.0          # the mask changes the data (first entry is nonzero)
    mask = None if a["mask"] == "none" else ttb.tensor(mvals.copy()) if a["mask"] == "tensor" else mvals.copy()
    # init
    it = a["init"]
    facs = lambda shape, r: [rs.rand(d, r) + 0.25 for d in shape]
    init_obj, ctor_ok = None, True
    if it == "random":
        init_obj = "random"
    elif it == "other_str":
        init_obj = "zeros"
    elif it == "other_int":
        init_obj = 7
    elif it[0] == "list_bad":
        init_obj = [rs.rand(shp[0], R), rs.rand(shp[1], R + 1)] + [rs.rand(d, R) for d in shp[2:]]
        try:
            ttb.ktensor([f.copy() for f in init_obj])
        except Exception:
            ctor_ok = False
    else:
        s_ok, r_ok = it[1], it[2]
        sh = shp if s_ok else tuple(d + 1 for d in shp)
        f = facs(sh, R if r_ok else R + 1)
        init_obj = ttb.ktensor(f, np.array([2.0, 0.5, 3.0][: (R if r_ok else R + 1)])) if it[0] == "ktensor" else f
    init_full = None
    if isinstance(init_obj, ttb.ktensor):
        init_full = init_obj.full().data.copy()
    elif isinstance(init_obj, list) and ctor_ok:
        init_full = ttb.ktensor([f.copy() for f in init_obj]).full().data.copy()
    # optimizer: recording subclasses
    rec = []
    RESULT = ttb.ktensor([np.ones((d, 1)) for d in shp])

    def stoch(cls):
        class Rec(cls):
            def solve(self, initial_model, data, function_handle, gradient_handle, lower_bound=-np.inf, sampler=None):
                rec.append(("stochastic", initial_model, data, function_handle, gradient_handle, lower_bound, sampler))
                return RESULT, {"marker": 1}
        return Rec(max_iters=1)

    class RecL(optimizers.LBFGSB):
        def solve(self, initial_model, data, function_handle, gradient_handle, lower_bound=-np.inf, mask=None):
            rec.append(("lbfgsb", initial_model, data, function_handle, gradient_handle, lower_bound, mask))
            return RESULT, {"marker": 1}
    opt = {"sgd": lambda: stoch(optimizers.SGD), "adam": lambda: stoch(optimizers.Adam), "lbfgsb": RecL, "other": object}[a["opt"]]()
    smp = None
    if a["sampler"] and a["data"] != "other":
        smp = samplers.GCPSampler(X, function_samples=2, gradient_samples=2) if a["data"] == "dense" else \
            samplers.GCPSampler(X, function_samples=samplers.StratifiedCount(1, 1), gradient_samples=samplers.StratifiedCount(1, 1))
    data_before = None if a["data"] != "dense" else X.data.copy()
    mask_before = None if mask is None else (mask.data.copy() if isinstance(mask, ttb.tensor) else mask.copy())
    np.random.seed(a["seed"])
    req = {"valid": bool(valid), "ctor_ok": bool(ctor_ok)}
    try:
        ret = ttb.gcp_opt(X, R, objective, opt, init=init_obj, mask=mask, sampler=smp, printitn=a["seed"] % 2)
    except Exception as ex:
        return {"req": req, "raised": _classify(ex), "exc_type": type(ex).__name__, "msg": str(ex)[:160], "calls": len(rec)}
    if len(rec) != 1 or not (isinstance(ret, tuple) and len(ret) == 3):
        return {"req": req, "bad": f"{len(rec)} solver calls, returned {type(ret).__name__}"}
    which, M0, darg, fh, gh, lb, slot = rec[0]
    lbt = "NegInf" if lb == -np.inf else "Zero" if lb == 0 else "UserLb" if (kind == "tuple" and lb is user[2]) else None
    # the data the solver got: the caller's, or the caller's times the mask (a new object)
    if a["data"] == "dense":
        masked_expect = vals * mvals
        masked = None
        if isinstance(darg, ttb.tensor):
            masked = False if np.array_equal(darg.data, vals) else True if np.array_equal(darg.data, masked_expect) else None
    else:
        masked = False if darg is X else None
    out = {"req": req, "which": which, "lb": lbt, "masked": masked}
    if which == "stochastic":
        out["fwd"] = bool(slot is smp)
    else:
        out["marg"] = ("MaNone" if slot is None else
                       "MaArray" if (isinstance(slot, np.ndarray) and slot is mask) else
                       "MaTensorData" if (isinstance(slot, np.ndarray) and isinstance(mask, ttb.tensor) and np.array_equal(slot, mvals)) else None)
    # the initial guess: which object, unit weights, denotes what was handed in / has the norm of the (masked) data
    guess = None
    unit = isinstance(M0, ttb.ktensor) and all(float(w) == 1.0 for w in M0.weights) and M0.shape == shp and M0.ncomponents == R
    if it == "random":
        nd = float(np.linalg.norm((vals * mvals if masked else vals).ravel()))
        guess = "GRandom" if unit and abs(float(M0.norm()) - nd) <= 1e-9 * max(1.0, nd) else None
    elif isinstance(init_obj, ttb.ktensor):
        guess = "GCallerKtensor" if (M0 is init_obj and unit and np.allclose(M0.full().data, init_full, rtol=1e-9, atol=1e-12)) else None
    elif isinstance(init_obj, list):
        guess = "GFromList" if (unit and np.allclose(M0.full().data, init_full, rtol=1e-9, atol=1e-12)) else None
    out["guess"] = guess
    out["bits"] = [bool(ret[0] is RESULT), bool(ret[1] is M0), bool(isinstance(ret[2], dict) and ret[2].get("marker") == 1 and "main_time" in ret[2]),
                   bool(expect_handles is not None and fh is expect_handles[0] and gh is expect_handles[1]),
                   bool(data_before is None or np.array_equal(data_before, X.data)),
                   bool(mask_before is None or np.array_equal(mask_before, mask.data if isinstance(mask, ttb.tensor) else mask))]
    return out


def g_request(a, o):
    kind, what = a["obj"]
    obj = f"(OEnum {OBJ[what]})" if kind == "enum" else f"(OTuple {what})"
    data = {"dense": "DDense", "sparse": "DSparse", "other": "DOther"}[a["data"]]
    mask = {"none": "MNone", "tensor": "MTensor", "array": "MArray"}[a["mask"]]
    it = a["init"]
    if it == "random":
        init = "IRandom"
    elif it in ("other_str", "other_int"):
        init = "IOther"
    elif it[0] == "list_bad":
        init = f"(IList {gbool(o['req']['ctor_ok'])} true true)"
    elif it[0] == "ktensor":
        init = f"(IKtensor {gbool(it[1])} {gbool(it[2])})"
    else:
        init = f"(IList true {gbool(it[1])} {gbool(it[2])})"
    opt = {"sgd": "SStochastic", "adam": "SStochastic", "lbfgsb": "SLbfgsb", "other": "SOther"}[a["opt"]]
    return f"(mkReq {obj} {gbool(o['req']['valid'])} {data} {mask} {init} {opt})"


def driver_check(a, o):
    if "bad" in o or "exc" in o:
        return "false"
    req = g_request(a, o)
    if "raised" in o:
        if o["raised"] is None or o["calls"] != 0:
            return "false"          # an exception that is none of the driver's (or raised after a solver was already called)
        return f"driver_ok {req} (Raise {o['raised']})"
    if o["lb"] is None or o["masked"] is None or o["guess"] is None or (o["which"] == "lbfgsb" and o["marg"] is None):
        return "false"
    if o["which"] == "stochastic":
        call = f"(CStochastic {o['lb']} {gbool(o['masked'])} {gbool(o['fwd'])})"
    else:
        call = f"(CLbfgsb {o['lb']} {gbool(o['masked'])} {o['marg']})"
    bits = "[" + "; ".join(gbool(b) for b in o["bits"]) + "]"
    return f"driver_ok {req} (Call {call} {o['guess']}) && obs_bits {bits}"


def driver_oracle(a, o):
    """what C13 itself states about the driver, on pyttb's own observation (no model): a stochastic solver never gets a mask, L-BFGS-B
    never sparse data; the initial model returned is the one the solver started from; the solver's answer is returned"""
    if "exc" in o:
        return f"harness error {o['exc']}: {o.get('msg')}"
    if "bad" in o:
        return o["bad"]
    if "raised" in o:
        if o["raised"] is None:
            return f"the driver raised {o['exc_type']}: {o['msg']} (none of its documented rejections)"
        if o["calls"]:
            return "the driver raised after a solver had been called"
        return None
    if o["which"] == "stochastic" and (a["mask"] != "none" or o["masked"]):
        return "a stochastic solver was run on a request with a mask"
    if o["which"] == "lbfgsb" and a["data"] != "dense":
        return "L-BFGS-B was handed data that is not a dense tensor"
    if o["which"] == "lbfgsb" and a["mask"] != "none" and o["marg"] in (None, "MaNone"):
        return "the mask did not reach L-BFGS-B as an array"
    if o["lb"] is None:
        return "the lower bound handed to the solver is none of -inf / 0 / the user's"
    if o["guess"] is None:
        return "the initial guess handed to the solver is not the (normalised) one asked for"
    names = ["result is the solver's", "returned initial model is the solver's start", "info is the solver's + main_time", "handles",
             "caller's data unchanged", "caller's mask unchanged"]
    bad = [nm for nm, b in zip(names, o["bits"]) if not b]
    return ("driver: " + ", ".join(bad) + " violated") if bad else None


# ======================================================================================= samplers.nonzeros / samplers.zeros called directly
def direct_cases(rng, big):
    """samplers.nonzeros / samplers.zeros with and WITHOUT replacement (the stratified samplers only ever use replacement): requests
    below / at / above the number of nonzeros resp. zeros, over_sample_rate below / at / above 1.1"""
    import tgen
    cases = []
    for rep in range(3 if big else 1):
        for shp in [(2, 3), (3, 2, 2), (4,), (2, 2), (1, 3)]:
            n = math.prod(shp)
            allsubs = tgen.all_subs(shp)
            for k in sorted({1, max(1, n // 2), n - 1}):          # at least one zero stays (no zeros at all: open finding C13-S1)
                subs = rng.sample(allsubs, k)
                vals = [rng.choice([1, 2, 3, 5]) for _ in subs]
                base = {"shape": list(shp), "subs": subs, "vals": vals}
                for wr in (False, True):
                    for samples in sorted({0, 1, k - 1, k, k + 1, k + 3} - {-1}):
                        cases.append(Case("direct", dict(base, kind="nonzeros", samples=samples, wr=wr, seed=rng.randrange(10 ** 6)), True))
                    nz = n - k
                    for samples in sorted({0, 1, nz - 1, nz, nz + 1, 2 * nz + 1} - {-1}):
                        for rate in ((1.1,) if samples not in (1, nz) else (1.0, 1.1, 2.0)):
                            cases.append(Case("direct", dict(base, kind="zeros", samples=samples, wr=wr, rate=rate, seed=rng.randrange(10 ** 6)), True))
    return cases


def run_direct(a):
    import numpy as np
    import pyttb as ttb
    from pyttb.gcp import samplers
    from props.c13_util import Capture, CeilCapture, _numerators, _ivals
    from pyttb.pyttb_utils import tt_sub2ind
    shp = tuple(a["shape"])
    nd, nnz = len(shp), len(a["subs"])
    S = ttb.sptensor(np.array(a["subs"], dtype=int).reshape((nnz, nd)), np.array(a["vals"], dtype=float).reshape((nnz, 1)), shp, copy=True)
    np.random.seed(a["seed"])
    with Capture(None) as cap, CeilCapture() as ceilcap:
        try:
            if a["kind"] == "nonzeros":
                subs, vals = samplers.nonzeros(S, a["samples"], with_replacement=a["wr"])
                nidx = [int(x) for x in cap.choice[0]] if cap.choice else list(range(nnz))
                return {"subs": [[int(x) for x in r] for r in np.asarray(subs).reshape((-1, nd))], "vals": _ivals(np, vals),
                        "vals_shape": [int(d) for d in np.shape(vals)], "nidx": nidx, "nchoice": len(cap.choice)}
            nz_idx = np.sort(tt_sub2ind(shp, S.subs)) if nnz else np.array([], dtype=int)
            rows = samplers.zeros(S, nz_idx, a["samples"], a["rate"], with_replacement=a["wr"])
            draws = _numerators(cap.uniform[0]) if cap.uniform and cap.uniform[0].size else []
            return {"rows": [[int(x) for x in r] for r in np.asarray(rows).reshape((-1, nd))], "draws": draws, "zceil": list(ceilcap.calls)}
        except ValueError as ex:
            msg = str(ex)
            tag = ("RRate" if "Over sampling rate" in msg else "RCount" if "Cannot sample more than the total number of zeros" in msg else
                   "RTooMany" if "Need too many zero samples" in msg else "NzReject" if "enough nonzeros" in msg else None)
            return {"raised": tag, "msg": msg[:120], "zceil": list(ceilcap.calls)}


def direct_check(a, o):
    import tgen
    from vcheck import gz, gzlist, gzmat, gnlist, gnat
    if "exc" in o or ("raised" in o and o["raised"] is None):
        return "false"
    S = tgen.gsparse(a["shape"], a["subs"], a["vals"])
    if a["kind"] == "nonzeros":
        if "raised" in o:
            return f"nzdirect_ok {S} {gnat(a['samples'])} {gbool(a['wr'])} true (@nil nat) (@nil (list Z)) (@nil Z)" if o["raised"] == "NzReject" else "false"
        if not all(isinstance(v, int) for v in o["vals"]) or o["vals_shape"] != [a["samples"]]:
            return "false"
        return (f"nzdirect_ok {S} {gnat(a['samples'])} {gbool(a['wr'])} false {gnlist(o['nidx'])} {gzmat(o['subs'])} {gzlist(o['vals'])} && "
                f"Nat.eqb {gnat(o['nchoice'])} (match nonzeros_mode (nnz {S}) {gnat(a['samples'])} {gbool(a['wr'])} with NzChoice => 1 | _ => 0 end)")
    zc = "(@nil (Z * Z * Z))" if not o["zceil"] else "[" + "; ".join(f"({gz(n)}, {gz(d)}, {gz(r)})" for n, d, r in o["zceil"]) + "]"
    rate_ok = gbool(a["rate"] >= 1.1)
    if "raised" in o:
        if o["raised"] == "NzReject":
            return "false"
        return f"zdirect_ok {S} {rate_ok} {gbool(a['wr'])} {gz(a['samples'])} {zc} (@nil (list Z)) (Some {o['raised']}) (@nil (list Z))"
    return f"zdirect_ok {S} {rate_ok} {gbool(a['wr'])} {gz(a['samples'])} {zc} {gzmat(o['draws'])} None {gzmat(o['rows'])}"


def direct_oracle(a, o):
    """C13 on pyttb's own output: subscripts inside the tensor, values = the data there, zero samples are true zeros, no row twice
    without replacement, never more rows than requested; a request that cannot be met without replacement is refused"""
    if "exc" in o:
        return f"harness error {o['exc']}: {o.get('msg')}"
    stored = {tuple(s): v for s, v in zip(a["subs"], a["vals"])}
    n = math.prod(a["shape"])
    if "raised" in o:
        if o["raised"] is None:
            return f"unexpected ValueError: {o['msg']}"
        if a["kind"] == "nonzeros" and not (not a["wr"] and a["samples"] > len(stored)):
            return "an admissible nonzero request was refused"
        if a["kind"] == "zeros" and a["wr"] and a["rate"] >= 1.1:
            return "an admissible zero request (with replacement) was refused"
        return None
    if a["kind"] == "nonzeros":
        if len(o["subs"]) != a["samples"] or len(o["vals"]) != a["samples"]:
            return f"{len(o['subs'])} subscripts / {len(o['vals'])} values for {a['samples']} requested nonzero samples"
        for s, v in zip(o["subs"], o["vals"]):
            if stored.get(tuple(s)) != v:
                return f"nonzero sample {s} -> {v} is not the stored value {stored.get(tuple(s))}"
        if not a["wr"] and len({tuple(s) for s in o["subs"]}) != len(o["subs"]):
            return "a nonzero was sampled twice without replacement"
        return None
    if len(o["rows"]) > a["samples"]:
        return "more zero samples than requested"
    for r in o["rows"]:
        if not all(0 <= x < d for x, d in zip(r, a["shape"])) or tuple(r) in stored:
            return f"zero sample {r} is outside the tensor or a nonzero of the data"
    if not a["wr"] and len({tuple(r) for r in o["rows"]}) != len(o["rows"]):
        return "a zero was sampled twice without replacement"
    return None
