(* Props/C18Perm.v — C18 "relabelling the modes" for HOSVD / Tucker-ALS: the Gram-permutation identity and the mode-product
   identity that DISCHARGE the `choose_perm` contract of C18_relabel_hosvd / C18_relabel_tucker_als (Props/C18.v) concretely.
   X.permute(p) = np_transpose X p: shape pick p s, entry X'(i') = X(pick (invperm p) i'); original mode n sits at position
   index_of n p.  Ring-generic: all shapes, orders, permutations, modes, values of a commutative ring, all stored orders.
   Only statements, `exact`, Print Assumptions and a non-vacuity example. *)
From Coq Require Import List Arith Bool ZArith Ring Lia.
From PV Require Import Base.Index Base.Perm Base.Sum Np.Array Model.Sparse Model.Repr Model.C07Ops Model.C10Tucker
  Model.C14Nvecs Model.C14Gram Proofs.C10Proj Proofs.C18Tucker Proofs.C18GramPerm.
Import ListNotations.

Section C18perm.
Variable V : Type.
Variables (v0 v1 : V) (vadd vmul vsub : V -> V -> V) (vopp : V -> V).
Hypothesis Vring : ring_theory v0 v1 vadd vmul vsub vopp (@eq V).
Variable isz : V -> bool.

(* the mode-(q n) Gram matrix of X.permute(p) IS the mode-n Gram matrix of X (as functions of the denotation) *)
Theorem C18_gram_permute : forall (s : shape) (X : idx -> V) (p : list nat) (n a b : nat),
  is_perm p (length s) -> n < length s -> a < nth n s 0 ->
  gram_spec v0 vadd vmul (pick 0 p s) (fun i' => X (pick 0 (invperm p) i')) (index_of n p) a b = gram_spec v0 vadd vmul s X n a b.
Proof. exact (gram_spec_permute V v0 v1 vadd vmul vsub vopp Vring). Qed.

(* ... for the matrices tensor.nvecs forms (Xn Xn^T over the F-order unfolding) on the transposed array and on the array *)
Theorem C18_gram_permute_dense : forall (X : dense V) (p : list nat) (n a b : nat),
  is_perm p (length (dshape X)) -> n < length (dshape X) -> a < nth n (dshape X) 0 -> b < nth n (dshape X) 0 ->
  mget v0 (gram_dense_impl v0 vadd vmul (np_transpose v0 X p) (index_of n p)) a b = mget v0 (gram_dense_impl v0 vadd vmul X n) a b.
Proof. exact (gram_dense_permute V v0 v1 vadd vmul vsub vopp Vring). Qed.

(* ... for the COO products sptensor.nvecs forms on sptensor.permute(p) (Model/C07Ops.permute_sp) and on S, any stored order *)
Theorem C18_gram_permute_sparse : forall (S R : sparse V) (p : list nat) (n a b : nat),
  wf_sp isz S -> is_perm p (length (sshape S)) -> permute_sp S p = Some R ->
  n < length (sshape S) -> a < nth n (sshape S) 0 -> b < nth n (sshape S) 0 ->
  mget v0 (gram_sp_impl v0 vadd vmul R (index_of n p)) a b = mget v0 (gram_sp_impl v0 vadd vmul S n) a b.
Proof. exact (gram_sparse_permute V v0 v1 vadd vmul vsub vopp Vring isz). Qed.

(* mode products commute with relabelling *)
Theorem C18_ttm_permute : forall (N : nat) (X : idx -> V) (p : list nat) (d n : nat) (M : list (list V)) (i' : idx),
  is_perm p N -> n < N -> length i' = N ->
  ttm_den v0 vadd vmul (fun j' => X (pick 0 (invperm p) j')) d (index_of n p) M i'
  = ttm_den v0 vadd vmul X d n M (pick 0 (invperm p) i').
Proof. exact (ttm_den_permute V v0 vadd vmul). Qed.

(* the projector step  choose n Y Z = Z x_n eig_n(Gram_n(Y))  (eig = ANY function of the Gram matrix: eigen solver, rank rule,
   U U^T) is relabelling-equivariant on dense holders: the hypothesis choose_perm of C18_relabel_hosvd, with perm = np_transpose . p *)
Theorem C18_choose_perm : forall (s : shape) (eig eig' : nat -> list (list V) -> list (list V)) (p : list nat) (n : nat) (Y Z : dense V),
  dshape Y = s -> dshape Z = s -> is_perm p (length s) -> n < length s -> eig' (index_of n p) = eig n ->
  choose_c V v0 vadd vmul (pick 0 p s) eig' (index_of n p) (np_transpose v0 Y p) (np_transpose v0 Z p)
  = np_transpose v0 (choose_c V v0 vadd vmul s eig n Y Z) p.
Proof. exact (choose_perm_concrete V v0 v1 vadd vmul vsub vopp Vring). Qed.

(* HOSVD's whole mode loop (sequential or not, any mode order) on dense holders with the contract discharged: the run on
   X.permute(p) with mode order [q m for m in dimorder] and per-mode parameters moved along returns the relabelled projected tensor *)
Theorem C18_relabel_hosvd_dense : forall (s : shape) (eig eig' : nat -> list (list V) -> list (list V)) (p : list nat)
    (sequential : bool) (modes : list nat) (X : dense V),
  dshape X = s -> is_perm p (length s) -> Forall (fun n => n < length s) modes ->
  (forall n, In n modes -> eig' (index_of n p) = eig n) ->
  snd (hosvd (dense V) (choose_c V v0 vadd vmul (pick 0 p s) eig') sequential (map (fun n => index_of n p) modes) (np_transpose v0 X p))
  = np_transpose v0 (snd (hosvd (dense V) (choose_c V v0 vadd vmul s eig) sequential modes X)) p.
Proof. exact (hosvd_relabel_dense V v0 v1 vadd vmul vsub vopp Vring). Qed.
End C18perm.

Print Assumptions C18_gram_permute.
Print Assumptions C18_gram_permute_dense.
Print Assumptions C18_gram_permute_sparse.
Print Assumptions C18_ttm_permute.
Print Assumptions C18_choose_perm.
Print Assumptions C18_relabel_hosvd_dense.

(* non-vacuity: 2 x 3 x 2 integers, p = [2;0;1]: mode 1 sits at position 2 of the transposed array; same 3 x 3 Gram matrix,
   which is not the Gram matrix of another mode *)
Example C18_gram_permute_example :
  let X := mkDense [2; 3; 2] [1; 2; 3; 4; 5; 6; 7; 8; 9; 10; 11; 13]%Z in
  let p := [2; 0; 1] in
  index_of 1 p = 2 /\
  gram_dense_impl 0%Z Z.add Z.mul (np_transpose 0%Z X p) 2 = gram_dense_impl 0%Z Z.add Z.mul X 1 /\
  gram_dense_impl 0%Z Z.add Z.mul X 1 = [[118; 154; 198]; [154; 206; 268]; [198; 268; 351]]%Z.
Proof. cbv zeta. repeat split; vm_compute; reflexivity. Qed.
