(* Proofs/C15KProp.v — wave 5: ktensor.symmetrize keeps the value of EVERY Kruskal tensor whose factors have proportional
   columns: factor k = B . diag(c_k) with non-zero scalars c_k[r] (identical factors, factors stored with scrambled column
   signs and scalings: the dense value is symmetric, the stored factors are not).  normalize("all") (C08's model k_normalize)
   turns such a tensor into one whose factors are, column by column, one matrix up to a sign — the hypothesis of
   k15_core_keeps — provided the norm oracle is absolutely homogeneous: nrm (c . l) = nrm l * c or nrm l * (-c).
   This was correspondence-only until wave 4 (evaluated per case on pyttb's own normalize result). *)
From Coq Require Import List Arith Lia Bool Permutation Ring.
From PV Require Import Base.Index Base.Perm Base.Sum Np.Array Model.Repr Model.C08Kruskal Model.C15Sym Model.C15K Model.C15KLoop
  Proofs.C08Proofs Proofs.C08NormalForm Proofs.C08Loop Proofs.C08Loop2 Proofs.C15Proofs Proofs.C15K Proofs.C15KNorm Proofs.C15KLoop.
Import ListNotations.

Lemma forallb_false_ex {A} (f : A -> bool) l : forallb f l = false -> exists a, In a l /\ f a = false.
Proof.
  induction l as [|a l IH]; cbn; [discriminate|]. destruct (f a) eqn:E; cbn.
  - intros H. destruct (IH H) as (b & Hb & Hf). exists b. auto.
  - intros _. exists a. auto.
Qed.

Section KP15.
Variable V : Type.
Variables (v0 v1 : V) (vadd vmul vsub : V -> V -> V) (vopp vinv : V -> V).
Hypothesis Vring : ring_theory v0 v1 vadd vmul vsub vopp (@eq V).
Add Ring VrKP15 : Vring.
Variables (nrm : list V -> V) (pos neg : V -> bool) (root : V -> V) (srt : list V -> list nat).
Notation "x * y" := (vmul x y).
Notation mat := (list (list V)).
Notation mg := (mget v0).
Notation m1 := (km1 v1 vopp).
Notation scols := (scale_cols vmul).
Notation ipos := (inv_pos v1 vinv pos).
Notation cnorms := (col_norms v0 nrm).
Notation colv := (col v0).
Notation den := (den_k v0 v1 vadd vmul).
Notation core := (k15_core v0 v1 vadd vmul vopp vinv neg).
Notation normalize_all := (k_normalize v0 v1 vmul vopp vinv nrm pos neg root srt WAll false None).
Notation ncols := (k_normalize_cols v0 v1 vmul vinv nrm pos).
Notation scopy := (signed_copy v0 v1 vmul vopp).

Hypothesis vinv_r : forall x, x <> v0 -> x * vinv x = v1.
Hypothesis vinv_l : forall x, x <> v0 -> vinv x * x = v1.
Hypothesis char0 : forall n, n <> 0 -> of_nat v0 v1 vadd n <> v0.
Hypothesis pos_nz : forall x, pos x = true -> x <> v0.
Hypothesis nrm_pos : forall l, pos (nrm l) = false -> Forall (fun y => y = v0) l.
(* the norm of a scaled column: |c| = c or -c *)
Hypothesis nrm_homog : forall c l, nrm (map (fun a => a * c) l) = nrm l * c \/ nrm (map (fun a => a * c) l) = nrm l * vopp c.
(* oracles of the sign test and of the sort, used by the value theorems only *)
Hypothesis srt_perm : forall l, is_perm (srt l) (length l).
Hypothesis neg_opp : forall x, neg x = true -> neg (vopp x) = false.
Hypothesis neg_sq : forall (h : nat -> V) n, neg (sum_n v0 vadd n (fun x => h x * h x)) = false.
Hypothesis neg_opp_sq : forall (h : nat -> V) n, neg (vopp (sum_n v0 vadd n (fun x => h x * h x))) = false ->
  forall x, x < n -> h x = v0.

(* ---- field facts from the partial inverse ---- *)
Lemma one_nz : v1 <> v0.
Proof. intros E. apply (char0 1); [lia|]. cbn. rewrite E. ring. Qed.

Lemma mul_nz x y : x <> v0 -> y <> v0 -> x * y <> v0.
Proof.
  intros Hx Hy E. apply one_nz. transitivity ((x * y) * (vinv x * vinv y)).
  - transitivity ((x * vinv x) * (y * vinv y)); [rewrite (vinv_r x Hx), (vinv_r y Hy); ring|ring].
  - rewrite E. ring.
Qed.

Lemma vinv_mul x y : x <> v0 -> y <> v0 -> vinv (x * y) = vinv x * vinv y.
Proof.
  intros Hx Hy. pose proof (mul_nz x y Hx Hy) as Hz.
  transitivity (vinv (x * y) * ((x * vinv x) * (y * vinv y))); [rewrite (vinv_r x Hx), (vinv_r y Hy); ring|].
  transitivity ((vinv (x * y) * (x * y)) * (vinv x * vinv y)); [ring|]. rewrite (vinv_l _ Hz). ring.
Qed.

Lemma mul_zero_l a c : a * c = v0 -> c <> v0 -> a = v0.
Proof. intros E Hc. transitivity ((a * c) * vinv c); [transitivity (a * (c * vinv c)); [rewrite (vinv_r c Hc); ring|ring]|rewrite E; ring]. Qed.

Lemma opp_nz c : c <> v0 -> vopp c <> v0.
Proof. intros Hc E. apply Hc. transitivity (vopp (vopp c)); [ring|rewrite E; ring]. Qed.

Lemma mul_inv_opp c : c <> v0 -> c * vinv (vopp c) = m1.
Proof.
  intros Hc. transitivity (vopp ((vopp c) * vinv (vopp c))); [ring|]. rewrite (vinv_r _ (opp_nz c Hc)). reflexivity.
Qed.

Lemma sign_mul s t : (s = v1 \/ s = m1) -> (t = v1 \/ t = m1) -> (s * t = v1 \/ s * t = m1).
Proof. intros [-> | ->] [-> | ->]; unfold km1; [left|right|right|left]; ring. Qed.

(* ---- one column of one factor ---- *)
Lemma col_scols cv (B : mat) r : colv (scols cv B) r = map (fun a => a * nth r cv v0) (colv B r).
Proof.
  unfold col, scale_cols. rewrite !map_map. apply map_ext. intros row.
  apply (nth_zipmul V v0 v1 vadd vmul vsub vopp Vring).
Qed.

(* a column with positive norm: scaling by c and dividing by the norm gives the unit column of B up to a sign *)
Lemma norm_entry c (l : list V) : c <> v0 -> pos (nrm (map (fun a => a * c) l)) = true ->
  exists t, (t = v1 \/ t = m1) /\ forall a, a * c * vinv (nrm (map (fun a => a * c) l)) = a * vinv (nrm l) * t.
Proof.
  intros Hc Hp. apply pos_nz in Hp. set (b := nrm l) in *.
  assert (Hb : b <> v0).
  { intros E. apply Hp. destruct (nrm_homog c l) as [-> | ->]; fold b; rewrite E; ring. }
  destruct (nrm_homog c l) as [E | E]; rewrite E; fold b.
  - exists v1. split; [now left|]. intros a. rewrite (vinv_mul b c Hb Hc).
    transitivity (a * vinv b * (c * vinv c)); [ring|]. rewrite (vinv_r c Hc). reflexivity.
  - exists m1. split; [now right|]. intros a. rewrite (vinv_mul b (vopp c) Hb (opp_nz c Hc)).
    transitivity (a * vinv b * (c * vinv (vopp c))); [ring|]. now rewrite (mul_inv_opp c Hc).
Qed.

(* a column whose norm is not positive is zero, and so is the column of B *)
Lemma zero_col cv (B : mat) r x : nth r cv v0 <> v0 -> pos (nrm (colv (scols cv B) r)) = false -> x < length B -> mg B x r = v0.
Proof.
  intros Hc Hp Hx. apply nrm_pos in Hp. rewrite col_scols in Hp. rewrite Forall_forall in Hp.
  apply (mul_zero_l _ (nth r cv v0)); [|exact Hc]. apply Hp. apply in_map_iff. exists (mg B x r). split; [reflexivity|].
  unfold col, mget. apply in_map_iff. exists (nth x B []). split; [reflexivity|]. now apply nth_In.
Qed.

(* ---- the column-normalised factor ---- *)
Definition unitf (R : nat) (B : mat) (cv : list V) : mat := scols (map ipos (cnorms (scols cv B) R)) (scols cv B).

Lemma mg_unitf R B cv x r : r < R ->
  mg (unitf R B cv) x r = mg B x r * nth r cv v0 * ipos (nrm (colv (scols cv B) r)).
Proof.
  intros Hr. unfold unitf. rewrite !(mget_scols V v0 v1 vadd vmul vsub vopp Vring). f_equal.
  unfold col_norms. rewrite map_map. now rewrite (nth_map_seq _ R r v0 Hr).
Qed.

Lemma nrows_scols cv (A : mat) : nrows (scols cv A) = nrows A.
Proof. unfold nrows, scale_cols. now rewrite map_length. Qed.

Lemma ncols_proportional w (B : mat) cs :
  kfactors (ncols (mkK w (map (fun cv => scols cv B) cs))) = map (unitf (length w) B) cs.
Proof.
  set (K := mkK w (map (fun cv => scols cv B) cs)).
  pose proof (ncols_rank_len V v0 v1 vmul vinv nrm pos K) as [_ HL]. unfold K in HL at 2. cbn [kfactors] in HL.
  rewrite map_length in HL. unfold matrix in *.
  apply (nth_ext _ _ [] []); [rewrite map_length; exact HL|].
  intros n Hn. assert (Hn' : n < length cs) by (eapply Nat.lt_le_trans; [exact Hn|]; apply Nat.eq_le_incl; exact HL).
  unfold k_normalize_cols. rewrite (fold_factor V v0 v1 vmul vinv nrm pos).
  - unfold K. cbv [kfactors krank kweights]. unfold matrix.
    assert (E1 : nth n (map (fun cv => scols cv B) cs) [] = scols (nth n cs []) B).
    { rewrite (nth_indep _ [] ((fun cv => scols cv B) [])) by (rewrite map_length; exact Hn').
      apply (map_nth (fun cv => scols cv B)). }
    assert (E2 : nth n (map (unitf (length w) B) cs) [] = unitf (length w) B (nth n cs [])).
    { rewrite (nth_indep _ [] (unitf (length w) B [])) by (rewrite map_length; exact Hn'). apply map_nth. }
    rewrite E1, E2. reflexivity.
  - apply seq_NoDup.
  - apply in_seq. unfold K. cbn [kfactors]. rewrite map_length. lia.
  - unfold K. cbn [kfactors]. now rewrite map_length.
Qed.

(* ---- normalize("all") of proportional factors: every factor is a signed copy of one matrix ---- *)
Section Proportional.
Variables (w : list V) (B : mat) (cv0 : list V) (cs' : list (list V)).
Let R := length w.
Let m := length B.
Let cs := cv0 :: cs'.
Hypothesis c_nz : forall cv, In cv cs -> forall r, r < R -> nth r cv v0 <> v0.
Let K := mkK w (map (fun cv => scols cv B) cs).
Let K1 := normalize_all K.

Lemma normalize_all_proportional :
  exists s d : list V, (forall r, r < R -> nth r s v0 = v1 \/ nth r s v0 = m1) /\
    kfactors K1 = scols d (scols s (unitf R B cv0)) :: map (fun cv => scols d (unitf R B cv)) cs'.
Proof.
  unfold K1. cbn [k_normalize]. set (Kc := ncols K).
  assert (Hf : kfactors Kc = unitf R B cv0 :: map (unitf R B) cs') by (unfold Kc, K, cs; now rewrite ncols_proportional).
  assert (Hr : length (kweights Kc) = R).
  { pose proof (ncols_rank_len V v0 v1 vmul vinv nrm pos K) as [H _]. exact H. }
  set (s := map (sgn_neg v1 vopp neg) (kweights Kc)).
  exists s, (map root (zipmul vmul (kweights Kc) s)). split.
  - intros r Hlt. unfold s. rewrite (nth_indep _ v0 (sgn_neg v1 vopp neg v0)) by (rewrite map_length; lia).
    rewrite map_nth. unfold sgn_neg, km1, vm1. destruct (neg _); auto.
  - unfold k_fix_neg. rewrite Hf. fold s. unfold k_absorb. cbn [kfactors kweights map]. now rewrite map_map.
Qed.

Definition allpos (r : nat) : bool := forallb (fun cv => pos (nrm (colv (scols cv B) r))) cs.
(* the reference matrix: the unit columns of B (columns of B left alone where some factor's column has no positive norm:
   they are zero), times the absorbed roots d *)
Definition refmat (d : list V) : mat :=
  map (fun x => map (fun r => mg B x r * (if allpos r then vinv (nrm (colv B r)) else v1) * nth r d v0) (seq 0 R)) (seq 0 m).

Lemma unit_entry d cv r : In cv cs -> r < R ->
  exists t, (t = v1 \/ t = m1) /\ forall x, x < m -> mg (unitf R B cv) x r * nth r d v0 = mg (refmat d) x r * t.
Proof.
  intros Hcv Hr. pose proof (c_nz cv Hcv r Hr) as Hc. destruct (allpos r) eqn:Ea.
  - unfold allpos in Ea. rewrite forallb_forall in Ea. pose proof (Ea cv Hcv) as Hp. rewrite col_scols in Hp.
    destruct (norm_entry (nth r cv v0) (colv B r) Hc Hp) as (t & Ht & E). exists t. split; [exact Ht|].
    intros x Hx. unfold refmat. rewrite (mget_tab V v0 _ m R x r Hx Hr). rewrite (mg_unitf R B cv x r Hr).
    unfold allpos. replace (forallb (fun cv => pos (nrm (colv (scols cv B) r))) cs) with true
      by (symmetry; apply forallb_forall; exact Ea).
    unfold inv_pos. rewrite col_scols. rewrite Hp. rewrite (E (mg B x r)). ring.
  - exists v1. split; [now left|]. intros x Hx.
    destruct (forallb_false_ex _ _ Ea) as (cv' & Hcv' & Hp').
    pose proof (zero_col cv' B r x (c_nz cv' Hcv' r Hr) Hp' Hx) as Hz.
    unfold refmat. rewrite (mget_tab V v0 _ m R x r Hx Hr). rewrite (mg_unitf R B cv x r Hr). rewrite Hz. ring.
Qed.

Theorem normalize_all_signed_copies : exists Bref, forall A, In A (kfactors K1) -> scopy Bref m R A.
Proof.
  destruct normalize_all_proportional as (s & d & Hs & Hf). exists (refmat d). intros A HA. rewrite Hf in HA.
  destruct HA as [<- | HA].
  - split; [now rewrite !nrows_scols; unfold unitf; rewrite !nrows_scols|].
    intros r Hr. destruct (unit_entry d cv0 r (or_introl eq_refl) Hr) as (t & Ht & E).
    exists (t * nth r s v0). split; [apply sign_mul; [exact Ht|now apply Hs]|].
    intros x Hx. rewrite !(mget_scols V v0 v1 vadd vmul vsub vopp Vring).
    transitivity ((mg (unitf R B cv0) x r * nth r d v0) * nth r s v0); [ring|]. rewrite (E x Hx). ring.
  - apply in_map_iff in HA as (cv & <- & Hcv).
    split; [now rewrite nrows_scols; unfold unitf; rewrite !nrows_scols|].
    intros r Hr. destruct (unit_entry d cv r (or_intror Hcv) Hr) as (t & Ht & E). exists t. split; [exact Ht|].
    intros x Hx. rewrite (mget_scols V v0 v1 vadd vmul vsub vopp Vring). exact (E x Hx).
Qed.

(* ---- "an already symmetric tensor keeps its value" ---- *)
Hypothesis Hroot : forall x, neg x = false -> vpow v1 vmul (root x) (length cs) = x.

Theorem ksymmetrize_proportional_keeps : forall i, den (core K1) i = den K i.
Proof.
  intros i. destruct normalize_all_signed_copies as (Bref & Hcopies).
  assert (HR : krank K1 = R).
  { destruct (normal_form_all_one V v0 v1 vmul vopp vinv nrm pos neg root srt srt_perm WAll false K I) as [H _]. exact H. }
  rewrite (k15_core_keeps V v0 v1 vadd vmul vsub vopp vinv neg Vring neg_sq neg_opp_sq char0 vinv_l Bref m R K1).
  - unfold K1. apply (den_normalize_any V v0 v1 vadd vmul vsub vopp vinv Vring nrm pos neg root srt vinv_r pos_nz nrm_pos srt_perm).
    + discriminate.
    + intros _ _. split; [unfold K, cs; discriminate|]. split.
      * unfold root_spec, K. cbv [kfactors]. rewrite map_length. exact Hroot.
      * exact neg_opp.
  - destruct normalize_all_proportional as (s & d & _ & Hf). rewrite Hf. discriminate.
  - exact HR.
  - exact Hcopies.
Qed.

(* the same on the code as written (loops of normalize and of the body), for factors with rows of the right length *)
Hypothesis B_rows : Forall (fun row => length row = R) B.
Hypothesis c_len : forall cv, In cv cs -> length cv = R.

Theorem ksym_code_proportional_keeps :
  exists Sy, k_symmetrize_code v0 v1 vadd vmul vopp vinv neg
               (py_normalize V v0 v1 vmul vopp vinv nrm pos neg root srt WAll false None) K = KOk Sy /\
             forall i, den Sy i = den K i.
Proof.
  assert (Hwf : wf_k K).
  { unfold wf_k, K. cbn [kfactors krank kweights]. apply Forall_forall. intros A HA. apply in_map_iff in HA as (cv & <- & Hcv).
    apply (rows_scale_cols V vmul (length w)); [exact (c_len cv Hcv)|exact B_rows]. }
  assert (Hc : cubical_shape (kshape K) = true).
  { unfold cubical_shape, K, kshape. cbn [kfactors]. apply forallb_forall. intros x Hx. apply in_map_iff in Hx as (A & <- & HA).
    apply in_map_iff in HA as (cv & <- & Hcv). unfold cs. cbn [map hd]. rewrite !nrows_scols. apply Nat.eqb_refl. }
  exists (core K1). split; [unfold K1; now apply (ksym_code_is_model V v0 v1 vadd vmul vsub vopp vinv Vring)|].
  exact ksymmetrize_proportional_keeps.
Qed.
End Proportional.
End KP15.
