(* Proofs/C07Compose.v — third wave: multi-step laws.  permute p ; permute q = permute (p[q]) on all five holders;
   reshape ; squeeze = reshape to the non-singleton sizes (dense, sparse); sparse reshape with a REPEATED mode is not onto. *)
From Coq Require Import List Arith Lia Bool Permutation.
From PV Require Import Base.Index Base.Perm Base.Sum Np.Array Model.Sparse Model.Repr Model.C07Ops Model.C07Ops2
  Proofs.C07Index Proofs.C07Proofs.
Import ListNotations.

(* ------------------------------------------------------------------ orders compose *)
Lemma perm_in_lt p n k : is_perm p n -> In k p -> k < n.
Proof. intros H Hk. now apply (is_perm_In p n k H). Qed.

Lemma pick_compose_perm p q n : is_perm p n -> is_perm q n -> is_perm (pick 0 q p) n.
Proof.
  intros Hp Hq. unfold is_perm in *.
  eapply Permutation_trans; [|exact Hp].
  apply pick_Permutation. now rewrite (is_perm_length _ _ Hp).
Qed.

Lemma pick_compose {A} (d : A) p q n (l : list A) : is_perm p n -> is_perm q n ->
  pick d q (pick d p l) = pick d (pick 0 q p) l.
Proof.
  intros Hp Hq. apply pick_pick. intros k Hk. rewrite (is_perm_length _ _ Hp). eapply perm_in_lt; eauto.
Qed.

(* (p[q])^-1 applied to an index = p^-1 applied after q^-1 *)
Lemma pick_invperm_compose p q n (i : idx) : is_perm p n -> is_perm q n -> length i = n ->
  pick 0 (invperm (pick 0 q p)) i = pick 0 (invperm p) (pick 0 (invperm q) i).
Proof.
  intros Hp Hq Hi.
  pose proof (pick_compose_perm p q n Hp Hq) as Hr.
  assert (Lq : length (pick 0 (invperm q) i) = n) by (rewrite pick_length, invperm_length; eapply is_perm_length; eauto).
  apply (pick_perm_inj (pick 0 q p) n); auto.
  - rewrite pick_length, invperm_length. eapply is_perm_length; eauto.
  - rewrite pick_length, invperm_length. eapply is_perm_length; eauto.
  - rewrite (pick_pick_invperm 0 _ n i Hr Hi).
    rewrite <- (pick_compose 0 p q n _ Hp Hq).
    rewrite (pick_pick_invperm 0 p n _ Hp Lq).
    now rewrite (pick_pick_invperm 0 q n i Hq Hi).
Qed.

(* ------------------------------------------------------------------ dense *)
Section Dense.
Context {V : Type} (v0 : V).

Lemma transpose_shape (T : dense V) p : dshape (np_transpose v0 T p) = pick 0 p (dshape T).
Proof. unfold np_transpose. apply dshape_tabulate. Qed.

Theorem permute_dense_compose (T : dense V) p q :
  wf_dense T -> is_perm p (length (dshape T)) -> is_perm q (length (dshape T)) ->
  exists R1, permute_d v0 T p = Some R1 /\ is_perm (pick 0 q p) (length (dshape T)) /\
    permute_d v0 R1 q = permute_d v0 T (pick 0 q p).
Proof.
  intros W Hp Hq. set (n := length (dshape T)) in *.
  pose proof (pick_compose_perm p q n Hp Hq) as Hr.
  exists (np_transpose v0 T p). split; [now apply permute_d_perm|]. split; [exact Hr|].
  assert (Lp : length (dshape (np_transpose v0 T p)) = n).
  { rewrite transpose_shape, pick_length. eapply is_perm_length; eauto. }
  rewrite permute_d_perm; [|apply wf_tabulate|now rewrite Lp].
  rewrite (permute_d_perm v0 T (pick 0 q p)) by auto.
  f_equal. unfold np_transpose at 1 3. rewrite transpose_shape.
  rewrite (pick_compose 0 p q n (dshape T) Hp Hq).
  apply tabulate_ext. intros i Hi.
  assert (Li : length i = n).
  { apply inb_length in Hi. rewrite Hi, pick_length. eapply is_perm_length; eauto. }
  rewrite den_transpose.
  - now rewrite (pick_invperm_compose p q n i Hp Hq Li).
  - exact Hp.
  - rewrite pick_length, invperm_length. eapply is_perm_length; eauto.
Qed.

Lemma dense_eta (D : dense V) : D = mkDense (dshape D) (ddata D).
Proof. now destruct D. Qed.

Lemma reshapeF_mk (T : dense V) s' : wf_dense T -> size s' = size (dshape T) -> np_reshapeF v0 T s' = mkDense s' (ddata T).
Proof.
  intros W Hs. rewrite (dense_eta (np_reshapeF v0 T s')).
  rewrite np_reshapeF_data by auto. unfold np_reshapeF. now rewrite dshape_tabulate.
Qed.

(* reshape ; squeeze = reshape to the non-singleton sizes; a scalar when there is none *)
Theorem squeeze_reshape_dense (T : dense V) s1 :
  wf_dense T -> size s1 = size (dshape T) -> forallb (Nat.ltb 0) s1 = true ->
  exists R, reshape_d v0 T s1 = Some R /\
    match squeeze_d v0 R with
    | SqT Q => reshape_d v0 T (sqz s1 s1) = Some Q
    | SqScalar v => sqz s1 s1 = [] /\ v = nth 0 (ddata T) v0
    end.
Proof.
  intros W Hs Hpos. exists (np_reshapeF v0 T s1). unfold reshape_d at 1. rewrite <- Hs, Nat.eqb_refl.
  split; [reflexivity|]. rewrite (reshapeF_mk T s1 W Hs). rewrite squeeze_d_pos_eq by (cbn [dshape]; exact Hpos). unfold squeeze_d_pos. cbn [dshape ddata].
  destruct (forallb (Nat.ltb 1) s1) eqn:E1.
  - rewrite sqz_all by auto. unfold reshape_d. rewrite <- Hs, Nat.eqb_refl. now rewrite (reshapeF_mk T s1 W Hs).
  - destruct (sqz s1 s1) as [|d s2] eqn:Esq; [split; reflexivity|].
    assert (Hs2 : size (d :: s2) = size (dshape T)) by (rewrite <- Esq, sqz_size by auto; exact Hs).
    unfold reshape_d. rewrite <- Hs2, Nat.eqb_refl. now rewrite (reshapeF_mk T (d :: s2) W Hs2).
Qed.
End Dense.

(* ------------------------------------------------------------------ sparse *)
Section SparseC.
Context {V : Type} (v0 : V).

Theorem permute_sparse_compose (S : sparse V) p q :
  is_perm p (length (sshape S)) -> is_perm q (length (sshape S)) ->
  exists R1, permute_sp S p = Some R1 /\ is_perm (pick 0 q p) (length (sshape S)) /\
    permute_sp R1 q = permute_sp S (pick 0 q p).
Proof.
  intros Hp Hq. set (n := length (sshape S)) in *.
  pose proof (pick_compose_perm p q n Hp Hq) as Hr.
  unfold permute_sp. fold n.
  rewrite (proj2 (is_permb_spec p n) Hp). eexists; split; [reflexivity|]. split; [exact Hr|].
  cbn [sshape ssubs svals]. rewrite pick_length, (is_perm_length _ _ Hp).
  rewrite (proj2 (is_permb_spec q n) Hq), (proj2 (is_permb_spec _ n) Hr).
  f_equal. f_equal.
  - apply (pick_compose 0 p q n); auto.
  - rewrite map_map. apply map_ext. intros j. apply (pick_compose 0 p q n); auto.
Qed.

(* the subscript of a squeezed reshape: dropping the singleton positions of ind2sub s k = ind2sub of the squeezed shape *)
Lemma sqz_ind2sub s k : forallb (Nat.ltb 0) s = true -> sqz s (ind2sub s k) = ind2sub (sqz s s) k.
Proof.
  revert k. induction s as [|d s IH]; intros k H; [reflexivity|].
  cbn [forallb] in H. apply andb_true_iff in H as [Hd Hs]. apply Nat.ltb_lt in Hd.
  cbn [ind2sub sqz]. destruct (1 <? d) eqn:E.
  - cbn [ind2sub]. f_equal. now apply IH.
  - apply Nat.ltb_ge in E. assert (d = 1) by lia. subst d. rewrite Nat.div_1_r. now apply IH.
Qed.

Theorem squeeze_reshape_sparse (S : sparse V) s1 :
  size s1 = size (sshape S) -> forallb (Nat.ltb 0) s1 = true ->
  Forall (fun j => inb (sshape S) j = true) (ssubs S) ->
  exists R, reshape_sp_all S s1 = Some R /\
    match squeeze_sp v0 R with
    | SqT Q => reshape_sp_all S (sqz s1 s1) = Some Q
    | SqScalar v => sqz s1 s1 = [] /\ v = den_sp v0 R (repeat 0 (length s1))
    end.
Proof.
  intros Hs Hpos Hin. unfold reshape_sp_all, reshape_sp.
  set (s := sshape S) in *. rewrite pick_seq. rewrite Hs, Nat.eqb_refl.
  eexists; split; [reflexivity|]. unfold squeeze_sp. cbn [sshape ssubs svals].
  rewrite keep_modes_all. cbn [pick map app].
  destruct (forallb (Nat.ltb 1) s1) eqn:E1.
  - rewrite sqz_all by auto. now rewrite Hs, Nat.eqb_refl.
  - destruct (sqz s1 s1) as [|d s2] eqn:Esq; [split; reflexivity|].
    rewrite <- Esq. rewrite sqz_size by auto. rewrite Hs, Nat.eqb_refl.
    f_equal. f_equal. rewrite map_map. apply map_ext. intros j. unfold reshape_row.
    rewrite keep_modes_all. cbn [pick map app]. symmetry. now apply sqz_ind2sub.
Qed.

(* with a REPEATED mode in old_modes the forward map is still injective (C07_reshape_sparse) but NOT onto: on the
   1-way shape [2] with old_modes = [0;0] (old sizes [2;2], new shape [4]) the in-range result index [1] has no source *)
Theorem reshape_repeated_not_onto :
  let s := [2] in let old := [0; 0] in let s' := [4] in
  Forall (fun k => k < length s) old /\ size s' = size (pick 0 old s) /\ ~ NoDup old /\
  inb (pick 0 (keep_modes (length s) old) s ++ s') [1] = true /\
  (forall i, inb s i = true -> reshape_row s s' old i <> [1]) /\
  (forall i j, inb s i = true -> inb s j = true -> reshape_row s s' old i = reshape_row s s' old j -> i = j).
Proof.
  cbn zeta. repeat split.
  - repeat constructor.
  - intros H. inversion H as [|? ? Hn _]. apply Hn. now left.
  - intros [|[|[|x]] [|y i]] Hi; cbn in Hi; try discriminate; cbv; discriminate.
  - intros [|[|[|x]] [|y i]] [|[|[|x']] [|y' j]] Hi Hj; cbn in Hi, Hj; try discriminate; cbv; congruence.
Qed.
End SparseC.

(* ------------------------------------------------------------------ Kruskal / Tucker (dense and sparse core) *)
Section Holders.
Context {V : Type} (v0 : V).

Theorem permute_kruskal_compose (K : ktensor V) p q :
  is_perm p (length (kfactors K)) -> is_perm q (length (kfactors K)) ->
  exists R1, permute_k K p = Some R1 /\ permute_k R1 q = permute_k K (pick 0 q p).
Proof.
  intros Hp Hq. set (n := length (kfactors K)) in *.
  pose proof (pick_compose_perm p q n Hp Hq) as Hr.
  unfold permute_k. fold n. rewrite (proj2 (is_permb_spec p n) Hp). eexists; split; [reflexivity|].
  cbn [kfactors kweights]. rewrite pick_length, (is_perm_length _ _ Hp).
  rewrite (proj2 (is_permb_spec q n) Hq), (proj2 (is_permb_spec _ n) Hr).
  f_equal. f_equal. apply (pick_compose [] p q n); auto.
Qed.

Theorem permute_tucker_compose (T : ttensor V) p q :
  wf_dense (tcore T) -> length (dshape (tcore T)) = length (tfactors T) ->
  is_perm p (length (tfactors T)) -> is_perm q (length (tfactors T)) ->
  exists R1, permute_t v0 T p = Some R1 /\ permute_t v0 R1 q = permute_t v0 T (pick 0 q p).
Proof.
  intros W HL Hp Hq. set (n := length (tfactors T)) in *.
  pose proof (pick_compose_perm p q n Hp Hq) as Hr.
  rewrite <- HL in Hp, Hq.
  destruct (permute_dense_compose v0 (tcore T) p q W Hp Hq) as (C1 & HC1 & _ & HC2).
  rewrite HL in Hp, Hq.
  unfold permute_t. fold n. rewrite (proj2 (is_permb_spec p n) Hp), HC1. eexists; split; [reflexivity|].
  cbn [tfactors tcore]. rewrite pick_length, (is_perm_length _ _ Hp).
  rewrite (proj2 (is_permb_spec q n) Hq), (proj2 (is_permb_spec _ n) Hr), HC2.
  destruct (permute_d v0 (tcore T) (pick 0 q p)); [|reflexivity].
  f_equal. f_equal. apply (pick_compose [] p q n); auto.
Qed.

Theorem permute_stucker_compose (T : sttensor V) p q :
  length (sshape (stcore T)) = length (stfactors T) ->
  is_perm p (length (stfactors T)) -> is_perm q (length (stfactors T)) ->
  exists R1, permute_st T p = Some R1 /\ permute_st R1 q = permute_st T (pick 0 q p).
Proof.
  intros HL Hp Hq. set (n := length (stfactors T)) in *.
  pose proof (pick_compose_perm p q n Hp Hq) as Hr.
  rewrite <- HL in Hp, Hq.
  destruct (permute_sparse_compose (stcore T) p q Hp Hq) as (C1 & HC1 & _ & HC2).
  rewrite HL in Hp, Hq.
  unfold permute_st. fold n. rewrite (proj2 (is_permb_spec p n) Hp), HC1. eexists; split; [reflexivity|].
  cbn [stfactors stcore]. rewrite pick_length, (is_perm_length _ _ Hp).
  rewrite (proj2 (is_permb_spec q n) Hq), (proj2 (is_permb_spec _ n) Hr), HC2.
  destruct (permute_sp (stcore T) (pick 0 q p)); [|reflexivity].
  f_equal. f_equal. apply (pick_compose [] p q n); auto.
Qed.
End Holders.
