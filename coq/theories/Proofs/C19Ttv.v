(* Proofs/C19Ttv.v — tensor.ttv / tensor.ttm over the generated tt_dimscheck. *)
From Coq Require Import List ZArith Bool Lia Permutation.
From PV Require Import Np.NpZ Gen.GenUtils Proofs.NpZProofs Proofs.UtilsProofs Model.C19Guards Proofs.C19Proofs.
Import ListNotations.
Local Open Scope Z_scope.

Theorem tensor_ttv_rejects_out_of_range s vlens d x :
  In x d -> ndim s <= x -> guard_tensor_ttv s vlens (Some d) None = Err.
Proof. intros. eapply is_err_ttv_of_dimscheck, dimscheck_rejects_out_of_range; eauto. Qed.
