(* Proofs/W4STucker.v — BRIDGE between the GENERATED skeleton of the main part of pyttb/tucker_als.py (Gen/GenTuckerAls.v:
   `U = Uinit.copy()` .. `return solution, Uinit, output`: outer loop, mode loop, fit-change stop rule, break, unbound `core` for
   maxiters = 0, output dictionary) and the hand state machine Model/C10Loop.v (tals_inner / tals_loop / tals_run).
   For ALL kernels: whenever the generated function returns (no Python exception) tals_run returns the same solution pieces,
   iteration count, residual norm and fit. *)
From Coq Require Import String List Arith Bool Lia.
From PV Require Import Model.W4SPrelude Gen.GenTuckerAls Model.Sparse Model.C10Loop Proofs.C10LoopProofs.
Import ListNotations.
Local Open Scope nat_scope.

Lemma sk_set_upd {A} : forall (l l' : list A) i v, sk_set l i v = Some l' -> l' = upd l i v.
Proof.
  unfold sk_set. induction l as [|x l IH]; intros l' i v H.
  - cbn in H. destruct i; discriminate.
  - destruct i as [|i].
    + cbn in H. inversion H. reflexivity.
    + cbn [length] in H. change (S i <? S (length l)) with (i <? length l) in H.
      destruct (i <? length l) eqn:E; [|discriminate]. inversion H. cbn [firstn skipn app upd]. f_equal.
      apply IH. rewrite E. reflexivity.
Qed.

Section Bridge.
Variables T_F T_Mat T_X T_TT : Type.
Variable c_leF : T_F -> T_F -> bool.
Variable c_zeroF : T_F.
Variable k_ttm_excl : T_X -> list T_Mat -> nat -> bool -> T_X.
Variable k_nvecs : T_X -> nat -> nat -> T_Mat.
Variable k_ttm_core : T_X -> list T_Mat -> nat -> bool -> T_X.
Variable k_resid : T_F -> T_X -> T_F.
Variable k_fit : T_F -> T_F -> T_F.
Variable k_absdiff : T_F -> T_F -> T_F.
Variable k_ttensor : T_X -> list T_Mat -> bool -> T_TT.

Notation gloop2 := (GenTuckerAls.tucker_als_main_loop2 T_Mat T_X k_ttm_excl k_nvecs).
Notation gloop1 := (GenTuckerAls.tucker_als_main_loop1 T_F T_Mat T_X c_leF k_ttm_excl k_nvecs k_ttm_core k_resid k_fit k_absdiff).
Notation gmain := (GenTuckerAls.tucker_als_main T_F T_Mat T_X T_TT c_leF c_zeroF k_ttm_excl k_nvecs k_ttm_core k_resid k_fit k_absdiff k_ttensor).

Section Fixed.
Variables (X : T_X) (normX stoptol : T_F) (rank dimorder : list nat).

Definition t_project (U : list T_Mat) (n : nat) : T_X := k_ttm_excl X U n true.
Definition t_core_of (Ut : T_X) (U : list T_Mat) (n : nat) : T_X := k_ttm_core Ut U n true.
Definition t_normres_of (core : T_X) : T_F := k_resid normX core.
Definition t_fit_of (nr : T_F) : T_F := k_fit nr normX.
Definition t_fchange_lt (fitold fit tol : T_F) : bool := negb (c_leF tol (k_absdiff fitold fit)).

Notation hinner := (tals_inner T_Mat T_X t_project k_nvecs rank).
Notation hloop := (tals_loop T_Mat T_X T_X T_F t_project k_nvecs t_core_of t_normres_of t_fit_of t_fchange_lt rank dimorder stoptol).

Lemma inner_bridge : forall xs U (last : option (T_X * nat)) st',
  gloop2 X rank xs (U, option_map fst last, option_map snd last) = Some st' ->
  st' = (fst (hinner xs U last), option_map fst (snd (hinner xs U last)), option_map snd (snd (hinner xs U last))).
Proof.
  induction xs as [|n xs IH]; intros U last st' H.
  - cbn in H. inversion H. reflexivity.
  - cbn [GenTuckerAls.tucker_als_main_loop2] in H. cbn [tals_inner].
    destruct (nth_error rank n) as [r|] eqn:Er; [|discriminate].
    destruct (sk_set U n (k_nvecs (k_ttm_excl X U n true) n r)) as [U1|] eqn:Es; [|discriminate].
    apply sk_set_upd in Es. rewrite (nth_error_nth _ _ 0 Er). fold (t_project U n) in Es, H. rewrite <- Es.
    exact (IH U1 (Some (t_project U n, n)) st' H).
Qed.

Definition gst (U : list T_Mat) (fit : T_F) (last : option (nat * T_X * T_F)) :=
  (U, option_map (fun x => snd (fst x)) last, fit, option_map (fun x => fst (fst x)) last, option_map snd last).

Lemma loop1_bridge printitn : forall fuel i U fit last st',
  gloop1 dimorder X normX rank stoptol fuel i (gst U fit last) = Some st' ->
  match hloop printitn fuel i U fit last with
  | Some o => st' = gst (to_U _ _ _ o) (to_fit _ _ _ o) (Some (to_iter _ _ _ o, to_core _ _ _ o, to_nr _ _ _ o))
  | None => st' = gst U fit last /\ last = None
  end.
Proof.
  induction fuel as [|fuel IH]; intros i U fit last st' H.
  - cbn in H. inversion H. cbn [tals_loop]. destruct last as [[[it core] nr]|]; [reflexivity|split; reflexivity].
  - cbn [GenTuckerAls.tucker_als_main_loop1 gst] in H. cbn [tals_loop].
    destruct (gloop2 X rank dimorder (U, None, None)) as [st2|] eqn:EG; [|discriminate].
    pose proof (inner_bridge dimorder U None st2 EG) as B. subst st2.
    destruct (hinner dimorder U None) as [U' [[Ut n]|]]; cbn [fst snd option_map] in H; [|discriminate].
    fold (t_core_of Ut U' n) in H. fold (t_normres_of (t_core_of Ut U' n)) in H.
    fold (t_fit_of (t_normres_of (t_core_of Ut U' n))) in H.
    set (core := t_core_of Ut U' n) in *. set (nr := t_normres_of core) in *. set (ft := t_fit_of nr) in *.
    change (negb (c_leF stoptol (k_absdiff fit ft))) with (t_fchange_lt fit ft stoptol) in H.
    destruct (t_fchange_lt fit ft stoptol) eqn:Eflag.
    + inversion H. reflexivity.
    + specialize (IH (S i) U' ft (Some (i, core, nr)) st' H).
      match goal with |- match (match ?c with _ => _ end) with _ => _ end =>
        match type of IH with match ?c' with _ => _ end => change c' with c in IH end;
        destruct c as [o|] end; [cbn [to_U to_fit to_iter to_core to_nr]; exact IH|destruct IH; discriminate].
Qed.
End Fixed.

Theorem tucker_bridge : forall X Uinit normX rank dimorder maxiters stoptol printitn sol Uret iters nr fit,
  gmain X Uinit normX rank dimorder maxiters stoptol printitn = Some (sol, Uret, (iters, nr, fit)) ->
  exists r,
    tals_run T_Mat T_X T_X T_F (t_project X) k_nvecs t_core_of (t_normres_of normX) (t_fit_of normX) t_fchange_lt c_zeroF rank dimorder
             stoptol printitn Uinit maxiters = Some r /\
    sol = k_ttensor (tr_core _ _ _ r) (tr_U _ _ _ r) false /\ Uret = Uinit /\ tr_init _ _ _ r = Uinit /\
    tr_iters _ _ _ r = iters /\ tr_normres _ _ _ r = nr /\ tr_fit _ _ _ r = fit.
Proof.
  intros X Uinit normX rank dimorder maxiters stoptol printitn sol Uret iters nr fit H.
  unfold GenTuckerAls.tucker_als_main in H. unfold tals_run.
  match type of H with match ?L with _ => _ end = _ => destruct L as [st'|] eqn:EL; [|discriminate] end.
  pose proof (loop1_bridge X normX stoptol rank dimorder printitn maxiters 0 Uinit c_zeroF None st' EL) as B.
  match type of B with match ?c with _ => _ end => destruct c as [o|] eqn:Eo end.
  - subst st'. destruct o as [U' it core nr' fit' lg tr]. cbn [gst option_map fst snd to_U to_fit to_iter to_core to_nr] in H.
    inversion H. eexists. split; [reflexivity|]. cbn. repeat split; reflexivity.
  - destruct B as [-> _]. cbn [gst option_map] in H. discriminate.
Qed.

(* the stop rule of tucker_als over the GENERATED code: the iteration count respects the limit, no earlier iteration met the
   convergence test, and an early exit means the test fired at the reported iteration (hand theorem tals_run_spec transported) *)
Theorem gen_tucker_spec : forall X Uinit normX rank dimorder maxiters stoptol printitn sol Uret iters nr fit,
  dimorder <> [] ->
  gmain X Uinit normX rank dimorder maxiters stoptol printitn = Some (sol, Uret, (iters, nr, fit)) ->
  let fat := fit_at T_Mat T_X T_X T_F (t_project X) k_nvecs t_core_of (t_normres_of normX) (t_fit_of normX) rank dimorder Uinit in
  let fbefore := fit_before T_Mat T_X T_X T_F (t_project X) k_nvecs t_core_of (t_normres_of normX) (t_fit_of normX) c_zeroF rank dimorder Uinit in
  0 < maxiters /\ iters < maxiters /\ Uret = Uinit /\ fat iters = Some fit /\
  (forall i, i < iters -> exists fo fi, fbefore i = Some fo /\ fat i = Some fi /\ t_fchange_lt fo fi stoptol = false) /\
  (iters < maxiters - 1 -> exists fo, fbefore iters = Some fo /\ t_fchange_lt fo fit stoptol = true).
Proof.
  intros X Uinit normX rank dimorder maxiters stoptol printitn sol Uret iters nr fit Hne H.
  destruct (tucker_bridge _ _ _ _ _ _ _ _ _ _ _ _ _ H) as (r & Hr & _ & HU & _ & Hi & _ & Hf).
  destruct (tals_run_spec _ _ _ _ _ _ _ _ _ _ _ _ _ _ _ _ _ _ Hne Hr) as (H0 & H1 & _ & _ & _ & _ & Hlast & Htr & Hfail & Hfire).
  rewrite Hi, Hf in *. cbv zeta. split; [exact H0|]. split; [exact H1|]. split; [exact HU|].
  split; [rewrite <- (Htr iters (le_n _)); exact Hlast|]. split; [exact Hfail|exact Hfire].
Qed.

Lemma tucker_output_keys_ok : GenTuckerAls.tucker_als_main_output_keys = ["iters"; "normresidual"; "fit"]%string.
Proof. reflexivity. Qed.
End Bridge.
