(* Model/C16Lines.v — LINE-SENSITIVE transliteration of pyttb/import_data.py.
   import_data mixes two ways of reading: `fp.readline().strip().split(" ")` (type word, order, sizes, nnz, rank, the
   "matrix" line of every factor, one subscript row per line) and `np.fromfile(fp, count=n, sep=" ")` (dense values,
   weights, factor entries), which ignores line breaks.  A file is therefore modelled as a STREAM of tokens with explicit
   end-of-line markers: [Some tok] or [None] (= "\n").
     readline           the tokens up to the next end-of-line marker (at end of file: the empty line)
     np.fromfile(n)     the next n value tokens, white space (markers) skipped before each of them AND after the last
                        one; it fails (short read, rejected later by the constructor / reshape) when a word comes first
   A text that looks like an integer is accepted where a value is expected (float("3") = 3.0): [ofZ].
   Tokens on a line are separated by single blanks (what export_data writes); runs of blanks, tab / VT / FF and CR LF line
   ends are brought to this form by Model/C16Text.v (gap marker [Word ""]).
   Definitions only. *)
From Coq Require Import String.
From Coq Require Import List Arith ZArith Lia Bool.
From PV Require Import Base.Index Np.Array Model.Sparse Model.Repr Model.C16IO.
Import ListNotations.

Section L.
Variables (D T : Type) (d0 : D) (parse : T -> D) (ofZ : Z -> D).
Notation token := (token T).
Notation line := (list token).
Definition stream := list (option token).

Definition to_stream (f : list line) : stream := flat_map (fun l => map Some l ++ [None]) f.

Fixpoint readline (s : stream) : line * stream :=
  match s with
  | [] => ([], [])
  | None :: r => ([], r)
  | Some t :: r => let p := readline r in (t :: fst p, snd p)
  end.
(* white space as np.fromfile sees it: end-of-line markers, and the GAP marker [Word ""] — the empty piece that
   str.split(" ") yields between two adjacent blanks (Model/C16Text.v): an unreadable piece for readline() sites, nothing but
   white space for np.fromfile *)
Fixpoint skip_ws (s : stream) : stream :=
  match s with
  | None :: r => skip_ws r
  | Some (Word EmptyString) :: r => skip_ws r
  | _ => s
  end.

Definition val_tok (t : token) : option D :=
  match t with Num x => Some (parse x) | Int z => Some (ofZ z) | Word _ => None end.
Definition int_tok (t : token) : option Z := match t with Int z => Some z | _ => None end.
(* int(line.split(" ")[0]): the first token of the line, the rest of the line is ignored *)
Definition head_int (l : line) : option Z := match l with t :: _ => int_tok t | [] => None end.
Fixpoint all_ints (l : line) : option (list Z) :=
  match l with
  | [] => Some []
  | t :: r => match int_tok t, all_ints r with Some z, Some zs => Some (z :: zs) | _, _ => None end
  end.

Notation "x <- e ;; k" := (bindo e (fun x => k)) (at level 61, e at next level, right associativity).

(* np.fromfile(fp, count = n, sep = " ") *)
Fixpoint rd_vals_aux (n : nat) (s : stream) : option (list D * stream) :=
  match n with
  | O => Some ([], s)
  | S n' =>
      match skip_ws s with
      | Some t :: r => v <- val_tok t ;; q <- rd_vals_aux n' r ;; Some (v :: fst q, snd q)
      | _ => None
      end
  end.
Definition rd_vals (n : nat) (s : stream) : option (list D * stream) :=
  match n with
  | O => Some ([], s)
  | _ => q <- rd_vals_aux n s ;; Some (fst q, skip_ws (snd q))
  end.

(* the WEIGHTS of a Kruskal file: np.fromfile(count = r) returns FEWER values when a word (in a well-formed file: the
   "matrix" line) comes first — a short read; import_data goes on with the weights it got, and the ktensor constructor
   compares the number of columns of the factors with the number of weights READ, not with the rank line *)
Fixpoint rd_upto (n : nat) (s : stream) : list D * stream :=
  match n with
  | O => ([], s)
  | S n' =>
      match skip_ws s with
      | Some t :: r =>
          match val_tok t with
          | Some v => let q := rd_upto n' r in (v :: fst q, snd q)
          | None => ([], skip_ws s)
          end
      | rest => ([], rest)
      end
  end.
Definition rd_weights (n : nat) (s : stream) : list D * stream :=
  match n with O => ([], s) | _ => let q := rd_upto n s in (fst q, skip_ws (snd q)) end.

(* import_shape: the order on one line (first token), ALL tokens of the next line as sizes; their number must be the order.
   A sizes line that holds nothing (empty after strip()) is the shape () of an object WITHOUT modes (/repo b512e35) *)
Definition rd_shape_z (s : stream) : option (list Z * stream) :=
  let p1 := readline s in let p2 := readline (snd p1) in
  n <- head_int (fst p1) ;; zs <- all_ints (fst p2) ;;
  if negb (Z.eqb (Z.of_nat (length zs)) n) then None else Some (zs, snd p2).
(* ... and no size may be negative (the tensor / sptensor constructors and np.reshape are then given a proper shape) *)
Definition rd_shape_l (s : stream) : option (shape * stream) :=
  p <- rd_shape_z s ;;
  if forallb (fun z => (0 <=? z)%Z) (fst p) then Some (map Z.to_nat (fst p), snd p) else None.

(* one line of import_sparse_array: all tokens but the last are subscripts (np.int64(text) - index_base), the last is the
   value; `subs[k, :] = [...]` needs N subscripts — or exactly ONE, which numpy broadcasts to all N columns.
   A subscript below the base is rejected (the correct behaviour; pyttb's constructor lets it through: finding C19-N14) *)
Definition sub_of (b : Z) (t : token) : option nat :=
  match t with Int z => if (0 <=? z - b)%Z then Some (Z.to_nat (z - b)) else None | _ => None end.
Fixpoint subs_of (b : Z) (l : line) : option idx :=
  match l with
  | [] => Some []
  | t :: r => match sub_of b t, subs_of b r with Some x, Some xs => Some (x :: xs) | _, _ => None end
  end.
Definition entry_of_line (b : Z) (N : nat) (l : line) : option (idx * D) :=
  match rev l with
  | [] => None
  | tv :: rsubs =>
      v <- val_tok tv ;; i <- subs_of b (rev rsubs) ;;
      if Nat.eqb (length i) N then Some (i, v)
      else match i with [x] => Some (repeat x N, v) | _ => None end
  end.
Fixpoint rd_entries_l (b : Z) (N nz : nat) (s : stream) : option (list (idx * D)) :=
  match nz with
  | O => Some []
  | S nz' =>
      let p := readline s in
      e <- entry_of_line b N (fst p) ;; q <- rd_entries_l b N nz' (snd p) ;; Some (e :: q)
  end.

(* `fp.readline()` n times, whatever the lines hold *)
Fixpoint drop_lines (n : nat) (s : stream) : stream :=
  match n with O => s | S n' => drop_lines n' (snd (readline s)) end.

(* the per-mode loop of the ktensor branch: one line skipped WHATEVER it holds, a shape, the entries, C-order reshape;
   a factor WITHOUT entries (m * c = 0: np.fromfile(count = 0) touches nothing) is followed by m row lines, which are read
   and dropped whatever they hold (/repo 20317ef; export writes m empty lines there);
   the ktensor constructor needs matrices with as many columns as there are weights *)
Fixpoint rd_factors_l (R n : nat) (s : stream) : option (list (list (list D))) :=
  match n with
  | O => Some []
  | S n' =>
      let p := readline s in
      sh <- rd_shape_l (snd p) ;;
      match fst sh with
      | [m; c] =>
          if Nat.eqb c R then
            v <- rd_vals (m * c) (snd sh) ;;
            q <- rd_factors_l R n' (if Nat.eqb (m * c) 0 then drop_lines m (snd v) else snd v) ;;
            Some (reshapeC2 D m c (fst v) :: q)
          else None
      | _ => None
      end
  end.

(* a sparse file without modes that announces entries *)
Definition order0_bad (sh : shape) (nz : nat) : bool := Nat.eqb (length sh) 0 && negb (Nat.eqb nz 0).

Definition nat_of (z : Z) : option nat := if (0 <=? z)%Z then Some (Z.to_nat z) else None.

Definition import_stream (b : Z) (s : stream) : option (obj D) :=
  let p0 := readline s in
  match fst p0 with
  | Word w :: _ =>
      if String.eqb w "tensor"%string then
        (* `np.prod(shape) if shape else 0` values: the tensor without modes holds no entry *)
        sh <- rd_shape_l (snd p0) ;; v <- rd_vals (tsize (fst sh)) (snd sh) ;;
        Some (OTensor (tensor_of D d0 (fst sh) (fst v)))
      else if String.eqb w "sptensor"%string then
        sh <- rd_shape_l (snd p0) ;;
        let pn := readline (snd sh) in
        zn <- head_int (fst pn) ;; nz <- nat_of zn ;;
        es <- rd_entries_l b (length (fst sh)) nz (snd pn) ;;
        (* no mode: subs is an nz x 0 array, which the sptensor constructor takes for "no subscripts" — with nz > 0 values
           it refuses ("Number of subscripts and values must be equal") *)
        if order0_bad (fst sh) nz then None else
        if forallb (inb (fst sh)) (map fst es) then Some (OSptensor (mkSp (fst sh) (map fst es) (map snd es))) else None
      else if String.eqb w "matrix"%string then
        sh <- rd_shape_l (snd p0) ;;
        match fst sh with
        | [m; n] => v <- rd_vals (m * n) (snd sh) ;; Some (OMatrix m n (reshapeC2 D m n (fst v)))
        | sh' => v <- rd_vals (size sh') (snd sh) ;; Some (OArray sh' (fst v))
        end
      else if String.eqb w "ktensor"%string then
        (* only the NUMBER of header sizes is used (the loop count); the shape of the result comes from the factors *)
        sh <- rd_shape_z (snd p0) ;;
        let pr := readline (snd sh) in
        zr <- head_int (fst pr) ;; r <- nat_of zr ;;
        (* no mode: rank line 0 gives ttb.ktensor() (after the readline below); any other rank ends in
           ttb.ktensor([], weights), which raises (IndexError) *)
        if Nat.eqb (length (fst sh)) 0 then (if Nat.eqb r 0 then Some (OKtensor (mkK [] [])) else None) else
        let w := rd_weights r (snd pr) in
        (* rank line 0: np.fromfile(count = 0) leaves the weights line (empty in what export writes), one readline drops it
           whatever it holds (/repo 20317ef) *)
        f <- rd_factors_l (length (fst w)) (length (fst sh)) (if Nat.eqb r 0 then snd (readline (snd w)) else snd w) ;;
        Some (OKtensor (mkK (fst w) f))
      else None
  | _ => None
  end.

(* import_data(filename, index_base = b) on a file given as its lines *)
Definition import_lines (b : Z) (f : list line) : option (obj D) := import_stream b (to_stream f).
End L.
