(* Props/W4SC10.v — C10 (hosvd automatic rank rule / column slice) stated over the GENERATED mode loop Gen/GenHosvd.v
   (tools/pyx2v_skel.py regenerates it from the `for k in dimorder:` statement of /repo/pyttb/hosvd.py on every run).
   Gram matrix, eigh, sort, column selection and ttm are arbitrary kernels.  Only statements, `exact`, Print Assumptions. *)
From Coq Require Import String List Arith Bool Reals.
From PV Require Import Np.NpR Model.W4SPrelude Gen.GenHosvd Model.C10Tucker Proofs.C10Proofs Proofs.W4SHosvd Proofs.W4SHosvdR.
Import ListNotations.
Local Open Scope nat_scope.

Section W4SC10.
Variables T_V T_Tensor T_Mat : Type.
Variable c_leV : T_V -> T_V -> bool.
Variable c_zeroV : T_V.
Variable c_addV : T_V -> T_V -> T_V.
Variable k_unfold : T_Tensor -> nat -> T_Mat.
Variable k_gram : T_Mat -> T_Mat.
Variable k_eigh : T_Mat -> list T_V * T_Mat.
Variable k_argsort_desc : list T_V -> list nat.
Variable k_take : list T_V -> list nat -> list T_V.
Variable k_select_cols : T_Mat -> list nat -> T_Mat.
Variable k_shrink : T_Tensor -> list T_Mat -> nat -> T_Tensor.

(* BRIDGE: the generated loop = the loop written with the hand model's auto_rank / keep_cols (Model/C10Tucker.v), any value type *)
Theorem W4S_C10_hosvd_loop_bridge : forall t sq xs st,
  GenHosvd.hosvd_modes_loop1 T_V T_Tensor T_Mat c_leV c_zeroV c_addV k_unfold k_gram k_eigh k_argsort_desc k_take k_select_cols k_shrink t sq xs st =
  h_loop T_V T_Tensor T_Mat c_leV c_zeroV c_addV k_unfold k_gram k_eigh k_argsort_desc k_take k_select_cols k_shrink t sq xs st.
Proof. exact (hosvd_loop_bridge T_V T_Tensor T_Mat c_leV c_zeroV c_addV k_unfold k_gram k_eigh k_argsort_desc k_take k_select_cols k_shrink). Qed.

(* the generated rank expression  np.where(np.cumsum(eig[::-1])[::-1] > t)[0][-1] + 1  is the hand model's auto_rank *)
Theorem W4S_C10_rank_rule : forall (eig : list T_V) t,
  match sk_last (sk_where (fun x t => negb (c_leV x t)) (rev (sk_cumsum c_zeroV c_addV (rev eig))) t) with
  | None => None
  | Some x => Some (x + 1)
  end = auto_rank c_zeroV c_addV (lt_of c_leV) eig t.
Proof. exact (gen_rank_rule c_zeroV c_addV c_leV). Qed.
End W4SC10.

(* C10_rank_choice over the generated loop body (exact reals) *)
Theorem W4S_C10_rank_choice : forall (T_Tensor T_Mat : Type) (k_unfold : T_Tensor -> nat -> T_Mat) (k_gram : T_Mat -> T_Mat)
  (k_eigh : T_Mat -> list R * T_Mat) (k_argsort_desc : list R -> list nat) (k_take : list R -> list nat -> list R)
  (k_select_cols : T_Mat -> list nat -> T_Mat) (k_shrink : T_Tensor -> list T_Mat -> nat -> T_Tensor)
  (t : R) sq k Y fm ranks Y' fm' ranks',
  GenHosvd.hosvd_modes_loop1 R T_Tensor T_Mat Rleb 0%R Rplus k_unfold k_gram k_eigh k_argsort_desc k_take k_select_cols k_shrink
    t sq [k] (Y, fm, ranks) = Some (Y', fm', ranks') ->
  nth_error ranks k = Some 0 ->
  let '(eig, p, Vm) := mode_spectrum R T_Tensor T_Mat k_unfold k_gram k_eigh k_argsort_desc k_take Y k in
  Forall (fun x => 0 <= x)%R eig -> (0 <= t)%R ->
  exists r, nth_error ranks' k = Some r /\ 0 < r <= length eig /\ (sumR (skipn r eig) <= t)%R /\
            (forall r', r' < r -> (t < sumR (skipn r' eig))%R) /\
            nth_error fm' k = Some (k_select_cols Vm (firstn r p)) /\
            (length p = length eig -> length (firstn r p) = r).
Proof. exact gen_rank_choice. Qed.

Print Assumptions W4S_C10_hosvd_loop_bridge.
Print Assumptions W4S_C10_rank_rule.
Print Assumptions W4S_C10_rank_choice.
