(* Model/W4SHarnessSampler.v — instantiation of the generated skeleton Gen/GenSampler.v (GCPSampler.__init__,
   _prepare_function_sampler, _prepare_gradient_sampler): a tensor is (is-sparse, number of entries, number of nonzeros), a
   configured sampler is a `gconf` (which sampling function with which counts), the correction range is its length, the float
   quotient a / b is the pair (a, b), and math.ceil of a float quotient is the oracle `cd` (for the replay stream: the answers
   RECORDED from the real run).  Proofs/W4SSampler.v bridges exactly this instantiation to Alg/C13Config.v. *)
From Coq Require Import List Bool ZArith.
From PV Require Import Model.W4SPrelude Model.W4SPreludeZ Gen.GenSampler.
Import ListNotations.
Local Open Scope Z_scope.

Inductive gconf :=
| GUniform (samples : sk_dyn StratifiedCount)    (* partial(uniform, samples=...) — whatever object was handed over *)
| GStratified (nz z : Z)                          (* partial(stratified, nz_idx = sorted linear indices, num_nonzeros = nz, num_zeros = z, over_sample_rate) *)
| GSemistrat (nz z : Z)                           (* partial(semistrat, num_nonzeros = nz, num_zeros = z) *)
| GPoisson (en ez : Z * Z).                       (* lambda: stratified with Poisson(en), Poisson(ez) counts; en, ez float quotients *)

Definition zdata := (bool * Z * Z)%type.
Definition zd_sparse (d : zdata) : bool := fst (fst d).
Definition zd_size (d : zdata) : Z := snd (fst d).
Definition zd_nnz (d : zdata) : Z := snd d.

Section Inst.
Variable cd : Z -> Z -> Z.
Definition zs_fn : zdata -> Samplers -> Z -> Z -> unit -> sk_dyn StratifiedCount -> option gconf :=
  prepare_function_sampler zdata unit unit gconf zd_sparse cd (fun _ => tt) (fun nz z _ _ => GStratified nz z) zd_size GUniform.
Definition zs_gr : Z -> zdata -> Samplers -> Z -> Z -> unit -> sk_dyn StratifiedCount -> Z -> option (gconf * Z) :=
  prepare_gradient_sampler zdata unit unit (Z * Z) gconf Z zd_sparse cd (fun _ => tt) (fun nz z _ _ => GStratified nz z) zd_size GUniform
    GSemistrat (fun n => n) (fun a b => (a, b)) (fun _ en ez _ => GPoisson en ez).
Definition zs_init : zdata -> option Samplers -> sk_dyn StratifiedCount -> option Samplers -> sk_dyn StratifiedCount -> Z -> unit ->
                     option (gconf * gconf * Z) :=
  sampler_init zdata unit unit (Z * Z) gconf Z zd_sparse cd (fun _ => tt) (fun nz z _ _ => GStratified nz z) zd_size GUniform
    GSemistrat (fun n => n) (fun a b => (a, b)) (fun _ en ez _ => GPoisson en ez) 0 zd_nnz.
End Inst.

(* ---- replay: recorded calls of math.ceil as (numerator, denominator, answer); -1 when the quotient was never asked ---- *)
Definition cd_table (calls : list (Z * Z * Z)) (a b : Z) : Z :=
  match find (fun c => (fst (fst c) =? a) && (snd (fst c) =? b)) calls with Some c => snd c | None => -1 end.
(* how many recorded calls the run of the skeleton uses is not observable from a pure function; the harness checks instead that
   every recorded call is one of the four quotients of the source and passes them all *)

(* observed configuration: 0 uniform n | 1 stratified nz z | 2 semistrat nz z | 3 poisson with the two expected counts as exact
   dyadic rationals (numerator, denominator) *)
Inductive oconf := OUniform (n : Z) | OStratified (nz z : Z) | OSemistrat (nz z : Z) | OPoisson (en ez : Z * Z).
(* float quotient a / b against the observed float q = qn / qd: equal up to 2^-50 relative *)
Definition fl_close (ab q : Z * Z) : bool :=
  let '(a, b) := ab in let '(qn, qd) := q in
  (0 <? qd) && negb (b =? 0) && (Z.abs (qn * b - a * qd) * 2 ^ 50 <=? Z.abs (a * qd)).
Definition gconf_obs_eqb (g : gconf) (o : oconf) : bool :=
  match g, o with
  | GUniform (SkInt n), OUniform n' => n =? n'
  | GStratified nz z, OStratified nz' z' => (nz =? nz') && (z =? z')
  | GSemistrat nz z, OSemistrat nz' z' => (nz =? nz') && (z =? z')
  | GPoisson en ez, OPoisson en' ez' => fl_close en en' && fl_close ez ez'
  | _, _ => false
  end.
Fixpoint zlist_eqb (a b : list Z) : bool :=
  match a, b with [] , [] => true | x :: a', y :: b' => (x =? y) && zlist_eqb a' b' | _, _ => false end.
(* the correction range np.arange(n) (the token is n): its length max(n, 0), and (when the harness hands over the entries) the
   entries 0 .. n-1 *)
Definition crng_ok (n : Z) (len_obs : Z) (entries : option (list Z)) : bool :=
  (Z.max n 0 =? len_obs) && match entries with None => true | Some l => zlist_eqb l (map Z.of_nat (seq 0 (Z.to_nat n))) end.

Definition zsk_sampler_ok (calls : list (Z * Z * Z)) (d : zdata) (fk : option Samplers) (freq : sk_dyn StratifiedCount)
           (gk : option Samplers) (greq : sk_dyn StratifiedCount) (max_iters : Z)
           (fo go : oconf) (crng_len_obs : Z) (crng_entries : option (list Z)) : bool :=
  match zs_init (cd_table calls) d fk freq gk greq max_iters tt with
  | None => false
  | Some (f, g, c) => gconf_obs_eqb f fo && gconf_obs_eqb g go && crng_ok c crng_len_obs crng_entries
  end.
Definition zsk_sampler_raises (calls : list (Z * Z * Z)) (d : zdata) (fk : option Samplers) (freq : sk_dyn StratifiedCount)
           (gk : option Samplers) (greq : sk_dyn StratifiedCount) (max_iters : Z) : bool :=
  match zs_init (cd_table calls) d fk freq gk greq max_iters tt with None => true | Some _ => false end.

(* non-vacuity: a sparse 2 x 3 tensor with 5 nonzeros, all defaults, max_iters 1000; a dense one with a semi-stratified gradient
   sampler and an explicit StratifiedCount; a rejected request (stratified sampling of dense data) *)
Example zsk_sampler_example :
  zs_init (fun a b => (a + b - 1) / b) (true, 6, 5) None SkNone None SkNone 1000 tt = Some (GStratified 5 1, GStratified 5 1, 0) /\
  zs_init (fun a b => (a + b - 1) / b) (false, 6, 3) None SkNone (Some Samplers_SEMISTRATIFIED) (SkObj (mk_StratifiedCount 3 2)) 7 tt
    = Some (GUniform (SkInt 6), GSemistrat 2 3, 2) /\
  zs_init (fun a b => (a + b - 1) / b) (false, 6, 3) (Some Samplers_STRATIFIED) SkNone None SkNone 7 tt = None /\
  zs_init (fun a b => (a + b - 1) / b) (true, 6, 5) None SkNone (Some Samplers_UNIFORM) (SkInt 4) 7 tt
    = Some (GStratified 5 1, GPoisson (20, 6) (4, 6), 0).
Proof. repeat split; vm_compute; reflexivity. Qed.
