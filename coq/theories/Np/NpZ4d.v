(* Np/NpZ4d.v — primitives for sptensor.squeeze (Gen/GenSptensor4b.v): the method returns a tensor or a number; an array
   compared with a Python int.  Definitions only; validated by tools/props/w4gen.py. *)
From Coq Require Import List ZArith Bool.
From PV Require Import Np.NpZ Np.NpZ2 Np.NpZ3.
Import ListNotations.
Local Open Scope Z_scope.

(* the value of sptensor.squeeze(): a sparse tensor, or (every mode a singleton) a number *)
Inductive sq_result := SqTensor (t : sptz) | SqScalar (v : Z).
(* a > c element-wise for a 1-d array and a Python int *)
Definition np_gt_s (a : vec) (c : Z) : bvec := map (fun x => x >? c) a.
