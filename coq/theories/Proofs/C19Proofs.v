(* Proofs/C19Proofs.v — guard_<op> rejects exactly when pre_<op> fails (or: refuted + partial). *)
From Coq Require Import List ZArith Bool Lia Permutation.
From PV Require Import Np.NpZ Gen.GenUtils Proofs.NpZProofs Proofs.UtilsProofs Model.C19Guards.
Import ListNotations.
Local Open Scope Z_scope.

(* ---------------------------------------------------------------------------------------- *)
(* plumbing                                                                                   *)
(* ---------------------------------------------------------------------------------------- *)
Lemma res_unit_decide (r : res unit) : r = decide (is_ok r).
Proof. destruct r as [[]|]; reflexivity. Qed.

Lemma is_ok_chk b : is_ok (chk b) = b.
Proof. destruct b; reflexivity. Qed.

Lemma is_ok_andthen r1 r2 : is_ok (r1 ;; r2) = is_ok r1 && is_ok r2.
Proof. destruct r1 as [[]|]; reflexivity. Qed.

Lemma is_ok_decide b : is_ok (decide b) = b.
Proof. destruct b; reflexivity. Qed.

Lemma decide_by (r : res unit) (b : bool) : is_ok r = b -> r = decide b.
Proof. intros <-. apply res_unit_decide. Qed.

Lemma is_ok_chk_all {A} (f : A -> res unit) l : is_ok (chk_all f l) = forallb (fun x => is_ok (f x)) l.
Proof. induction l as [|x l IH]; [reflexivity|]. cbn. now rewrite is_ok_andthen, IH. Qed.

(* the two halves of the property follow from "guard = decide pre" *)
Lemma decide_rejects (g : res unit) p : g = decide p -> p = false -> g = Err.
Proof. intros -> ->. reflexivity. Qed.
Lemma decide_accepts (g : res unit) p : g = decide p -> p = true -> g = Ok tt.
Proof. intros -> ->. reflexivity. Qed.

Ltac okb := repeat (rewrite ?is_ok_andthen, ?is_ok_chk, ?is_ok_decide, ?is_ok_chk_all).

(* a rejected mutating request leaves the receiver as it was *)
Lemma run_mut_rejected {S} (g : res unit) (upd : S -> S) (s : S) : g = Err -> run_mut g upd s = (s, false).
Proof. intros ->. reflexivity. Qed.
Lemma run_mut_answered {S} (g : res unit) (upd : S -> S) (s : S) : g = Ok tt -> run_mut g upd s = (upd s, true).
Proof. intros ->. reflexivity. Qed.

Lemma forallb_perm {A} (f : A -> bool) l l' : Permutation l l' -> forallb f l = forallb f l'.
Proof.
  induction 1; cbn; try congruence.
  - destruct (f y), (f x); reflexivity.
Qed.

Lemma shape_eqb_refl s : shape_eqb s s = true.
Proof.
  unfold shape_eqb. rewrite Z.eqb_refl. cbn. induction s as [|x s IH]; [reflexivity|].
  cbn. now rewrite Z.eqb_refl.
Qed.

Lemma shape_eqb_eq a b : shape_eqb a b = true <-> a = b.
Proof.
  split; [|intros ->; apply shape_eqb_refl].
  unfold shape_eqb, zlen. rewrite andb_true_iff, Z.eqb_eq. intros [Hl H].
  apply Nat2Z.inj in Hl. revert b Hl H. induction a as [|x a IH]; intros [|y b] Hl H; try discriminate; [reflexivity|].
  cbn in *. apply andb_true_iff in H as [E H]. apply Z.eqb_eq in E. subst. f_equal. apply IH; auto.
Qed.

(* ---------------------------------------------------------------------------------------- *)
(* numpy's checks vs. the vocabulary of the preconditions, on non-negative arguments           *)
(* ---------------------------------------------------------------------------------------- *)
Lemma np_idx_ok_nonneg n k : 0 <= k -> np_idx_ok n k = in_range n k.
Proof.
  intros H. unfold np_idx_ok, in_range.
  destruct (Z.leb_spec (-n) k), (Z.leb_spec 0 k), (Z.ltb_spec k n); cbn; try reflexivity; lia.
Qed.

Lemma np_norm_nonneg n k : 0 <= k -> np_norm n k = k.
Proof. intros H. unfold np_norm. destruct (Z.ltb_spec k 0); [lia|reflexivity]. Qed.

Lemma map_np_norm_nonneg n l : (forall x, In x l -> 0 <= x) -> map (np_norm n) l = l.
Proof.
  induction l as [|x l IH]; intros H; [reflexivity|]. cbn. rewrite np_norm_nonneg by (apply H; now left).
  f_equal. apply IH. intros y Hy. apply H. now right.
Qed.

Lemma forallb_ext_in {A} (f g : A -> bool) l : (forall x, In x l -> f x = g x) -> forallb f l = forallb g l.
Proof.
  induction l as [|x l IH]; intros H; [reflexivity|]. cbn. rewrite (H x) by now left. f_equal.
  apply IH. intros y Hy. apply H. now right.
Qed.

Lemma np_transpose_ok_nonneg N o : (forall x, In x o -> 0 <= x) -> np_transpose_ok N o = is_permb N o.
Proof.
  intros H. unfold np_transpose_ok, is_permb, modes_ok. rewrite map_np_norm_nonneg by auto.
  rewrite (forallb_ext_in (np_idx_ok N) (in_range N)); [now rewrite andb_assoc|].
  intros x Hx. apply np_idx_ok_nonneg; auto.
Qed.

Lemma szw_nonneg s k : 0 <= k -> szw s k = sz s k.
Proof. intros H. unfold szw, sz. now rewrite np_norm_nonneg. Qed.

(* ======================================================================================== *)
(* tensor                                                                                     *)
(* ======================================================================================== *)
Theorem tensor_ctor_decides dshape shape : guard_tensor_ctor dshape shape = decide (pre_tensor_ctor dshape shape).
Proof.
  apply decide_by. unfold guard_tensor_ctor, pre_tensor_ctor, np_reshape_ok.
  destruct (zlen _ =? 0); okb; [reflexivity|]. now rewrite andb_diag.
Qed.

Theorem tensor_reshape_decides s new : guard_tensor_reshape s new = decide (pre_tensor_reshape s new).
Proof.
  apply decide_by. unfold guard_tensor_reshape, pre_tensor_reshape, np_reshape_ok. okb.
  rewrite (Z.eqb_sym (zprod new)). apply andb_diag.
Qed.

Theorem tensor_innerprod_decides s u : guard_tensor_innerprod s u = decide (pre_tensor_innerprod s u).
Proof. reflexivity. Qed.

(* permute: after sorted_perm_bool below *)

(* element-wise binary operations: tenfun_binary compares the shapes before numpy sees them (C19-N02 repaired) *)
Lemma bcast_rev_refl a : bcast_rev a a = true.
Proof. induction a as [|x a IH]; [reflexivity|]. cbn. now rewrite Z.eqb_refl, IH. Qed.

Theorem tensor_binop_decides s u : guard_tensor_binop s u = decide (pre_tensor_binop s u).
Proof.
  apply decide_by. unfold guard_tensor_binop, pre_tensor_binop, np_broadcast_ok. okb.
  destruct (shape_eqb s u) eqn:E; [|reflexivity]. apply shape_eqb_eq in E. subst. now rewrite bcast_rev_refl.
Qed.

(* contract: Proofs/C19Ttv.v (needs the complement/permutation facts) *)

(* ======================================================================================== *)
(* shared request shapes                                                                      *)
(* ======================================================================================== *)
Theorem same_shape_decides s u : guard_same_shape s u = decide (pre_same_shape s u).
Proof. reflexivity. Qed.

(* "sorted(order) == range(N)" is exactly "order is a permutation of the modes" *)
Lemma nodupb_spec l : nodupb l = true <-> NoDup l.
Proof.
  induction l as [|x l IH]; cbn.
  - split; [constructor|reflexivity].
  - rewrite andb_true_iff, negb_true_iff, IH. split.
    + intros [Hm Hn]. constructor; auto. intros Hin. apply zmem_spec in Hin. congruence.
    + intros H. inversion H; subst. split; auto. destruct (zmem x l) eqn:E; [|reflexivity].
      apply zmem_spec in E. contradiction.
Qed.

Lemma np_arange_NoDup a b : NoDup (np_arange a b).
Proof.
  unfold np_arange. apply FinFun.Injective_map_NoDup; [|apply seq_NoDup].
  intros x y H. lia.
Qed.

Lemma np_arange_length a b : zlen (np_arange a b) = Z.max 0 (b - a).
Proof. unfold np_arange, zlen. rewrite map_length, seq_length. lia. Qed.

Lemma sorted_le_of_lt l : Sorted.StronglySorted Z.lt l -> Sorted.Sorted Z.le l.
Proof. apply sorted_lt_le. Qed.

Lemma is_permb_Permutation N o : 0 <= N -> is_permb N o = true -> Permutation o (np_arange 0 N).
Proof.
  intros HN H. unfold is_permb, modes_ok in H. apply andb_true_iff in H as [Hl H]. apply andb_true_iff in H as [Hr Hd].
  apply Z.eqb_eq in Hl. apply nodupb_spec in Hd. rewrite forallb_forall in Hr.
  apply NoDup_Permutation_bis; auto.
  - unfold zlen in Hl. pose proof (np_arange_length 0 N) as L. unfold zlen in L. lia.
  - intros x Hx. apply in_np_arange. specialize (Hr x Hx). unfold in_range in Hr.
    apply andb_true_iff in Hr as [A B]. apply Z.leb_le in A. apply Z.ltb_lt in B. lia.
Qed.

Lemma Permutation_is_permb N o : 0 <= N -> Permutation o (np_arange 0 N) -> is_permb N o = true.
Proof.
  intros HN H. unfold is_permb, modes_ok. rewrite !andb_true_iff. repeat split.
  - apply Z.eqb_eq. unfold zlen. rewrite (Permutation_length H). pose proof (np_arange_length 0 N) as L. unfold zlen in L. lia.
  - apply forallb_forall. intros x Hx. apply (Permutation_in _ H) in Hx. apply in_np_arange in Hx.
    unfold in_range. apply andb_true_iff. split; [apply Z.leb_le|apply Z.ltb_lt]; lia.
  - apply nodupb_spec. apply (Permutation_NoDup (Permutation_sym H)). apply np_arange_NoDup.
Qed.

Lemma sorted_perm_unique l l' :
  Sorted.StronglySorted Z.le l -> Sorted.StronglySorted Z.le l' -> Permutation l l' -> l = l'.
Proof.
  revert l'. induction l as [|x t IH]; intros l' Hs Hs' Hp.
  - apply Permutation_nil in Hp. now subst.
  - destruct l' as [|y t']; [apply Permutation_sym, Permutation_nil in Hp; discriminate|].
    inversion Hs as [|? ? Hst Hx]; subst. inversion Hs' as [|? ? Hst' Hy]; subst.
    rewrite Forall_forall in Hx, Hy.
    assert (x = y).
    { assert (In x (y :: t')) as [E|Hin] by (apply (Permutation_in _ Hp); now left); [now subst|].
      assert (In y (x :: t)) as [E|Hin'] by (apply (Permutation_in _ (Permutation_sym Hp)); now left); [now subst|].
      specialize (Hx y Hin'). specialize (Hy x Hin). lia. }
    subst. f_equal. apply IH; auto. eapply Permutation_cons_inv; eauto.
Qed.

Lemma np_sort_perm_eq l l' : Permutation l l' -> np_sort l = np_sort l'.
Proof.
  intros H. apply sorted_perm_unique.
  - apply Sorted.Sorted_StronglySorted; [intros a b c; lia|apply np_sort_sorted].
  - apply Sorted.Sorted_StronglySorted; [intros a b c; lia|apply np_sort_sorted].
  - eapply Permutation_trans; [apply np_sort_perm|]. eapply Permutation_trans; [exact H|]. symmetry. apply np_sort_perm.
Qed.

Theorem sorted_perm_decides s order : guard_sorted_perm s order = decide (pre_perm s order).
Proof.
  apply decide_by. unfold guard_sorted_perm, pre_perm. okb.
  assert (HN : 0 <= ndim s) by (unfold ndim, zlen; lia).
  destruct (shape_eqb (np_sort order) (np_arange 0 (ndim s))) eqn:E.
  - symmetry. apply shape_eqb_eq in E. apply Permutation_is_permb; auto. rewrite <- E. symmetry. apply np_sort_perm.
  - symmetry. destruct (is_permb (ndim s) order) eqn:P; [|reflexivity]. exfalso.
    apply is_permb_Permutation in P; auto.
    assert (np_sort order = np_arange 0 (ndim s)).
    { rewrite <- (np_sort_id (np_arange 0 (ndim s))) by (apply sorted_lt_le, np_arange_sorted).
      apply np_sort_perm_eq. exact P. }
    rewrite H, shape_eqb_refl in E. discriminate.
Qed.

Lemma sorted_perm_bool N o : 0 <= N -> shape_eqb (np_sort o) (np_arange 0 N) = is_permb N o.
Proof.
  intros HN. pose proof (sorted_perm_decides (repeat 0 (Z.to_nat N)) o) as H.
  unfold guard_sorted_perm, pre_perm, ndim, zlen in H. rewrite repeat_length, Z2Nat.id in H by lia.
  apply (f_equal is_ok) in H. now rewrite is_ok_chk, is_ok_decide in H.
Qed.

(* ---- tensor.permute (C19-N01 repaired: the order is compared with range(ndims) before np.transpose); the
   "(order == 1).all()" shortcut is left on 1-way tensors, where it answers the invalid order [1] (A-28, known) ---- *)
Definition tensor_permute_stmt : Prop :=
  forall s order, guard_tensor_permute s order = decide (pre_tensor_permute s order).

Theorem tensor_permute_refuted : ~ tensor_permute_stmt.
Proof. intros H. specialize (H [4] [1]). vm_compute in H. discriminate. Qed.

(* the former witnesses of C19-N01 and of A-28 on a matrix are rejected now *)
Theorem tensor_permute_rejects_2way : guard_tensor_permute [2; 3] [1; 1] = Err /\ pre_tensor_permute [2; 3] [1; 1] = false.
Proof. split; reflexivity. Qed.
Theorem tensor_permute_rejects_negative : guard_tensor_permute [2; 3] [-1; 0] = Err /\ pre_tensor_permute [2; 3] [-1; 0] = false.
Proof. split; reflexivity. Qed.

Definition all_ones (o : vec) : bool := negb (zlen o =? 0) && forallb (fun x => x =? 1) o.

Lemma is_permb_entries_nonneg N o : is_permb N o = true -> forall x, In x o -> 0 <= x.
Proof.
  unfold is_permb, modes_ok. intros H x Hx. apply andb_true_iff in H as [_ H]. apply andb_true_iff in H as [H _].
  rewrite forallb_forall in H. specialize (H x Hx). unfold in_range in H. apply andb_true_iff in H as [H _].
  now apply Z.leb_le in H.
Qed.

(* every request except an all-ones order on a 1-way tensor (that is: order [1]) *)
Theorem tensor_permute_partial s order :
  (ndim s =? 1) && all_ones order = false ->
  guard_tensor_permute s order = decide (pre_tensor_permute s order).
Proof.
  intros Hone. apply decide_by. unfold guard_tensor_permute, pre_tensor_permute. okb.
  unfold all_ones in Hone.
  destruct (zlen order =? 0) eqn:E0.
  - cbn. rewrite andb_true_r. apply Z.eqb_eq in E0. unfold is_permb. rewrite E0.
    destruct order; [|unfold zlen in E0; cbn in E0; lia]. cbn. now rewrite andb_true_r.
  - cbn [negb andb] in Hone. rewrite Hone. okb. rewrite sorted_perm_bool by (unfold ndim, zlen; lia).
    destruct (is_permb (ndim s) order) eqn:P; cbn [andb]; [|apply andb_false_r].
    rewrite np_transpose_ok_nonneg by (eapply is_permb_entries_nonneg; eauto). rewrite P.
    unfold is_permb in P. apply andb_true_iff in P as [P _]. rewrite Z.eqb_sym. now rewrite P.
Qed.

(* the rejection half holds without side condition for the length test *)
Theorem tensor_permute_rejects_length s order : zlen order <> ndim s -> guard_tensor_permute s order = Err.
Proof.
  intros H. unfold guard_tensor_permute. destruct (ndim s =? zlen order) eqn:E; [|reflexivity].
  apply Z.eqb_eq in E. congruence.
Qed.

Lemma forallb_is_ok_chk {A} (f : A -> bool) l : forallb (fun x => is_ok (chk (f x))) l = forallb f l.
Proof. apply forallb_ext_in. intros x _. apply is_ok_chk. Qed.

(* ---- sptensor ---- *)
Theorem sptensor_innerprod_decides s e u : guard_sptensor_innerprod s e u = decide (pre_sptensor_innerprod s e u).
Proof.
  apply decide_by. unfold guard_sptensor_innerprod, pre_sptensor_innerprod. okb.
  destruct (shape_eqb s u), e; reflexivity.
Qed.

(* ---- ktensor ---- *)
Theorem ktensor_ctor_decides ms w : guard_ktensor_ctor ms w = decide (pre_ktensor_ctor ms w).
Proof. apply decide_by. unfold guard_ktensor_ctor, pre_ktensor_ctor. destruct w; okb; [reflexivity|]. cbn. now rewrite andb_true_r. Qed.

Theorem ktensor_arrange_decides R p : guard_ktensor_arrange R p = decide (pre_ktensor_arrange R p).
Proof.
  apply decide_by. unfold guard_ktensor_arrange, pre_ktensor_arrange. okb.
  destruct (Z.eqb_spec (zlen p) R) as [E|E]; cbn [andb].
  - rewrite sorted_perm_bool by (subst R; unfold zlen; lia). reflexivity.
  - unfold is_permb. destruct (Z.eqb_spec (zlen p) R); [contradiction|reflexivity].
Qed.

Theorem ktensor_extract_decides R idx : guard_ktensor_extract R idx = decide (pre_ktensor_extract R idx).
Proof.
  apply decide_by. unfold guard_ktensor_extract, pre_ktensor_extract. okb. f_equal.
  destruct (Z.eqb_spec (zlen idx) 0), (Z.ltb_spec R (zlen idx)), (Z.leb_spec 1 (zlen idx)), (Z.leb_spec (zlen idx) R);
    cbn; try reflexivity; try lia.
  unfold zlen in *. lia.
Qed.

(* ---- ttensor ---- *)
Theorem ttensor_ctor_decides core ms : guard_ttensor_ctor core ms = decide (pre_ttensor_ctor core ms).
Proof.
  apply decide_by. unfold guard_ttensor_ctor, pre_ttensor_ctor. okb. rewrite forallb_is_ok_chk.
  now rewrite (Z.eqb_sym (ndim core)).
Qed.

(* ---- sptenmat (A-44 repaired) ---- *)
Theorem sptenmat_ctor_decides mr mc rd cd ts :
  guard_sptenmat_ctor mr mc rd cd ts = decide (pre_sptenmat_ctor mr mc rd cd ts).
Proof.
  apply decide_by. unfold guard_sptenmat_ctor, pre_sptenmat_ctor. okb.
  rewrite sorted_perm_bool by (unfold ndim, zlen; lia).
  replace ((zlen (rd ++ cd) =? ndim ts) && is_permb (ndim ts) (rd ++ cd)) with (is_permb (ndim ts) (rd ++ cd))
    by (unfold is_permb; now rewrite andb_assoc, andb_diag).
  now rewrite andb_assoc.
Qed.

(* ---- tenmat / sumtensor / khatrirao / import_data ---- *)
Theorem tenmat_mul_decides a b : guard_tenmat_mul a b = decide (pre_tenmat_mul a b).
Proof. reflexivity. Qed.
Theorem all_same_shape_decides l : guard_all_same_shape l = decide (pre_all_same_shape l).
Proof. destruct l; reflexivity. Qed.
Theorem khatrirao_decides ms : guard_khatrirao ms = decide (pre_khatrirao ms).
Proof. reflexivity. Qed.
Theorem import_decides t n k : guard_import t n k = decide (pre_import t n k).
Proof. apply decide_by. unfold guard_import, pre_import. okb. now rewrite (Z.eqb_sym k). Qed.

(* ======================================================================================== *)
(* mode selection through the GENERATED tt_dimscheck (A-42) and its callers ttv / ttm         *)
(* ======================================================================================== *)
(* what the docstring demands of an explicit mode list: every ill-formed list is rejected by the generated helper
   (A-42 repaired: repeated and out-of-range modes are refused by tt_dimscheck itself) *)
Lemma forallb_false_ex {A} (f : A -> bool) l : forallb f l = false -> exists x, In x l /\ f x = false.
Proof.
  induction l as [|x l IH]; cbn; [discriminate|]. destruct (f x) eqn:E.
  - intros H. destruct (IH H) as (y & Hy & Fy). exists y. auto.
  - intros _. exists x. auto.
Qed.

Theorem dimscheck_rejects_bad_modes N M d : modes_ok N d = false -> tt_dimscheck N M (Some d) None = Err.
Proof.
  unfold modes_ok. intros H. apply andb_false_iff in H as [H|H].
  - apply forallb_false_ex in H as (x & Hx & Fx). unfold in_range in Fx.
    apply andb_false_iff in Fx as [Fx|Fx].
    + apply Z.leb_gt in Fx. eapply dimscheck_rejects_negative; eauto.
    + apply Z.ltb_ge in Fx. eapply dimscheck_rejects_out_of_range; eauto.
  - apply dimscheck_rejects_repeated. intros Hn. apply nodupb_spec in Hn. congruence.
Qed.

Lemma is_err_ttv_of_dimscheck s vlens dims excl :
  tt_dimscheck (ndim s) (Some (zlen vlens)) dims excl = Err -> guard_tensor_ttv s vlens dims excl = Err.
Proof. unfold guard_tensor_ttv. now intros ->. Qed.
Lemma is_err_ttm_of_dimscheck s ms dims excl tr :
  tt_dimscheck (ndim s) (Some (zlen ms)) dims excl = Err -> guard_tensor_ttm s ms dims excl tr = Err.
Proof. unfold guard_tensor_ttm. now intros ->. Qed.

Theorem tensor_ttv_rejects_both s vlens d e : guard_tensor_ttv s vlens (Some d) (Some e) = Err.
Proof. apply is_err_ttv_of_dimscheck, dimscheck_rejects_both. Qed.
Theorem tensor_ttv_rejects_negative s vlens d x : In x d -> x < 0 -> guard_tensor_ttv s vlens (Some d) None = Err.
Proof. intros. eapply is_err_ttv_of_dimscheck, dimscheck_rejects_negative; eauto. Qed.
Theorem tensor_ttv_rejects_exclude_range s vlens e x :
  In x e -> ~ (0 <= x < ndim s) -> guard_tensor_ttv s vlens None (Some e) = Err.
Proof. intros. eapply is_err_ttv_of_dimscheck, dimscheck_rejects_exclude_range; eauto. Qed.
Theorem tensor_ttv_rejects_count s vlens d : (forall x, In x d -> 0 <= x < ndim s) -> NoDup d ->
  (zlen vlens > ndim s \/ (zlen vlens <> ndim s /\ zlen vlens <> zlen d)) -> guard_tensor_ttv s vlens (Some d) None = Err.
Proof. intros. apply is_err_ttv_of_dimscheck, dimscheck_rejects_count; auto. Qed.

Theorem tensor_ttm_rejects_both s ms d e tr : guard_tensor_ttm s ms (Some d) (Some e) tr = Err.
Proof. apply is_err_ttm_of_dimscheck, dimscheck_rejects_both. Qed.
Theorem tensor_ttm_rejects_negative s ms d x tr : In x d -> x < 0 -> guard_tensor_ttm s ms (Some d) None tr = Err.
Proof. intros. eapply is_err_ttm_of_dimscheck, dimscheck_rejects_negative; eauto. Qed.
Theorem tensor_ttm_rejects_count s ms d tr : (forall x, In x d -> 0 <= x < ndim s) -> NoDup d ->
  (zlen ms > ndim s \/ (zlen ms <> ndim s /\ zlen ms <> zlen d)) -> guard_tensor_ttm s ms (Some d) None tr = Err.
Proof. intros. apply is_err_ttm_of_dimscheck, dimscheck_rejects_count; auto. Qed.

Theorem tensor_ttv_rejects_bad_modes s vlens d : modes_ok (ndim s) d = false -> guard_tensor_ttv s vlens (Some d) None = Err.
Proof. intros. now apply is_err_ttv_of_dimscheck, dimscheck_rejects_bad_modes. Qed.
Theorem tensor_ttm_rejects_bad_modes s ms d tr : modes_ok (ndim s) d = false -> guard_tensor_ttm s ms (Some d) None tr = Err.
Proof. intros. now apply is_err_ttm_of_dimscheck, dimscheck_rejects_bad_modes. Qed.
