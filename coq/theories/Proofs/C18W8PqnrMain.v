(* Proofs/C18W8PqnrMain.v — C18 print-independence of the GENERATED tt_cp_apr_pqnr driver (Gen/GenCpAprPqnr.v); loop lemmas and the
   discussion of what is read from printitn / printinneritn: Proofs/C18W8Pqnr.v *)
From Coq Require Import String List Arith Bool Lia.
From PV Require Import Model.W4SPrelude Gen.GenCpAprPqnr Proofs.C18W8Util Proofs.C18W8Pqnr.
Import ListNotations.
Local Open Scope nat_scope.

Section PQNR.
Variables T_W T_F T_K T_X T_Pi T_Xmat T_Idx T_Row T_Mem : Type.
Variable c_leF : T_F -> T_F -> bool.
Variable c_zeroF : T_F.
Variable c_m1F : T_F.
Variable c_subF : T_F -> T_F -> T_F.
Variable k_normalize : T_K -> nat -> T_K.
Variable k_is_sptensor : T_X -> bool.
Variable k_time : T_W -> T_W * T_F.
Variable k_num_rows : T_K -> nat -> nat.
Variable k_row_indices : T_X -> nat -> nat -> T_Idx.
Variable k_redistribute : T_K -> nat -> T_K.
Variable k_calcpi_dense : T_X -> T_K -> nat -> nat -> nat -> bool -> T_Pi.
Variable k_unfold : T_X -> nat -> T_Xmat.
Variable k_idx_empty : T_Idx -> bool.
Variable k_zero_row : T_K -> nat -> nat -> T_K.
Variable k_vals_at : T_X -> T_Idx -> T_Row.
Variable k_calcpi_sparse : T_X -> T_K -> nat -> nat -> nat -> bool -> T_Idx -> T_Pi.
Variable k_get_row : T_K -> nat -> nat -> T_Row.
Variable k_zeros_mem : nat -> nat -> T_Mem.
Variable k_empty_row : T_Row -> T_Row.
Variable k_calc_grad : bool -> T_Pi -> T_F -> T_Row -> T_Row -> T_Row * T_Row.
Variable k_linesearch_first : T_Row -> T_Row -> bool -> T_Row -> T_Pi -> T_Row -> bool -> T_Row * nat.
Variable k_kkt_row : T_Row -> T_Row -> T_F.
Variable k_row_sub : T_Row -> T_Row -> T_Row.
Variable k_row_dot : T_Row -> T_Row -> T_F.
Variable k_is_zeroF : T_F -> bool.
Variable k_recip : T_F -> T_F.
Variable k_set_col : T_Mem -> nat -> T_Row -> T_Mem.
Variable k_search_dir_pqnr : T_Row -> T_Row -> T_F -> T_Mem -> T_Mem -> list T_F -> nat -> nat -> bool -> T_Row.
Variable k_linesearch : T_Row -> T_Row -> T_Row -> bool -> T_Row -> T_Pi -> T_Row -> bool -> T_Row * nat.
Variable k_last_rho_positive : list T_F -> nat -> bool.
Variable k_set_row : T_K -> nat -> nat -> T_Row -> T_K.
Variable k_xmat_row : T_Xmat -> nat -> T_Row.
Variable k_any_row : T_Row -> bool.
Variable k_normalize_mode : T_K -> nat -> nat -> T_K.
Variable k_count_zero : T_K -> nat -> nat.
Variable k_max : list T_F -> T_F.
Variable k_print_now : nat -> nat -> bool.
Variable k_neg_loglikelihood : T_X -> T_K -> T_F.
Variable k_normalize_sort : T_K -> nat -> bool -> T_K.
Variable k_loglikelihood : T_X -> T_K -> T_F.

Notation gl1 := (GenCpAprPqnr.cp_apr_pqnr_loop1 T_K T_X T_Idx k_num_rows k_row_indices).
Notation gl2 := (GenCpAprPqnr.cp_apr_pqnr_loop2 T_X T_Idx k_row_indices).
Notation gl3 := (GenCpAprPqnr.cp_apr_pqnr_loop3 T_W T_F T_K T_X T_Pi T_Xmat T_Idx T_Row T_Mem c_leF c_zeroF c_subF k_is_sptensor k_time k_num_rows k_row_indices k_redistribute k_calcpi_dense k_unfold k_idx_empty k_zero_row k_vals_at k_calcpi_sparse k_get_row k_zeros_mem k_empty_row k_calc_grad k_linesearch_first k_kkt_row k_row_sub k_row_dot k_is_zeroF k_recip k_set_col k_search_dir_pqnr k_linesearch k_last_rho_positive k_set_row k_xmat_row k_any_row k_normalize_mode k_count_zero k_max k_print_now k_neg_loglikelihood).
Notation gl4 := (GenCpAprPqnr.cp_apr_pqnr_loop4 T_F T_K T_X T_Pi T_Xmat T_Idx T_Row T_Mem c_leF c_zeroF k_is_sptensor k_num_rows k_row_indices k_redistribute k_calcpi_dense k_unfold k_idx_empty k_zero_row k_vals_at k_calcpi_sparse k_get_row k_zeros_mem k_empty_row k_calc_grad k_linesearch_first k_kkt_row k_row_sub k_row_dot k_is_zeroF k_recip k_set_col k_search_dir_pqnr k_linesearch k_last_rho_positive k_set_row k_xmat_row k_any_row k_normalize_mode).
Notation gl5 := (GenCpAprPqnr.cp_apr_pqnr_loop5 T_F T_K T_X T_Pi T_Xmat T_Idx T_Row T_Mem c_leF c_zeroF k_is_sptensor k_row_indices k_idx_empty k_zero_row k_vals_at k_calcpi_sparse k_get_row k_zeros_mem k_empty_row k_calc_grad k_linesearch_first k_kkt_row k_row_sub k_row_dot k_is_zeroF k_recip k_set_col k_search_dir_pqnr k_linesearch k_last_rho_positive k_set_row k_xmat_row k_any_row).
Notation gl6 := (GenCpAprPqnr.cp_apr_pqnr_loop6 T_F T_Pi T_Row T_Mem c_leF k_calc_grad k_linesearch_first k_kkt_row k_row_sub k_row_dot k_is_zeroF k_recip k_set_col k_search_dir_pqnr k_linesearch k_last_rho_positive).
Notation gl7 := (GenCpAprPqnr.cp_apr_pqnr_loop7 T_F T_Pi T_Row T_Mem c_leF k_calc_grad k_linesearch_first k_kkt_row k_row_sub k_row_dot k_is_zeroF k_recip k_set_col k_search_dir_pqnr k_linesearch k_last_rho_positive).
Notation gl8 := (GenCpAprPqnr.cp_apr_pqnr_loop8 T_K k_count_zero).
Notation gpqnr := (GenCpAprPqnr.cp_apr_pqnr T_W T_F T_K T_X T_Pi T_Xmat T_Idx T_Row T_Mem c_leF c_zeroF c_m1F c_subF k_normalize k_is_sptensor k_time k_num_rows k_row_indices k_redistribute k_calcpi_dense k_unfold k_idx_empty k_zero_row k_vals_at k_calcpi_sparse k_get_row k_zeros_mem k_empty_row k_calc_grad k_linesearch_first k_kkt_row k_row_sub k_row_dot k_is_zeroF k_recip k_set_col k_search_dir_pqnr k_linesearch k_last_rho_positive k_set_row k_xmat_row k_any_row k_normalize_mode k_count_zero k_max k_print_now k_neg_loglikelihood k_normalize_sort k_loglikelihood).

(* the row kernels' answers do not depend on the warning-display flag *)
Hypothesis H_lsf : forall g m sp x Pi ph (b : bool), k_linesearch_first g m sp x Pi ph b = k_linesearch_first g m sp x Pi ph false.
Hypothesis H_sd : forall m g e dm dg rho pos i (b : bool), k_search_dir_pqnr m g e dm dg rho pos i b = k_search_dir_pqnr m g e dm dg rho pos i false.
Hypothesis H_ls : forall d g m sp x Pi ph (b : bool), k_linesearch d g m sp x Pi ph b = k_linesearch d g m sp x Pi ph false.

Theorem gen_cp_apr_pqnr_print_indep : forall w X rank init stoptol stoptime maxiters maxinner eps epsActive lbfgsMem precomp N
                                             (p1 q1 p2 q2 : nat),
  option_map c18w8_drop_fnvals (gpqnr w X rank init stoptol stoptime maxiters maxinner eps p1 q1 epsActive lbfgsMem precomp N) =
  option_map c18w8_drop_fnvals (gpqnr w X rank init stoptol stoptime maxiters maxinner eps p2 q2 epsActive lbfgsMem precomp N).
Proof.
  intros. cbv beta zeta delta [GenCpAprPqnr.cp_apr_pqnr].
  c18w8_lock ltac:(first
    [ match goal with
      | |- option_map _ (match ?A with _ => _ end) = option_map _ (match ?B with _ => _ end) =>
          lazymatch A with context [GenCpAprPqnr.cp_apr_pqnr_loop3] => idtac end;
          lazymatch A with context [match _ with _ => _ end] => fail | _ => idtac end;
          let HH := fresh "HH" in
          assert (HH : option_map (q_drop_fv _ _ _) A = option_map (q_drop_fv _ _ _) B)
            by (apply q_loop3_print; [exact H_lsf | exact H_sd | exact H_ls | reflexivity | rewrite repeat_length; lia]);
          destruct A as [s1|]; destruct B as [s2|]; cbn [option_map] in HH; try discriminate HH;
          [ repeat match goal with p : (_ * _)%type |- _ => destruct p end; cbn [q_drop_fv] in HH; inversion HH; subst | ]
      end
    | match goal with
      | |- option_map _ (Some _) = option_map _ (Some _) =>
          cbn [option_map c18w8_drop_fnvals];
          match goal with H : length ?a = length ?b |- _ => rewrite (c18w8_slice_len a b _ _ H) end; reflexivity
      end ]).
Qed.

(* the two printitn values print at the same iterations (e.g. both 0, or equal): fnVals is the same as well *)
Theorem gen_cp_apr_pqnr_print_same_gate : forall w X rank init stoptol stoptime maxiters maxinner eps epsActive lbfgsMem precomp N
                                                 (p1 q1 p2 q2 : nat),
  (forall i, (0 <? p1) && k_print_now i p1 = (0 <? p2) && k_print_now i p2) ->
  gpqnr w X rank init stoptol stoptime maxiters maxinner eps p1 q1 epsActive lbfgsMem precomp N =
  gpqnr w X rank init stoptol stoptime maxiters maxinner eps p2 q2 epsActive lbfgsMem precomp N.
Proof.
  intros until q2. intros Hg. cbv beta zeta delta [GenCpAprPqnr.cp_apr_pqnr].
  c18w8_lock ltac:(rewrite q_loop3_gate with (b2 := 0 <? q2) (p2 := p2) by assumption).
Qed.
End PQNR.
