(* Props/C20w5.v — wave 5: tendiag (pyttb/tensor.py) and sptendiag (pyttb/sptensor.py) LINE BY LINE (Model/C20Diag.v), every
   request, over the translator-GENERATED parse_one_d / parse_shape (Gen/GenUtils3b.v) and tt_subscheck / tt_valscheck /
   tt_sizecheck (Gen/GenUtils3.v), all regenerated from /repo on every run: an edit of one of these helpers in /repo breaks the
   proofs below.  Only statements, `exact`, Print Assumptions. *)
From Coq Require Import List Arith ZArith Bool.
From PV Require Import Np.NpZ Np.NpZ2 Np.NpZ3 Np.NpZ3b Gen.GenUtils3 Gen.GenUtils3b Proofs.W3Laws Proofs.W3ShapeArgs.
From PV Require Import Base.Index Np.Array Model.Sparse Model.Repr Model.Harness Model.C20Gen Model.C20Harness Model.C20Diag.
From PV Require Import Model.C20Lines Proofs.C20Diag Proofs.C20Lines.
Import ListNotations.

(* the two subscript expressions build the same N x M array, row k = (k, ..., k):
   sptendiag's np.tile(np.arange(0,N).transpose(), (M,1)).transpose() = tendiag's np.tile(np.arange(0,N)[:,None], (M,)) *)
Theorem C20_diag_subscripts_same : forall N M,
  np_transpose2 N (tile_row (np_arange N) M) = tile_column (np_arange N) M /\ tile_column (np_arange N) M = diag_subs N M.
Proof. exact (fun N M => conj (transpose_tile_row N M) (tile_column_diag N M)). Qed.
Print Assumptions C20_diag_subscripts_same.

(* tendiag as written = the request model ztendiag_req (C20_tendiag_request, C20_tendiag), for EVERY element argument the
   generated parse_one_d accepts (int, list, tuple, array with one non-trivial axis) and every shape argument (none, or
   anything the generated parse_shape accepts: int, list, tuple, integer array) *)
Theorem C20_tendiag_lines : forall el a sp so,
  parse_one_d el = Ok a -> nd_ndim a = 1%Z -> shape_parsed sp so ->
  py_tendiag el sp = res_of (ztendiag_req (nd_ints a) so).
Proof. exact py_tendiag_lines. Qed.
Print Assumptions C20_tendiag_lines.

(* ... and what the generated parsers reject is rejected *)
Theorem C20_tendiag_lines_reject : forall el a sh,
  (parse_one_d el = Err -> forall sp, py_tendiag el sp = Err) /\
  (parse_one_d el = Ok a -> parse_shape sh = Err -> py_tendiag el (Some sh) = Err).
Proof. exact py_tendiag_rejects. Qed.
Print Assumptions C20_tendiag_lines_reject.

(* the parsed elements are 1-d for an int, a flat list and every accepted ndarray (only a nested list gives a 2-d array, which
   both transliterations reject - numpy's assignment / reshape does in pyttb) *)
Theorem C20_diag_elements_1d :
  (forall k a, parse_one_d (SInt k) = Ok a -> nd_ndim a = 1%Z) /\
  (forall l a, parse_one_d (SList (ints l)) = Ok a -> nd_ndim a = 1%Z) /\
  (forall shp k d a, parse_one_d (SArr (mknd shp k d)) = Ok a -> nd_ndim a = 1%Z) /\
  (forall el a sp, parse_one_d el = Ok a -> nd_ndim a <> 1%Z -> py_tendiag el sp = Err /\ py_sptendiag el sp = Err).
Proof.
  exact (conj (proj1 parse_one_d_1d) (conj (proj1 (proj2 parse_one_d_1d)) (conj (proj2 (proj2 parse_one_d_1d)) py_diag_2d_rejected))).
Qed.
Print Assumptions C20_diag_elements_1d.

(* sptendiag as written (the order-0 guard, the transposed tile, from_aggregator with its generated argument checks and the
   generated size check on the constructed shape) = the request model zsptendiag_req (C20_sptendiag_request, C20_sptendiag) *)
Theorem C20_sptendiag_lines : forall el a sp so,
  parse_one_d el = Ok a -> nd_ndim a = 1%Z -> shape_parsed sp so ->
  py_sptendiag el sp = res_of (zsptendiag_req (nd_ints a) so).
Proof. exact py_sptendiag_lines. Qed.
Print Assumptions C20_sptendiag_lines.

Theorem C20_sptendiag_lines_reject : forall el a sh,
  (parse_one_d el = Err -> forall sp, py_sptendiag el sp = Err) /\
  (parse_one_d el = Ok a -> parse_shape sh = Err -> py_sptendiag el (Some sh) = Err).
Proof. exact py_sptendiag_rejects. Qed.
Print Assumptions C20_sptendiag_lines_reject.

(* the aggregating constructor as sptendiag calls it, on the diagonal subscripts and the constructed shape: the generated
   subscript and value checks pass, the generated size check decides, the result is the sparse diagonal *)
Theorem C20_aggregator_on_diagonal : forall (e : list Z) (so : option (list Z)),
  let N := length e in let cs := csz N so in let M := length cs in
  py_from_aggregator_sum (diag_subs N M) M e cs =
  if forallb (fun d => (0 <? d)%Z) cs then Ok (zsptendiag_z e so) else Err.
Proof. exact py_from_aggregator_sum_diag. Qed.
Print Assumptions C20_aggregator_on_diagonal.

(* dense and sparse diagonal generator denote THE SAME ARRAY, over an arbitrary value type with a zero test and an addition
   with right unit: same shape, both well-formed, the same entry at every subscript - element vectors longer or shorter
   than the requested shape, zero elements (written by the dense, not stored by the sparse generator) included *)
Theorem C20_diag_dense_sparse_agree : forall (V : Type) (v0 : V) (vadd : V -> V -> V) (isz : V -> bool),
  (forall v, isz v = true <-> v = v0) -> (forall x, vadd x v0 = x) ->
  forall (e : list V) (so : option shape),
  1 <= length (diag_shape (length e) so) ->
  dshape (tendiag v0 e so) = sshape (sptendiag v0 vadd isz e so) /\
  wf_dense (tendiag v0 e so) /\ wf_sp isz (sptendiag v0 vadd isz e so) /\
  forall i, den_dense v0 (tendiag v0 e so) i = den_sp v0 (sptendiag v0 vadd isz e so) i.
Proof. exact (@diag_dense_sparse_agree). Qed.
Print Assumptions C20_diag_dense_sparse_agree.

(* the two transliterations, on every request BOTH accept (whatever the flexible element / shape arguments were) *)
Theorem C20_diag_lines_agree : forall el sp T S,
  py_tendiag el sp = Ok T -> py_sptendiag el sp = Ok S ->
  dshape T = sshape S /\ wf_dense T /\ wf_sp zisz S /\ forall i, den_dense 0%Z T i = den_sp 0%Z S i.
Proof. exact py_diag_agree. Qed.
Print Assumptions C20_diag_lines_agree.

(* with at least one element both accept exactly the same requests: all but the empty shape *)
Theorem C20_diag_lines_accept_same : forall el a sp so,
  parse_one_d el = Ok a -> nd_ndim a = 1%Z -> nd_ints a <> [] -> shape_parsed sp so ->
  (py_tendiag el sp = Err <-> py_sptendiag el sp = Err) /\ (py_tendiag el sp = Err <-> so = Some []).
Proof. exact py_diag_accept_same. Qed.
Print Assumptions C20_diag_lines_accept_same.

(* ---------------------------------------------------------------- tenones / tenzeros with a flexible shape argument *)
(* tensor.from_function line by line (Model/C20Lines.py_dense_generator) over the GENERATED parse_shape = the request models of
   C20_dense_generator_guard behind parse_shape *)
Theorem C20_dense_generator_lines : forall sp,
  py_tenones sp = bind (parse_shape sp) (fun s => res_of (ztenones_chk s)) /\
  py_tenzeros_req sp = bind (parse_shape sp) (fun s => res_of (ztenzeros_chk s)).
Proof. exact py_dense_generator_chk. Qed.
Print Assumptions C20_dense_generator_lines.

(* every request, any constant fill: rejected EXACTLY WHEN the generated parse_shape rejects the argument or the parsed shape is
   empty or holds a negative size; otherwise exactly the parsed shape, well-formed, every cell the fill value *)
Theorem C20_dense_generator_request : forall (fill : Z) sp,
  (py_dense_generator fill sp = Err <->
     parse_shape sp = Err \/ exists s, parse_shape sp = Ok s /\ (s = [] \/ Exists (fun d => (d < 0)%Z) s)) /\
  (forall T, py_dense_generator fill sp = Ok T ->
     exists s, parse_shape sp = Ok s /\ dshape T = to_shape s /\ wf_dense T /\
               ddata T = repeat fill (size (to_shape s)) /\
               forall i, inb (to_shape s) i = true -> den_dense 0%Z T i = fill).
Proof. exact py_dense_generator_spec. Qed.
Print Assumptions C20_dense_generator_request.

Theorem C20_dense_generator_forms : forall fill : Z,
  (forall k, py_dense_generator fill (SInt k) = py_dense_generator fill (STuple (ints [k]))) /\
  (forall l, py_dense_generator fill (SList (ints l)) = py_dense_generator fill (STuple (ints l))).
Proof. exact py_dense_generator_forms. Qed.
Print Assumptions C20_dense_generator_forms.

Example C20_example_dense_generator_lines :
  py_tenones (SInt 3) = Ok (mkDense [3] [1; 1; 1]%Z) /\
  py_tenzeros_req (SArr (mknd [2; 1]%Z DInt [NFin 2; NFin 1])) = Ok (mkDense [2; 1] [0; 0]%Z) /\
  py_tenones (STuple []) = Err /\ py_tenones (STuple (ints [2; -1]%Z)) = Err /\
  py_tenones (SArr (mknd [2]%Z DFloat [NFin 2; NFin 1])) = Err /\
  py_tenones (STuple (ints [2; 0]%Z)) = Ok (mkDense [2; 0] []).
Proof. exact py_dense_generator_example. Qed.

Example C20_example_diag_lines :
  py_tendiag (SList (ints [5; 0; 7]%Z)) (Some (STuple (ints [2; 4]%Z))) =
    Ok (mkDense [3; 4] [5; 0; 0; 0; 0; 0; 0; 0; 7; 0; 0; 0]%Z) /\
  py_sptendiag (SList (ints [5; 0; 7]%Z)) (Some (STuple (ints [2; 4]%Z))) = Ok (mkSp [3; 4] [[0; 0]; [2; 2]] [5; 7]%Z) /\
  py_tendiag (SInt 4) None = Ok (mkDense [1] [4%Z]) /\
  py_sptendiag (SList (ints [1; 2]%Z)) (Some (STuple [])) = Err /\
  py_tendiag (SList (ints [1; 2]%Z)) (Some (STuple [])) = Err /\
  py_tendiag (SList (ints [1; 2]%Z)) (Some (SList [EInt 2; EList [3%Z]])) = Err /\
  py_sptendiag (SList []) (Some (STuple (ints [2; 0]%Z))) = Err /\
  py_tendiag (SList []) (Some (STuple (ints [2; 0]%Z))) = Ok (mkDense [2; 0] []).
Proof. exact py_diag_example. Qed.
