(* Props/C18W4.v — C18, wave 4.  Only statements, `exact`, Print Assumptions.
   DENSE vs SPARSE for cp_apr with multiplicative updates on the numerical model of C11 (Model/C11Apr.v, Model/C11Sparse.v);
   proofs and a concrete run in Proofs/C18ReprMu.v.
   RELABELLING for Tucker-ALS on dense holders: the upd_perm / A_perm contracts of C18_relabel_tucker_als / _loop (Props/C18.v)
   discharged concretely; proofs and a concrete run in Proofs/C18TuckerPerm.v. *)
From Coq Require Import List Arith Bool ZArith Ring Permutation.
From PV Require Import Base.Index Base.Sum Np.Array Model.Sparse Model.Repr Model.C14Nvecs Model.C11Apr Model.C11Sparse
                       Model.C10Tucker Base.Perm Proofs.C18Tucker Proofs.C18Print Proofs.C18ReprMu Proofs.C18TuckerPerm.
Import ListNotations.

Section C18_repr_mu.
Variable V : Type.
Variables (v0 v1 : V) (vadd vmul vsub : V -> V -> V) (vopp : V -> V).
Hypothesis Vring : ring_theory v0 v1 vadd vmul vsub vopp (@eq V).
(* oracles: x / max(v, epsDivZero); normalisation scaling; |.|; min; max; Phi > 0; <  — and the option values *)
Variables (vdivmax vscale : V -> V -> V) (vabs : V -> V) (vmin vmax : V -> V -> V) (vgt0 : V -> bool) (vltb : V -> V -> bool).
Variables (kappa kappatol stoptol : V) (maxinner : nat).
Variable isz : V -> bool.
Local Notation MU_SP := (cp_apr_mu_sp V v0 v1 vadd vmul vsub vdivmax vscale vabs vmin vmax vgt0 vltb kappa kappatol stoptol maxinner).
Local Notation MU := (cp_apr_mu v0 v1 vadd vmul vsub vdivmax vscale vabs vmin vmax vgt0 vltb kappa kappatol stoptol maxinner).

(* tt_cp_apr_mu on an sptensor (Pi rows per stored nonzero, accumarray Phi) and on a tensor (Khatri-Rao Pi, matrix Phi) that denote
   the same array, same guess, same options: IDENTICAL final state (weights, factors, Phi, per-mode KKT values, converged flag) and
   KKT trace (hence the same number of outer iterations) - every shape, order, rank, stored order of the nonzeros, every
   maxiters / maxinneriters / kappa / kappatol / stoptol, every commutative ring of values, every division oracle with 0 / max(v, eps) = 0 *)
Theorem C18_repr_cp_apr_mu : forall (S : sparse V) (X : dense V) (K : ktensor V) (maxiters : nat),
  wf_sp isz S -> dshape X = sshape S -> (forall i, den_dense v0 X i = den_sp v0 S i) ->
  (forall v, vdivmax v0 v = v0) -> kshape K = sshape S ->
  MU_SP S K maxiters = MU X K maxiters.
Proof. exact (cp_apr_mu_repr V v0 v1 vadd vmul vsub vopp Vring vdivmax vscale vabs vmin vmax vgt0 vltb kappa kappatol stoptol maxinner isz). Qed.

(* ... in particular for the dense holder S.full() *)
Theorem C18_repr_cp_apr_mu_full : forall (S : sparse V) (K : ktensor V) (maxiters : nat),
  wf_sp isz S -> (forall v, vdivmax v0 v = v0) -> kshape K = sshape S ->
  MU_SP S K maxiters = MU (full v0 S) K maxiters.
Proof. exact (cp_apr_mu_repr_full V v0 v1 vadd vmul vsub vopp Vring vdivmax vscale vabs vmin vmax vgt0 vltb kappa kappatol stoptol maxinner isz). Qed.

(* ... and two sparse holders of the same array (any two stored orders of the nonzeros) run identically *)
Theorem C18_repr_cp_apr_mu_orders : forall (S1 S2 : sparse V) (K : ktensor V) (maxiters : nat),
  wf_sp isz S1 -> wf_sp isz S2 -> sshape S1 = sshape S2 -> (forall i, den_sp v0 S1 i = den_sp v0 S2 i) ->
  (forall v, vdivmax v0 v = v0) -> kshape K = sshape S1 ->
  MU_SP S1 K maxiters = MU_SP S2 K maxiters.
Proof. exact (cp_apr_mu_repr_orders V v0 v1 vadd vmul vsub vopp Vring vdivmax vscale vabs vmin vmax vgt0 vltb kappa kappatol stoptol maxinner isz). Qed.

(* PRINTING on the numerical model.  Proofs/C18Print.v's transliterated DRIVER of tt_cp_apr_mu (print events, counters, epilogue; its
   numerics abstract) instantiated with the operations of the C11 model (mu_driver: fixslack = kappa_fix + any(V), redistribute,
   Phi / KKT, M[n] *= Phi[n], normalize(mode n), max of the per-mode KKT values; Phi = any function of (mode, state) that does not look
   at the state's flag; no time limit) computes the model loop: for every printitn / printinneritn (Python ints, negative included)
   the returned model is the epilogue applied to the loop's final state and output["kktViolations"] is the loop's KKT trace *)
Theorem C18_cp_apr_mu_driver_model : forall (phi : nat -> @state V -> list (list V)),
  (forall n c st, phi n (setc V c st) = phi n st) ->
  forall (printitn printinneritn : Z) (N : nat) (finish : @state V -> @state V) (loglik : @state V -> @state V * V)
         (lsfit : @state V -> V) (K : ktensor V) (maxiters : nat),
  length (kfactors K) = N ->
  let m := cp_apr_muG V v0 v1 vadd vmul vsub vscale vabs vmin vmax vgt0 vltb kappa kappatol stoptol maxinner phi K maxiters in
  let s1 := setc V true (fst m) in
  let r := fst (mu_driver V v0 v1 vadd vmul vsub vscale vabs vmin vmax vgt0 vltb kappa kappatol stoptol maxinner phi
                          printitn printinneritn N finish loglik lsfit K maxiters) in
  mu_model _ _ r = fst (loglik (finish s1)) /\ mu_kkt _ _ r = snd m /\ mu_obj _ _ r = snd (loglik (finish s1)).
Proof. exact (mu_driver_model V v0 v1 vadd vmul vsub vscale vabs vmin vmax vgt0 vltb kappa kappatol stoptol maxinner). Qed.

(* DENSE vs SPARSE and PRINTING together, on the driver: the run on an sptensor with settings (p1, q1) and the run on a tensor
   denoting the same array with settings (p2, q2) return the same model, KKT trace (hence number of outer iterations) and objective *)
Theorem C18_repr_print_cp_apr_mu : forall (S : sparse V) (X : dense V) (K : ktensor V) (maxiters : nat) (p1 q1 p2 q2 : Z)
    (finish : @state V -> @state V) (loglik : @state V -> @state V * V) (lsfit : @state V -> V),
  wf_sp isz S -> dshape X = sshape S -> (forall i, den_dense v0 X i = den_sp v0 S i) ->
  (forall v, vdivmax v0 v = v0) -> kshape K = sshape S ->
  let N := length (sshape S) in
  let r1 := fst (mu_driver V v0 v1 vadd vmul vsub vscale vabs vmin vmax vgt0 vltb kappa kappatol stoptol maxinner
                   (fun n st => calc_phi_sp_code v0 v1 vadd vmul vdivmax S n st) p1 q1 N finish loglik lsfit K maxiters) in
  let r2 := fst (mu_driver V v0 v1 vadd vmul vsub vscale vabs vmin vmax vgt0 vltb kappa kappatol stoptol maxinner
                   (fun n st => calc_phi v0 v1 vadd vmul vdivmax X n st) p2 q2 N finish loglik lsfit K maxiters) in
  mu_model _ _ r1 = mu_model _ _ r2 /\ mu_kkt _ _ r1 = mu_kkt _ _ r2 /\ mu_obj _ _ r1 = mu_obj _ _ r2.
Proof. exact (mu_driver_repr_print V v0 v1 vadd vmul vsub vopp Vring vdivmax vscale vabs vmin vmax vgt0 vltb kappa kappatol stoptol maxinner isz). Qed.
End C18_repr_mu.
Print Assumptions C18_repr_cp_apr_mu.
Print Assumptions C18_repr_cp_apr_mu_full.
Print Assumptions C18_repr_cp_apr_mu_orders.
Print Assumptions C18_cp_apr_mu_driver_model.
Print Assumptions C18_repr_print_cp_apr_mu.

Section C18_tucker_perm.
Variable V : Type.
Variables (v0 v1 : V) (vadd vmul vsub : V -> V -> V) (vopp : V -> V).
Hypothesis Vring : ring_theory v0 v1 vadd vmul vsub vopp (@eq V).
Local Notation matrix := (list (list V)).
Local Notation UPD := (upd_c V v0 vadd vmul).
Local Notation CORE := (core_c V v0 vadd vmul).

(* one mode update of tucker_als on X.permute(p) (factor list, rank list permuted; mode q n = p.index(n)): the Gram matrix of
   Utilde = X.ttm(U, exclude_dims, transpose=True) handed to nvecs equals the one of the original run, entry by entry - although the
   relabelled run multiplies the modes in ITS increasing order, i.e. the original modes in the order p[0], p[1], ... *)
Theorem C18_tucker_gram_permute : forall (s rk : list nat) (U : list matrix) (p : list nat) (n : nat) (X : dense V),
  dshape X = s -> is_perm p (length s) -> n < length s -> length rk = length s ->
  gram_matrix v0 vadd vmul (utilde_shape (pick 0 p s) (pick 0 p rk) (index_of n p))
              (utilde_den V v0 vadd vmul (pick 0 p s) (pick [] p U) (index_of n p) (np_transpose v0 X p)) (index_of n p)
  = gram_matrix v0 vadd vmul (utilde_shape s rk n) (utilde_den V v0 vadd vmul s U n X) n.
Proof. exact (utilde_gram_permute V v0 v1 vadd vmul vsub vopp Vring). Qed.

(* upd_perm: U[n] = Utilde.nvecs(n, rank[n]) - eig ANY function (mode parameter, Gram matrix) -> new factor, parameters moved along *)
Theorem C18_tucker_upd_perm : forall (s rk : list nat) (eig eig' : nat -> matrix -> matrix) (U : list matrix) (p : list nat) (n : nat)
    (X : dense V),
  dshape X = s -> is_perm p (length s) -> n < length s -> length rk = length s -> length U = length s ->
  eig' (index_of n p) = eig n ->
  UPD (pick 0 p s) (pick 0 p rk) eig' (index_of n p) (pick [] p U) (np_transpose v0 X p) = pick [] p (UPD s rk eig n U X).
Proof. exact (upd_perm_concrete V v0 v1 vadd vmul vsub vopp Vring). Qed.

(* A_perm: the core X x_0 U_0^T ... x_{N-1} U_{N-1}^T of the relabelled run is the relabelled core *)
Theorem C18_tucker_core_perm : forall (s rk : list nat) (U : list matrix) (p : list nat) (X : dense V),
  dshape X = s -> is_perm p (length s) -> length rk = length s ->
  CORE (pick 0 p s) (pick 0 p rk) (pick [] p U) (np_transpose v0 X p) = np_transpose v0 (CORE s rk U X) p.
Proof. exact (core_perm_concrete V v0 v1 vadd vmul vsub vopp Vring). Qed.

(* tucker_als on dense holders, any number of sweeps over any mode order: the run on X.permute(p) with the start list, the rank list
   and the per-mode parameters permuted and dimorder mapped by q holds the permuted factor list after every sweep and its core is the
   relabelled core (C18_relabel_tucker_als with both contracts discharged; all shapes / orders / ranks / permutations, any ring) *)
Theorem C18_relabel_tucker_als_dense : forall (s rk : list nat) (eig eig' : nat -> matrix -> matrix) (p : list nat) (dimorder : list nat)
    (k : nat) (U : list matrix) (X : dense V),
  dshape X = s -> is_perm p (length s) -> length rk = length s -> length U = length s ->
  Forall (fun n => n < length s) dimorder -> (forall n, In n dimorder -> eig' (index_of n p) = eig n) ->
  let q := fun n => index_of n p in
  let U'k := sweeps (dense V) (list matrix) (UPD (pick 0 p s) (pick 0 p rk) eig') (map q dimorder) k (pick [] p U) (np_transpose v0 X p) in
  let Uk := sweeps (dense V) (list matrix) (UPD s rk eig) dimorder k U X in
  U'k = pick [] p Uk /\
  CORE (pick 0 p s) (pick 0 p rk) U'k (np_transpose v0 X p) = np_transpose v0 (CORE s rk Uk X) p.
Proof. exact (tucker_als_relabel_dense V v0 v1 vadd vmul vsub vopp Vring). Qed.
End C18_tucker_perm.
Print Assumptions C18_tucker_gram_permute.
Print Assumptions C18_tucker_upd_perm.
Print Assumptions C18_tucker_core_perm.
Print Assumptions C18_relabel_tucker_als_dense.
