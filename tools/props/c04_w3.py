"""c04_w3 — wave-3 input classes of property C04 (imported by c04.py / c04_extra.py):

  * START states built in other ways than the plain constructor on F-ordered data ("mk" variants): C-ordered and
    non-contiguous numpy data (with and without copy), tensors whose .data pyttb itself left C-contiguous (growth), results of
    earlier computations / reads (A - B, permute, region read of a larger tensor, to_sptensor / to_tensor), empty sparse
    tensors arising from exact cancellation.  The raw start state pyttb ends up with is OBSERVED and is the start of the model;
    the Coq case checks that it denotes the intended array (and is well-formed).
  * RIGHT-HAND SIDES in other layouts (4th element of a set op): C-ordered / non-contiguous / integer arrays, tensors built
    without copy or from C-ordered data, tensors and sptensors that are results of reading another object, sptensors with a
    stored order other than sorted, numpy scalars;  and "prev": the object returned by the read just before is the value.
  * histories on (sp)tenmat with the same variants, and sptenmat histories writing zeros onto stored entries with and
    without new entries in the same call.

Everything here is data construction; the reference semantics stay in c04_util."""
import math

import tgen
import c04_util as U

DENSE_MK = ["C", "C_nocopy", "F_nocopy", "view", "view_nocopy", "transposed", "flat", "grown", "computed", "permute",
            "from_sparse", "read"]
SPARSE_MK = ["nocopy", "F_nocopy", "view", "from_dense", "computed", "read", "cancel_pad"]
# right-hand-side variants per (class, key kind, rhs kind)
RV_DENSE_REGION = ["C", "view", "int", "list", "tensorC", "tensor_nocopy", "tensor_grown", "read"]
RV_DENSE_VEC = ["view", "int", "tuple"]
RV_SPARSE_REGION = ["ctor_rev", "ctor_view", "read"]
RV_SPARSE_VEC = ["view", "F"]
RV_SCALAR = ["int", "np64"]
# variants after which the stored order of the sparse state is not the one of the faithful model (compared by denotation)
ORDER_FREE = {"ctor_rev", "ctor_view", "read", "prev"}         # ("reuse" keeps the plain, sorted operand)


# ------------------------------------------------------------------------------------------------
# numpy helpers
# ------------------------------------------------------------------------------------------------
def _arrF(np, shape, data):
    return np.array(data, dtype=float).reshape(tuple(shape), order="F")


def _noncontig(np, a):
    """a non-contiguous view holding the same values as a (every second element of a larger array in every mode)"""
    big = np.full(tuple(2 * d for d in a.shape), 77.0)
    sl = tuple(slice(None, None, 2) for _ in a.shape)
    big[sl] = a
    v = big[sl]
    return v


def _embed_big(np, a, pad=1, fillv=55.0):
    """a larger array that holds a in its leading corner and other values elsewhere"""
    big = np.full(tuple(d + pad for d in a.shape), fillv)
    big[tuple(slice(0, d) for d in a.shape)] = a
    return big


# ------------------------------------------------------------------------------------------------
# start states
# ------------------------------------------------------------------------------------------------
def mk_dense(ttb, np, start, variant):
    shape, data = start["shape"], start["data"]
    if not shape or variant in (None, "plain"):
        return None
    a = _arrF(np, shape, data)
    if variant == "C":
        return ttb.tensor(np.ascontiguousarray(a))
    if variant == "C_nocopy":
        return ttb.tensor(np.ascontiguousarray(a), copy=False)
    if variant == "F_nocopy":
        return ttb.tensor(np.asfortranarray(a), copy=False)
    if variant == "view":
        return ttb.tensor(_noncontig(np, a))
    if variant == "view_nocopy":
        return ttb.tensor(_noncontig(np, a), copy=False)
    if variant == "transposed":
        return ttb.tensor(np.ascontiguousarray(a.T).T, copy=False)
    if variant == "flat":
        return ttb.tensor(np.array(data, dtype=float), shape=tuple(shape))
    if variant == "grown":          # pyttb's own growth path leaves .data C-contiguous
        T = ttb.tensor()
        T[tuple(slice(0, d) for d in shape)] = np.ascontiguousarray(a)
        return T
    if variant == "computed":
        b = _arrF(np, shape, [((3 * i) % 5) - 2 for i in range(len(data))])
        return ttb.tensor(a + b) - ttb.tensor(np.ascontiguousarray(b))
    if variant == "permute":
        n = len(shape)
        p = list(range(n))[::-1]
        return ttb.tensor(np.transpose(a, p)).permute(np.array(p))
    if variant == "from_sparse":
        subs, vals = tgen.dense_to_sparse(shape, data, None, "reversed")
        if not subs:
            return ttb.sptensor(shape=tuple(shape)).to_tensor()
        return tgen.mk_sptensor(ttb, np, shape, subs, vals).to_tensor()
    if variant == "read":           # result of an earlier read of a larger tensor
        big = ttb.tensor(_embed_big(np, a))
        return big[tuple(slice(0, d) for d in shape)]
    raise ValueError(variant)


def mk_sparse(ttb, np, start, variant):
    shape, subs, vals = start["shape"], start["subs"], start["vals"]
    if not shape or variant in (None, "plain"):
        return None
    n = len(shape)
    s = np.array(subs, dtype=int).reshape((len(subs), n))
    v = np.array(vals, dtype=float).reshape((len(vals), 1))
    if variant == "nocopy":
        return ttb.sptensor(s, v, tuple(shape), copy=False)
    if variant == "F_nocopy":
        return ttb.sptensor(np.asfortranarray(s), np.asfortranarray(v), tuple(shape), copy=False)
    if variant == "view":
        bs = np.full((2 * len(subs), 2 * n), 0, dtype=int)
        bs[::2, ::2] = s
        bv = np.full((2 * len(vals), 2), 9.0)
        bv[::2, :1] = v
        return ttb.sptensor(bs[::2, ::2], bv[::2, :1], tuple(shape), copy=False)
    if variant == "from_dense":
        return ttb.tensor(_arrF(np, shape, start["data"])).to_sptensor()
    if variant == "computed":       # A - B with exact cancellation wherever the start holds zero
        a = _arrF(np, shape, start["data"])
        b = _arrF(np, shape, [(((3 * i) % 5) - 2) * (i % 2) for i in range(a.size)])
        A = ttb.tensor(a + b).to_sptensor()
        B = ttb.tensor(b).to_sptensor()
        return A - B
    if variant == "read":           # result of an earlier region read of a larger sptensor
        a = _arrF(np, shape, start["data"])
        big = ttb.tensor(_embed_big(np, a)).to_sptensor()
        return big[tuple(slice(0, d) for d in shape)]
    if variant == "cancel_pad":     # (S + E) - E where E has the same stored pattern in the same order
        if not subs:
            E = ttb.sptensor(np.zeros((1, n), dtype=int), np.array([[2.0]]), tuple(shape))
            return E - E
        S = ttb.sptensor(s, v, tuple(shape))
        E = ttb.sptensor(s.copy(), 2.0 * np.ones_like(v), tuple(shape))
        return (S + E) - E
    raise ValueError(variant)


# ------------------------------------------------------------------------------------------------
# right-hand sides
# ------------------------------------------------------------------------------------------------
def py_rhs(ttb, np, cls, shape_now, key, rhs, variant):
    """the Python value for a set op with an explicit variant; None = variant not applicable (caller uses the plain form)"""
    if rhs[0] == "scalar":
        if variant == "int":
            return int(rhs[1])
        if variant == "np64":
            return np.float64(rhs[1])
        return None
    vals = [float(x) for x in rhs[1]]
    if key[0] == "region":
        ks = U.kept_shape_of(tuple(shape_now), key)
        if not ks:
            return None
        arr = np.array(vals, dtype=float).reshape(ks, order="F")
        if cls == "dense":
            if variant == "C":
                return np.ascontiguousarray(arr)
            if variant == "view":
                return _noncontig(np, arr)
            if variant == "int":
                return np.ascontiguousarray(arr).astype(np.int64)
            if variant == "list":
                return arr.tolist()
            if variant == "tensorC":
                return ttb.tensor(np.ascontiguousarray(arr))
            if variant == "tensor_nocopy":
                return ttb.tensor(np.asfortranarray(arr), copy=False)
            if variant == "read":
                return ttb.tensor(_embed_big(np, arr))[tuple(slice(0, d) for d in ks)]
            if variant == "tensor_grown":       # a tensor whose .data pyttb's own growth path left C-contiguous
                T = ttb.tensor()
                T[tuple(slice(0, d) for d in ks)] = np.ascontiguousarray(arr)
                return T
            return None
        # sparse: the value must be a sptensor
        ent = [(p, x) for p, x in zip(tgen.all_subs(ks), vals) if x != 0]
        if variant == "read":
            return ttb.tensor(_embed_big(np, arr)).to_sptensor()[tuple(slice(0, d) for d in ks)]
        if variant in ("ctor_rev", "ctor_view"):
            if not ent:
                return ttb.sptensor(shape=tuple(ks))
            ent = ent[::-1]
            s = np.array([e[0] for e in ent], dtype=int).reshape((len(ent), len(ks)))
            v = np.array([[e[1]] for e in ent], dtype=float)
            if variant == "ctor_view":
                bs = np.zeros((2 * len(ent), 2 * len(ks)), dtype=int)
                bs[::2, ::2] = s
                bv = np.full((2 * len(ent), 2), 9.0)
                bv[::2, :1] = v
                return ttb.sptensor(bs[::2, ::2], bv[::2, :1], tuple(ks), copy=False)
            return ttb.sptensor(s, v, tuple(ks))
        return None
    # subscript arrays / linear keys: a vector of values
    if cls == "sparse":
        col = np.array(vals, dtype=float).reshape((len(vals), 1))
        if variant == "view":
            bv = np.full((2 * len(vals), 2), 9.0)
            bv[::2, :1] = col
            return bv[::2, :1]
        if variant == "F":
            return np.asfortranarray(col)
        return None
    vec = np.array(vals, dtype=float)
    if variant == "view":
        bv = np.full(2 * len(vals), 9.0)
        bv[::2] = vec
        return bv[::2]
    if variant == "int":
        return vec.astype(np.int64)
    if variant == "tuple":
        return tuple(vals)
    return None


def prev_usable(np, ttb, cls, shape_now, key, rhs, last):
    """may the object returned by the previous read stand for this right-hand side?  (same values in the same arrangement;
    guards the shrinker, which edits the two operations independently)"""
    if last is None:
        return False
    obj, out = last
    if out is None:
        return False
    want = [rhs[1]] if rhs[0] == "scalar" else list(rhs[1])
    if out[0] == "vals":
        got, gshape = list(out[1]), None
    elif out[0] == "dense":
        got, gshape = list(out[2]), tuple(out[1])
    else:
        gshape = tuple(out[1])
        d = {tuple(p): v for p, v in zip(out[2], out[3])}
        got = [d.get(tuple(p), 0) for p in tgen.all_subs(gshape)]
    if got != want:
        return False
    if key[0] == "region" and rhs[0] == "values":
        try:
            ks = U.kept_shape_of(tuple(shape_now), key)
        except U.Inadmissible:
            return False
        return gshape is not None and tuple(gshape) == tuple(ks)
    if rhs[0] == "scalar":
        return isinstance(obj, (int, float, np.generic))
    return gshape is None


# ------------------------------------------------------------------------------------------------
# decoration of generated histories
# ------------------------------------------------------------------------------------------------
def _same_kept_src(rng, shape, ks):
    """a region key inside `shape` whose kept shape is ks (None if impossible)"""
    n = len(shape)
    if len(ks) > n:
        return None
    for _ in range(20):
        modes = sorted(rng.sample(range(n), len(ks)))
        if all(shape[m] >= k for m, k in zip(modes, ks)):
            break
    else:
        return None
    es = []
    j = 0
    for m, d in enumerate(shape):
        if j < len(modes) and modes[j] == m:
            k = ks[j]
            j += 1
            r = rng.random()
            if r < 0.5:
                a = rng.randint(0, d - k)
                es.append(["s", a, a + k, None] if (a, k) != (0, d) or rng.random() < 0.5 else ["s", None, None, None])
            elif r < 0.7 and (k - 1) * 2 + 1 <= d:
                a = rng.randint(0, d - ((k - 1) * 2 + 1))
                es.append(["s", a, a + (k - 1) * 2 + 1, 2])
            elif r < 0.85 and k >= 1:
                a = rng.randint(k - 1, d - 1)
                es.append(["s", a, (a - k) if a - k >= 0 else None, -1])
            else:
                es.append(["l", rng.sample(range(d), k)])
        else:
            z = rng.randrange(d)
            es.append(["i", z - d if rng.random() < 0.2 else z])
    return es


def add_prev(rng, args, p=0.35, maxlen=14):
    """turn some assignments into  v = X[src]; X[dst] = v  (the value is the object returned by the preceding read)"""
    st = U.start_state(args["start"])
    out = []
    hit = False
    for op in args["ops"]:
        new = None
        if op[0] == "set" and len(op) == 3 and st[0] and rng.random() < p and len(out) + 2 <= maxlen:
            shape, f = st
            key, rhs = op[1], op[2]
            try:
                s2, asg = U.resolve_set(shape, key, rhs)
                src = None
                if key[0] == "region":
                    ks = U.kept_shape_of(shape, key)
                    if ks and len(shape) >= 1:
                        es = _same_kept_src(rng, shape, ks)
                        if es is not None and not U.key_is_a16(["region", es]):
                            src = ["region", es]
                    elif not ks:
                        src = ["region", [["i", rng.randrange(d)] for d in shape]]
                elif key[0] == "subs":
                    rows = []
                    for _ in range(len(key[1])):
                        rows.append(list(rng.choice(sorted(f))) if f and rng.random() < 0.6 else [rng.randrange(d) for d in shape])
                    src = ["subs", rows]
                elif key[0] in ("linlist", "linslice", "lin"):
                    cells = math.prod(shape)
                    src = ["linlist", [rng.randrange(cells) for _ in asg]] if len(asg) > 1 else ["lin", rng.randrange(cells)]
                if src is not None:
                    _, vals = U.spec_step(st, ["get", src])[1]
                    if key[0] == "region" and not U.kept_shape_of(shape, key):
                        rhs2 = ["scalar", vals[0]]
                    elif key[0] == "lin":
                        rhs2 = ["scalar", vals[0]]
                    else:
                        rhs2 = ["values", list(vals)]
                    cand = ["set", key, rhs2, "prev"]
                    U.spec_step(st, cand)
                    if not (set(U.op_triggers(st, cand, args["classes"])) - set(U.op_triggers(st, op, args["classes"]))):
                        new = [["get", src], cand]
            except U.Inadmissible:
                new = None
        if new:
            out.extend(new)
            hit = True
            st, _ = U.spec_step(st, new[1])
        else:
            out.append(op)
            try:
                st, _ = U.spec_step(st, op)
            except U.Inadmissible:
                pass
    args["ops"] = out
    return hit


def scalars_to_values(rng, args, val, p=0.5):
    """replace scalar right-hand sides of region / subscript assignments by value arrays (one value per position)"""
    st = U.start_state(args["start"])
    for op in args["ops"]:
        if op[0] == "set" and len(op) == 3 and op[2][0] == "scalar" and op[1][0] in ("region", "subs") and rng.random() < p:
            try:
                _, asg = U.resolve_set(st[0], op[1], op[2])
                kept = op[1][0] == "subs" or bool(U.kept_shape_of(st[0], op[1]))
                cand = ["set", op[1], ["values", [val(rng, 0.35) for _ in asg]]]
                if kept and 1 <= len(asg) <= 24 and not (set(U.op_triggers(st, cand, args["classes"]))
                                                         - set(U.op_triggers(st, op, args["classes"]))):
                    U.spec_step(st, cand)
                    op[2] = cand[2]
            except U.Inadmissible:
                pass
        try:
            st, _ = U.spec_step(st, op)
        except U.Inadmissible:
            pass


def kept_or_none(shape_now, key):
    try:
        return tuple(U.kept_shape_of(tuple(int(d) for d in shape_now), key)) if key[0] == "region" else None
    except U.Inadmissible:
        return None


def snapshot(ttb, np, val):
    """content of a right-hand-side operand (to detect that an assignment changed it)"""
    if isinstance(val, ttb.sptensor):
        return ["sptensor", [int(d) for d in val.shape], np.asarray(val.subs).tolist(), np.asarray(val.vals).tolist()]
    if isinstance(val, ttb.tensor):
        return ["tensor", [int(d) for d in val.shape], np.asarray(val.data).tolist()]
    if isinstance(val, np.ndarray):
        return ["ndarray", val.tolist()]
    return None


def add_reuse(rng, args, p=0.5, maxlen=14):
    """after a region assignment of a value array / tensor, assign THE SAME operand object to another region of the same
    kept shape (an assignment that shifts or rescales its operand in place shows in the second write)"""
    st = U.start_state(args["start"])
    out = []
    for op in args["ops"]:
        out.append(op)
        try:
            st2, _ = U.spec_step(st, op)
        except U.Inadmissible:
            continue
        if (op[0] == "set" and len(op) == 3 and op[1][0] == "region" and op[2][0] == "values" and rng.random() < p
                and len(args["ops"]) + (len(out) - args["ops"].index(op)) <= maxlen + 8):
            try:
                ks = U.kept_shape_of(st[0], op[1])
            except U.Inadmissible:
                ks = ()
            for _ in range(6):
                es = _same_kept_src(rng, st2[0], ks) if ks else None
                if es is None:
                    break
                cand = ["set", ["region", es], ["values", list(op[2][1])], "reuse"]
                if U.key_is_a16(cand[1]) or U.key_repeats(cand[1]) or U.op_triggers(st2, cand, args["classes"]):
                    continue
                try:
                    st3, _ = U.spec_step(st2, cand)
                except U.Inadmissible:
                    continue
                out.append(cand)
                st2 = st3
                break
        st = st2
    args["ops"] = out[:maxlen]


def add_variants(rng, args, p=0.7):
    """attach a layout variant to right-hand sides (4th element of the set op)"""
    classes = args["classes"]
    for op in args["ops"]:
        if op[0] != "set" or len(op) != 3 or rng.random() >= p:
            continue
        key, rhs = op[1], op[2]
        if rhs[0] == "scalar":
            if rng.random() < 0.5:
                continue
            # numpy / int scalars: region and subscript keys
            op.append({cls: rng.choice(RV_SCALAR) for cls in classes})
            continue
        v = {}
        if key[0] == "region":
            if "dense" in classes:
                v["dense"] = rng.choice(RV_DENSE_REGION)
            if "sparse" in classes:
                v["sparse"] = rng.choice(RV_SPARSE_REGION)
        else:
            if "dense" in classes:
                v["dense"] = rng.choice(RV_DENSE_VEC)
            if "sparse" in classes:
                v["sparse"] = rng.choice(RV_SPARSE_VEC)
        op.append(v)


def variant_of(op, cls):
    """the right-hand-side variant of a set op for one class: "prev", a variant name or None"""
    if len(op) <= 3:
        return None
    v = op[3]
    return v.get(cls) if isinstance(v, dict) else v


def order_free(args):
    """does the history contain a step after which the sparse stored order is not the faithful model's?"""
    mk = (args.get("mk") or {}).get("sparse")
    if any(op[0] == "set" and U.key_repeats(op[1]) for op in args["ops"]):
        return True         # which of several equal positions keeps its place in the stored order is not pinned
    return bool(mk and mk != "plain") or any(op[0] == "set" and variant_of(op, "sparse") in ORDER_FREE for op in args["ops"])
