(* Model/C20Pack.v — literals of the GENERATED correspondence cases only (no theorem depends on this file).
   The captured uniform draws are 53-bit numerators m (u = m / 2^53).  Written as Z literals each of them is a 53-node
   binary positive, and Coq's elaboration of a case shard cost about 50 KB of memory and 0.5 ms per such number
   (a 1 MB thorough shard: 60 s, 2.2 GB resident).  Here they are written as primitive 63-bit integers (one node each)
   and decoded to Z by the standard library's Uint63.to_Z when the shard is evaluated.  The decoded lists are what the
   models (Model/C20Gen.v, over Z) receive; a wrong decoding would make the model disagree with pyttb (fail closed). *)
From Coq Require Import List ZArith Uint63.
Import ListNotations.

Definition zs (l : list int) : list Z := map Uint63.to_Z l.
Definition zss (m : list (list int)) : list (list Z) := map zs m.
Definition zsss (d : list (list (list int))) : list (list (list Z)) := map zss d.

(* the case files write the literals as [...]%uint63 (COQ_IMPORTS of tools/props/c20.py imports PrimInt63 FIRST, so that its
   names eqb, add, ... are shadowed again by the later imports) *)

Example zs_example :
  zs [0; 1; 9007199254740991]%uint63 = [0; 1; 9007199254740991]%Z /\
  zsss [[[3; 4]; [5; 6]]; []; [[]; []]]%uint63 = [[[3; 4]; [5; 6]]; []; [[]; []]]%Z.
Proof. split; vm_compute; reflexivity. Qed.
