(* Props/C18.v — PLACEHOLDER written by the C18 correspondence sub-builder so that `./check C18 quick` can run.
   The package owner overwrites this file with the C18 theorems (exact-arithmetic CP-ALS model).
   The one statement below is a genuine closed lemma about the comparer used by the generated cases:
   the tolerance test accepts two identical value lists (so a `false` verdict is never an artefact of the comparer). *)
From Coq Require Import List QArith Qcanon.
From PV Require Import Model.Harness Model.C18Cmp.

Theorem C18_cmp_refl : forall l : list Qc, qlists_close tol8 l l = true.
Proof. intro l. exact (qlists_close_refl tol8 l tol8_nonneg). Qed.
Print Assumptions C18_cmp_refl.
