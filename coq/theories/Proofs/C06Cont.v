(* Proofs/C06Cont.v — well-formedness of the containers pyttb returns for ttv / collapse / contract / ttm of a sparse tensor
   (Model/C06Cont.v: the projected subscripts and scaled values handed to from_aggregator / accumarray / np.sum and the 50%
   sparse/dense switch), their denotation (= the C02 value models impl_ttv_sp, impl_collapse_sp, impl_contract_sp, impl_ttm_sp,
   hence the defining sums of C02Spec) and independence of the stored order, container kind included.  extract.
   Values: any commutative ring (ring_theory) with decidable zero. *)
From Coq Require Import List Arith Lia Bool Permutation Ring.
From PV Require Import Base.Index Base.Perm Base.Sum Np.Array Model.Sparse Model.Repr Model.C03Ops Model.C06Ops
                       Model.C02Spec Model.C02Sparse Model.C02SpKernels Model.C02SpMore Model.C06Cont
                       Proofs.C03Lemmas Proofs.C03Proofs Proofs.C06Proofs Proofs.C06Other Proofs.C07Index
                       Proofs.C02SparseProofs Proofs.C02IndicatorProofs Proofs.C02SpMoreProofs Proofs.C06Kernels.
Import ListNotations.

Section ContP.
Variable V : Type.
Variables (v0 v1 : V) (vadd vmul vsub : V -> V -> V) (vopp : V -> V).
Hypothesis Vring : ring_theory v0 v1 vadd vmul vsub vopp (@eq V).
Variable isz : V -> bool.
Hypothesis isz_spec : forall v, isz v = true <-> v = v0.
Add Ring VringC06Cont : Vring.
Notation den := (den_sp v0).
Notation wf := (wf_sp isz).
Notation ssum := (sum_over v0 vadd).
Notation agg := (agg v0 vadd isz).

(* the contribution of one (subscript, value) pair to position i *)
Definition at_ (i : idx) (e : idx * V) : V := if idx_eqb (fst e) i then snd e else v0.

Lemma idx_eqb_sym i j : idx_eqb i j = idx_eqb j i.
Proof.
  destruct (idx_eqb i j) eqn:E.
  - apply idx_eqb_spec in E. subst. symmetry. apply idx_eqb_refl.
  - destruct (idx_eqb j i) eqn:E'; auto. apply idx_eqb_spec in E'. subst. now rewrite idx_eqb_refl in E.
Qed.

Lemma vsum_sumv l : vsum v0 vadd l = sumv v0 vadd l.
Proof. induction l as [|x l IH]; cbn; auto. Qed.

Lemma vsum_collect i es : vsum v0 vadd (collect i es) = ssum es (at_ i).
Proof.
  induction es as [|[j v] r IH]; [reflexivity|].
  rewrite sum_over_cons. unfold at_ at 1. cbn [collect fst snd]. rewrite (idx_eqb_sym j i).
  destruct (idx_eqb i j).
  - unfold vsum in *. cbn [fold_right]. now rewrite IH.
  - rewrite IH. ring.
Qed.

(* from_aggregator with the sum reducer: well-formed, the requested shape, and at every position the sum of the values
   handed over with that subscript *)
Lemma agg_correct s' es : (forall e, In e es -> inb s' (fst e) = true) ->
  wf (agg s' es) /\ sshape (agg s' es) = s' /\ forall i, den (agg s' es) i = ssum es (at_ i).
Proof.
  intros Hb. unfold C06Cont.agg.
  destruct (from_aggregator_correct v0 isz isz_spec (vsum v0 vadd) s' (map fst es) (map snd es)) as (W & Hs & D).
  { intros i Hi. apply in_map_iff in Hi as (e & <- & He). auto. }
  split; [exact W|split; [exact Hs|]]. intros i. rewrite D, combine_map_fst_snd.
  destruct (mem i (map fst es)) eqn:Hm; [apply vsum_collect|].
  apply mem_false in Hm. symmetry. apply (sum_over_zero V v0 v1 vadd vmul vsub vopp Vring). intros e He. unfold at_.
  rewrite idx_eqb_neq; auto. intros <-. apply Hm. now apply in_map.
Qed.

Lemma compl_lt N dims k : In k (compl N dims) -> k < N.
Proof. unfold compl. intros H. apply filter_In in H as [H _]. apply in_seq in H. lia. Qed.

Lemma proj_inb s dims j : inb s j = true -> inb (ttv_shape s dims) (pick 0 (compl (length s) dims) j) = true.
Proof. intros H. unfold ttv_shape. apply inb_pick_sub; auto. intros k. apply compl_lt. Qed.

(* a kernel result is good for shape s' and values f: well-formed container of that shape denoting f *)
Definition kgood (r : @kres V) (s' : shape) (f : idx -> V) : Prop :=
  kwf isz r s' /\ forall i, inb s' i = true -> kden v0 r i = f i.

Lemma dense_if_half_good c s' f : wf c -> sshape c = s' -> (forall i, inb s' i = true -> den c i = f i) ->
  kgood (dense_if_half v0 c) s' f.
Proof.
  intros W Hs D. unfold dense_if_half. destruct (size (sshape c) <? 2 * nnz c).
  - split; [split; [apply wf_full|exact Hs]|]. intros i Hi. cbn [kden].
    rewrite den_full by (now apply (wf_bounds isz)). auto.
  - split; [split; auto|]. intros i Hi. cbn [kden]. auto.
Qed.
(* ---- 1-way helpers: accumarray vector, from_aggregator over arange ---- *)
Lemma inb1 n i : inb [n] i = true -> exists k, i = [k] /\ k < n.
Proof.
  destruct i as [|k [|x r]]; cbn; try discriminate.
  - intros H. apply andb_true_iff in H as [H _]. apply Nat.ltb_lt in H. eauto.
  - intros H. apply andb_true_iff in H as [_ H]. discriminate.
Qed.

Lemma inb1_intro n k : k < n -> inb [n] [k] = true.
Proof. intros H. cbn [inb]. apply Nat.ltb_lt in H. now rewrite H. Qed.

Lemma nth_map_seq (g : nat -> V) n k : k < n -> nth k (map g (seq 0 n)) v0 = g k.
Proof.
  intros H. rewrite (nth_indep _ v0 (g 0)) by (now rewrite map_length, seq_length).
  rewrite (map_nth g). now rewrite seq_nth.
Qed.

Lemma accum_nth n es k : k < n -> nth k (accum v0 vadd n es) v0 = ssum es (at_ [k]).
Proof. intros H. unfold accum. rewrite nth_map_seq by auto. apply vsum_collect. Qed.

Lemma accum_dense_good n es f : (forall k, k < n -> ssum es (at_ [k]) = f [k]) ->
  kgood (KDen (mkDense [n] (accum v0 vadd n es))) [n] f.
Proof.
  intros Hf. split.
  - split; [|reflexivity]. unfold wf_dense, accum. cbn. rewrite map_length, seq_length. lia.
  - intros i Hi. apply inb1 in Hi as (k & -> & Hk). cbn [kden]. unfold den_dense. cbn [dshape ddata].
    rewrite inb1_intro by auto. cbn [sub2ind]. rewrite Nat.mul_0_r, Nat.add_0_r. rewrite accum_nth by auto. auto.
Qed.

Lemma combine_map2 {A B C} (f : A -> B) (g : A -> C) l : combine (map f l) (map g l) = map (fun x => (f x, g x)) l.
Proof. induction l as [|a l IH]; cbn; auto. now rewrite IH. Qed.

(* from_aggregator(arange(n)[:, None], c, (n,)) for a vector c given by its entries g k *)
Lemma agg_arange_good n (g : nat -> V) f : (forall k, k < n -> g k = f [k]) ->
  kgood (KSp (from_aggregator isz (vsum v0 vadd) [n] (map (fun k => [k]) (seq 0 n)) (map g (seq 0 n)))) [n] f.
Proof.
  intros Hf.
  destruct (from_aggregator_correct v0 isz isz_spec (vsum v0 vadd) [n] (map (fun k => [k]) (seq 0 n)) (map g (seq 0 n))) as (W & Hs & D).
  { intros i Hi. apply in_map_iff in Hi as (k & <- & Hk). apply in_seq in Hk. apply inb1_intro. lia. }
  split; [split; auto|]. intros i Hi. apply inb1 in Hi as (k & -> & Hk). cbn [kden]. rewrite D.
  assert (Hin : In [k] (map (fun k => [k]) (seq 0 n))) by (apply in_map_iff; exists k; split; auto; apply in_seq; lia).
  apply mem_spec in Hin. rewrite Hin. rewrite combine_map2.
  rewrite (collect_in [k] (g k)).
  - unfold vsum. cbn [fold_right]. rewrite <- Hf by auto. ring.
  - rewrite map_map. cbn [fst]. apply NoDup_map_inj; [apply seq_NoDup|]. intros a b _ _ E. now inversion E.
  - apply in_map_iff. exists k. split; auto. apply in_seq. lia.
Qed.

Lemma vsum_all_root es : (forall e, In e es -> fst e = []) -> vsum v0 vadd (map snd es) = ssum es (at_ []).
Proof.
  intros H. rewrite vsum_sumv. change (sumv v0 vadd (map snd es)) with (ssum es snd).
  apply sum_over_ext. intros [j v] He. specialize (H _ He). cbn [fst] in H. subst j. reflexivity.
Qed.

Lemma inb_nil i : inb [] i = true -> i = [].
Proof. destruct i; cbn; auto; discriminate. Qed.

Lemma empty_good s' f : (forall i, f i = v0) -> kgood (KSp (mkSp s' [] [])) s' f.
Proof.
  intros Hf. split.
  - split; [|reflexivity]. unfold wf_sp. cbn. repeat split; constructor.
  - intros i _. cbn [kden]. now rewrite Hf.
Qed.

Lemma nnz0_entries (S : sparse V) : nnz S = 0 -> entries S = [].
Proof. unfold nnz, entries. destruct (ssubs S); cbn; auto; discriminate. Qed.

(* the generic assembly used by ttv / collapse / contract on a list of (projected subscript, value) pairs *)
Lemma root_good es f : (forall e, In e es -> inb [] (fst e) = true) -> (forall i, ssum es (at_ i) = f i) ->
  kgood (KNum (vsum v0 vadd (map snd es))) [] f.
Proof.
  intros Hb Hf. split; [reflexivity|]. intros i Hi. apply inb_nil in Hi. subst i. cbn [kden].
  rewrite vsum_all_root; auto. intros e He. apply inb_nil. auto.
Qed.

(* ---------- ttv ---------- *)
Lemma ttv_entries_inb (S : sparse V) dims vs e : wf S -> In e (ttv_entries v0 v1 vmul S dims vs) ->
  inb (ttv_shape (sshape S) dims) (fst e) = true.
Proof.
  intros W He. unfold ttv_entries in He. apply in_map_iff in He as (e0 & <- & He0). cbn [fst].
  apply proj_inb. apply in_entries_inb; auto. now apply (wf_sp_struct isz).
Qed.

Lemma ttv_entries_val (S : sparse V) dims vs i :
  ssum (ttv_entries v0 v1 vmul S dims vs) (at_ i) = impl_ttv_sp v0 v1 vadd vmul S dims vs i.
Proof. unfold ttv_entries, impl_ttv_sp. rewrite sum_over_map. reflexivity. Qed.

Theorem cont_ttv_correct (S : sparse V) dims vs : wf S ->
  kgood (cont_ttv v0 v1 vadd vmul isz S dims vs) (ttv_shape (sshape S) dims) (impl_ttv_sp v0 v1 vadd vmul S dims vs).
Proof.
  intros W. unfold cont_ttv.
  pose proof (fun e => ttv_entries_inb S dims vs e W) as Hb.
  pose proof (ttv_entries_val S dims vs) as Hv.
  set (es := ttv_entries v0 v1 vmul S dims vs) in *.
  destruct (ttv_shape (sshape S) dims) as [|n [|m s'']] eqn:Es.
  - apply root_good; auto.
  - destruct (Nat.eqb (nnz S) 0) eqn:Hz.
    + apply empty_good. intros i. rewrite <- Hv. apply Nat.eqb_eq in Hz. unfold es, ttv_entries.
      now rewrite (nnz0_entries S Hz).
    + destruct (2 * count_nz isz (accum v0 vadd n es) <=? n).
      * apply agg_arange_good. intros k Hk. rewrite vsum_collect. apply Hv.
      * apply accum_dense_good. intros k _. apply Hv.
  - destruct (agg_correct (n :: m :: s'') es Hb) as (Wc & Hs & D).
    apply dense_if_half_good; auto. intros i _. rewrite D. apply Hv.
Qed.

(* ---------- collapse ---------- *)
Lemma proj_entries_inb (S : sparse V) dims es e : (forall e0, In e0 es -> inb (sshape S) (fst e0) = true) ->
  In e (proj_entries S dims es) -> inb (ttv_shape (sshape S) dims) (fst e) = true.
Proof.
  intros H He. unfold proj_entries in He. apply in_map_iff in He as (e0 & <- & He0). cbn [fst]. apply proj_inb. auto.
Qed.

Lemma collapse_entries_val (S : sparse V) dims i :
  ssum (proj_entries S dims (entries S)) (at_ i) = impl_collapse_sp v0 vadd S dims i.
Proof. unfold proj_entries, impl_collapse_sp. rewrite sum_over_map. reflexivity. Qed.

Theorem cont_collapse_correct (S : sparse V) dims : wf S ->
  kgood (cont_collapse v0 vadd isz S dims) (ttv_shape (sshape S) dims) (impl_collapse_sp v0 vadd S dims).
Proof.
  intros W. unfold cont_collapse.
  assert (Hb : forall e, In e (proj_entries S dims (entries S)) -> inb (ttv_shape (sshape S) dims) (fst e) = true).
  { intros e. apply proj_entries_inb. intros e0 He0. apply in_entries_inb; auto. now apply (wf_sp_struct isz). }
  pose proof (collapse_entries_val S dims) as Hv.
  set (es := proj_entries S dims (entries S)) in *.
  destruct (ttv_shape (sshape S) dims) as [|n [|m s'']] eqn:Es.
  - apply root_good; auto.
  - apply accum_dense_good. intros k _. apply Hv.
  - destruct (agg_correct (n :: m :: s'') es Hb) as (Wc & Hs & D).
    split; [split; auto|]. intros i _. cbn [kden]. rewrite D. apply Hv.
Qed.

(* ---------- contract ---------- *)
Lemma contract_entries_val (S : sparse V) i1 i2 i :
  ssum (proj_entries S [i1; i2] (diag_entries S i1 i2)) (at_ i) = impl_contract_sp v0 vadd S i1 i2 i.
Proof.
  unfold proj_entries, diag_entries, impl_contract_sp. rewrite sum_over_map. unfold idx in *.
  induction (entries S) as [|e r IH]; [reflexivity|]. cbn [filter]. cbv beta.
  rewrite (sum_over_cons V v0 vadd e r).
  match goal with |- context [if ?b then _ :: _ else _] => destruct b end.
  - rewrite sum_over_cons. rewrite IH. reflexivity.
  - rewrite IH. cbn [andb]. cbv iota. symmetry. apply (Radd_0_l Vring).
Qed.

Theorem cont_contract_correct (S : sparse V) i1 i2 : wf S ->
  kgood (cont_contract v0 vadd isz S i1 i2) (ttv_shape (sshape S) [i1; i2]) (impl_contract_sp v0 vadd S i1 i2).
Proof.
  intros W. unfold cont_contract.
  assert (Hb : forall e, In e (proj_entries S [i1; i2] (diag_entries S i1 i2)) ->
                         inb (ttv_shape (sshape S) [i1; i2]) (fst e) = true).
  { intros e. apply proj_entries_inb. intros e0 He0. unfold diag_entries in He0. apply filter_In in He0 as [He0 _].
    apply in_entries_inb; auto. now apply (wf_sp_struct isz). }
  pose proof (contract_entries_val S i1 i2) as Hv.
  set (es := proj_entries S [i1; i2] (diag_entries S i1 i2)) in *.
  destruct (Nat.eqb (nnz S) 0) eqn:Hz.
  - apply Nat.eqb_eq in Hz.
    assert (H0 : forall i, impl_contract_sp v0 vadd S i1 i2 i = v0).
    { intros i. unfold impl_contract_sp. now rewrite (nnz0_entries S Hz). }
    destruct (ttv_shape (sshape S) [i1; i2]) as [|n s''] eqn:Es.
    + split; [reflexivity|]. intros i _. cbn [kden]. now rewrite H0.
    + apply empty_good. exact H0.
  - destruct (ttv_shape (sshape S) [i1; i2]) as [|n s''] eqn:Es.
    + apply root_good; auto.
    + destruct (agg_correct (n :: s'') es Hb) as (Wc & Hs & D).
      apply dense_if_half_good; auto. intros i _. rewrite D. apply Hv.
Qed.
(* ==================================================================================================================
   independence of the stored order, container kind included
   ================================================================================================================== *)
Notation same := (same_result v0 isz).
Notation reord := (reordered V isz).

Definition ksame (r r' : @kres V) : Prop :=
  match r, r' with
  | KSp R, KSp R' => same R R'
  | KDen D, KDen D' => D = D'
  | KNum x, KNum y => x = y
  | _, _ => False
  end.

Lemma same_refl R : wf R -> same R R.
Proof. intros W. split; [exact W|]. split; [exact W|]. split; [reflexivity|apply Permutation_refl]. Qed.

Lemma ssum_perm (es es' : list (idx * V)) i : Permutation es es' -> ssum es (at_ i) = ssum es' (at_ i).
Proof. apply (sum_over_perm V v0 v1 vadd vmul vsub vopp Vring). Qed.

Lemma root_perm (es es' : list (idx * V)) : Permutation es es' -> vsum v0 vadd (map snd es) = vsum v0 vadd (map snd es').
Proof.
  intros P. rewrite !vsum_sumv. change (ssum es snd = ssum es' snd).
  now apply (sum_over_perm V v0 v1 vadd vmul vsub vopp Vring).
Qed.

Lemma accum_perm n (es es' : list (idx * V)) : Permutation es es' -> accum v0 vadd n es = accum v0 vadd n es'.
Proof. intros P. unfold accum. apply map_ext. intros k. rewrite !vsum_collect. now apply ssum_perm. Qed.

Lemma perm_in_bounds s' (es es' : list (idx * V)) : Permutation es es' ->
  (forall e, In e es -> inb s' (fst e) = true) -> forall e, In e es' -> inb s' (fst e) = true.
Proof. intros P H e He. apply H. eapply Permutation_in; [symmetry; exact P|exact He]. Qed.

Lemma agg_perm s' (es es' : list (idx * V)) : Permutation es es' -> (forall e, In e es -> inb s' (fst e) = true) ->
  same (agg s' es) (agg s' es').
Proof.
  intros P Hb. destruct (agg_correct s' es Hb) as (W & Hs & D).
  destruct (agg_correct s' es' (perm_in_bounds s' es es' P Hb)) as (W' & Hs' & D').
  apply (same_den_same_result v0 isz isz_spec _ _ W W'); [congruence|]. intros i _. rewrite D, D'. now apply ssum_perm.
Qed.

Lemma nnz_entries (R : sparse V) : wf R -> nnz R = length (entries R).
Proof. intros (HL & _). unfold nnz, entries. rewrite combine_length. lia. Qed.

Lemma dense_if_half_same c c' : same c c' -> sshape c = sshape c' -> ksame (dense_if_half v0 c) (dense_if_half v0 c').
Proof.
  intros Hsame Hs. pose proof Hsame as (W & W' & _ & P). unfold dense_if_half.
  rewrite <- Hs. rewrite (nnz_entries c W), (nnz_entries c' W'), <- (Permutation_length P).
  destruct (size (sshape c) <? 2 * length (entries c)); cbn [ksame]; [|exact Hsame].
  apply (dense_ext v0); [apply wf_full|apply wf_full|exact Hs|].
  intros i _. rewrite !den_full by (now apply (wf_bounds isz)). now apply (perm_den v0 isz).
Qed.

Lemma Permutation_filter' {A} (p : A -> bool) l l' : Permutation l l' -> Permutation (filter p l) (filter p l').
Proof.
  induction 1 as [|x l l' P IH|x y l|l l' l'' P IH P' IH']; cbn; auto.
  - destruct (p x); auto.
  - destruct (p x), (p y); auto. apply perm_swap.
  - eapply Permutation_trans; eauto.
Qed.

Lemma reord_nnz (S S' : sparse V) : reord S S' -> nnz S' = nnz S.
Proof. intros (W & W' & _ & P). rewrite (nnz_entries S W), (nnz_entries S' W'). symmetry. now apply Permutation_length. Qed.

Theorem cont_ttv_indep (S S' : sparse V) dims vs : reord S S' ->
  ksame (cont_ttv v0 v1 vadd vmul isz S dims vs) (cont_ttv v0 v1 vadd vmul isz S' dims vs).
Proof.
  intros R. pose proof (reord_nnz S S' R) as Hn. destruct R as (W & W' & Hs & P).
  assert (Pe : Permutation (ttv_entries v0 v1 vmul S dims vs) (ttv_entries v0 v1 vmul S' dims vs)).
  { unfold ttv_entries. rewrite Hs. now apply Permutation_map. }
  pose proof (fun e => ttv_entries_inb S dims vs e W) as Hb.
  unfold cont_ttv. rewrite Hs, Hn.
  set (es := ttv_entries v0 v1 vmul S dims vs) in *. set (es' := ttv_entries v0 v1 vmul S' dims vs) in *.
  destruct (ttv_shape (sshape S) dims) as [|n [|m s'']] eqn:Es.
  - cbn [ksame]. now apply root_perm.
  - destruct (Nat.eqb (nnz S) 0).
    + cbn [ksame]. apply same_refl. unfold wf_sp. cbn. repeat split; constructor.
    + rewrite <- (accum_perm n es es' Pe).
      destruct (2 * count_nz isz (accum v0 vadd n es) <=? n); cbn [ksame]; [|reflexivity].
      apply same_refl. unfold accum.
      apply (agg_arange_good n (fun k => vsum v0 vadd (collect [k] es)) (fun i => vsum v0 vadd (collect i es))). auto.
  - apply dense_if_half_same; [now apply agg_perm|].
    destruct (agg_correct _ es Hb) as (_ & H1 & _). destruct (agg_correct _ es' (perm_in_bounds _ es es' Pe Hb)) as (_ & H2 & _).
    congruence.
Qed.

Theorem cont_collapse_indep (S S' : sparse V) dims : reord S S' ->
  ksame (cont_collapse v0 vadd isz S dims) (cont_collapse v0 vadd isz S' dims).
Proof.
  intros (W & W' & Hs & P).
  assert (Pe : Permutation (proj_entries S dims (entries S)) (proj_entries S' dims (entries S'))).
  { unfold proj_entries. rewrite Hs. now apply Permutation_map. }
  assert (Hb : forall e, In e (proj_entries S dims (entries S)) -> inb (ttv_shape (sshape S) dims) (fst e) = true).
  { intros e. apply proj_entries_inb. intros e0 He0. apply in_entries_inb; auto. now apply (wf_sp_struct isz). }
  unfold cont_collapse. rewrite Hs.
  set (es := proj_entries S dims (entries S)) in *. set (es' := proj_entries S' dims (entries S')) in *.
  destruct (ttv_shape (sshape S) dims) as [|n [|m s'']] eqn:Es; cbn [ksame].
  - now apply root_perm.
  - now rewrite (accum_perm n es es' Pe).
  - now apply agg_perm.
Qed.

Theorem cont_contract_indep (S S' : sparse V) i1 i2 : reord S S' ->
  ksame (cont_contract v0 vadd isz S i1 i2) (cont_contract v0 vadd isz S' i1 i2).
Proof.
  intros R. pose proof (reord_nnz S S' R) as Hn. destruct R as (W & W' & Hs & P).
  assert (Pe : Permutation (proj_entries S [i1; i2] (diag_entries S i1 i2)) (proj_entries S' [i1; i2] (diag_entries S' i1 i2))).
  { unfold proj_entries, diag_entries. rewrite Hs. apply Permutation_map. now apply Permutation_filter'. }
  assert (Hb : forall e, In e (proj_entries S [i1; i2] (diag_entries S i1 i2)) ->
                         inb (ttv_shape (sshape S) [i1; i2]) (fst e) = true).
  { intros e. apply proj_entries_inb. intros e0 He0. unfold diag_entries in He0. apply filter_In in He0 as [He0 _].
    apply in_entries_inb; auto. now apply (wf_sp_struct isz). }
  unfold cont_contract. rewrite Hs, Hn.
  set (es := proj_entries S [i1; i2] (diag_entries S i1 i2)) in *.
  set (es' := proj_entries S' [i1; i2] (diag_entries S' i1 i2)) in *.
  destruct (Nat.eqb (nnz S) 0); destruct (ttv_shape (sshape S) [i1; i2]) as [|n s''] eqn:Es; cbn [ksame]; auto.
  - apply same_refl. unfold wf_sp. cbn. repeat split; constructor.
  - now apply root_perm.
  - apply dense_if_half_same; [now apply agg_perm|].
    destruct (agg_correct _ es Hb) as (_ & H1 & _). destruct (agg_correct _ es' (perm_in_bounds _ es es' Pe Hb)) as (_ & H2 & _).
    congruence.
Qed.

(* ---------- ttm (one mode): the sptensor Ynt rebuilt from the product array, and the tensor returned for a numpy matrix ---------- *)
Theorem cont_ttm_correct (S : sparse V) n J U tr :
  let s' := ttm_shape (sshape S) n J in
  let Y := ttm_Ynt v0 vadd vmul isz S n J U tr in
  wf Y /\ sshape Y = s' /\ (forall i, inb s' i = true -> den Y i = impl_ttm_sp v0 vadd vmul S n U tr i) /\
  kgood (cont_ttm_ndarray v0 vadd vmul isz S n J U tr) s' (impl_ttm_sp v0 vadd vmul S n U tr).
Proof.
  intros s' Y. unfold Y, ttm_Ynt. fold s'.
  set (T := tabulate s' (impl_ttm_sp v0 vadd vmul S n U tr)).
  assert (WT : wf_dense T) by apply wf_tabulate.
  assert (WY : wf (to_sptensor v0 isz T)) by (now apply to_sptensor_wf).
  assert (DY : forall i, inb s' i = true -> den (to_sptensor v0 isz T) i = impl_ttm_sp v0 vadd vmul S n U tr i).
  { intros i Hi. rewrite (den_to_sptensor v0 isz isz_spec) by auto. unfold T. now rewrite den_tabulate. }
  split; [exact WY|]. split; [reflexivity|]. split; [exact DY|].
  unfold cont_ttm_ndarray, ttm_Ynt. fold s'. fold T. split.
  - split; [apply wf_full|reflexivity].
  - intros i Hi. cbn [kden]. rewrite den_full by (now apply (wf_bounds isz)). now apply DY.
Qed.

Theorem cont_ttm_indep (S S' : sparse V) n J U tr : reord S S' ->
  ttm_Ynt v0 vadd vmul isz S n J U tr = ttm_Ynt v0 vadd vmul isz S' n J U tr.
Proof.
  intros R. unfold ttm_Ynt. pose proof R as (W & W' & Hs & P). rewrite Hs. f_equal. apply tabulate_ext. intros i Hi.
  unfold impl_ttm_sp. apply (sum_over_perm V v0 v1 vadd vmul vsub vopp Vring). exact P.
Qed.

(* ---------- extract: one value per requested row, the denoted array read at that row, for every stored order ---------- *)
Theorem extract_correct (S S' : sparse V) q : reord S S' ->
  impl_extract v0 S q = map (den S) q /\ length (impl_extract v0 S q) = length q /\ impl_extract v0 S q = impl_extract v0 S' q.
Proof.
  intros R. unfold impl_extract. destruct (indep_mask V v0 isz S S' q R) as (E1 & E2).
  split; [exact E2|]. split; [now rewrite E2, map_length|exact E1].
Qed.
(* ---------- the same against the defining sums of C02Spec (C02 theorems impl_*_sp_correct) ---------- *)
Theorem cont_ttv_spec (S : sparse V) dims vs : wf S ->
  NoDup dims -> (forall x, In x dims -> x < length (sshape S)) -> length vs = length dims ->
  kgood (cont_ttv v0 v1 vadd vmul isz S dims vs) (ttv_shape (sshape S) dims) (spec_ttv v0 vadd vmul (den S) (sshape S) dims vs).
Proof.
  intros W Hn Hb Hl. destruct (cont_ttv_correct S dims vs W) as (K & D). split; [exact K|]. intros i Hi.
  rewrite D by auto. now apply (impl_ttv_sp_correct V v0 v1 vadd vmul vsub vopp Vring isz).
Qed.

Theorem cont_collapse_spec (S : sparse V) dims : wf S ->
  NoDup dims -> (forall x, In x dims -> x < length (sshape S)) ->
  kgood (cont_collapse v0 vadd isz S dims) (ttv_shape (sshape S) dims) (spec_collapse v0 vadd (den S) (sshape S) dims).
Proof.
  intros W Hn Hb. destruct (cont_collapse_correct S dims W) as (K & D). split; [exact K|]. intros i Hi.
  rewrite D by auto. now apply (impl_collapse_sp_correct V v0 v1 vadd vmul vsub vopp Vring isz).
Qed.

Theorem cont_contract_spec (S : sparse V) i1 i2 : wf S ->
  i1 <> i2 -> i1 < length (sshape S) -> i2 < length (sshape S) -> nth i1 (sshape S) 0 = nth i2 (sshape S) 0 ->
  kgood (cont_contract v0 vadd isz S i1 i2) (ttv_shape (sshape S) [i1; i2]) (spec_contract v0 vadd (den S) (sshape S) i1 i2).
Proof.
  intros W Hne H1 H2 He. destruct (cont_contract_correct S i1 i2 W) as (K & D). split; [exact K|]. intros i Hi.
  rewrite D by auto. now apply (impl_contract_sp_correct V v0 v1 vadd vmul vsub vopp Vring isz).
Qed.
End ContP.
