(* Model/C02MttkrpGen.v — tensor.mttkrp (tensor.py, factor list, three branches) with its Khatri-Rao products computed by the translator-GENERATED
   pyttb.khatrirao (Gen/GenKernels.v, regenerated from pyttb/khatrirao.py on every run), exactly where tensor.py calls it:
     n == 0:       Ur = khatrirao( *U[1:ndims], reverse=True)
     n == ndims-1: Ul = khatrirao( *U[0:ndims-1], reverse=True)
     otherwise:    Ul = khatrirao( *U[n+1:], reverse=True);  Ur = reshape(khatrirao( *U[0:n], reverse=True), (szl, 1, R))
   Everything else is Model/C02Dense.v impl_mttkrp_dense verbatim (integer instance: the generated code is over Z).
   Proofs: Proofs/C02MttkrpGenProofs.v. *)
From Coq Require Import List ZArith Arith Bool.
From PV Require Import Base.Index Base.Perm Base.Sum Np.NpZ Np.NpZ2 Np.Array Model.Repr Model.C02Spec Model.C02Dense Gen.GenKernels.
Import ListNotations.

Definition zmttkrp_dense_genkr (X : dense Z) (Us : list (list (list Z))) (n R : nat) : res (dense Z) :=
  let s := dshape X in
  let N := length s in
  let szl := size (firstn n s) in
  let szr := size (skipn (S n) s) in
  let szn := nth n s 0%nat in
  if Nat.eqb n 0 then
    bind (khatrirao (skipn 1 Us) true) (fun Ur =>
    let Y := np_reshapeF 0%Z X [szn; szr] in
    Ok (matmul 0%Z Z.add Z.mul Y (of_matrix 0%Z Ur szr R)))
  else if Nat.eqb n (N - 1) then
    bind (khatrirao (firstn (N - 1) Us) true) (fun Ul =>
    let Y := np_reshapeF 0%Z X [szl; szn] in
    Ok (matmul 0%Z Z.add Z.mul (np_T 0%Z Y) (of_matrix 0%Z Ul szl R)))
  else
    bind (khatrirao (skipn (S n) Us) true) (fun Ul =>
    bind (khatrirao (firstn n Us) true) (fun KrL =>
    let Ur := np_reshapeF 0%Z (of_matrix 0%Z KrL szl R) [szl; 1%nat; R] in
    let Y := np_reshapeF 0%Z X [(szl * szn)%nat; szr] in
    let Y2 := matmul 0%Z Z.add Z.mul Y (of_matrix 0%Z Ul szr R) in
    let Y3 := np_reshapeF 0%Z Y2 [szl; szn; R] in
    Ok (tabulate [szn; R] (fun xr =>
      sum_n 0%Z Z.add szl (fun l => (den_dense 0%Z Y3 [l; nth 0 xr 0%nat; nth 1 xr 0%nat] * den_dense 0%Z Ur [l; 0%nat; nth 1 xr 0%nat])%Z))))).
