(* Model/C02KruskalMore.v — ktensor.ttv over SEVERAL modes (ktensor.py:2103-2135): dims sorted, vs[k] the vector for mode dims[k];
     for i, dim in enumerate(dims): new_weights = new_weights * (A_dim.T @ v_i);   factors of the remaining modes kept;
   no mode left: sum(new_weights) (the 0-way Kruskal tensor with no factor denotes exactly that sum).
   Definitions only; proofs in Proofs/C02KruskalMoreProofs.v. *)
From Coq Require Import List Arith Lia Bool.
From PV Require Import Base.Index Base.Perm Base.Sum Np.Array Model.Sparse Model.Repr Model.C02Spec.
Import ListNotations.

Section K.
Context {V : Type} (v0 v1 : V) (vadd vmul : V -> V -> V).
Local Notation "x + y" := (vadd x y).
Local Notation "x * y" := (vmul x y).

(* (A_m.T @ v)[r] for every selected mode, multiplied up *)
Fixpoint cprod (As : list (@matrix V)) (pairs : list (nat * list V)) (r : nat) : V :=
  match pairs with
  | [] => v1
  | (m, v) :: rest => (let A := nth m As [] in sum_n v0 vadd (length A) (fun k => mget v0 A k r * nth k v v0)) * cprod As rest r
  end.
Definition impl_ttv_k (K : ktensor V) (dims : list nat) (vs : list (list V)) : ktensor V :=
  mkK (map (fun r => nth r (kweights K) v0 * cprod (kfactors K) (combine dims vs) r) (seq 0 (krank K)))
      (pick [] (compl (length (kfactors K)) dims) (kfactors K)).
End K.
