(* Props/W3Methods.v — simple methods / properties translated with `self` as a record parameter (Gen/GenMethods.v, regenerated
   from /repo/pyttb/sptensor.py and ktensor.py at run time).  Only statements, `exact`, Print Assumptions. *)
From Coq Require Import List ZArith Bool.
From PV Require Import Np.NpZ Np.NpZ2 Np.NpZ3 Gen.GenMethods Proofs.W3Methods.
Import ListNotations.
Local Open Scope Z_scope.

(* the primitive that generated code calls for `t.nnz` (tt_irenumber, C04) is the generated sptensor.nnz *)
Theorem C04_gen_sptensor_nnz_prim : forall t, sptensor_nnz t = Ok (spt_nnz t).
Proof. exact sptensor_nnz_prim. Qed.
Print Assumptions C04_gen_sptensor_nnz_prim.

Theorem C04_gen_sptensor_nnz_rows : forall t, (forall r, In r (spt_subs t) -> r <> []) -> sptensor_nnz t = Ok (zlen (spt_subs t)).
Proof. exact sptensor_nnz_rows. Qed.
Print Assumptions C04_gen_sptensor_nnz_rows.

Theorem C04_gen_sptensor_ndims : forall t, sptensor_ndims t = Ok (zlen (spt_shape t)).
Proof. exact sptensor_ndims_spec. Qed.
Print Assumptions C04_gen_sptensor_ndims.

Theorem C02_gen_ktensor_ndims : forall k, ktensor_ndims k = Ok (zlen (kt_factors k)).
Proof. exact ktensor_ndims_spec. Qed.
Print Assumptions C02_gen_ktensor_ndims.

Theorem C02_gen_ktensor_ncomponents : forall k, ktensor_ncomponents k = Ok (zlen (kt_weights k)).
Proof. exact ktensor_ncomponents_spec. Qed.
Print Assumptions C02_gen_ktensor_ncomponents.

Example C04_gen_methods_example :
  sptensor_nnz (mkspt [[0; 1]; [1; 0]] [3; 4] [2; 2]) = Ok 2 /\ sptensor_nnz (mkspt [] [] [2; 2]) = Ok 0 /\
  sptensor_ndims (mkspt [] [] [2; 3; 4]) = Ok 3 /\ ktensor_ndims (mkkt [1; 1] [[[1; 2]]; [[3; 4]; [5; 6]]]) = Ok 2 /\
  ktensor_ncomponents (mkkt [1; 1] [[[1; 2]]; [[3; 4]; [5; 6]]]) = Ok 2.
Proof. repeat split; reflexivity. Qed.
