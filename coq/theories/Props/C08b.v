(* Props/C08b.v — C08, wave 3: the greedy matching of ktensor.score, the loop of fixsigns(other), mask and ttv.
   Only statements, `exact`, Print Assumptions. *)
From Coq Require Import List Arith Bool ZArith Permutation Ring Sorted.
From PV Require Import Base.Index Base.Perm Base.Sum Model.Repr Model.C08Kruskal Model.C08More Model.Harness Proofs.C08Score Proofs.C08More.
Import ListNotations.
Local Open Scope nat_scope.

Section C08b.
Variable V : Type.
Variables (v0 : V) (vadd : V -> V -> V) (sent : V) (leb : V -> V -> bool).
Hypothesis leb_total : forall a b, leb a b = true \/ leb b a = true.
Hypothesis leb_trans : forall a b c, leb a b = true -> leb b c = true -> leb a c = true.

(* score(): for every RA x RB matrix (RB <= RA) whose entries all exceed the blanking value, the completed best_perm of the
   greedy loop (argmax in Fortran order, row and column blanked) is a permutation of range(RA) *)
Theorem C08_score_best_perm_is_perm : forall RA RB (C0 : nat -> nat -> V), RB <= RA ->
  (forall i j, i < RA -> j < RB -> ltb leb sent (C0 i j) = true) ->
  is_perm (score_perm v0 vadd sent leb RA RB C0) RA.
Proof. exact (score_perm_is_perm v0 vadd sent leb leb_total leb_trans). Qed.

(* ... the matched pairs are one per reference component, on distinct rows, each a largest entry among the cells still free
   when it was chosen, best_perm[j] is the row matched to column j, and RB * best_score is the sum of the ORIGINAL entries
   at the matched pairs (in the order of choice, newest first) *)
Theorem C08_score_greedy_matching : forall RA RB (C0 : nat -> nat -> V), RB <= RA ->
  (forall i j, i < RA -> j < RB -> ltb leb sent (C0 i j) = true) ->
  let ps := gpicks (greedy v0 vadd sent leb RA RB C0) in
  Permutation (map snd ps) (seq 0 RB) /\ NoDup (map fst ps) /\ (forall p, In p ps -> fst p < RA) /\
  greedy_ok leb RA RB C0 ps /\
  (forall p, In p ps -> nth (snd p) (score_perm v0 vadd sent leb RA RB C0) RA = fst p) /\
  score_sum v0 vadd sent leb RA RB C0 = fold_right (fun p s => vadd s (C0 (fst p) (snd p))) v0 ps.
Proof. exact (score_greedy_matching v0 vadd sent leb leb_total leb_trans). Qed.
End C08b.
Print Assumptions C08_score_best_perm_is_perm.
Print Assumptions C08_score_greedy_matching.

(* the comparison hypotheses are satisfiable: <= on exact rationals, the instance the correspondence check evaluates *)
Theorem C08_score_best_perm_is_perm_Qc : forall (sent : Qcanon.Qc) (RA RB : nat) (C0 : nat -> nat -> Qcanon.Qc), RB <= RA ->
  (forall i j : nat, i < RA -> j < RB -> ltb Harness.qleb sent (C0 i j) = true) ->
  is_perm (score_perm Harness.q0 Qcanon.Qcplus sent Harness.qleb RA RB C0) RA.
Proof. exact score_perm_is_perm_Qc. Qed.
Print Assumptions C08_score_best_perm_is_perm_Qc.

(* non-vacuity: a non-symmetric 3 x 2 matrix; the greedy choice (9 first, then 6) is NOT the optimal assignment (8 + 8) *)
Example C08_example_score_greedy :
  let C0 := fun a b => nth b (nth a [[8; 9]; [1; 8]; [6; 2]]%Z []) 0%Z in
  score_perm 0%Z Z.add (-10)%Z Z.leb 3 2 C0 = [2; 0; 1] /\
  score_sum 0%Z Z.add (-10)%Z Z.leb 3 2 C0 = 15%Z /\
  gpicks (greedy 0%Z Z.add (-10)%Z Z.leb 3 2 C0) = [(2, 0); (0, 1)].
Proof. vm_compute. repeat split; reflexivity. Qed.

(* fixsigns(other): the literal 0-based breakpt / endpt arithmetic of the source (last negative index, parity of breakpt+1,
   one more / one fewer) is the model's pairing rule fso_endpt (number c of negative scores: c if even, else c+1 when that
   loses less and a further mode exists, else c-1) on every ascending score list — for every comparison under which
   negativity is downward closed.  Together with C08_invariant_fixsigns_other / C08_sign_parity_other (stated on fso_endpt)
   this covers the branch that defect A-29 had wrong. *)
Theorem C08_fixsigns_other_endpt : forall (V : Type) (v0 : V) (vopp : V -> V) (neg : V -> bool) (leb : V -> V -> bool),
  (forall a b, leb a b = true -> neg b = true -> neg a = true) ->
  forall s, Sorted (fun a b => leb a b = true) s ->
  py_endpt v0 vopp neg leb s = fso_endpt v0 vopp neg leb s.
Proof. exact py_endpt_is_model. Qed.
Print Assumptions C08_fixsigns_other_endpt.
Example C08_example_endpt :
  py_endpt 0%Z Z.opp (fun x => Z.ltb x 0%Z) Z.leb [-3; -2; -1; 4]%Z = 2 /\
  py_endpt 0%Z Z.opp (fun x => Z.ltb x 0%Z) Z.leb [-3; -2; -1]%Z = 2 /\
  py_endpt 0%Z Z.opp (fun x => Z.ltb x 0%Z) Z.leb [-5; 1; 7]%Z = 2 /\
  py_endpt 0%Z Z.opp (fun x => Z.ltb x 0%Z) Z.leb [-1; 5; 7]%Z = 0 /\
  py_endpt 0%Z Z.opp (fun x => Z.ltb x 0%Z) Z.leb [1; 5]%Z = 0.
Proof. vm_compute. repeat split; reflexivity. Qed.

(* ktensor.mask(W): the accumulation loop (weights[j] * 1, times A_k[subs_k, j] for every mode, summed over j) returns the
   value of the denoted array at every listed (in-bounds) subscript — any commutative ring, any shape / rank *)
Theorem C08_mask : forall (V : Type) (v0 v1 : V) (vadd vmul vsub : V -> V -> V) (vopp : V -> V),
  ring_theory v0 v1 vadd vmul vsub vopp (@eq V) ->
  forall (K : ktensor V) (subs : list idx), (forall i, In i subs -> inb (kshape K) i = true) ->
  py_mask v0 v1 vadd vmul subs K = map (den_k v0 v1 vadd vmul K) subs.
Proof. exact py_mask_den. Qed.
Print Assumptions C08_mask.
Example C08_example_mask :
  let K := mkK [2; -3]%Z [[[1; 2]; [3; 4]]; [[5; 6]; [7; 8]; [0; 1]]]%Z in
  py_mask 0%Z 1%Z Z.add Z.mul [[1; 0]; [0; 2]; [1; 1]] K = [-42; -6; -54]%Z.
Proof. vm_compute. reflexivity. Qed.
