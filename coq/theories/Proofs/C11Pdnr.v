(* Proofs/C11Pdnr.v — about the transliterated damped-Newton direction (Model/C11Pdnr.v): the Gaussian elimination it uses is SOUND — whenever
   it returns x for a square system, A x = b exactly (Qc).  So the free part of the modelled PDNR direction is an exact solution of the damped
   Newton system (Hessian_free + mu I) d = -g_free. *)
From Coq Require Import List Arith Bool ZArith QArith Qabs Qcanon Lia.
From PV Require Import Base.Index Base.Sum Np.Array Model.Sparse Model.Repr Model.Harness Model.C11Check Model.C11Replay Model.C11Lbfgs Model.C11Pdnr.
Import ListNotations.
Local Open Scope Qc_scope.

Lemma qdot_cons a r x xs : qdot (a :: r) (x :: xs) = a * x + qdot r xs.
Proof. reflexivity. Qed.
Lemma qdot_nil_l xs : qdot [] xs = q0.
Proof. reflexivity. Qed.

Lemma qdot_vaxpy c : forall r1 ri xs, length r1 = length ri -> qdot (vaxpy c r1 ri) xs = qdot ri xs + c * qdot r1 xs.
Proof.
  induction r1 as [|a r1 IH]; intros [|b ri] xs H; cbn in H; try discriminate.
  - unfold vaxpy, qdot. cbn. unfold q0. ring.
  - destruct xs as [|x xs].
    + unfold vaxpy, qdot. cbn. unfold q0. ring.
    + change (vaxpy c (a :: r1) (b :: ri)) with ((b + c * a) :: vaxpy c r1 ri).
      rewrite !qdot_cons, IH by (now inversion H). ring.
Qed.

Lemma qisz_false a : qisz a = false -> a <> Q2Qc 0.
Proof. unfold qisz. intros H E. subst. unfold Qc_eq_bool in H. destruct (Qc_eq_dec (Q2Qc 0) (Q2Qc 0)) as [_|N]; [discriminate|apply N; reflexivity]. Qed.

Definition elim (a11 : Qc) (r1 : list Qc) (b1 : Qc) (rest : list (list Qc)) (brest : list Qc) : list (list Qc * Qc) :=
  map (fun p : list Qc * Qc =>
         match fst p with
         | ai1 :: ri => (vaxpy (- (ai1 / a11)) r1 ri, snd p - (ai1 / a11) * b1)
         | [] => ([], snd p)
         end) (combine rest brest).

Lemma elim_sound a11 r1 b1 xs : a11 <> Q2Qc 0 -> forall rest brest,
  length rest = length brest -> Forall (fun row => length row = S (length r1)) rest ->
  Forall2 (fun row bi => qdot row xs = bi) (map fst (elim a11 r1 b1 rest brest)) (map snd (elim a11 r1 b1 rest brest)) ->
  Forall2 (fun row bi => qdot row ((b1 - qdot r1 xs) / a11 :: xs) = bi) rest brest.
Proof.
  intros Ea. induction rest as [|row rest IH]; intros [|bi brest] L HR F; cbn in L; try discriminate; [constructor|].
  inversion HR as [|r0 l0 Hrow Hrest]. subst. destruct row as [|ai1 ri]; [discriminate|]. cbn in Hrow. injection Hrow as Hrow.
  unfold elim in F. cbn [combine map fst snd] in F. inversion F as [|? ? ? ? F1 F2]. subst.
  constructor.
  - rewrite qdot_cons. rewrite qdot_vaxpy in F1 by congruence.
    assert (E : qdot ri xs = bi - ai1 / a11 * b1 + ai1 / a11 * qdot r1 xs) by (rewrite <- F1; ring).
    rewrite E. field. exact Ea.
  - apply IH; [now injection L|exact Hrest|exact F2].
Qed.

Lemma elim_rows_len a11 r1 b1 : forall rest brest, Forall (fun row => length row = S (length r1)) rest ->
  Forall (fun row => length row = length r1) (map fst (elim a11 r1 b1 rest brest)).
Proof.
  induction rest as [|row rest IH]; intros [|bi brest] HR; cbn; try constructor.
  - inversion HR as [|r0 l0 Hrow Hrest]. subst. destruct row as [|ai1 ri]; [discriminate|]. cbn in Hrow. injection Hrow as Hrow.
    cbn [fst]. unfold vaxpy. rewrite map_length, combine_length. lia.
  - apply IH. now inversion HR.
Qed.

Theorem gauss_sound : forall fuel A b x,
  length A = fuel -> length b = fuel -> Forall (fun row => length row = fuel) A ->
  gauss fuel A b = Some x ->
  length x = fuel /\ Forall2 (fun row bi => qdot row x = bi) A b.
Proof.
  induction fuel as [|fuel IH]; intros A b x LA Lb HA H.
  - destruct A; [|discriminate]. destruct b; [|discriminate]. cbn in H. inversion H. subst. split; [reflexivity|constructor].
  - destruct A as [|[|a11 r1] rest]; try discriminate; destruct b as [|b1 brest]; try discriminate; cbn [gauss] in H; try discriminate.
    destruct (qisz a11) eqn:Ea; [discriminate|]. apply qisz_false in Ea.
    fold (elim a11 r1 b1 rest brest) in H.
    destruct (gauss fuel (map fst (elim a11 r1 b1 rest brest)) (map snd (elim a11 r1 b1 rest brest))) as [xs|] eqn:Eg; [|discriminate].
    inversion H. subst x. clear H.
    inversion HA as [|r0 l0 Hr1 Hrest]. subst r0 l0. cbn in Hr1. injection Hr1 as Hr1.
    cbn in LA, Lb. injection LA as LA. injection Lb as Lb.
    assert (Le : length (elim a11 r1 b1 rest brest) = fuel) by (unfold elim; rewrite map_length, combine_length; lia).
    assert (P1 : length (map fst (elim a11 r1 b1 rest brest)) = fuel) by (now rewrite map_length).
    assert (P2 : length (map snd (elim a11 r1 b1 rest brest)) = fuel) by (now rewrite map_length).
    assert (P3 : Forall (fun row => length row = fuel) (map fst (elim a11 r1 b1 rest brest))).
    { rewrite <- Hr1. apply elim_rows_len. rewrite Hr1. exact Hrest. }
    destruct (IH _ _ xs P1 P2 P3 Eg) as (Lx & F).
    split; [cbn; now rewrite Lx|].
    constructor.
    + rewrite qdot_cons. field. exact Ea.
    + apply elim_sound; [exact Ea|lia|rewrite Hr1; exact Hrest|exact F].
Qed.

(* the modelled PDNR direction: its free part is an exact solution of the damped Newton system; the fixed variables and the fallback are as coded *)
Theorem pdnr_dir_newton : forall eps mu Pi ups m g d pred,
  search_dir_pdnr eps mu Pi ups m g = Some (d, pred) ->
  let fx := fixed_vars eps m g in
  let free := free_of fx in
  let A := damped mu Pi ups free in
  let gf := map (vget g) free in
  let d0 := map (fun r => if nth r fx false then (if qisz (vget m r) then q0 else - vget g r) else q0) (seq 0 (length m)) in
  exists x, length x = length free /\
    Forall2 (fun row bi => qdot row x = bi) A (map Qcopp gf) /\
    pred = qdot x gf + Q2Qc (1 # 2) * qdot x (map (fun row => qdot row x) A) /\
    d = (if qlt q0 pred then map Qcopp g else scatter free x d0).
Proof.
  intros eps mu Pi ups m g d pred H. cbv zeta. unfold search_dir_pdnr in H.
  destruct (gauss _ _ _) as [x|] eqn:Eg; [|discriminate]. inversion H. subst. clear H.
  apply gauss_sound in Eg.
  - destruct Eg as (Lx & F). exists x. repeat split; assumption.
  - unfold damped. now rewrite map_length.
  - now rewrite !map_length.
  - unfold damped. apply Forall_forall. intros row Hr. apply in_map_iff in Hr. destruct Hr as (c & <- & _). now rewrite map_length.
Qed.
