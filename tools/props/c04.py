"""C04 — entry reads and writes behave like an F-ordered mutable array over any history (DESIGN §C04)."""
import copy
import math
import os
import sys

sys.path.insert(0, os.path.dirname(os.path.abspath(__file__)))
from vcheck import Case, gzlist as vgz, gzmat as vgzmat
import tgen
import c04_util as U
import c04_extra as X
import c04_w3 as W

PROP = "C04"
LEVEL = "proof"
GEN_UNITS = ["GenUtils3", "GenMethods", "GenUtils", "GenSptensor4"]      # Props/C04Gen.v: sparse region read (all modes) and key dispatch over the GENERATED tt_renumberdim / tt_renumber / get_index_variant; Model/C04AsIs.v over tt_irenumber
COQ_TARGETS = ["Props/C04.vo", "Props/C04Gen.vo", "Props/C04Impl.vo", "Props/C04Gen5.vo", "Props/W4C04.vo", "Model/C04Harness.vo", "Model/C04Extra.vo", "Model/C04AsIs.vo", "Model/C04AdvVal.vo", "Model/C04W4Harness.vo", "Model/C04W5Harness.vo", "Model/Harness.vo", "Props/W3C04.vo", "Props/W3Methods.vo"]
THEOREM_FILES = ["Props/C04.v", "Props/C04Gen.v", "Props/C04Impl.v", "Props/C04Gen5.v", "Props/W4C04.v", "Props/W3C04.v", "Props/W3Methods.v"]
COQ_IMPORTS = ("From Coq Require Import List ZArith Bool.\n"
               "From PV Require Import Base.Index Np.Array Model.Sparse Model.Harness Model.C04Model Model.C04Harness Model.C04Extra Model.C04AsIs Model.C04AdvVal Model.C04W4Harness Model.C04W5Harness.\n")
RULE = ("a case is a HISTORY of 1-14 reads/writes applied to a dense and a sparse tensor from the same start state "
        "(empty, dense random, sparse with random stored order); after every step the returned value and the full raw state "
        "(shape,data | shape,subs,vals) are compared with the Coq model. Keys: full subscripts (negative ints), subscript arrays "
        "(duplicates), linear int/list/slice, regions of ints/slices(open, closed, stepped, negative)/index lists (an index may be "
        "repeated); right-hand sides: scalar, 0, value arrays mixing 0 and non-0, exactly shaped arrays/tensors; growth of extent and "
        "order. The input classes of the 19 REPAIRED findings (A-13..A-15, A-17, C04-N01..N03, N05..N16) are part of the ordinary "
        "streams, get a dedicated stream each and their exact former witnesses are replayed as ordinary cases (a regression is a "
        "violation). The classes of the two OPEN findings are kept out of the ordinary streams and get their own streams in which "
        "pyttb must show the specified behaviour OR exactly the as-is model (C04-N04: Model/C04AsIs.v over the GENERATED tt_irenumber; "
        "A-16: the numpy-following dense history model check_dense_np) - a third behaviour is a violation; a case of these classes is "
        "attributed to the finding only when the as-is model is not available for it (layout variants of operands, index lists next to "
        "the C04-N04 slices). Extra streams: w3 (start states built from C-ordered / non-contiguous / no-copy data, by computations and "
        "by reads; right-hand sides as C-ordered, non-contiguous, integer arrays, lists, tensors / sptensors in other layouts and stored "
        "orders, numpy scalars, the object returned by the read just before, the SAME operand object re-used), overwrite (wave 4: an "
        "array / tensor operand fills everything the receiver stores, then stored entries are overwritten in place, then read), np_adv "
        "(one read, scalar write or VALUE-ARRAY write through a key with index lists on a dense tensor: numpy's zipped selection with "
        "broadcasting or the outer product, nothing else), tenmat_rw and sptenmat_set (histories on a matricised tensor: 2-way array of "
        "fixed shape; out-of-range requests must raise; sptenmat additionally RAW against the transliteration of __setitem__). In every "
        "history each array / tensor operand of an earlier assignment is watched during all later steps (it must not change). "
        "Wave 5: every `S[subs] = vals` step of a sparse history is additionally compared RAW with the transliteration of "
        "sptensor._set_subscripts run from the raw state pyttb showed before the call (check_sparse_impl). Wave 6: C04-N16 is repaired "
        "(6e4bb42, sptensor._wrap_region_entry): negative entries inside index lists are part of the ordinary region keys (they count "
        "from the end, dense and sparse alike), the stream defect:C04-N16 (index lists with negative entries - reads, scalar / zero / "
        "tensor writes -, integers and list entries below -extent: refused, state unchanged) is a regression stream with ONE accepted "
        "behaviour for both classes and the former witness + five more inputs of the finding record are replayed as ordinary cases. "
        "NEW open finding C04-N17 (residue of that repair: a list mixing a negative entry with an entry beyond the extent of the same "
        "mode is resolved on the extent BEFORE growth by sptensor, AFTER growth by tensor): own stream defect:C04-N17, trigger = exactly "
        "that key class on a sparse write, no as-is model (sparse mismatches inside the class are attributed). "
        "non-trivial = at least one write and one nonzero somewhere (np_adv: key in the A-16 class); distinct = distinct history")
CORRESPONDENCE_ONLY = [
    "sptensor._set_subtensor (shape loop, subdims deletion, khatrirao enumeration, tt_intersect_rows / tt_setdiff_rows, tt_irenumber of a "
    "sparse operand, repeated-index filter): the sparse model sp_set / sp_apply / sp_replace is the specification-level algorithm of the "
    "refinement theorems, not a line-by-line transliteration; tied by raw state comparison (stored order included) in the plain "
    "histories.  (sptensor._set_subscripts IS transliterated since wave 5: Model/C04SpSetImpl.v, C04_set_subscripts_impl_model; what stays "
    "trusted there: np_unique_rows / np_scatter / np_setdiff1d / np_take / np_mask of Np/NpZ.v as the meaning of the numpy calls, the hand "
    "guard subscheck for tt_subscheck / tt_valscheck, the warning on duplicates is not modelled)",
    "tensor._set_linear / _set_subscripts / _set_subtensor (growth by zero padding, numpy scatter): dense model dense_assign, tied by raw "
    "state comparison",
    "sptensor.__getitem__(region): the expansion of repeated list indices and the column selection are hand-modelled (renumber_all / "
    "keepc); the FILTER is the GENERATED sptensor.subdims (Props/C04Gen5.v C04_gen_subdims_filter, C04_gen_getitem_region) and the "
    "renumbering (all modes) the GENERATED tt_renumber (Props/C04Gen.v); the normalisation of negative integers in front of them "
    "and the range check (sptensor._wrap_region_entry since 6e4bb42: integers below -extent are refused) is the hand function zkey",
    "negative entries INSIDE an index list of a region key (tensor: numpy; sptensor: _wrap_region_entry since 6e4bb42): the Coq models' "
    "KList holds non-negative indices; the entry is counted from the end of the extent the mode has when the key is resolved by the "
    "Python encoder c04_util.norm_list_ops before the model sees the key (an entry below -extent is handed over as it is and must be "
    "refused); one accepted behaviour for both classes, no theorem quantifies over negative list entries",
    "C04-N17 class (open, wave 6: a region WRITE through an index list that mixes a negative entry with an entry at / beyond the extent "
    "of the same mode, or a list with a negative entry on a mode that does not exist yet): specification = the list is resolved on the "
    "GROWN extent (what tensor does: numpy sees the zero-padded array); kept out of the ordinary streams, stream defect:C04-N17 (dense "
    "must follow the specification; sparse mismatches are attributed to the open finding, no as-is model); proposed repair "
    "fixes/C04-N17.diff",
    "C04-N04 class (sparse tensor right-hand side through stepped / negative slices): as-is behaviour = Model/C04AsIs.v over the generated "
    "tt_irenumber, executable, compared exactly; no theorem relates it to the specification (it violates it: open finding)",
    "A-16 class in histories: numpy-following dense model check_dense_np, executable, compared exactly; the theorems about it are "
    "C04_np_adv_in_region, C04_np_adv_set_values_exact / _in_region and the refutation C04_a16_dense_sparse_disagree",
    "stored order of a sparse state after a write / of the sptensor returned by a region read: compared raw in the plain histories, by "
    "denotation + well-formedness (check_sparse_den, stepping the model from the observed state) in histories whose order is not pinned "
    "(computed start states, sptensor right-hand sides in arbitrary order, repeated indices); not part of any theorem (the theorems "
    "quantify over every stored order); sptenmat: pinned by the transliteration (raw comparison)",
    "how a start state is built (C-ordered / non-contiguous data, no-copy, results of computations and reads) and in which memory layout a "
    "right-hand side arrives: the model has no notion of layout; the streams check that none of it is observable; storage sharing "
    "between receiver and operands: observed (operands watched over the whole history), not modelled (C05 owns aliasing)",
    "tenmat.__getitem__ / __setitem__: numpy indexing on the 2-way data array = the dense step on a fixed shape (C04_tenmat_refine); no "
    "separate transliteration (the method body is `self.data[key]`)",
    "rejection of inadmissible requests (dense linear assignment at or beyond prod(shape), out-of-range (sp)tenmat subscripts): which "
    "exception is raised is observed (AssertionError for malformed dense requests), not proved",
    "the mode split of a (sp)tenmat (which tensor entry a matrix entry is): the C04 theorems treat the matrix as a 2-way array; the "
    "streams check that rdims / cdims / tshape are untouched by entry access",
]
ASSUMPTIONS = [
    "resolve_get/resolve_set (Python slice.indices semantics, negative indices, F-order linear indices, Cartesian regions) are the "
    "meaning of a key; validated against pyttb/numpy on every history, not proved against CPython (C04_gen_slice_selection proves that "
    "the specification's slice and the translator's numpy-layer slice are the same function)",
    "right-hand sides are scalars or exactly shaped (one value per addressed position); numpy broadcasting of other shapes is modelled "
    "only for keys with index lists on the dense side (np_bcast); boolean masks are not a key form of pyttb (get_index_variant has no "
    "branch for them) and outside the property's list of key forms",
    "sptensor has no linear assignment (documented): such operations are inadmissible for the sparse class (sparse_op_ok)",
    "an index repeated inside a key list addresses its positions once per repetition; reads return them repeatedly, a value-array "
    "write keeps the LAST value per position (numpy's behaviour on the dense side; the specification spec_set is sequential)",
    "np_adv_positions / np_bcast (Model/C04Extra.v, C04AdvVal.v) as the meaning numpy gives to a key with index lists and to a value "
    "array assigned through it: validated against pyttb/numpy on the np_adv stream, not proved against numpy's C code",
    "the translator's numpy layer (Np/NpZ3.v) under the generated tt_renumberdim / tt_renumber / tt_irenumber / get_index_variant",
]
EXPLANATION = ("Refinement: the dense and the sparse executable model each simulate the abstract array (shape, f) step by step "
               "(theorems for all states/ops; on the sparse side in total form: specification and model accept together); the sparse "
               "region read and the key dispatcher are stated over functions generated from the current source; sptenmat.__setitem__ is "
               "transliterated and proved; the models are tied to pyttb by histories compared state-by-state; failing histories are "
               "shrunk to a minimal prefix, minimal operation set and minimal keys.")

def _hist_trigger(fid):
    t = U.make_trigger(fid)
    return lambda case: case.op == "history" and t(case)


TRIGGERS = {fid: _hist_trigger(fid) for fid in U.OPTRIG}
TRIGGERS.update(X.TRIGGERS_EXTRA)
# C04-N04: inside its class the check compares with the specification OR the as-is model over the generated tt_irenumber
# (coq_check / Model/C04AsIs.v); only requests for which that model is not available are attributed
_n04_class = TRIGGERS["C04-N04"]
TRIGGERS["C04-N04"] = lambda case: _n04_class(case) and _n04_index(case.args) is None
# A-16: likewise, a dense history with a key of the class is compared with the specification OR the numpy-following model
# (check_dense_np); attributed only when that model is not available (layout variants of the operands, mk variants)
_a16_class = TRIGGERS["A-16"]
TRIGGERS["A-16"] = lambda case: _a16_class(case) and not _a16_available(case.args)


# ------------------------------------------------------------------------------------------------
# generator
# ------------------------------------------------------------------------------------------------
MAXDIM = 5
MAXCELLS = 72


def _val(rng, zero_p=0.0):
    if rng.random() < zero_p:
        return 0
    v = 0
    while v == 0:
        v = rng.randint(-3, 6)
    return v


def _gen_slice(rng, d, for_set, allow_open=True):
    """a slice on a mode of extent d with a non-empty selection"""
    for _ in range(30):
        kind = rng.randrange(7)
        if kind == 0 and allow_open:
            s = [None, None, None]
        elif kind == 1:
            a = rng.randrange(d)
            s = [a, rng.randint(a + 1, d), None]
        elif kind == 2:
            s = [rng.choice([None, 0, rng.randrange(d)]), rng.randint(1, d), rng.choice([2, 3])]
        elif kind == 3 and allow_open:
            s = [-rng.randint(1, d), None, None]
        elif kind == 4:
            s = [rng.choice([None, 0]), -rng.randint(1, d), None] if d > 1 else [0, 1, None]
        elif kind == 5 and allow_open:
            s = [None, None, -1] if rng.random() < 0.5 else [rng.randrange(d), None, -rng.randint(1, 2)]
        elif kind == 6 and allow_open:
            s = [rng.randrange(d), None, rng.choice([1, 2])]
        else:
            continue
        if len(range(d)[slice(*s)]) > 0:
            return ["s"] + s
    return ["s", 0, d, None]


def _gen_region_key(rng, shape, for_set, grow, a16=False):
    n = len(shape)
    es = []
    form = rng.choice(["ints", "ints", "slices", "mixed", "list"]) if n else "ints"
    list_at = rng.randrange(max(n, 1)) if form == "list" else -1
    other = rng.choice(["i", "s"])
    for k, d in enumerate(shape):
        if form == "ints" or (form == "mixed" and rng.random() < 0.5) or (form == "list" and k != list_at and other == "i"):
            z = rng.randrange(d)
            if rng.random() < 0.25:
                z = z - d
            es.append(["i", z])
        elif k == list_at:
            m = rng.randint(2, max(2, min(d, 3))) if d >= 2 else 1
            l = rng.sample(range(d), min(m, d))
            if rng.random() < 0.3:          # an index named twice (adjacent or not)
                l.insert(rng.randint(0, len(l)), rng.choice(l))
            if rng.random() < 0.2:          # wave 6 (C04-N16 repaired): entries counted from the end; an index is negative at all of
                neg = set(rng.sample(sorted(set(l)), rng.randint(1, len(set(l)))))          # its occurrences (key_repeats stays exact)
                l = [z - d if z in neg else z for z in l]
            es.append(["l", l])
        else:
            es.append(_gen_slice(rng, d, for_set))
    if a16 and n >= 2:
        # two index lists, or list and int around a slice
        if n >= 3 and rng.random() < 0.5:
            d0, d2 = shape[0], shape[2]
            es[0] = ["i", rng.randrange(d0)]
            es[1] = ["s", None, None, None]
            es[2] = ["l", rng.sample(range(d2), min(2, d2))]
        else:
            ks = rng.sample(range(n), 2)
            for k in ks:
                es[k] = ["l", rng.sample(range(shape[k]), min(2, shape[k]))]
    if for_set and grow and n:
        # demand a larger extent in one mode, and/or new modes
        k = rng.randrange(n)
        room = MAXDIM - shape[k]
        if room > 0 and math.prod(shape) // shape[k] * (shape[k] + 1) <= MAXCELLS:
            d2 = shape[k] + rng.randint(1, min(2, room))
            r = rng.random()
            if r < 0.5:
                es[k] = ["i", d2 - 1]
            elif r < 0.8:
                es[k] = ["s", rng.randrange(d2 - 1), d2, None]
            elif form != "list" or k == list_at:
                es[k] = ["l", [rng.randrange(shape[k]), d2 - 1]]
            else:
                es[k] = ["i", d2 - 1]
    return es


def _gen_new_modes(rng, shape, cells):
    """key elements for one or two modes that do not exist yet"""
    out = []
    for _ in range(rng.choice([1, 1, 2])):
        r = rng.random()
        if r < 0.6:
            z = rng.choice([0, 1, 1, 2])
            e = ["i", z]
            ext = z + 1
        elif r < 0.85:
            b = rng.choice([1, 2])
            e = ["s", 0, b, None]
            ext = b
        else:
            e = ["l", [0, 1]]
            ext = 2
        if cells * ext > MAXCELLS:
            e, ext = ["i", 0], 1
        cells *= ext
        out.append(e)
    return out


def gen_op(rng, st, classes, profile):
    """one admissible operation on the abstract state st; profile in {'joint','dense','defect:<id>'}"""
    shape, f = st
    n = len(shape)
    cells = math.prod(shape) if n else 0
    sparse = "sparse" in classes
    if n == 0:      # nothing can be read from an empty tensor: create content
        if rng.random() < 0.5:
            m = rng.randint(1, 3)
            rows = [[rng.randrange(3) for _ in range(m)] for _ in range(rng.randint(1, 3))]
            if profile == "joint":
                return ["set", ["subs", rows], ["scalar", _val(rng)]]
            return ["set", ["subs", rows], ["values", [_val(rng, 0.2) for _ in rows]]]
        es = _gen_new_modes(rng, shape, 1) + _gen_new_modes(rng, shape, 4)
        return ["set", ["region", es[:3]], ["scalar", _val(rng)]]
    r = rng.random()
    if r < 0.40:    # ---------------- reads
        kind = rng.choice(["full", "subs", "lin", "linlist", "linslice", "region", "region"])
        if kind == "full":
            return ["get", ["region", [["i", rng.randrange(d) - (d if rng.random() < 0.25 else 0)] for d in shape]]]
        if kind == "subs":
            # bias towards stored positions
            rows = []
            for _ in range(rng.randint(1, 4)):
                if f and rng.random() < 0.5:
                    rows.append(list(rng.choice(sorted(f))))
                else:
                    rows.append([rng.randrange(d) for d in shape])
            return ["get", ["subs", rows]]
        if kind == "lin":
            return ["get", ["lin", rng.randrange(cells) - (cells if rng.random() < 0.3 else 0)]]
        if kind == "linlist":
            return ["get", ["linlist", [rng.randrange(cells) - (cells if rng.random() < 0.2 else 0) for _ in range(rng.randint(2, 4))]]]
        if kind == "linslice":
            return ["get", ["linslice"] + _gen_slice(rng, cells, False)[1:]]
        return ["get", ["region", _gen_region_key(rng, shape, False, False, a16=(profile == "defect:A-16"))]]
    # ---------------- writes
    kind = rng.choice(["region", "region", "region", "subs", "subs", "tensor", "lin"])
    if kind == "lin" and (sparse or profile != "dense"):
        kind = "region"
    zero_p = 0.3
    if kind == "lin":
        sub = rng.choice(["lin", "linlist", "linslice"])
        if sub == "lin":
            return ["set", ["lin", rng.randrange(cells) - (cells if rng.random() < 0.3 else 0)], ["scalar", _val(rng, zero_p)]]
        if sub == "linlist":
            ks = [rng.randrange(cells) - (cells if rng.random() < 0.2 else 0) for _ in range(rng.randint(2, 4))]
            if rng.random() < 0.5:
                return ["set", ["linlist", ks], ["scalar", _val(rng, zero_p)]]
            return ["set", ["linlist", ks], ["values", [_val(rng, zero_p) for _ in ks]]]
        sl = _gen_slice(rng, cells, False)[1:]
        cnt = len(range(cells)[slice(*sl)])
        if rng.random() < 0.5:
            return ["set", ["linslice"] + sl, ["scalar", _val(rng, zero_p)]]
        return ["set", ["linslice"] + sl, ["values", [_val(rng, zero_p) for _ in range(cnt)]]]
    if kind == "subs":
        m = n
        grow_order = rng.random() < 0.15 and n < 3 and cells * 2 <= MAXCELLS
        if grow_order:
            m = n + 1
        rows = []
        for _ in range(rng.randint(1, 4)):
            if f and rng.random() < 0.5:
                row = list(rng.choice(sorted(f)))
            else:
                row = [rng.randrange(d) for d in shape]
            if rng.random() < 0.25:     # growth of extent
                k = rng.randrange(n)
                if shape[k] < MAXDIM and cells // shape[k] * (shape[k] + 1) <= MAXCELLS:
                    row[k] = shape[k]
            rows.append(row + [rng.randrange(2) for _ in range(m - n)])
        if rng.random() < 0.3 and len(rows) > 1:      # duplicate subscripts
            rows.append(list(rows[0]))
        if rng.random() < 0.45:
            return ["set", ["subs", rows], ["scalar", _val(rng, zero_p)]]
        return ["set", ["subs", rows], ["values", [_val(rng, zero_p) for _ in rows]]]
    grow = rng.random() < 0.3
    es = _gen_region_key(rng, shape, True, grow, a16=(profile == "defect:A-16"))
    if rng.random() < 0.15 and n < 3:
        es = es + _gen_new_modes(rng, shape, cells)[:3 - n]
    key = ["region", es]
    if kind == "tensor" and any(e[0] != "i" for e in es):
        try:
            s2, asg = U.resolve_set(shape, key, ["scalar", 1])
            if len(asg) <= 24:
                return ["set", key, ["values", [_val(rng, 0.4) for _ in asg]]]
        except U.Inadmissible:
            pass
    return ["set", key, ["scalar", _val(rng, zero_p)]]


def gen_start(rng, kind):
    if kind == "empty":
        return {"shape": [], "data": [], "subs": [], "vals": []}
    shp = tgen.rand_shape(rng, maxn=3, maxcells=36, maxdim=4)
    fill = {"zero": 0.0, "sparse": 0.35, "dense": 0.9}[kind]
    data = tgen.rand_dense(rng, shp, fill)
    subs, vals = tgen.dense_to_sparse(shp, data, rng, rng.choice(["random", "random", "reversed", "sorted"]))
    return {"shape": list(shp), "data": data, "subs": subs, "vals": vals}


def gen_history(rng, classes, profile, length):
    start = gen_start(rng, rng.choice(["empty", "zero", "sparse", "sparse", "dense"]))
    st = U.start_state(start)
    ops = []
    want = profile.split(":")[1] if profile.startswith("defect:") else None
    hit = False
    for k in range(length):
        for attempt in range(60):
            op = gen_op(rng, st, classes, profile)
            try:
                st2, _ = U.spec_step(st, op)
            except U.Inadmissible:
                continue
            if math.prod(st2[0]) > MAXCELLS or any(d > MAXDIM + 1 for d in st2[0]) or len(st2[0]) > 4:
                continue
            trg = U.op_triggers(st, op, classes)
            if want is None and trg:
                continue
            if want is not None and any(t != want for t in trg):
                continue
            if want is not None and want in trg:
                hit = True
            ops.append(op)
            st = st2
            break
    if want is not None and not hit:
        return None
    if not ops:
        return None
    nt = any(o[0] == "set" for o in ops) and bool(st[1] or U.start_state(start)[1])
    return Case("history", {"start": start, "ops": ops, "classes": classes}, nt, {"profile": profile})


def gen_w3_history(rng, classes):
    """a history decorated with the wave-3 input classes (c04_w3): how the start state is built, in which layout the
    right-hand sides arrive, values that are the object returned by the read just before"""
    c = gen_history(rng, classes, "dense" if classes == ["dense"] else "joint", rng.randint(1, 10))
    if c is None:
        return None
    a = c.args
    mk = {}
    if a["start"]["shape"]:
        if "dense" in classes and rng.random() < 0.75:
            mk["dense"] = rng.choice(W.DENSE_MK)
        if "sparse" in classes and rng.random() < 0.75:
            mk["sparse"] = rng.choice(W.SPARSE_MK)
    if mk:
        a["mk"] = mk
    W.scalars_to_values(rng, a, _val)
    W.add_reuse(rng, a)
    W.add_prev(rng, a, p=0.3)
    W.add_variants(rng, a)
    return Case("history", a, c.nontrivial, {"profile": "w3"})


def defect_case(rng, fid):
    """short history ending in the input class of finding fid"""
    for _ in range(200):
        classes = ["dense", "sparse"] if fid != "A-17" else ["dense"]
        profile = "defect:" + fid
        start = gen_start(rng, rng.choice(["sparse", "sparse", "dense"]))
        st = U.start_state(start)
        shape, f = st
        n = len(shape)
        cells = math.prod(shape)
        op = None
        if fid == "A-13" and f:
            rows = [list(p) for p in rng.sample(sorted(f), min(len(f), 2))] + [[rng.randrange(d) for d in shape]]
            vals = [_val(rng, 0.5) for _ in rows]
            op = ["set", ["subs", rows], ["values", vals]]
        elif fid == "C04-N01" and f:
            rows = [list(rng.choice(sorted(f)))]
            op = ["set", ["subs", rows], ["scalar", 0]]
        elif fid == "C04-N02":
            row = [rng.randrange(d) for d in shape]
            op = ["set", ["subs", [row, [rng.randrange(d) for d in shape], row]], ["values", [2, 3, 5]]]
        elif fid == "A-14" and f and n < 3:
            op = ["set", ["subs", [[rng.randrange(d) for d in shape] + [rng.randrange(2)]]], ["scalar", _val(rng)]]
        elif fid == "A-15" and 1 in shape:
            es = [["s", None, None, None] if d == 1 else ["i", rng.randrange(d)] for d in shape]
            op = ["set", ["region", es], ["scalar", _val(rng)]]
        elif fid == "A-16" and n >= 2:
            for _ in range(20):
                op = gen_op(rng, st, classes, profile)
                if U.key_is_a16(op[1]):
                    break
            else:
                op = None
        elif fid == "C04-N03":
            classes = ["dense"]
            if rng.random() < 0.5:
                op = ["set", ["subs", [[rng.randrange(d) for d in shape]]], ["values", [_val(rng, 0.2)]]]
            else:
                op = ["set", ["lin", rng.randrange(cells)], ["values", [_val(rng, 0.2)]]]
        elif fid == "C04-N04":
            es = []
            for d in shape:
                r = rng.random()
                if d >= 2 and r < 0.4:
                    es.append(["s", 0, d, 2])
                elif d >= 2 and r < 0.7:
                    es.append(["s", -2, None, None])
                else:
                    es.append(["s", None, -1, None] if d >= 2 else ["i", 0])
            key = ["region", es]
            try:
                _, asg = U.resolve_set(shape, key, ["scalar", 1])
                op = ["set", key, ["values", [_val(rng, 0.3) for _ in asg]]]
            except U.Inadmissible:
                op = None
        elif fid == "C04-N07" and n >= 2 and shape[0] >= 2 and shape[0] > shape[1]:
            es = [["l", rng.sample(range(shape[0]), shape[0])]] + [["s", None, None, None] for _ in shape[1:]]
            op = ["set", ["region", es], ["values", [_val(rng, 0.3) for _ in range(cells)]]]
        elif fid == "C04-N05" and f and n < 3:
            es = [["s", 0, d, None] for d in shape] + [["i", 1]]
            op = ["set", ["region", es], ["values", [_val(rng, 0.3) for _ in range(cells)]]]
        elif fid == "C04-N06" and n >= 2:
            k = rng.randrange(n)
            es = [["i", -1] if j == k else ["s", 0, d, None] for j, d in enumerate(shape)]
            grow_row = [d if j == k else 0 for j, d in enumerate(shape)]
            pre = ["set", ["subs", [grow_row]], ["scalar", _val(rng)]]
            try:
                st1, _ = U.spec_step(st, pre)
                _, asg = U.resolve_set(st1[0], ["region", es], ["scalar", 1])
            except U.Inadmissible:
                continue
            if U.op_triggers(st, pre, classes):
                continue
            op = ["set", ["region", es], ["values", [_val(rng, 0.3) for _ in asg]]]
            ops = [pre, op, ["get", ["linslice", None, None, None]]]
            if "C04-N06" in U.class_hits(st1, op, classes) and not U.op_triggers(st1, op, classes):
                return Case("history", {"start": start, "ops": ops, "classes": classes}, True, {"profile": profile})
            continue
        elif fid in ("C04-N10", "C04-N11", "C04-N12", "C04-N13", "C04-N15"):
            classes = ["sparse"]
            if fid == "C04-N10":
                start = gen_start(rng, "zero")
                st = U.start_state(start)
                shape, f = st
                n = len(shape)
            k = rng.randrange(n)
            x = rng.randrange(shape[k])
            l = [x, x] if shape[k] == 1 or rng.random() < 0.4 else rng.sample([x, x, rng.randrange(shape[k])], 3)
            es = [["l", l] if j == k else rng.choice([["i", rng.randrange(d)], ["s", None, None, None], ["s", 0, d, None]])
                  for j, d in enumerate(shape)]
            key = ["region", es]
            if U.key_is_a16(key):
                continue
            if fid == "C04-N11":
                op = ["get", key]
            elif fid in ("C04-N13", "C04-N15"):
                try:
                    _, asg = U.resolve_set(shape, key, ["scalar", 1])
                except U.Inadmissible:
                    continue
                op = ["set", key, ["values", [_val(rng, 0.5 if fid == "C04-N15" else 0.3) for _ in asg]]]
            else:
                op = ["set", key, ["scalar", _val(rng)]]
        elif fid == "A-17":
            op = ["set", ["lin", cells + rng.choice([0, 0, 1, 3])], ["scalar", _val(rng)]]
        elif fid == "C04-N17":
            k = rng.randrange(n)
            d = shape[k]
            hi = d + rng.randint(0, 1)          # an entry at / beyond the extent: the write grows mode k to hi + 1
            if hi + 1 > MAXDIM or cells // d * (hi + 1) > MAXCELLS:
                continue
            l = [-rng.randint(1, hi + 1), hi] + ([rng.randrange(d)] if rng.random() < 0.3 else [])          # the negative entry lies inside the GROWN extent
            rng.shuffle(l)
            if len({z + hi + 1 if z < 0 else z for z in l}) < len(l):
                # (lead, final integration) the entries must address DISTINCT positions of the grown mode: a list that repeats a position is the
                # class of the repeated-index streams; on a receiver without entries pyttb stores the FIRST occurrence first, the model the last
                # (stored order only, not pinned by the property and outside every theorem): a thorough-tier false alarm of this stream after
                # C04-N17 was flipped to fixed (no attribution any more)
                continue
            es = [["l", l] if j == k else rng.choice([["i", rng.randrange(dd)], ["s", None, None, None]]) for j, dd in enumerate(shape)]
            op = ["set", ["region", es], ["scalar", rng.choice([0, _val(rng), _val(rng)])]]
        elif fid == "C04-N16":
            k = rng.randrange(n)
            d = shape[k]
            kind = rng.choice(["lw", "lw", "lz", "lr", "lt", "iw", "ir", "lb"])
            if kind == "lb":         # (wave 6) an index list with an entry below -extent: refused by tensor (numpy) and sptensor
                l = [rng.randrange(d), -d - rng.randint(1, 2)]
                rng.shuffle(l)
                es = [["l", l] if j == k else rng.choice([["i", rng.randrange(dd)], ["s", None, None, None]]) for j, dd in enumerate(shape)]
                op = rng.choice([["get", ["region", es]], ["set", ["region", es], ["scalar", _val(rng)]]])
                ops = [op, ["get", ["linslice", None, None, None]]]
                return Case("history", {"start": start, "ops": ops, "classes": classes}, True, {"profile": profile})
            if kind[0] == "l":       # an index list with negative entries (distinct positions): numpy counts them from the end
                picks = rng.sample(range(d), rng.randint(1, min(d, 2)))
                l = [x - d if (j == 0 or rng.random() < 0.5) else x for j, x in enumerate(picks)]
                es = [["l", l] if j == k else rng.choice([["i", rng.randrange(dd)], ["s", None, None, None]]) for j, dd in enumerate(shape)]
                key = ["region", es]
                if kind == "lr":
                    op = ["get", key]
                elif kind == "lt":
                    try:
                        _, asg = U.resolve_set(shape, key, ["scalar", 1])
                    except U.Inadmissible:
                        continue
                    op = ["set", key, ["values", [_val(rng, 0.3) for _ in asg]]]
                else:
                    op = ["set", key, ["scalar", 0 if kind == "lz" else _val(rng)]]
            else:                     # an integer below -extent: not a position of the array, the request must be refused
                es = [["i", -d - rng.randint(1, 2)] if j == k else rng.choice([["i", rng.randrange(dd)], ["s", None, None, None]])
                      for j, dd in enumerate(shape)]
                op = ["get", ["region", es]] if kind == "ir" else ["set", ["region", es], ["scalar", _val(rng)]]
                ops = [op, ["get", ["linslice", None, None, None]]]
                return Case("history", {"start": start, "ops": ops, "classes": classes}, True, {"profile": profile})
        if op is None:
            continue
        trg = U.op_triggers(st, op, classes)          # open findings only
        if fid == "A-17":
            return Case("history", {"start": start, "ops": [op], "classes": classes, "malformed": True}, True, {"profile": profile})
        if fid not in U.class_hits(st, op, classes) or any(t != fid for t in trg):
            continue
        try:
            st2, _ = U.spec_step(st, op)
        except U.Inadmissible:
            continue
        ops = [op]
        # follow with reads (everything linearly, one full subscript) so that the damage is observed
        ops.append(["get", ["linslice", None, None, None]])
        ops.append(["get", ["region", [["i", 0] for _ in st2[0]]]])
        return Case("history", {"start": start, "ops": ops, "classes": classes}, True, {"profile": profile})
    return None


def overwrite_case(rng):
    """wave 4 (operand / receiver storage): an ARRAY or TENSOR operand is assigned to a region that holds everything the receiver
    stores afterwards (whole tensor, or a block of a receiver without entries), then entries that now exist are overwritten in
    place (single position, subscript rows, scalar block), then everything is read.  The operand handed over in the first step
    is watched during all later steps (run_class: it must not change) and the receiver must follow the array semantics"""
    for _ in range(50):
        classes = rng.choice([["dense", "sparse"], ["sparse"], ["dense", "sparse"], ["dense"]])
        start = gen_start(rng, rng.choice(["zero", "zero", "sparse", "dense"]))
        st = U.start_state(start)
        shape, f = st
        n = len(shape)
        if not n:
            continue
        if f or rng.random() < 0.5:
            es = [rng.choice([["s", None, None, None], ["s", 0, d, None]]) for d in shape]      # whole tensor
        else:
            es = []
            for d in shape:
                a = rng.randrange(d)
                es.append(["s", a, rng.randint(a + 1, d), None])
        key = ["region", es]
        try:
            _, asg = U.resolve_set(shape, key, ["scalar", 1])
        except U.Inadmissible:
            continue
        if not 1 <= len(asg) <= 36:
            continue
        vals = [_val(rng, 0.3) for _ in asg]
        if not any(vals):
            vals[0] = 4
        ops = [["set", key, ["values", vals]]]
        try:
            st, _ = U.spec_step(st, ops[0])
            for _ in range(rng.randint(1, 3)):
                live = sorted(st[1])
                if not live:
                    break
                p = list(rng.choice(live))
                r = rng.random()
                if r < 0.4:
                    op = ["set", ["region", [["i", x] for x in p]], ["scalar", _val(rng)]]
                elif r < 0.75:
                    rows = [p] + ([list(rng.choice(live))] if rng.random() < 0.5 else [])
                    rows = [list(t) for t in dict.fromkeys(tuple(x) for x in rows)]
                    op = ["set", ["subs", rows], ["values", [_val(rng) for _ in rows]]]
                else:
                    op = ["set", ["region", [["s", x, x + 1, None] for x in p]], ["scalar", _val(rng)]]
                if U.op_triggers(st, op, classes):
                    continue
                st, _ = U.spec_step(st, op)
                ops.append(op)
        except U.Inadmissible:
            continue
        if len(ops) < 2:
            continue
        ops.append(["get", ["linslice", None, None, None]])
        # the operand OBJECT of the first write is assigned once more to the same region (it must still hold its values)
        ops.append(["set", key, ["values", list(vals)], "reuse0"])
        ops.append(["get", ["linslice", None, None, None]])
        return Case("history", {"start": start, "ops": ops, "classes": classes}, True, {"profile": "overwrite"})
    return None


def gen_cases(rng, tier):
    big = tier == "thorough"
    cases = []
    nj, nd, ns, ndef = (4000, 1500, 600, 60) if big else (420, 160, 80, 10)
    for _ in range(nj):
        c = gen_history(rng, ["dense", "sparse"], "joint", rng.randint(1, 12))
        if c:
            cases.append(c)
    for _ in range(nd):
        c = gen_history(rng, ["dense"], "dense", rng.randint(1, 12))
        if c:
            cases.append(c)
    for _ in range(ns):
        c = gen_history(rng, ["sparse"], "joint", rng.randint(1, 12))
        if c:
            cases.append(c)
    # wave 3: start states / right-hand sides in other memory layouts, results of earlier computations and reads
    for classes, cnt in ((["dense", "sparse"], 1500 if big else 150), (["dense"], 600 if big else 60), (["sparse"], 400 if big else 40)):
        for _ in range(cnt):
            c = gen_w3_history(rng, classes)
            if c:
                cases.append(c)
    for _ in range(400 if big else 40):
        c = overwrite_case(rng)
        if c:
            cases.append(c)
    cases.extend(X.gen_cases_extra(rng, tier, _gen_slice, _val))
    for fid, a in REGRESSION_ARGS.items():
        cases.append(Case("history", copy.deepcopy(a), True, {"profile": "regression:" + fid}))
    for fid in U.ALLCLASS:          # input classes of the open AND of the repaired findings (regression streams)
        for _ in range(ndef):
            c = defect_case(rng, fid)
            if c:
                cases.append(c)
    return cases


# ------------------------------------------------------------------------------------------------
# pyttb runner
# ------------------------------------------------------------------------------------------------
def _mk(ttb, np, cls, start, variant=None):
    if not start["shape"]:
        return ttb.tensor() if cls == "dense" else ttb.sptensor()
    if variant and variant != "plain":
        Y = W.mk_dense(ttb, np, start, variant) if cls == "dense" else W.mk_sparse(ttb, np, start, variant)
        if Y is not None:
            return Y
    if cls == "dense":
        return tgen.mk_tensor(ttb, np, start["shape"], start["data"])
    return tgen.mk_sptensor(ttb, np, start["shape"], start["subs"], start["vals"])


def _obs_state(np, cls, X):
    if cls == "dense":
        return {"shape": [int(d) for d in X.shape], "data": [tgen.exact(x) for x in np.ravel(X.data, order="F")]}
    return tgen.obs_sparse(np, X)


def _obs_out(ttb, np, a):
    if isinstance(a, ttb.sptensor):
        o = tgen.obs_sparse(np, a)
        return ["sparse", o["shape"], o["subs"], o["vals"]]
    if isinstance(a, ttb.tensor):
        o = tgen.obs_dense(np, a)
        return ["dense", o["shape"], o["data"]]
    arr = np.asarray(a)
    return ["vals", [tgen.exact(x) for x in arr.ravel(order="F")]]


def _py_rhs(ttb, np, cls, shape_now, key, rhs, k, variant=None, last=None):
    if variant == "prev" and W.prev_usable(np, ttb, cls, shape_now, key, rhs, last):
        return last[0]
    if variant and variant != "prev":
        v = W.py_rhs(ttb, np, cls, shape_now, key, rhs, variant)
        if v is not None:
            return v
    if rhs[0] == "scalar":
        return float(rhs[1])
    vals = [float(v) for v in rhs[1]]
    if key[0] == "subs":
        if cls == "sparse":
            return np.array(vals, dtype=float).reshape((len(vals), 1))
        return vals if k % 2 == 0 else np.array(vals, dtype=float)
    if key[0] == "region":
        ks = U.kept_shape_of(tuple(shape_now), key)
        arr = np.array(vals, dtype=float).reshape(ks, order="F")
        if cls == "sparse":
            return ttb.tensor(arr, copy=True).to_sptensor()
        return arr if k % 2 == 0 else ttb.tensor(arr, copy=True)
    return vals if k % 2 == 0 else np.array(vals, dtype=float)


def run_class(ttb, np, cls, args, start_out=None):
    import warnings
    with warnings.catch_warnings():
        warnings.simplefilter("ignore")
        X = _mk(ttb, np, cls, args["start"], (args.get("mk") or {}).get(cls))
    if start_out is not None:
        try:
            start_out[cls] = _obs_state(np, cls, X)
        except Exception as ex:      # noqa: BLE001
            start_out[cls] = {"broken": type(ex).__name__ + ": " + str(ex)[:120]}
    steps = []
    last = None
    last_rhs = None
    operands = []        # wave 4: every array / tensor operand of an earlier assignment, with its content at that time
    for k, op in enumerate(args["ops"]):
        out = None
        exc = None
        rhs_changed = None
        rhs_sp = None
        try:
            with warnings.catch_warnings():
                warnings.simplefilter("ignore")
                pk = U.py_key(np, copy.deepcopy(op[1]), as_array=(k % 2 == 1))
                if op[0] == "get":
                    res = X[pk]
                    out = _obs_out(ttb, np, res)
                    last = (res, out)
                else:
                    rv = W.variant_of(op, cls)
                    if rv == "reuse" and last_rhs is not None and last_rhs[1] == op[2] and last_rhs[2] == W.kept_or_none(X.shape, op[1]):
                        val = last_rhs[0]              # the very same operand object as in the write before
                    elif rv == "reuse0" and operands and operands[0][0] == 0:
                        val = operands[0][1]           # wave 4: the operand object of the FIRST write, kept over the whole history
                    else:
                        val = _py_rhs(ttb, np, cls, X.shape, op[1], op[2], k, rv, last)
                    snap = W.snapshot(ttb, np, val)
                    rhs_sp = None
                    if snap and snap[0] == "sptensor" and op[1][0] == "region":
                        rhs_sp = [snap[1], snap[2], [tgen.exact(x) for r in snap[3] for x in (r if isinstance(r, list) else [r])]]
                        if not rhs_sp[2]:
                            rhs_sp[1] = []          # np.array([], ndmin=2).tolist() == [[]]
                    last_rhs = (val, op[2], W.kept_or_none(X.shape, op[1]))
                    try:
                        X[pk] = val
                    finally:
                        if W.snapshot(ttb, np, val) != snap:
                            rhs_changed = f"{snap} -> {W.snapshot(ttb, np, val)}"
                        elif snap is not None and rv != "prev" and not any(v is val for _, v, _ in operands):   # (read results: C05's domain)
                            operands.append((k, val, snap))
                    out = ["none"]
                    last = None
        except Exception as ex:      # noqa: BLE001
            exc = type(ex).__name__ + ": " + str(ex)[:120]
        try:
            stt = _obs_state(np, cls, X)
        except Exception as ex:      # noqa: BLE001
            stt = {"broken": type(ex).__name__ + ": " + str(ex)[:120]}
        if rhs_changed is None:
            # an operand handed over in an EARLIER step must not change when the receiver is written later (no shared storage)
            for k0, v0_, s0 in operands:
                if k0 < k and W.snapshot(ttb, np, v0_) != s0:
                    rhs_changed = f"operand of step {k0} changed during step {k}: {s0} -> {W.snapshot(ttb, np, v0_)}"
                    break
        steps.append({"state": stt, "out": out, "exc": exc})
        if op[0] == "set" and rhs_sp is not None:
            steps[-1]["rhs_sp"] = rhs_sp          # raw (shape, subs, vals) of a sptensor operand, for the as-is model of C04-N04
        if rhs_changed:
            steps[-1]["rhs_changed"] = rhs_changed
        if "broken" in stt:
            break
    # wave 4: the receiver must not share storage with an operand it was given earlier: every kept operand is now written to
    # (through its public __setitem__ where it has one, and in place in its value storage) and the receiver is re-observed
    if steps and "broken" not in steps[-1]["state"] and not steps[-1].get("rhs_changed"):
        before = steps[-1]["state"]
        for k0, val, _ in operands:
            with warnings.catch_warnings():
                warnings.simplefilter("ignore")
                for poke in ("setitem", "storage"):
                    try:
                        if isinstance(val, ttb.sptensor) and val.nnz:
                            if poke == "setitem":
                                val[tuple(int(x) for x in val.subs[-1])] = 12345.0
                            else:
                                val.vals += 1000
                        elif isinstance(val, ttb.tensor) and val.data.size:
                            if poke == "setitem":
                                val[tuple(0 for _ in val.shape)] = 12345.0
                            else:
                                val.data += 1000
                        elif isinstance(val, np.ndarray) and val.size and val.flags.writeable and poke == "storage":
                            val += 1000
                    except Exception:      # noqa: BLE001  (the poke itself is not under test)
                        pass
            try:
                after = _obs_state(np, cls, X)
            except Exception as ex:      # noqa: BLE001
                after = {"broken": type(ex).__name__ + ": " + str(ex)[:120]}
            if after != before:
                steps[-1]["rhs_changed"] = (f"the receiver changed when the operand of step {k0} was written to AFTER the history "
                                            f"(shared storage): {before} -> {after}")
                break
    return steps


def run_impl(c):
    import logging
    logging.getLogger().setLevel(logging.ERROR)        # "Selected no copy, but input data isn't F ordered" (deliberate inputs)
    if c.op in X.OPS:
        return X.run_extra(c)
    import numpy as np
    import pyttb as ttb
    so = {}
    o = {cls: run_class(ttb, np, cls, c.args, so) for cls in c.args["classes"]}
    if c.args.get("mk"):
        o["start"] = so
    return o


# ------------------------------------------------------------------------------------------------
# Coq case
# ------------------------------------------------------------------------------------------------
def _ints(l):
    return all(isinstance(v, int) for v in l)


def _g_dense_state(s):
    return tgen.gdense(s["shape"], s["data"])


def _g_sparse_state(s):
    return tgen.gsparse(s["shape"], s["subs"], s["vals"])


def _n04_index(a):
    """index of the first operation of a plain sparse history that lies in the class of the open finding C04-N04 AND for which
    the as-is model (Model/C04AsIs.v over the GENERATED tt_irenumber) is available: key of integers and slices only, operand
    built by the plain route, stored order pinned; None otherwise"""
    if "sparse" not in a["classes"] or a.get("mk") or W.order_free(a):
        return None
    st = U.start_state(a["start"])
    for k, op in enumerate(a["ops"]):
        if U.optrig_n04(st, op):
            ok = len(op) == 3 and all(e[0] != "l" for e in op[1][1]) and len(op[1][1]) == len(st[0])
            return k if ok else None
        try:
            st, _ = U.spec_step(st, op)
        except U.Inadmissible:
            return None
    return None


def _asis_expr(a, steps, k):
    """Gallina bool: the history follows the specification up to step k and step k is the AS-IS model; None if not expressible"""
    if len(steps) <= k or any("broken" in s["state"] for s in steps[:k + 1]):
        return None
    for s in steps[:k]:
        if not _ints(s["state"]["vals"]) or any(x < 0 for r in s["state"]["subs"] for x in r) or s.get("rhs_changed"):
            return None
        if s["out"] and s["out"][0] == "vals" and not _ints(s["out"][1]):
            return None
        if s["out"] and s["out"][0] in ("sparse", "dense"):
            return None
    sk = steps[k]
    y = sk.get("rhs_sp")
    if y is None or not _ints(sk["state"]["vals"]) or not _ints(y[2]) or sk.get("rhs_changed"):
        return None
    op = a["ops"][k]
    st0 = tgen.gsparse(a["start"]["shape"], a["start"]["subs"], a["start"]["vals"])
    pre = U.g_ops(_model_ops(a)[:k])
    preobs = "[" + "; ".join(f"({_g_sparse_state(s['state'])}, {U.g_xout(None if s['exc'] else s['out'])})" for s in steps[:k]) + "]"
    if k == 0:
        preobs = "(@nil (sparse Z * option xout))"
    es = "[" + "; ".join(U.g_elem(e) for e in op[1][1]) + "]"
    Y = tgen.gsparse(y[0], y[1], y[2])
    raw = f"(mkRaw {vgz(sk['state']['shape'])} {vgzmat(sk['state']['subs'])} {vgz(sk['state']['vals'])})"
    return f"asis_history_ok {st0} {pre} {preobs} {es} {Y} {raw} {'true' if sk['exc'] else 'false'}"


def _a16_available(a):
    """a dense history containing a key of the A-16 class for which the numpy-following model (Model/C04AdvVal.v check_dense_np)
    is available: plain start, right-hand sides built by the plain route (exactly shaped arrays / tensors)"""
    if "dense" not in a["classes"] or (a.get("mk") or {}).get("dense") or a.get("malformed"):
        return False
    if any(op[0] == "set" and len(op) > 3 for op in a["ops"]):
        return False
    return any(U.key_is_a16(op[1]) for op in a["ops"])


def _model_ops(a):
    """the operations as the Coq models read them: negative entries of index lists counted from the end (U.norm_list_ops)"""
    ops = a["ops"]
    return U.norm_list_ops(a["start"], ops) if any(U._neg_list(op[1]) for op in ops) else ops


def _dense_np_expr(a, steps):
    if len(steps) != len(a["ops"]) or any("broken" in s["state"] for s in steps):
        return None
    for s in steps:
        if not _ints(s["state"]["data"]) or s.get("rhs_changed"):
            return None
        if s["out"] and s["out"][0] == "vals" and not _ints(s["out"][1]):
            return None
        if s["out"] and s["out"][0] == "dense" and not _ints(s["out"][2]):
            return None
    st0 = tgen.gdense(a["start"]["shape"], a["start"]["data"] if a["start"]["shape"] else [])
    obs = "[" + "; ".join(f"({_g_dense_state(s['state'])}, {U.g_xout(None if s['exc'] else s['out'])})" for s in steps) + "]"
    return f"check_dense_np {st0} {U.g_ops(_model_ops(a))} {obs}"


def _class_expr(a, o, cls):
    """Gallina bool for one class: pyttb's steps follow the specification (the executable models of the refinement theorems)"""
    parts = []
    steps = o[cls]
    ops = a["ops"]
    if len(steps) != len(ops) or any("broken" in s["state"] for s in steps):
        return "false"
    for s, op in zip(steps, ops):
        vals = s["state"]["data"] if cls == "dense" else s["state"]["vals"]
        if not _ints(vals) or s.get("rhs_changed"):
            return "false"
        if s["out"] and s["out"][0] in ("vals",) and not _ints(s["out"][1]):
            return "false"
        if cls == "sparse" and len(s["state"]["vals_shape"]) != 2 and s["state"]["vals"]:
            return "false"
        if cls == "sparse" and any(x < 0 for r in s["state"]["subs"] for x in r):
            return "false"          # negative stored subscripts cannot be written as nat literals: ill-formed anyway
        if s["out"] and s["out"][0] == "sparse" and (any(x < 0 for r in s["out"][2] for x in r) or not _ints(s["out"][3])):
            return "false"
        if s["out"] and s["out"][0] == "dense" and not _ints(s["out"][2]):
            return "false"
        # a deliberately malformed request must be REJECTED by pyttb itself (AssertionError), not crash inside numpy
        if a.get("malformed") and s["exc"] and not s["exc"].startswith("AssertionError"):
            return "false"
    ops = _model_ops(a)          # the model's index lists hold non-negative indices
    so = (o.get("start") or {}).get(cls)
    want0 = tgen.gdense(a["start"]["shape"], a["start"]["data"] if a["start"]["shape"] else [])
    if so is not None:
        if "broken" in so or not _ints(so["data"] if cls == "dense" else so["vals"]):
            return "false"
        if cls == "sparse" and any(x < 0 for r in so["subs"] for x in r):
            return "false"
    if cls == "dense":
        st0 = want0
        if so is not None:
            parts.append(f"start_dense_ok {_g_dense_state(so)} {want0}")
        obs = "[" + "; ".join(f"({_g_dense_state(s['state'])}, {U.g_xout(None if s['exc'] else s['out'])})" for s in steps) + "]"
        parts.append(f"check_dense {st0} {U.g_ops(ops)} {obs}")
    else:
        st0 = tgen.gsparse(a["start"]["shape"], a["start"]["subs"], a["start"]["vals"])
        if so is not None:          # the model starts from the raw state pyttb built (any stored order)
            st0 = _g_sparse_state(so)
            parts.append(f"start_sparse_ok {st0} {want0}")
        obs = "[" + "; ".join(f"({_g_sparse_state(s['state'])}, {U.g_xout(None if s['exc'] else s['out'])})" for s in steps) + "]"
        parts.append(f"{'check_sparse_den' if W.order_free(a) else 'check_sparse'} {st0} {U.g_ops(ops)} {obs}")
        if any(op[0] == "set" and op[1][0] == "subs" for op in ops):
            # wave 5: every S[subs] = vals step RAW against the transliteration of sptensor._set_subscripts (Model/C04SpSetImpl.v over
            # the generated tt_ismember_rows), stepped from the raw state pyttb showed before the call
            parts.append(f"check_sparse_impl {st0} {U.g_ops(ops)} {obs}")
    return " && ".join(f"({p})" for p in parts)


def coq_check(c, o):
    if c.op in X.OPS:
        return X.check_extra(c, o)
    a = c.args
    parts = []
    k04 = _n04_index(a)
    for cls in a["classes"]:
        e = _class_expr(a, o, cls)
        if cls == "sparse" and k04 is not None:
            # inside the class of the open finding C04-N04: the specified behaviour OR exactly the as-is model built from the
            # GENERATED tt_irenumber; anything else is a violation (the trigger does not attribute these cases)
            alt = _asis_expr(a, o[cls], k04)
            if alt is not None:
                e = f"({e}) || ({alt})"
        if cls == "dense" and _a16_available(a):
            # inside the class of the open finding A-16: the specified behaviour (outer product) OR numpy's advanced indexing
            # for every key with an index list, consistently over the whole history; anything else is a violation
            alt = _dense_np_expr(a, o[cls])
            if alt is not None:
                e = f"({e}) || ({alt})"
        parts.append(e)
    return " && ".join(f"({p})" for p in parts)


# ------------------------------------------------------------------------------------------------
# brute-force oracle (reference semantics on dictionaries) + shrinking
# ------------------------------------------------------------------------------------------------
def _den_of_state(cls, s):
    """(shape, dict) denoted by a raw observed state, or a string describing ill-formedness"""
    if "broken" in s:
        return "state unreadable: " + s["broken"]
    shape = tuple(s["shape"])
    d = {}
    if cls == "dense":
        if not shape:
            return (shape, d) if not s["data"] else "0-way tensor with data"
        if len(s["data"]) != math.prod(shape):
            return "data size does not match shape"
        for p, v in zip(tgen.all_subs(shape), s["data"]):
            if v != 0:
                d[tuple(p)] = v
        return shape, d
    if len(s["subs"]) != len(s["vals"]) or s["nnz"] != len(s["subs"]):
        return f"len(subs)={len(s['subs'])} len(vals)={len(s['vals'])} nnz={s['nnz']}"
    for p, v in zip(s["subs"], s["vals"]):
        p = tuple(p)
        if len(p) != len(shape) or any(not 0 <= x < dd for x, dd in zip(p, shape)):
            return f"stored subscript {list(p)} outside shape {list(shape)}"
        if p in d:
            return f"duplicate stored subscript {list(p)}"
        if v == 0:
            return f"explicit zero stored at {list(p)}"
        d[p] = v
    return shape, d


def _out_vals(out):
    """(shape or None, values) of a raw read result"""
    if out[0] == "vals":
        return None, list(out[1])
    if out[0] == "dense":
        return tuple(out[1]), list(out[2])
    shape = tuple(out[1])
    d = {tuple(p): v for p, v in zip(out[2], out[3])}
    if len(d) != len(out[2]):
        return shape, "duplicate subscripts in the returned sptensor"
    return shape, [d.get(tuple(p), 0) for p in tgen.all_subs(shape)]


def first_failure(args, obs):
    """(class, step index, description) of the first step at which pyttb leaves the reference semantics, else None"""
    best = None
    for cls in args["classes"]:
        st = U.start_state(args["start"])
        so = (obs.get("start") or {}).get(cls)
        if so is not None:
            got = _den_of_state(cls, so)
            if isinstance(got, str) or got != st:
                return (cls, -1, f"{cls} start state built as '{args['mk'].get(cls)}' is not the intended array: "
                        f"{got if isinstance(got, str) else so}")
        for k, (op, s) in enumerate(zip(args["ops"], obs[cls])):
            why = None
            try:
                if cls == "sparse" and not U.sparse_supports(op):
                    raise U.Inadmissible("sptensor has no linear assignment")
                st2, out = U.spec_step(st, op)
                adm = True
            except U.Inadmissible:
                st2, out, adm = st, None, False
            if not adm:
                if not s["exc"]:
                    why = "inadmissible request was accepted"
                elif args.get("malformed") and not s["exc"].startswith("AssertionError"):
                    why = f"request not rejected by pyttb's own check but failed inside numpy: {s['exc']}"
            elif s["exc"]:
                why = f"admissible {op[0]} raised {s['exc']}"
            if why is None and s.get("rhs_changed"):
                why = "the assignment changed its right-hand-side operand: " + s["rhs_changed"][:200]
            if why is None:
                got = _den_of_state(cls, s["state"])
                if isinstance(got, str):
                    why = "state after the step is ill-formed: " + got
                elif got[0] != st2[0]:
                    why = f"shape after the step is {list(got[0])}, expected {list(st2[0])}"
                elif got[1] != st2[1]:
                    diff = sorted(set(got[1].items()) ^ set(st2[1].items()))[:3]
                    why = f"contents after the step differ from the array semantics at {diff}"
                elif adm and op[0] == "get":
                    oshape, ovals = _out_vals(s["out"])
                    if isinstance(ovals, str):
                        why = ovals
                    elif ovals != out[1]:
                        why = f"read returned {ovals}, the array holds {out[1]}"
                    elif oshape is not None and op[1][0] == "region" and tuple(oshape) != tuple(out[0]):
                        why = f"read returned shape {list(oshape)}, expected {list(out[0])}"
            if why:
                if best is None or k < best[1]:
                    best = (cls, k, f"{cls} tensor, step {k} {op}: {why}")
                break
            st = st2
    return best


def _all_admissible(args):
    if args.get("malformed"):
        return True
    st = U.start_state(args["start"])
    try:
        for op in args["ops"]:
            st, _ = U.spec_step(st, op)
    except U.Inadmissible:
        return False
    return True


def shrink(args, fail):
    """minimal failing prefix, then greedy removal of earlier operations (re-running pyttb)"""
    import numpy as np
    import pyttb as ttb
    cls = fail[0]
    cur = {"start": args["start"], "ops": args["ops"][:fail[1] + 1], "classes": [cls]}
    if args.get("malformed"):
        cur["malformed"] = True
    if args.get("mk") and args["mk"].get(cls):
        cur["mk"] = {cls: args["mk"][cls]}
        plain = {k_: v_ for k_, v_ in cur.items() if k_ != "mk"}       # does the plain constructor fail as well?
        try:
            ffp = first_failure(plain, {cls: run_class(ttb, np, cls, plain)})
        except Exception:   # noqa: BLE001
            ffp = None
        if ffp is not None and ffp[1] == fail[1]:
            cur = plain
    # history-independent?  restart from the raw state pyttb was in just before the failing step
    if fail[1] > 0:
        ob = run_class(ttb, np, cls, cur)
        prev = ob[fail[1] - 1]["state"]
        den = _den_of_state(cls, prev)
        if not isinstance(den, str) and den[0]:
            data = [den[1].get(tuple(p), 0) for p in tgen.all_subs(den[0])]
            subs, vals = (prev["subs"], prev["vals"]) if cls == "sparse" else tgen.dense_to_sparse(den[0], data)
            cand = dict(cur, start={"shape": list(den[0]), "data": data, "subs": subs, "vals": vals}, ops=[cur["ops"][-1]])
            ff = first_failure(cand, {cls: run_class(ttb, np, cls, cand)}) if _all_admissible(cand) else None
            if ff is not None:
                cand = shrink_keys(ttb, np, cls, cand)
                return cand, first_failure(cand, {cls: run_class(ttb, np, cls, cand)}) or ff
    changed = True
    while changed and len(cur["ops"]) > 1:
        changed = False
        for k in range(len(cur["ops"]) - 1):
            cand = dict(cur, ops=cur["ops"][:k] + cur["ops"][k + 1:])
            try:
                ob = {cls: run_class(ttb, np, cls, cand)}
                ff = first_failure(cand, ob) if _all_admissible(cand) else None
            except Exception:   # noqa: BLE001
                ff = None
            if ff is not None and ff[1] == len(cand["ops"]) - 1:
                cur = cand
                changed = True
                break
    cur = shrink_keys(ttb, np, cls, cur)
    ob = {cls: run_class(ttb, np, cls, cur)}
    ff = first_failure(cur, ob)
    return cur, ff


def _simpler_elems(e):
    """strictly simpler variants of one region element (same kind of selection, fewer features)"""
    out = []
    if e[0] == "s":
        _, a_, b_, c_ = e
        if c_ is not None:
            out.append(["s", a_, b_, None])
        if a_ is not None:
            out.append(["s", None, b_, c_])
        if b_ is not None:
            out.append(["s", a_, None, c_])
        if a_ is not None and a_ < 0:
            out.append(["s", 0, b_, c_])
        out.append(["i", 0])
    elif e[0] == "l":
        if len(e[1]) > 1:
            out.extend(["l", e[1][:k] + e[1][k + 1:]] for k in range(len(e[1])))
        out.append(["i", e[1][0]])
    elif e[0] == "i" and e[1] != 0:
        out.append(["i", 0])
        if e[1] < 0:
            out.append(["i", -1])
    return [x for x in out if x != e]


def _simpler_ops(st, op):
    """candidate replacements of one operation by one with a simpler key / right-hand side (admissibility is re-checked by the caller)"""
    key = op[1]
    keys = []
    if key[0] == "region":
        for k, e in enumerate(key[1]):
            keys.extend(["region", key[1][:k] + [x] + key[1][k + 1:]] for x in _simpler_elems(e))
    elif key[0] == "subs" and len(key[1]) > 1:
        keys.extend(["subs", key[1][:k] + key[1][k + 1:]] for k in range(len(key[1])))
    elif key[0] == "linlist" and len(key[1]) > 1:
        keys.extend(["linlist", key[1][:k] + key[1][k + 1:]] for k in range(len(key[1])))
    elif key[0] == "linslice":
        keys.extend(["linslice"] + x[1:] for x in _simpler_elems(["s"] + key[1:]) if x[0] == "s")
    elif key[0] == "lin" and key[1] != 0:
        keys.append(["lin", 0])
    out = []
    if op[0] == "get":
        return [["get", k2] for k2 in keys]
    rhs = op[2]
    if rhs[0] == "values":
        nz = [v for v in rhs[1] if v != 0]
        for v in ([nz[0]] if nz else []) + ([0] if 0 in rhs[1] else []):
            out.append(["set", key, ["scalar", v]])
    for k2 in keys:
        if rhs[0] == "scalar":
            out.append(["set", k2, rhs])
            continue
        try:                                  # one value per addressed position: cut / pad the value list
            n2 = len(U.resolve_set(st[0], k2, ["scalar", 1])[1])
        except U.Inadmissible:
            continue
        vs = (list(rhs[1]) + [rhs[1][-1]] * n2)[:n2]
        if k2[0] == "region" and all(e[0] == "i" for e in k2[1]):       # no kept mode: the value is a scalar
            out.append(["set", k2, ["scalar", vs[0]]])
            continue
        if key[0] in ("subs", "linlist") and len(k2[1]) == len(key[1]) - 1:      # drop the value of the dropped row
            j = next(i for i in range(len(key[1])) if key[1][:i] + key[1][i + 1:] == k2[1])
            vs = rhs[1][:j] + rhs[1][j + 1:]
        out.append(["set", k2, ["values", vs]])
    return out


def shrink_keys(ttb, np, cls, cur, budget=80):
    """greedy: replace keys / right-hand sides by simpler ones while the LAST step still fails (pyttb is re-run each time)"""
    changed = True
    while changed and budget > 0:
        changed = False
        sts = [st for st, _ in U._walk(cur)]
        for k in range(len(cur["ops"]) - 1, -1, -1):
            for op2 in _simpler_ops(sts[k], cur["ops"][k]):
                if budget <= 0:
                    break
                budget -= 1
                cand = dict(cur, ops=cur["ops"][:k] + [op2] + cur["ops"][k + 1:])
                try:
                    if not _all_admissible(cand):
                        continue
                    ff = first_failure(cand, {cls: run_class(ttb, np, cls, cand)})
                except Exception:   # noqa: BLE001
                    ff = None
                if ff is not None and ff[1] == len(cand["ops"]) - 1:
                    cur = cand
                    changed = True
                    break
            if changed:
                break
    return cur


def oracle(c, o):
    if c.op in X.OPS:
        return X.oracle_extra(c, o)
    fail = first_failure(c.args, o)
    if fail is None:
        # the two classes against each other (property: they remain equal)
        return None
    if fail[1] < 0:
        return fail[2]
    try:
        small, ff = shrink(c.args, fail)
        how = f" built as {small['mk']}" if small.get("mk") else ""
        return f"{(ff or fail)[2]} | minimal history: start={small['start']}{how} ops={small['ops']}"
    except Exception as ex:     # noqa: BLE001
        return fail[2] + f" (shrinking failed: {type(ex).__name__})"


# ------------------------------------------------------------------------------------------------
# witnesses of the open findings (exact replays on pyttb; None once repaired)
# ------------------------------------------------------------------------------------------------
def _witness(args):
    def run():
        import numpy as np
        import pyttb as ttb
        ob = {cls: run_class(ttb, np, cls, args) for cls in args["classes"]}
        ff = first_failure(args, ob)
        return ff[2] if ff else None
    return run


_S23 = {"shape": [2, 3], "data": [2, 0, 0, 1, 3, 0], "subs": [[1, 1], [0, 0], [0, 2]], "vals": [1, 2, 3]}
# witnesses of the OPEN findings
WITNESS_ARGS = {
    "A-16": {"start": _S23, "classes": ["dense"], "ops": [["get", ["region", [["l", [0, 1]], ["l", [0, 2]]]]]]},
    "C04-N04": {"start": _S23, "classes": ["sparse"],
                "ops": [["set", ["region", [["i", 0], ["s", 0, 3, 2]]], ["values", [7, 8]]]]},
    # wave 6: S[[-1, 3], 0] = 9 on the 2 x 3 sptensor: tensor grows mode 0 to 4 and writes (3, 0) twice (numpy counts -1 from the grown
    # end); sptensor writes (1, 0) and (3, 0)
    "C04-N17": {"start": _S23, "classes": ["sparse"],
                "ops": [["set", ["region", [["l", [-1, 3]], ["i", 0]]], ["scalar", 9]], ["get", ["linslice", None, None, None]]]},
}
_S32 = {"shape": [3, 2], "data": [0, 3, 0, 4, 0, 5], "subs": [[1, 0], [0, 1], [2, 1]], "vals": [3, 4, 5]}
WITNESSES = {fid: _witness(a) for fid, a in WITNESS_ARGS.items()}
WITNESSES.update(X.WITNESSES_EXTRA)

# exact witnesses of the REPAIRED findings: part of every run as ordinary (unattributed) cases, so that a regression is a VIOLATION
REGRESSION_ARGS = {
    "A-13": {"start": _S23, "classes": ["sparse"],
             "ops": [["set", ["subs", [[0, 0], [1, 1], [1, 2]]], ["values", [4, 0, 7]]]]},
    "C04-N01": {"start": _S23, "classes": ["sparse"], "ops": [["set", ["subs", [[0, 0]]], ["scalar", 0]]]},
    "C04-N02": {"start": _S23, "classes": ["sparse"],
                "ops": [["set", ["subs", [[1, 0], [1, 0]]], ["values", [5, 7]]], ["get", ["region", [["i", 1], ["i", 0]]]]]},
    "A-14": {"start": _S23, "classes": ["sparse"], "ops": [["set", ["subs", [[0, 0, 1]]], ["scalar", 3]]]},
    "A-15": {"start": {"shape": [1, 3], "data": [1, 2, 3], "subs": [[0, 0], [0, 1], [0, 2]], "vals": [1, 2, 3]},
             "classes": ["dense"], "ops": [["set", ["region", [["s", None, None, None], ["i", 1]]], ["scalar", 9]]]},
    "C04-N03": {"start": _S23, "classes": ["dense"], "ops": [["set", ["subs", [[1, 0]]], ["values", [5]]]]},
    "C04-N05": {"start": _S23, "classes": ["sparse"],
                "ops": [["set", ["region", [["s", 0, 2, None], ["i", 0], ["i", 1]]], ["values", [7, 8]]],
                        ["get", ["region", [["i", 0], ["i", 0], ["i", 0]]]]]},
    "C04-N06": {"start": _S23, "classes": ["sparse"],
                "ops": [["set", ["subs", [[2, 0]]], ["scalar", 4]],
                        ["set", ["region", [["i", -1], ["s", 0, 2, None]]], ["values", [7, 8]]]]},
    "C04-N07": {"start": {"shape": [3, 2], "data": [2, 0, 0, 0, 1, 3], "subs": [[1, 1], [0, 0], [2, 1]], "vals": [1, 2, 3]},
                "classes": ["sparse"],
                "ops": [["set", ["region", [["l", [0, 1, 2]], ["s", None, None, None]]], ["values", [7, 0, 0, 8, 9, 0]]]]},
    "A-17": {"start": _S23, "classes": ["dense"], "malformed": True, "ops": [["set", ["lin", 6], ["scalar", 9]]]},
    "C04-N12": {"start": _S32, "classes": ["sparse"],
                "ops": [["set", ["region", [["l", [0, 0, 2]], ["i", 1]]], ["scalar", 7]]]},
    "C04-N13": {"start": _S32, "classes": ["sparse"],
                "ops": [["set", ["region", [["l", [1, 1]], ["s", 0, 2, None]]], ["values", [1, 3, 2, 4]]]]},
    "C04-N11": {"start": _S32, "classes": ["sparse"],
                "ops": [["get", ["region", [["l", [1, 1]], ["s", None, None, None]]]]]},
    "C04-N15": {"start": _S32, "classes": ["sparse"],
                "ops": [["set", ["region", [["l", [1, 1]], ["s", 0, 2, None]]], ["values", [1, 3, 2, 0]]]]},
    "C04-N10": {"start": {"shape": [3, 2], "data": [0] * 6, "subs": [], "vals": []}, "classes": ["sparse"],
                "ops": [["set", ["region", [["l", [1, 1]], ["s", 0, 2, None]]], ["scalar", 5]],
                        ["get", ["linslice", None, None, None]]]},
    # wave 6 (C04-N16 repaired, 6e4bb42): the former witness S[[-1], 0] = 5 on the 2 x 3 tensor (position (1, 0) is written, as by
    # tensor / numpy) and the other inputs of the finding record, dense and sparse driven together
    "C04-N16": {"start": _S23, "classes": ["dense", "sparse"],
                "ops": [["set", ["region", [["l", [-1]], ["i", 0]]], ["scalar", 5]], ["get", ["region", [["i", 1], ["i", 0]]]]]},
    "C04-N16/int-write": {"start": _S23, "classes": ["dense", "sparse"],         # S[-5, 0] = 7: refused, state unchanged
                          "ops": [["set", ["region", [["i", -5], ["i", 0]]], ["scalar", 7]], ["get", ["linslice", None, None, None]]]},
    "C04-N16/int-read": {"start": _S23, "classes": ["dense", "sparse"],          # S[-5, 0]: refused
                         "ops": [["get", ["region", [["i", -5], ["i", 0]]]]]},
    "C04-N16/list-read": {"start": _S23, "classes": ["dense", "sparse"],         # S[[-1], 1] reads the stored entry (1, 1)
                          "ops": [["get", ["region", [["l", [-1]], ["i", 1]]]]]},
    "C04-N16/list-below": {"start": _S23, "classes": ["dense", "sparse"],        # S[[-3], 0] = 4: refused, state unchanged
                           "ops": [["set", ["region", [["l", [-3]], ["i", 0]]], ["scalar", 4]], ["get", ["linslice", None, None, None]]]},
    "C04-N16/list-zero": {"start": _S23, "classes": ["dense", "sparse"],         # S[[-1, 0], 0] = 0 deletes (0, 0); (1, 0) was empty
                          "ops": [["set", ["region", [["l", [-1, 0]], ["i", 0]]], ["scalar", 0]], ["get", ["linslice", None, None, None]]]},
}
