(* Model/C20Lines.v — wave 5: tenones / tenzeros (and any constant fill) LINE BY LINE with a flexible shape argument, over the
   translator-GENERATED parse_shape (Gen/GenUtils3b.v, regenerated from /repo on every run).  Definitions only.

     def tenones(shape, order="F"):                           @classmethod
         def ones(shape): return np.ones(shape, order=order)  def from_function(cls, function_handle, shape):
         return tensor.from_function(ones, shape)                 shape = parse_shape(shape)
                                                                  data = function_handle(shape)
                                                                  return cls(data, shape, copy=False)            *)
From Coq Require Import List Arith ZArith Bool.
From PV Require Import Np.NpZ Np.NpZ2 Np.NpZ3 Np.NpZ3b Gen.GenUtils3b.
From PV Require Import Base.Index Np.Array Model.Sparse Model.Repr Model.Harness Model.C20Gen Model.C20Harness Model.C20Diag.
Import ListNotations.

Definition py_dense_generator (fill : Z) (shape : pyshp) : res (dense Z) :=
  bind (parse_shape shape) (fun s =>                                  (* shape = parse_shape(shape) *)
  if negb (zshape_ok s) then Err else                                 (* data = np.ones(shape): numpy rejects a negative size *)
  let data := np_full (to_shape s) fill in
  if Nat.eqb (length s) 0 then Err else                               (* cls(data, shape): the empty shape is rejected *)
  res_of (zfrom_function (to_shape s) data)).                         (* cls(data, shape): element count, F-order layout *)

Definition py_tenones := py_dense_generator 1%Z.
Definition py_tenzeros_req := py_dense_generator 0%Z.

(* the generated correspondence cases (tools/props/c20.py, op gen_lines) *)
Definition dense_lines_ok (fill : Z) (sp : diag_arg) (obs : option (dense Z)) : bool :=
  match py_dense_generator fill (diag_arg_py sp), obs with
  | Ok T, Some o => dense_eqb T o
  | Err, None => true
  | _, _ => false
  end.
