"""C14 helpers (wave 3): input-holder variants for nvecs.

A case may carry, next to the integer bundle (data / kw,kf / tcs,tcore,tf), the keys
  exp   : int   — all data multiplied by 2**exp (dense values, sparse values, Kruskal weights or one Kruskal factor, Tucker core)
  fexp  : [int] — factor matrix n (Kruskal and Tucker) multiplied by 2**fexp[n]  (column-normalised factors on the 2^-30 grid)
  lay   : "F" | "C" | "view" — memory layout of the arrays the object HOLDS when nvecs is called (assigned to the holder after
          construction, as a user or an earlier in-place operation may leave them): C-contiguous copies / non-contiguous views
  dtype : numpy dtype name of a dense tensor's data (integer dtypes keep their dtype inside ttb.tensor)
  between : [op-name] — for op seq: operation applied to the SAME object between two nvecs calls
  vdtype : numpy dtype name of a sparse tensor's vals (the sptensor constructor keeps integer / float32 value arrays as they are)
  hdtype : numpy dtype name of a Tucker tensor's core data (values of a sparse core) AND factor matrices (the ttensor constructor
          keeps them as they are)
  cfmask : [bool] — representations ttensor_cf / ttensor_spcf (wave 5): factor matrix m is held as a scipy.sparse.coo_matrix where
          cfmask[m] (the ttensor constructor admits coo factors; ttensor.nvecs has its own branches for them)
The tensor the object denotes is  (integer bundle) * 2**(exp + sum(fexp));  its mode-n Gram matrix is the integer Gram matrix times
4**(exp + sum(fexp)); eigenvectors do not depend on the scale."""
import math
from fractions import Fraction

import tgen


def total_exp(a):
    return a.get("exp", 0) + sum(a.get("fexp") or [])


def is_exact(a):
    """True when every product the code forms is exactly representable (small integers times a power of two)"""
    return not any(a.get("fexp") or [])


def _ld(v, e):
    return math.ldexp(float(v), e)


def relayout(np, arr, lay):
    """same values, requested memory layout"""
    if lay == "C":
        out = np.ascontiguousarray(arr)
        if out.ndim >= 2 and out.flags["F_CONTIGUOUS"] and not out.flags["C_CONTIGUOUS"]:
            raise AssertionError("layout")
        return out
    if lay == "view":
        if arr.ndim == 0:
            return arr
        big = np.zeros(tuple(2 * s + 1 for s in arr.shape), dtype=arr.dtype, order="C")
        v = big[tuple(slice(1, 2 * s + 1, 2) for s in arr.shape)]
        v[...] = arr
        return v
    return arr


def np_dtype(np, a):
    return getattr(np, a.get("dtype", "float64"))


def mk(ttb, np, a, rp):
    """the pyttb object of representation rp, holders laid out as a['lay'] asks"""
    import random
    shape, d = a["shape"], len(a["shape"])
    e, fe = a.get("exp", 0), (a.get("fexp") or [0] * len(a["shape"]))
    lay = a.get("lay", "F")
    E = e + sum(fe)
    if rp == "dense":
        if a.get("dtype", "float64") != "float64":
            arr = np.array(a["data"], dtype=np_dtype(np, a)).reshape(tuple(shape), order="F")
            X = ttb.tensor(arr, tuple(shape), copy=True)
            if X.data.dtype != np_dtype(np, a):
                raise AssertionError("dtype not kept")
        else:
            X = ttb.tensor(np.array([_ld(v, E) for v in a["data"]], dtype=float).reshape(tuple(shape), order="F"), tuple(shape), copy=True)
        if lay != "F":
            X.data = relayout(np, X.data, lay)
        return X
    if rp == "sparse":
        subs, vals = tgen.dense_to_sparse(shape, a["data"], random.Random(a["sseed"]), a["order"])
        if a.get("vdtype", "float64") != "float64":
            vd = getattr(np, a["vdtype"])
            S = ttb.sptensor(np.array(subs, dtype=int).reshape((len(subs), d)), np.array(vals, dtype=vd).reshape((len(vals), 1)),
                             tuple(shape), copy=True)
            if S.vals.dtype != vd:
                raise AssertionError("vals dtype not kept")
        else:
            S = ttb.sptensor(np.array(subs, dtype=int).reshape((len(subs), d)),
                             np.array([_ld(v, E) for v in vals], dtype=float).reshape((len(vals), 1)), tuple(shape), copy=True)
        if lay != "F":
            S.subs = relayout(np, S.subs, lay)
            S.vals = relayout(np, S.vals, lay)
        return S
    if rp == "ktensor":
        R = len(a["kw"])
        fs = [np.array([[_ld(x, fe[n]) for x in row] for row in a["kf"][n]], dtype=float).reshape((shape[n], R)) for n in range(d)]
        w = np.array(a["kw"], dtype=float)
        if a.get("kexp_in") == "factor":
            fs[a["sseed"] % d] = fs[a["sseed"] % d] * (2.0 ** e)
        else:
            w = w * (2.0 ** e)
        K = ttb.ktensor(fs, w, copy=True)
        if lay != "F":
            for n in range(d):
                K.factor_matrices[n] = relayout(np, K.factor_matrices[n], lay)
            K.weights = relayout(np, K.weights, "view" if lay == "view" else "F")
        return K
    cs = a["tcs"]
    if a.get("hdtype", "float64") != "float64":     # holders of another element type (exp / fexp / lay do not apply)
        hd = getattr(np, a["hdtype"])
        if rp == "ttensor_sp":
            subs, vals = tgen.dense_to_sparse(cs, a["tcore"], random.Random(a["sseed"]), a["order"])
            core = ttb.sptensor(np.array(subs, dtype=int).reshape((len(subs), d)), np.array(vals, dtype=hd).reshape((len(vals), 1)),
                                tuple(cs), copy=True)
            kept = core.vals.dtype
        else:
            core = ttb.tensor(np.array(a["tcore"], dtype=hd).reshape(tuple(cs), order="F"), tuple(cs), copy=True)
            kept = core.data.dtype
        T = ttb.ttensor(core, [np.array(a["tf"][n], dtype=hd).reshape((shape[n], cs[n])) for n in range(d)], copy=True)
        if kept != hd or any(f.dtype != hd for f in T.factor_matrices):
            raise AssertionError("holder dtype not kept")
        return T
    if rp in ("ttensor_sp", "ttensor_spcf"):       # sparse core
        subs, vals = tgen.dense_to_sparse(cs, a["tcore"], random.Random(a["sseed"]), a["order"])
        core = ttb.sptensor(np.array(subs, dtype=int).reshape((len(subs), d)),
                            np.array([_ld(v, e) for v in vals], dtype=float).reshape((len(vals), 1)), tuple(cs), copy=True)
    else:
        core = ttb.tensor(np.array([_ld(v, e) for v in a["tcore"]], dtype=float).reshape(tuple(cs), order="F"), tuple(cs), copy=True)
    fs = [np.array([[_ld(x, fe[n]) for x in row] for row in a["tf"][n]], dtype=float).reshape((shape[n], cs[n])) for n in range(d)]
    if rp in ("ttensor_cf", "ttensor_spcf"):
        import scipy.sparse
        mask = a.get("cfmask") or [True] * d
        fs = [scipy.sparse.coo_matrix(f) if mask[n] else f for n, f in enumerate(fs)]
    T = ttb.ttensor(core, fs, copy=True)
    if rp in ("ttensor_cf", "ttensor_spcf"):
        import scipy.sparse
        if not all(scipy.sparse.issparse(T.factor_matrices[n]) == bool((a.get("cfmask") or [True] * d)[n]) for n in range(d)):
            raise AssertionError("coo factors not kept")
    if lay != "F":
        for n in range(d):
            if isinstance(T.factor_matrices[n], np.ndarray):
                T.factor_matrices[n] = relayout(np, T.factor_matrices[n], lay)
        if rp in ("ttensor_sp", "ttensor_spcf"):
            T.core.subs = relayout(np, T.core.subs, lay)
            T.core.vals = relayout(np, T.core.vals, lay)
        else:
            T.core.data = relayout(np, T.core.data, lay)
    return T


# ---------------------------------------------------------------- operations applied between two nvecs calls on one object
# none of them changes the tensor the object denotes (normalize / arrange / redistribute / fixsigns move scale and order between the
# weights and the factors of a Kruskal tensor; the others only read)
BETWEEN = {
    "ktensor": ("normalize", "normalize_all", "normalize_k", "normalize_sort", "arrange", "fixsigns", "redistribute", "full", "norm"),
    "ttensor": ("full", "norm", "double", "innerprod"),
    "ttensor_sp": ("full", "norm", "innerprod"),
    "dense": ("norm", "tenmat", "ttv", "innerprod"),
    "sparse": ("norm", "full", "innerprod", "collapse"),
}
INEXACT_OPS = ("normalize", "normalize_all", "normalize_k", "normalize_sort", "redistribute", "arrange")   # arrange() normalises first


def apply_between(ttb, np, X, op, k):
    d = X.ndims
    if op == "normalize":
        X.normalize()
    elif op == "normalize_all":
        X.normalize(weight_factor="all")
    elif op == "normalize_k":
        X.normalize(weight_factor=k % d)
    elif op == "normalize_sort":
        X.normalize(sort=True)
    elif op == "arrange":
        X.arrange()
    elif op == "fixsigns":
        X.fixsigns()
    elif op == "redistribute":
        X.redistribute(k % d)
    elif op == "full":
        X.full()
    elif op == "norm":
        X.norm()
    elif op == "double":
        X.double()
    elif op == "innerprod":
        X.innerprod(X)
    elif op == "tenmat":
        X.to_tenmat(rdims=np.array([k % d]))
    elif op == "ttv":
        X.ttv(np.ones(X.shape[k % d]), k % d)
    elif op == "collapse":
        X.collapse(np.array([k % d]))
    else:
        raise ValueError(op)


# ---------------------------------------------------------------- generators of structured factors
def unit_factor(rng, rows, cols, distinct):
    """columns are signed unit vectors: orthonormal when the rows are distinct, unit-norm but NOT orthogonal otherwise"""
    if distinct and cols <= rows:
        pos = rng.sample(range(rows), cols)
    else:
        pos = [rng.randrange(rows) for _ in range(cols)]
        if cols >= 2:
            pos[1] = pos[0]
    sg = [rng.choice([1, -1]) for _ in range(cols)]
    return [[sg[j] if pos[j] == i else 0 for j in range(cols)] for i in range(rows)]


GRID_BITS = 30


def gridnorm_factor(rng, rows, cols):
    """columns of Euclidean norm 1 up to 2^-29 (numpy.allclose accepts them as normalised), entries on the 2^-30 grid, generic
    directions (not orthogonal); returned as integers, to be scaled by 2^-30"""
    out = [[0] * cols for _ in range(rows)]
    for j in range(cols):
        while True:
            g = [rng.gauss(0, 1) for _ in range(rows)]
            nr = math.sqrt(sum(x * x for x in g))
            if nr > 0.3:
                break
        for i in range(rows):
            out[i][j] = round(g[i] / nr * 2 ** GRID_BITS)
    return out


def unscale_exact(Y, E2):
    """entries of Y (ints / Fractions, exact images of floats) divided by 2**E2, exactly"""
    f = Fraction(1, 2 ** E2) if E2 >= 0 else Fraction(2 ** (-E2))
    out = []
    for row in Y:
        r = []
        for x in row:
            q = Fraction(x) * f
            r.append(int(q) if q.denominator == 1 else q)
        out.append(r)
    return out


# ---------------------------------------------------------------- holders of a narrow element type (findings C14-F4, C14-F5: repaired;
# tucker_wraps is used by the GENERATOR only, to pick magnitudes at which the unrepaired code wrapped — no trigger depends on it)
INT_RANGE = {"int8": (-2 ** 7, 2 ** 7 - 1), "uint8": (0, 2 ** 8 - 1), "int16": (-2 ** 15, 2 ** 15 - 1), "uint16": (0, 2 ** 16 - 1),
             "int32": (-2 ** 31, 2 ** 31 - 1), "int64": (-2 ** 63, 2 ** 63 - 1)}


def tucker_wraps(a, limits=None):
    """does an intermediate of ttensor.nvecs — U_m^T U_m (m != n), H = core x_m V_m, GnT Un^T, Y — leave the range of the integer
    holder type a['hdtype'] (or the range `limits`)?  (exact Python integers; mirrors the algebra, not the code)"""
    lo, hi = limits or INT_RANGE[a["hdtype"]]
    d, n, cs, shape = len(a["shape"]), a["n"], a["tcs"], a["shape"]
    Us = a["tf"]

    def out(vals):
        return any(v < lo or v > hi for v in vals)
    Vs = []
    for m in range(d):
        if m == n:
            Vs.append(Us[m])
        else:
            g = [[sum(Us[m][i][p] * Us[m][i][q] for i in range(shape[m])) for q in range(cs[m])] for p in range(cs[m])]
            if out(x for row in g for x in row):
                return True
            Vs.append(g)
    # H = core x_m V_m, one mode after the other (every partial result is held in the same type)
    cur_shape, cur = list(cs), list(a["tcore"])
    for m in range(d):
        new_shape = list(cur_shape)
        new_shape[m] = len(Vs[m])
        subs = tgen.all_subs(new_shape)
        strides = [math.prod(cur_shape[:k]) for k in range(d)]
        nxt = []
        for sb in subs:
            base = sum(sb[k] * strides[k] for k in range(d) if k != m)
            nxt.append(sum(Vs[m][sb[m]][q] * cur[base + q * strides[m]] for q in range(cur_shape[m])))
        if out(nxt):
            return True
        cur_shape, cur = new_shape, nxt
    # Y = H_(n) (U_n G_(n))^T: bounded through the exact Gram matrix entries and the rows of X_(n) = U_n G_(n)
    subs_c = tgen.all_subs(cs)
    rest = [k for k in range(d) if k != n]
    xn = {}
    for j, g in zip(subs_c, a["tcore"]):
        key = tuple(j[k] for k in rest)
        for i in range(shape[n]):
            xn[(i, key)] = xn.get((i, key), 0) + Us[n][i][j[n]] * g
    if out(xn.values()):
        return True
    hn = {}
    for sb, v in zip(tgen.all_subs(cur_shape), cur):
        hn[(sb[n], tuple(sb[k] for k in rest))] = v
    keys = {k for _, k in xn}
    y = [sum(hn[(p, k)] * xn[(q, k)] for k in keys) for p in range(shape[n]) for q in range(shape[n])]
    return out(y)


def tucker_float_exact(a):
    """True when float64 arithmetic forms every intermediate of ttensor.nvecs on the integer request exactly, in any summation order: the
    same computation on the ABSOLUTE values of core and factors (which bounds every partial sum) stays below 2^53"""
    aa = dict(a, tcore=[abs(v) for v in a["tcore"]], tf=[[[abs(x) for x in row] for row in U] for U in a["tf"]])
    return not tucker_wraps(aa, (-2 ** 53, 2 ** 53))
