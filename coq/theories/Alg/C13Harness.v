(* Alg/C13Harness.v — executable instances used by the generated C13 cases, the weight laws over Qc and the
   concrete instances (extreme draws; the open short-supply finding C13-S1). *)
From Coq Require Import List ZArith Lia Bool Arith QArith Qcanon.
From PV Require Import Base.Index Np.Array Model.Sparse Model.Harness Alg.C13Samplers Alg.C13Solver.
From PV Require Import Model.Repr Model.C08Kruskal Alg.C13Config Alg.C13Vec.
Import ListNotations.
Local Open Scope Z_scope.

(* numpy doubles in [0,1) are multiples of 2^-53 *)
Definition D53 : Z := 2 ^ 53.
Lemma D53_pos : 0 < D53. Proof. reflexivity. Qed.

Definition zuniform_subs := uniform_subs D53.
Definition zuniform_vals := uniform_vals (V:=Z) D53 0.
Definition zstrat_subs := strat_subs (V:=Z) D53.
Definition zstrat_vals := strat_vals (V:=Z) 0.
Definition zsemi_subs := semi_subs (V:=Z) D53.
Definition zsemi_vals := semi_vals (V:=Z) 0.
Definition zmat_eqb := list_eqb vec_eqb.
(* np.sort(tt_sub2ind(shape, subs)) up to order *)
Definition znzidx (S : sparse Z) : list Z := map (fun j => Z.of_nat (sub2ind (sshape S) j)) (ssubs S).

(* finding C13-S1 (open): what a repaired stratified sampler would return when fewer zeros are obtained than requested —
   zero values (and weights) sized by the zero subscripts actually obtained.  Accepted by the generated cases ONLY inside
   the trigger region of that finding (short zero supply). *)
Definition zstrat_vals_fixed := strat_vals_fixed (V:=Z) D53 0.
Lemma D53_draw_range a d : 0 <= a < D53 -> 0 < d -> 0 <= draw_sub D53 a d < d.
Proof. apply draw_sub_range. exact D53_pos. Qed.

(* ---- what C13 states about ONE observed sample (subscripts, values, number of weights) ---- *)
Definition sample_ok_dense (X : dense Z) (subs : list (list Z)) (vals : list Z) (nw : nat) : bool :=
  Nat.eqb (length subs) (length vals) && Nat.eqb (length vals) nw &&
  forallb (in_rangeZb (dshape X)) subs &&
  vec_eqb (map (fun row => zden X (map Z.to_nat row)) subs) vals.
Definition sample_ok_sp (S : sparse Z) (subs : list (list Z)) (vals : list Z) (nw : nat) : bool :=
  Nat.eqb (length subs) (length vals) && Nat.eqb (length vals) nw &&
  forallb (in_rangeZb (sshape S)) subs &&
  vec_eqb (map (fun row => zden_sp S (map Z.to_nat row)) subs) vals.
(* zero samples are true zeros *)
Definition zeros_ok_sp (S : sparse Z) (zsubs : list (list Z)) : bool :=
  forallb (fun row => in_rangeZb (sshape S) row && (zden_sp S (map Z.to_nat row) =? 0)) zsubs.

(* ---- weights ---- *)
Local Open Scope Qc_scope.
Definition wsum (ws : list Qc) : Qc := fold_right Qcplus (Q2Qc 0) ws.
Definition zq (z : Z) : Qc := Q2Qc (inject_Z z).
(* n samples of weight c/n each *)
Definition even_weights (c : Qc) (n : nat) : list Qc := repeat (c / zq (Z.of_nat n)) n.
Definition weights_close (ws : list Qc) (c : Qc) (n : nat) : bool :=
  Nat.eqb (length ws) n && forallb (fun w => qclose tol9 w (c / zq (Z.of_nat n))) ws.
Definition total_close (ws : list Qc) (c : Qc) : bool := qclose tol9 (wsum ws) c.

Lemma zq_succ n : zq (Z.of_nat (S n)) = zq (Z.of_nat n) + 1.
Proof.
  unfold zq. rewrite Nat2Z.inj_succ. unfold Z.succ, Qcplus. apply Q2Qc_eq_iff.
  cbn [this Q2Qc]. rewrite !Qred_correct. rewrite inject_Z_plus. reflexivity.
Qed.

Lemma wsum_repeat q n : wsum (repeat q n) = zq (Z.of_nat n) * q.
Proof.
  induction n as [|n IH].
  - cbn [repeat wsum fold_right]. change (zq (Z.of_nat 0)) with 0%Qc. ring.
  - cbn [repeat wsum fold_right]. fold (wsum (repeat q n)). rewrite IH.
    rewrite zq_succ. ring.
Qed.

(* the weights of one stratum total the number of entries the stratum stands for *)
Theorem even_weights_total c n : (0 < n)%nat -> wsum (even_weights c n) = c /\ length (even_weights c n) = n.
Proof.
  intros Hn. unfold even_weights. rewrite wsum_repeat, repeat_length. split; [|reflexivity].
  field. unfold zq. intros H. apply Q2Qc_eq_iff in H. unfold Qeq in H. cbn in H. lia.
Qed.

(* the weights samplers.stratified / semistrat attach: num_nonzeros weights nnz/num_nonzeros, then num_zeros weights
   zeros/num_zeros (zeros = size - nnz for stratified, size for semi-stratified) — sized and scaled by the REQUEST, whatever
   its relation to the number of nonzeros / zeros there are (requests larger than nnz draw with replacement) *)
Definition strat_weights (nnzq zerosq : Qc) (cn cz : nat) : list Qc := even_weights nnzq cn ++ even_weights zerosq cz.
Theorem strat_weights_total nnzq zerosq cn cz :
  length (strat_weights nnzq zerosq cn cz) = (cn + cz)%nat /\
  ((0 < cn)%nat -> wsum (firstn cn (strat_weights nnzq zerosq cn cz)) = nnzq) /\
  ((0 < cz)%nat -> wsum (skipn cn (strat_weights nnzq zerosq cn cz)) = zerosq).
Proof.
  unfold strat_weights.
  assert (L : length (even_weights nnzq cn) = cn) by (unfold even_weights; apply repeat_length).
  split; [|split].
  - rewrite app_length, L. unfold even_weights. now rewrite repeat_length.
  - intros H. rewrite firstn_app, L, Nat.sub_diag. cbn [firstn]. rewrite app_nil_r, <- L at 1. rewrite firstn_all.
    now apply even_weights_total.
  - intros H. rewrite skipn_app, L, Nat.sub_diag. cbn [skipn]. rewrite <- L at 1. rewrite skipn_all. cbn [app].
    now apply even_weights_total.
Qed.
Local Close Scope Qc_scope.

(* ---- solver bookkeeping over a stream of observed estimates ----
   the "model" is the index of the epoch boundary that produced it (0 = starting guess), fest k = k-th estimate *)
Definition zsolve (ests : list Z) (max_fails : nat) (tol : option Z) (max_iters : nat) : st nat unit Z :=
  solve nat unit Z Z.leb (fun k => nth k ests 0) (fun n _ o _ => (S n, o)) (fun o => o) max_fails tol max_iters 0%nat tt.
Definition zfull_trace (ests : list Z) (s : st nat unit Z) : list Z := full_trace nat unit Z (fun k => nth k ests 0) 0%nat s.
Definition zreported_trace (ests : list Z) (max_iters : nat) (s : st nat unit Z) : list Z :=
  reported_trace nat unit Z (fun k => nth k ests 0) 0 max_iters 0%nat s.
(* observation of a solve: index candidates of the returned model, completed epochs, _nfails afterwards, n_epoch *)
Definition zsolve_ok (ests : list Z) (max_fails : nat) (tol : option Z) (max_iters : nat)
           (ret_cands : list nat) (nepochs nfails_obs n_epoch_obs : nat) : bool :=
  let s := zsolve ests max_fails tol max_iters in
  existsb (Nat.eqb (cur _ _ _ s)) ret_cands && Nat.eqb (epochs _ _ _ s) nepochs &&
  Nat.eqb (nfails _ _ _ s) nfails_obs && Nat.eqb (reported_n_epoch _ _ _ s) n_epoch_obs &&
  vec_eqb (zreported_trace ests max_iters s) (zfull_trace ests s).

(* ---- concrete instances ---- *)
(* the extreme draws u = 0.0 and u = 1 - 2^-53 give the first and the last index (A-48 repaired) *)
Example uniform_extreme_draws_in_range :
  zuniform_subs [2; 3]%nat [[0; D53 - 1]; [D53 / 2; D53 / 3]] = [[0; 2]; [1; 0]] /\
  forallb (in_rangeZb [2; 3]%nat) (zuniform_subs [2; 3]%nat [[0; D53 - 1]; [D53 / 2; D53 / 3]]) = true.
Proof. split; reflexivity. Qed.

(* finding C13-S1 (open) — short zero supply: 2x2 tensor with 3 nonzeros, 2 zeros requested, the drawn rows contain the only zero once:
   stratified returns 2 subscripts but 3 values *)
Example stratified_short_supply_lengths_differ :
  let S := mkSp [2; 2]%nat [[0; 0]; [1; 0]; [0; 1]]%nat [5; 6; 7] in
  let draws := [[0; 0]; [D53 - 1; D53 - 1]; [D53 - 1; 0]] in
  length (zstrat_subs S [0; 1; 2] [1%nat] draws 2) = 2%nat /\ length (zstrat_vals S [1%nat] 2) = 3%nat.
Proof. split; reflexivity. Qed.

(* ---- LBFGSB.solve replayed: scipy is the oracle, its observed answer (final vector, final f, warnflag) is the input ----
   All floats of one case are scaled by one common denominator (tovec / update only move data), callbacks are a unit type.
   The objective is the constant function "objective of the returned model as the harness evaluates it" (fend): the only place the
   wrapper itself evaluates the objective is the re-evaluation of the returned model after an abandoned line search. *)
Definition zlb_solve (K0 : ktensor Z) (lb : option Z) (x : list Z) (fx : Z) (wflag : nat) (fend : Z)
  : outcome (ktensor Z) Z Z unit unit :=
  lbfgsb_solve (ktensor Z) Z Z unit unit (tovec_f Z 0) (update_all Z 0) (fun _ => fend)
               (fun _ _ _ _ => (x, fx, wflag)) (mkKw unit unit (UserCb unit None) tt) K0 lb.
Definition zfactors_eqb := list_eqb (list_eqb vec_eqb).
(* observation: the start vector and the number of bound pairs handed to scipy, the factor matrices and weights of the returned
   model (raw rows), info["final_f"]; the returned model must be scipy's vector read back through update — NOT any other point —
   and info["final_f"] scipy's value, or the objective of the returned model when warnflag = 2 *)
Definition zlb_ok (K0 : ktensor Z) (lb : option Z) (x : list Z) (fx : Z) (wflag : nat) (fend : Z)
           (x0_obs : list Z) (nbounds : nat) (factors_obs : list (list (list Z))) (weights_obs : list Z) (final_f_obs : Z) : bool :=
  let o := zlb_solve K0 lb x fx wflag fend in
  vec_eqb (tovec_f Z 0 K0) x0_obs && Nat.eqb (length (o_bounds _ _ _ _ _ o)) nbounds &&
  Nat.eqb nbounds (krank K0 * sum_nat (kshape K0)) &&
  forallb (fun b => match lb, fst b with None, None => true | Some u, Some v => Z.eqb u v | _, _ => false end)
          (o_bounds _ _ _ _ _ o) &&
  zfactors_eqb (kfactors (o_model _ _ _ _ _ o)) factors_obs && vec_eqb (kweights (o_model _ _ _ _ _ o)) weights_obs &&
  Z.eqb (o_final_f _ _ _ _ _ o) final_f_obs &&
  match lb with None => true | Some b => forallb (fun v => Z.leb b v) (tovec_f Z 0 (o_model _ _ _ _ _ o)) end.

Example zlb_example :   (* 2x1 (+) 3x1 model; scipy answers [9;8;7;6;5]: the returned factors are that vector, column-wise;
                           warnflag 0: final_f is scipy's 42; warnflag 2: final_f is the re-evaluated 40 *)
  let K0 := mkK [1] [[[1]; [2]]; [[3]; [4]; [5]]] in
  zlb_ok K0 (Some 0) [9; 8; 7; 6; 5] 42 0 40 [1; 2; 3; 4; 5] 5 [[[9]; [8]]; [[7]; [6]; [5]]] [1] 42 = true /\
  zlb_ok K0 (Some 0) [9; 8; 7; 6; 5] 42 0 40 [1; 2; 3; 4; 5] 5 [[[9]; [8]]; [[7]; [6]; [4]]] [1] 42 = false /\
  zlb_ok K0 (Some 0) [9; 8; 7; 6; 5] 42 2 40 [1; 2; 3; 4; 5] 5 [[[9]; [8]]; [[7]; [6]; [5]]] [1] 40 = true /\
  zlb_ok K0 (Some 0) [9; 8; 7; 6; 5] 42 2 40 [1; 2; 3; 4; 5] 5 [[[9]; [8]]; [[7]; [6]; [5]]] [1] 42 = false.
Proof. repeat split; reflexivity. Qed.

(* ---- the float ceil of the GCPSampler default counts as a recorded oracle ----
   one recorded call of samplers.ceil = (numerator, denominator of the float argument — an exact dyadic rational —, answer).
   cd_obs calls a b answers with the recorded answer of the first call whose argument is the float quotient a / b (within one
   rounding: |q - a/b| <= 2^-52 * a/b) and whose answer is the exact ceiling of that float; -1 when no recorded call fits (the
   configuration computed from -1 then differs from the observed one). *)
Definition div_close (a b qn qd : Z) : bool :=
  (0 <? b) && (0 <? qd) && (Z.abs (qn * b - a * qd) * 2 ^ 52 <=? Z.abs (a * qd)).
Definition ceil_call_fits (a b : Z) (c : Z * Z * Z) : bool :=
  let '(qn, qd, ans) := c in div_close a b qn qd && (ans =? cdiv qn qd).
Definition cd_obs (calls : list (Z * Z * Z)) (a b : Z) : Z :=
  match find (ceil_call_fits a b) calls with Some (_, _, ans) => ans | None => -1 end.
(* how far the float oracle can be from the exact ceiling: a recorded float q within one rounding of a / b, with a / b < 2^52,
   has its ceiling within 1 of the exact ceiling of a / b — whatever cd_obs answers (if it answers) is cdiv a b - 1, cdiv a b or
   cdiv a b + 1 *)
Lemma mul_lt_cancel x y m : 0 < m -> x * m < y * m -> x < y.
Proof. intros Hm H. nia. Qed.
Theorem ceil_oracle_bound a b qn qd :
  0 <= a -> 0 < b -> a < b * 2 ^ 52 -> div_close a b qn qd = true ->
  cdiv a b - 1 <= cdiv qn qd <= cdiv a b + 1.
Proof.
  intros Ha Hb Hx H. unfold div_close in H.
  apply andb_prop in H as [H H3]. apply andb_prop in H as [_ H2].
  apply Z.ltb_lt in H2. apply Z.leb_le in H3.
  rewrite (Z.abs_eq (a * qd)) in H3 by nia.
  assert (Hd : Z.abs (qn * b - a * qd) < b * qd).
  { apply (mul_lt_cancel _ _ (2 ^ 52)); [reflexivity|]. nia. }
  apply Z.abs_lt in Hd as [Hd1 Hd2].
  pose proof (cdiv_spec a b Hb) as [C1 C2].
  pose proof (cdiv_spec qn qd H2) as [Q1 Q2].
  set (c := cdiv a b) in *. set (c' := cdiv qn qd) in *.
  split.
  - assert (E1 : (c - 2) * (b * qd) < c' * (b * qd)) by nia.
    assert (c - 2 < c') by (apply (mul_lt_cancel _ _ (b * qd)); nia). lia.
  - assert (E1 : (c' - 1) * (b * qd) < (c + 1) * (b * qd)) by nia.
    assert (c' - 1 < c + 1) by (apply (mul_lt_cancel _ _ (b * qd)); nia). lia.
Qed.
Theorem cd_obs_bound calls a b : 0 <= a -> 0 < b -> a < b * 2 ^ 52 ->
  cd_obs calls a b = -1 \/ cdiv a b - 1 <= cd_obs calls a b <= cdiv a b + 1.
Proof.
  intros Ha Hb Hx. unfold cd_obs. destruct (find (ceil_call_fits a b) calls) as [[[qn qd] ans]|] eqn:E; [right|left; reflexivity].
  apply find_some in E as [_ E]. cbn [ceil_call_fits] in E. apply andb_prop in E as [E1 E2].
  apply Z.eqb_eq in E2. subst ans. now apply ceil_oracle_bound.
Qed.
(* the recorded calls are exactly the one quotient the table asks for (none for explicit requests / rejected rows) *)
Definition ceil_queries_ok (calls : list (Z * Z * Z)) (q : option (Z * Z)) : bool :=
  match q, calls with
  | None, [] => true
  | Some (a, b), [c] => ceil_call_fits a b c
  | _, _ => false
  end.
(* a fitting call with an exactly representable quotient answers the exact ceiling *)
Lemma cd_obs_exact a b ans calls : 0 < b -> cd_obs ((a, b, ans) :: calls) a b = (if ans =? cdiv a b then ans else cd_obs calls a b).
Proof.
  intros Hb. unfold cd_obs. cbn [find ceil_call_fits]. unfold div_close.
  replace (0 <? b) with true by (symmetry; apply Z.ltb_lt; lia).
  replace (a * b - a * b) with 0 by lia. cbn [Z.abs Z.mul andb].
  replace (0 <=? Z.abs (a * b)) with true by (symmetry; apply Z.leb_le; lia). cbn [andb].
  destruct (ans =? cdiv a b); reflexivity.
Qed.
Example cd_obs_example :     (* ceil(2000/100): the float 20.0 = 20/1; ceil(10*6/7): the float 8.571428571428571 *)
  cd_obs [(20, 1, 20)] 2000 100 = 20 /\ cd_obs [(20, 1, 20)] 2001 100 = -1 /\ cd_obs [(20, 1, 21)] 2000 100 = -1 /\
  cd_obs [(4825285315039817, 562949953421312, 9)] 60 7 = 9.
Proof. repeat split; reflexivity. Qed.

(* ---- comparisons of exact observations that used to be decided in the harness ---- *)
(* a request for nonzero samples of a tensor that stores no nonzero has to be rejected (numpy.random.choice(0, n) raises) *)
Definition strat_rejected (S : sparse Z) (cn : nat) : bool := Nat.ltb 0 cn && Nat.eqb (nnz S) 0.
(* observed array shapes *)
Definition shapes_eqb := list_eqb nvec_eqb.
(* observation bits that are identities of Python objects / array_equal of captured arrays: all must hold *)
Definition obs_bits (bs : list bool) : bool := forallb (fun b => b) bs.
(* a bound check on one observed rational against an optional lower bound *)
Definition qabove_b (lb : option Qc) (x : Qc) : bool := match lb with None => true | Some b => qleb b x end.
(* the user's callback runs (inside the monitor) exactly when scipy completed an iteration in one of the solves *)
Definition callback_seen_ok (called : option bool) (nits : list nat) : bool :=
  match called with None => true | Some c => Bool.eqb c (existsb (fun n => Nat.leb 1 n) nits) end.

(* ---- how many subscript rows samplers.zeros draws for a request (the oversampling rule) ----
     ntmp    = np.ceil(samples * data_size / num_zeros)        -- some draws will hit nonzeros
     samples = int(np.ceil(over_sample_rate * ntmp))           -- margin of safety, over_sample_rate = 1.1 (a float)
   The two float computations (quotient, product) are oracles recorded by the harness (every np.ceil call inside pyttb.gcp.samplers:
   float argument as an exact rational, answer); zero_draw_rows replays the rule with the recorded answers, a recorded call fits
   when its argument is the quotient / product the rule asks for within one rounding and its answer the exact ceiling of that float.
   With this the number of rows behind the open finding C13-S1 (short zero supply) is tied to the request: fewer draws than the rule
   prescribes are a mismatch, not a known finding. *)
Definition mul_close (pn pd m qn qd : Z) : bool :=
  (0 <? pd) && (0 <? qd) && (Z.abs (qn * pd - pn * m * qd) * 2 ^ 52 <=? Z.abs (pn * m * qd)).
Definition RATE_N : Z := 2476979795053773.           (* the float 1.1 = RATE_N / 2^51 *)
Definition RATE_D : Z := 2 ^ 51.
Definition zero_draw_rows (calls : list (Z * Z * Z)) (size numz req : Z) : Z :=
  let ntmp := cd_obs calls (req * size) numz in
  match find (fun c => let '(qn, qd, ans) := c in mul_close RATE_N RATE_D ntmp qn qd && (ans =? cdiv qn qd)) calls with
  | Some (_, _, ans) => ans
  | None => -1
  end.
(* the rule in exact arithmetic for a rate pn / pd >= 1: at least as many rows as zeros requested, for every request *)
Definition rows_exact (pn pd size numz req : Z) : Z := cdiv (pn * cdiv (req * size) numz) pd.
Theorem rows_exact_ge_request pn pd size numz req :
  0 < pd <= pn -> 0 < numz <= size -> 0 <= req -> req <= rows_exact pn pd size numz req.
Proof.
  intros Hp Hz Hr. unfold rows_exact.
  pose proof (cdiv_spec (req * size) numz ltac:(lia)) as [_ H1].
  pose proof (cdiv_spec (pn * cdiv (req * size) numz) pd ltac:(lia)) as [_ H2].
  assert (Hc : req <= cdiv (req * size) numz) by nia.
  nia.
Qed.
Example zero_draw_rows_example :   (* 3 zeros requested from a 2x3 tensor with 2 zeros: ceil(9.0) = 9, ceil(1.1 * 9 = 9.9) = 10 rows *)
  zero_draw_rows [(9, 1, 9); (5573204538870989, 562949953421312, 10)] 6 2 3 = 10 /\
  zero_draw_rows [(9, 1, 9); (5573204538870989, 562949953421312, 9)] 6 2 3 = -1 /\
  zero_draw_rows [(9, 1, 9)] 6 2 3 = -1 /\ rows_exact 11 10 6 2 3 = 10.
Proof. repeat split; reflexivity. Qed.
