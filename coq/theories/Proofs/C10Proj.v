(* Proofs/C10Proj.v — the abstract inner-product space / projector hypotheses of Proofs/C10Proofs.v and
   Proofs/C10Spectral.v instantiated by CONCRETE dense tensors and mode-n products (ring-generic part).
   For a fixed shape s, a mode n < length s and a square matrix M (I_n x I_n):
     mproj s n M X = X x_n M                       (tabulated over s; = Model.C10Tucker.ttm when dshape X = s)
   * M symmetric and idempotent  ==>  mproj is additive, idempotent and self-adjoint for the Frobenius inner product
   * products along different modes commute (lift of Proofs/C10Ttm.ttm_den_comm to dense arrays)
   * M = U U^T with U^T U = I (orthonormal columns) is symmetric and idempotent
   * X x_n U^T x_n U = X x_n (U U^T): the projector is what hosvd / ttensor.full compute (core relation, then reconstruction)
   Everything over an arbitrary commutative ring; Leibniz equality of dense arrays (no functional extensionality). *)
From Coq Require Import List Arith Lia Bool Ring.
From PV Require Import Base.Index Base.Sum Np.Array Model.Sparse Model.Repr Model.C10Tucker Model.C14Nvecs
                       Proofs.C14Sums Proofs.C14Split Proofs.C14GramSp Proofs.C10Ttm.
Import ListNotations.

(* ---------------------------------------------------------------------------------------- *)
(* subscripts                                                                                 *)
(* ---------------------------------------------------------------------------------------- *)
Lemma set_nth_insert n : forall (j : list nat) a b, n <= length j -> set_nth n a (insert_at n b j) = insert_at n a j.
Proof.
  induction n as [|n IH]; intros j a b H.
  - reflexivity.
  - destruct j as [|x j]; cbn in H; [lia|]. rewrite !insert_at_S, set_nth_cons_S. f_equal. apply IH. lia.
Qed.

Lemma set_nth_set_nth n : forall (i : list nat) a b, n < length i -> set_nth n a (set_nth n b i) = set_nth n a i.
Proof.
  induction n as [|n IH]; intros [|x i] a b H; cbn in H; try lia.
  - reflexivity.
  - rewrite !set_nth_cons_S. f_equal. apply IH. lia.
Qed.

Lemma set_nth_self n : forall (i : list nat), n < length i -> set_nth n (nth n i 0) i = i.
Proof.
  induction n as [|n IH]; intros [|x i] H; cbn in H; try lia.
  - reflexivity.
  - rewrite set_nth_cons_S. cbn [nth]. f_equal. apply IH. lia.
Qed.

Lemma nth_set_nth_same n (i : list nat) b : n < length i -> nth n (set_nth n b i) 0 = b.
Proof. intros H. rewrite nth_set_nth by exact H. now rewrite Nat.eqb_refl. Qed.

Lemma inb_set_nth n s i k : n < length s -> inb s i = true -> k < nth n s 0 -> inb s (set_nth n k i) = true.
Proof.
  intros Hn Hi Hk. pose proof (inb_length _ _ Hi) as L.
  rewrite <- (insert_remove n i) by lia. rewrite set_nth_insert.
  - apply inb_insert; auto. apply inb_remove; auto.
  - rewrite remove_nth_length by lia. lia.
Qed.

Section Proj.
Variable V : Type.
Variables (v0 v1 : V) (vadd vmul vsub : V -> V -> V) (vopp : V -> V).
Hypothesis Vring : ring_theory v0 v1 vadd vmul vsub vopp (@eq V).
Add Ring Vr10p : Vring.
Notation SO := (sum_over v0 vadd).
Notation SN := (sum_n v0 vadd).
Notation den := (den_dense v0).
Notation ttmd := (ttm_den v0 vadd vmul).
Notation mg := (mget v0).
Local Notation "x * y" := (vmul x y).
Local Notation "x + y" := (vadd x y).

(* ---------------------------------------------------------------------------------------- *)
(* finite sums                                                                                *)
(* ---------------------------------------------------------------------------------------- *)
Lemma sum_over_sub {A} (l : list A) (f g : A -> V) :
  SO l (fun a => vsub (f a) (g a)) = vsub (SO l f) (SO l g).
Proof.
  induction l as [|a l IH].
  - rewrite !sum_over_nil. ring.
  - rewrite !sum_over_cons, IH. ring.
Qed.

Lemma sum_n_swap p q (f : nat -> nat -> V) : SN p (fun k => SN q (fun l => f k l)) = SN q (fun l => SN p (fun k => f k l)).
Proof. unfold sum_n. apply (sum_over_swap V v0 v1 vadd vmul vsub vopp Vring). Qed.

(* (f^T G) A = f^T (G A) *)
Lemma sum_assoc p q (f : nat -> V) (g : nat -> nat -> V) (A : nat -> V) :
  SN p (fun k => f k * SN q (fun l => g k l * A l)) = SN q (fun l => SN p (fun k => f k * g k l) * A l).
Proof.
  transitivity (SN p (fun k => SN q (fun l => (f k * g k l) * A l))).
  - apply sum_n_ext; intros k _. rewrite <- (sum_n_scale_l V v0 v1 vadd vmul vsub vopp Vring).
    apply sum_n_ext; intros l _. ring.
  - rewrite sum_n_swap. apply sum_n_ext; intros l _.
    rewrite <- (sum_n_scale_r V v0 v1 vadd vmul vsub vopp Vring). reflexivity.
Qed.

Lemma sum_n_delta n x (A : nat -> V) : x < n -> SN n (fun y => A y * (if Nat.eqb x y then v1 else v0)) = A x.
Proof.
  intros H. unfold sum_n. rewrite (sum_over_single V v0 v1 vadd vmul vsub vopp Vring (seq 0 n) x).
  - rewrite Nat.eqb_refl. ring.
  - apply seq_NoDup.
  - apply in_seq. lia.
  - intros a _ Ha. destruct (Nat.eqb_spec x a); [congruence|ring].
Qed.

(* a symmetric matrix is self-adjoint for the dot product *)
Lemma bilin_sym I (M : nat -> nat -> V) (a b : nat -> V) :
  (forall x k, x < I -> k < I -> M x k = M k x) ->
  SN I (fun x => SN I (fun k => M x k * a k) * b x) = SN I (fun x => a x * SN I (fun k => M x k * b k)).
Proof.
  intros Hs.
  transitivity (SN I (fun x => SN I (fun k => (M x k * a k) * b x))).
  { apply sum_n_ext; intros x _. rewrite <- (sum_n_scale_r V v0 v1 vadd vmul vsub vopp Vring). reflexivity. }
  transitivity (SN I (fun k => SN I (fun x => (M x k * a k) * b x))).
  { apply sum_n_swap. }
  apply sum_n_ext; intros k Hk. rewrite <- (sum_n_scale_l V v0 v1 vadd vmul vsub vopp Vring).
  apply sum_n_ext; intros x Hx. rewrite (Hs x k Hx Hk). ring.
Qed.

(* ---------------------------------------------------------------------------------------- *)
(* the concrete space: dense arrays of a fixed shape s                                         *)
(* ---------------------------------------------------------------------------------------- *)
Definition dsub (s : shape) (a b : dense V) : dense V := tabulate s (fun i => vsub (den a i) (den b i)).
Definition dinner (s : shape) (a b : dense V) : V := SO (allsubs s) (fun i => den a i * den b i).
(* X x_n M over the fixed shape s (M square, I_n x I_n) *)
Definition mproj (s : shape) (n : nat) (M : @matrix V) (a : dense V) : dense V :=
  tabulate s (ttmd (den a) (nth n s 0) n M).

Definition msym (I : nat) (M : @matrix V) : Prop := forall a b, a < I -> b < I -> mg M a b = mg M b a.
Definition midem (I : nat) (M : @matrix V) : Prop :=
  forall a b, a < I -> b < I -> SN I (fun k => mg M a k * mg M k b) = mg M a b.

(* mproj is the model's ttm on arrays of shape s *)
Lemma mproj_is_ttm s n M (X : dense V) : n < length s -> dshape X = s -> nrows M = nth n s 0 ->
  ttm v0 vadd vmul X n M = mproj s n M X.
Proof.
  intros Hn Hs Hr. unfold ttm, mproj. rewrite Hs, Hr. now rewrite set_nth_self.
Qed.

Lemma dinner_sym s a b : dinner s a b = dinner s b a.
Proof. unfold dinner. apply sum_over_ext. intros i _. ring. Qed.

Lemma dinner_sub s a b c : dinner s (dsub s a b) c = vsub (dinner s a c) (dinner s b c).
Proof.
  unfold dinner. rewrite <- sum_over_sub. apply sum_over_ext. intros i Hi. apply in_allsubs in Hi.
  unfold dsub. rewrite den_tabulate by exact Hi. ring.
Qed.

(* ttm_den only looks at in-bounds values when evaluated in bounds *)
Lemma ttmd_ext_in s n M (f g : idx -> V) i : n < length s -> inb s i = true ->
  (forall j, inb s j = true -> f j = g j) -> ttmd f (nth n s 0) n M i = ttmd g (nth n s 0) n M i.
Proof.
  intros Hn Hi H. unfold ttm_den. apply sum_n_ext. intros k Hk. f_equal. apply H. now apply inb_set_nth.
Qed.

Lemma den_mproj s n M a i : inb s i = true -> den (mproj s n M a) i = ttmd (den a) (nth n s 0) n M i.
Proof. intros Hi. unfold mproj. now rewrite den_tabulate. Qed.

(* additive *)
Lemma mproj_sub s n M a b : n < length s -> mproj s n M (dsub s a b) = dsub s (mproj s n M a) (mproj s n M b).
Proof.
  intros Hn. unfold mproj at 1. unfold dsub at 2. apply tabulate_ext. intros i Hi.
  rewrite !den_mproj by exact Hi.
  rewrite (ttmd_ext_in s n M (den (dsub s a b)) (fun j => vsub (den a j) (den b j)) i Hn Hi).
  2:{ intros j Hj. unfold dsub. now rewrite den_tabulate. }
  unfold ttm_den, sum_n. rewrite <- sum_over_sub. apply sum_over_ext. intros k _. ring.
Qed.

(* idempotent *)
Lemma mproj_idem s n M a : n < length s -> midem (nth n s 0) M -> mproj s n M (mproj s n M a) = mproj s n M a.
Proof.
  intros Hn Hid. unfold mproj at 1 3. apply tabulate_ext. intros i Hi.
  pose proof (inb_length _ _ Hi) as L.
  rewrite (ttmd_ext_in s n M (den (mproj s n M a)) (ttmd (den a) (nth n s 0) n M) i Hn Hi).
  2:{ intros j Hj. now apply den_mproj. }
  unfold ttm_den at 1.
  transitivity (SN (nth n s 0) (fun k => mg M (nth n i 0) k *
                  SN (nth n s 0) (fun l => mg M k l * den a (set_nth n l i)))).
  { apply sum_n_ext. intros k Hk. f_equal. unfold ttm_den. apply sum_n_ext. intros l Hl.
    rewrite nth_set_nth_same by lia. rewrite set_nth_set_nth by lia. reflexivity. }
  rewrite sum_assoc. unfold ttm_den. apply sum_n_ext. intros l Hl. f_equal.
  apply Hid; auto. apply inb_nth; auto.
Qed.

(* self-adjoint *)
Lemma mproj_selfadj s n M a b : n < length s -> msym (nth n s 0) M ->
  dinner s (mproj s n M a) b = dinner s a (mproj s n M b).
Proof.
  intros Hn Hsym. unfold dinner.
  set (I := nth n s 0). set (rest := remove_nth n s).
  assert (E : forall (c : dense V) x j, x < I -> In j (allsubs rest) ->
             den (mproj s n M c) (insert_at n x j) = SN I (fun k => mg M x k * den c (insert_at n k j))).
  { intros c x j Hx Hj. apply in_allsubs in Hj. pose proof (inb_length _ _ Hj) as L.
    unfold rest in L. rewrite remove_nth_length in L by exact Hn.
    rewrite den_mproj by (apply inb_insert; auto). unfold ttm_den. fold I. apply sum_n_ext. intros k Hk.
    rewrite nth_insert_at by lia. rewrite set_nth_insert by lia. reflexivity. }
  rewrite !(sum_allsubs_split V v0 v1 vadd vmul vsub vopp Vring s n _ Hn). fold I. fold rest.
  transitivity (SO (allsubs rest) (fun j => SN I (fun x =>
                  SN I (fun k => mg M x k * den a (insert_at n k j)) * den b (insert_at n x j)))).
  { unfold sum_n. rewrite (sum_over_swap V v0 v1 vadd vmul vsub vopp Vring).
    apply sum_over_ext. intros j Hj. apply sum_over_ext. intros x Hx. apply in_seq in Hx.
    fold (sum_n v0 vadd I (fun k => mg M x k * den a (insert_at n k j))). rewrite <- E by (auto; lia). reflexivity. }
  transitivity (SO (allsubs rest) (fun j => SN I (fun x =>
                  den a (insert_at n x j) * SN I (fun k => mg M x k * den b (insert_at n k j))))).
  { apply sum_over_ext. intros j _.
    apply (bilin_sym I (fun x k => mg M x k) (fun k => den a (insert_at n k j)) (fun x => den b (insert_at n x j))).
    intros x k Hx Hk. now apply Hsym. }
  unfold sum_n. rewrite (sum_over_swap V v0 v1 vadd vmul vsub vopp Vring).
  apply sum_over_ext. intros x Hx. apply in_seq in Hx. apply sum_over_ext. intros j Hj.
  fold (sum_n v0 vadd I (fun k => mg M x k * den b (insert_at n k j))). rewrite <- E by (auto; lia). reflexivity.
Qed.

(* products along different modes commute, on dense arrays *)
Lemma mproj_comm s m n A B a : m <> n -> m < length s -> n < length s ->
  mproj s m A (mproj s n B a) = mproj s n B (mproj s m A a).
Proof.
  intros Hne Hm Hn. unfold mproj at 1 3. apply tabulate_ext. intros i Hi.
  pose proof (inb_length _ _ Hi) as L.
  rewrite (ttmd_ext_in s m A (den (mproj s n B a)) (ttmd (den a) (nth n s 0) n B) i Hm Hi)
    by (intros j Hj; now apply den_mproj).
  rewrite (ttmd_ext_in s n B (den (mproj s m A a)) (ttmd (den a) (nth m s 0) m A) i Hn Hi)
    by (intros j Hj; now apply den_mproj).
  symmetry. apply (ttm_den_comm V v0 v1 vadd vmul vsub vopp Vring); auto; lia.
Qed.

(* ---------------------------------------------------------------------------------------- *)
(* M = U U^T for U (I x r) with orthonormal columns                                            *)
(* ---------------------------------------------------------------------------------------- *)
Definition uut (I r : nat) (U : @matrix V) : @matrix V :=
  mtab I I (fun a b => SN r (fun j => mg U a j * mg U b j)).
Definition orthocols (I r : nat) (U : @matrix V) : Prop :=
  forall j l, j < r -> l < r -> SN I (fun k => mg U k j * mg U k l) = if Nat.eqb j l then v1 else v0.

Lemma mget_uut I r U a b : a < I -> b < I -> mg (uut I r U) a b = SN r (fun j => mg U a j * mg U b j).
Proof. intros Ha Hb. unfold uut. now rewrite mget_mtab. Qed.

Lemma uut_sym I r U : msym I (uut I r U).
Proof. intros a b Ha Hb. rewrite !mget_uut by auto. apply sum_n_ext. intros j _. ring. Qed.

Lemma uut_idem I r U : orthocols I r U -> midem I (uut I r U).
Proof.
  intros Ho a b Ha Hb. rewrite mget_uut by auto.
  transitivity (SN I (fun k => SN r (fun j => SN r (fun l => (mg U a j * mg U k j) * (mg U k l * mg U b l))))).
  { apply sum_n_ext. intros k Hk. rewrite !mget_uut by auto.
    apply (sum_n_mul_sum V v0 v1 vadd vmul vsub vopp Vring). }
  rewrite sum_n_swap. apply sum_n_ext. intros j Hj.
  rewrite sum_n_swap.
  transitivity (SN r (fun l => (mg U a j * mg U b l) * (if Nat.eqb j l then v1 else v0))).
  { apply sum_n_ext. intros l Hl. rewrite <- (Ho j l Hj Hl).
    rewrite <- (sum_n_scale_l V v0 v1 vadd vmul vsub vopp Vring). apply sum_n_ext. intros k _. ring. }
  apply (sum_n_delta r j (fun l => mg U a j * mg U b l)). exact Hj.
Qed.

Lemma uut_sym_idem I r U : orthocols I r U -> msym I (uut I r U) /\ midem I (uut I r U).
Proof. intros H. split; [apply uut_sym|now apply uut_idem]. Qed.

(* X x_n U^T x_n U = X x_n (U U^T): what hosvd / ttensor.full compute is the projector *)
Lemma ttmd_compose_uut (X : idx -> V) I r n U (i : idx) : n < length i -> nth n i 0 < I ->
  ttmd (ttmd X I n (mtrans v0 U I r)) r n U i = ttmd X I n (uut I r U) i.
Proof.
  intros Hn Hx. unfold ttm_den at 1.
  transitivity (SN r (fun k => mg U (nth n i 0) k * SN I (fun l => mg U l k * X (set_nth n l i)))).
  { apply sum_n_ext. intros k Hk. f_equal. unfold ttm_den. apply sum_n_ext. intros l Hl.
    rewrite nth_set_nth_same by lia. rewrite set_nth_set_nth by lia.
    change (mtrans v0 U I r) with (mtab r I (fun j i0 => mg U i0 j)). rewrite mget_mtab by auto. reflexivity. }
  rewrite sum_assoc. unfold ttm_den. apply sum_n_ext. intros l Hl. rewrite mget_uut by auto. reflexivity.
Qed.

End Proj.

(* ---------------------------------------------------------------------------------------- *)
(* dense level: (X x_n U^T) x_n U, as the model's ttm computes it, is the projector            *)
(* ---------------------------------------------------------------------------------------- *)
Lemma set_nth_as_insert n (s : list nat) r : n < length s -> set_nth n r s = insert_at n r (remove_nth n s).
Proof. intros H. rewrite <- (insert_remove n s) at 1 by exact H. apply set_nth_insert. rewrite remove_nth_length by exact H. lia. Qed.

Lemma inb_set_nth_both n s i r k : n < length s -> inb s i = true -> k < r -> inb (set_nth n r s) (set_nth n k i) = true.
Proof.
  intros Hn Hi Hk. pose proof (inb_length _ _ Hi) as L.
  rewrite (set_nth_as_insert n s r Hn), (set_nth_as_insert n i k) by lia.
  assert (Hl : n <= length (remove_nth n s)) by (rewrite remove_nth_length by exact Hn; lia).
  apply inb_insert.
  - rewrite length_insert_at. lia.
  - now rewrite nth_insert_at.
  - rewrite remove_insert by exact Hl. now apply inb_remove.
Qed.

Section ProjDense.
Variable V : Type.
Variables (v0 v1 : V) (vadd vmul vsub : V -> V -> V) (vopp : V -> V).
Hypothesis Vring : ring_theory v0 v1 vadd vmul vsub vopp (@eq V).

Theorem ttm_ttm_uut (X : dense V) (n r : nat) (U : @matrix V) :
  n < length (dshape X) -> nrows U = nth n (dshape X) 0 ->
  ttm v0 vadd vmul (ttm v0 vadd vmul X n (mtrans v0 U (nth n (dshape X) 0) r)) n U =
  mproj V v0 vadd vmul (dshape X) n (uut V v0 vadd vmul (nth n (dshape X) 0) r U) X.
Proof.
  intros Hn HU. set (s := dshape X) in *. set (I := nth n s 0) in *.
  assert (Hr : nrows (mtrans v0 U I r) = r) by (unfold nrows, mtrans; now rewrite map_length, seq_length).
  set (Y := ttm v0 vadd vmul X n (mtrans v0 U I r)).
  assert (HY : dshape Y = set_nth n r s).
  { unfold Y, ttm. rewrite dshape_tabulate. fold s. now rewrite Hr. }
  assert (HdY : forall j, inb (set_nth n r s) j = true ->
                  den_dense v0 Y j = ttm_den v0 vadd vmul (den_dense v0 X) I n (mtrans v0 U I r) j).
  { intros j Hj. unfold Y, ttm. fold s. fold I. rewrite Hr. now rewrite den_tabulate. }
  unfold ttm. rewrite HY, HU. rewrite set_nth_set_nth by exact Hn. rewrite nth_set_nth_same by exact Hn.
  replace (set_nth n I s) with s by (symmetry; apply set_nth_self; exact Hn).
  unfold mproj. apply tabulate_ext. intros i Hi. pose proof (inb_length _ _ Hi) as L. fold I.
  rewrite <- (ttmd_compose_uut V v0 v1 vadd vmul vsub vopp Vring (den_dense v0 X) I r n U i)
    by (try lia; apply inb_nth; auto).
  unfold ttm_den at 1 3. apply sum_n_ext. intros k Hk. f_equal.
  apply HdY. now apply inb_set_nth_both.
Qed.
End ProjDense.
