(* Props/W4C08b.v — ktensor.tovec / ktensor.update as GENERATED from /repo/pyttb/ktensor.py on every run (Gen/GenKtensor4.v):
   bridges to the hand references of Model/W4KtensorVec.v and laws (tovec computes the hand model k_tovec of
   Model/C08Kruskal.v).  Only statements, `exact`, Print Assumptions. *)
From Coq Require Import List ZArith Arith Bool.
From PV Require Import Np.NpZ Np.NpZ2 Np.NpZ3 Np.NpZ3c Np.NpZ3d Np.NpZ3e Np.NpZ4 Model.Repr Model.C08Kruskal
  Model.W4Ktensor Model.W4KtensorVec Proofs.W4KtensorVec Proofs.W4KtensorVecLaws Gen.GenKtensor4.
Import ListNotations.
Local Open Scope Z_scope.

(* ---- tovec ---- *)
(* zeros + slice stores at a running offset (generated) = weights ++ all columns (reference), for all inputs *)
Theorem C08_gen_tovec_bridge : forall (self : ktz) (incl : bool), ktensor_tovec self incl = H_tovec self incl.
Proof. exact tovec_bridge. Qed.
Print Assumptions C08_gen_tovec_bridge.

Theorem C08_gen_tovec_model : forall (self : ktz) (incl : bool) (v : vec),
  ktensor_tovec self incl = Ok v -> v = k_tovec 0 incl (to_K self).
Proof. exact gen_tovec_model. Qed.
Print Assumptions C08_gen_tovec_model.

Theorem C08_gen_tovec_total : forall (self : ktz) (incl : bool),
  (forall f row, In f (kt_factors self) -> In row f -> zlen row = zlen (kt_weights self)) ->
  ktensor_tovec self incl = Ok (k_tovec 0 incl (to_K self)).
Proof. exact gen_tovec_total. Qed.
Print Assumptions C08_gen_tovec_total.

Theorem C08_gen_tovec_length : forall (self : ktz) (incl : bool) (v : vec),
  (forall f row, In f (kt_factors self) -> In row f -> zlen row = zlen (kt_weights self)) ->
  ktensor_tovec self incl = Ok v ->
  zlen v = zlen (kt_weights self) * (zsum (kt_shape self) + (if incl then 1 else 0)).
Proof. exact gen_tovec_length. Qed.
Print Assumptions C08_gen_tovec_length.

Example C08_gen_tovec_example :
  ktensor_tovec (mkkt [2; 3] [[[1; 4]; [2; 5]; [3; 6]]; [[7; 8]]]) true = Ok [2; 3; 1; 2; 3; 4; 5; 6; 7; 8] /\
  ktensor_tovec (mkkt [2; 3] [[[1; 4]; [2; 5]; [3; 6]]; [[7; 8]]]) false = Ok [1; 2; 3; 4; 5; 6; 7; 8] /\
  ktensor_tovec (mkkt [2; 3] [[[1; 4]; [2]]]) true = Err.
Proof. repeat split; reflexivity. Qed.

(* ---- update ---- *)
Theorem C08_gen_update_bridge : forall (self : ktz) (modes data : vec), ktensor_update self modes data = H_update self modes data.
Proof. exact update_bridge. Qed.
Print Assumptions C08_gen_update_bridge.

Theorem C08_gen_update_nil : forall (self : ktz) (data : vec), ktensor_update self [] data = Ok self.
Proof. exact gen_update_nil. Qed.
Print Assumptions C08_gen_update_nil.

Theorem C08_gen_update_rejects_unsorted : forall (self : ktz) (modes data : vec),
  asc modes = false -> ktensor_update self modes data = Err.
Proof. exact gen_update_rejects_unsorted. Qed.
Print Assumptions C08_gen_update_rejects_unsorted.

(* asc is "strictly ascending" (b9311d6): no adjacent pair y <= x *)
Theorem C08_gen_update_asc_spec : forall l : vec, asc l = false <-> exists pre x y post, l = pre ++ x :: y :: post /\ y <= x.
Proof. exact asc_false_iff_descent. Qed.
Print Assumptions C08_gen_update_asc_spec.

Theorem C08_gen_update_weights : forall (self : ktz) (data : vec), zlen (kt_weights self) <= zlen data ->
  ktensor_update self [-1] data = Ok (mkkt (firstn (length (kt_weights self)) data) (kt_factors self)).
Proof. exact gen_update_weights. Qed.
Print Assumptions C08_gen_update_weights.

Theorem C08_gen_update_factor : forall (self : ktz) (k : nat) (data : vec), (k < length (kt_factors self))%nat ->
  let m := np_nrows (nth k (kt_factors self) []) in let R := zlen (kt_weights self) in
  m * R <= zlen data ->
  ktensor_update self [Z.of_nat k] data =
  Ok (mkkt (kt_weights self) (upd (kt_factors self) k (np_reshape2 OrdF (firstn (Z.to_nat (m * R)) data) m R))).
Proof. exact gen_update_factor. Qed.
Print Assumptions C08_gen_update_factor.

(* ---- the repair b9311d6 over the generated text: pass 1 (H_needed) and the length test decide alone ---- *)
Theorem C08_gen_update_pass2_total : forall (self : ktz) (modes data : vec) (n : Z),
  H_needed self modes 0 = Ok n -> n <= zlen data -> exists st, H_update_loop data modes (self, 0) = Ok st.
Proof. exact gen_update_pass2_total. Qed.
Print Assumptions C08_gen_update_pass2_total.

(* a rejected request is rejected before the first store (all stores of the generated text are in pass 2) *)
Theorem C08_gen_update_rejected_before_store : forall (self : ktz) (modes data : vec),
  ktensor_update self modes data = Err ->
  asc modes = false \/ H_needed self modes 0 = Err \/ exists n, H_needed self modes 0 = Ok n /\ zlen data < n.
Proof. exact gen_update_rejected_before_store. Qed.
Print Assumptions C08_gen_update_rejected_before_store.

Theorem C08_gen_update_ok_iff : forall (self : ktz) (modes data : vec),
  (exists t, ktensor_update self modes data = Ok t) <->
  asc modes = true /\ exists n, H_needed self modes 0 = Ok n /\ n <= zlen data.
Proof. exact gen_update_ok_iff. Qed.
Print Assumptions C08_gen_update_ok_iff.

Example C08_gen_update_example :
  ktensor_update (mkkt [2; 3] [[[1; 4]; [2; 5]; [3; 6]]; [[7; 8]]]) [-1; 1] [10; 20; 30; 40] = Ok (mkkt [10; 20] [[[1; 4]; [2; 5]; [3; 6]]; [[30; 40]]]) /\
  ktensor_update (mkkt [2; 3] [[[1; 4]; [2; 5]; [3; 6]]; [[7; 8]]]) [0] [1; 2; 3; 4; 5; 6; 99] = Ok (mkkt [2; 3] [[[1; 4]; [2; 5]; [3; 6]]; [[7; 8]]]) /\
  ktensor_update (mkkt [2; 3] [[[1; 4]; [2; 5]; [3; 6]]; [[7; 8]]]) [1; -1] [1; 2; 3; 4] = Err /\
  ktensor_update (mkkt [2; 3] [[[1; 4]; [2; 5]; [3; 6]]; [[7; 8]]]) [2] [1; 2; 3; 4] = Err /\
  ktensor_update (mkkt [2; 3] [[[1; 4]; [2; 5]; [3; 6]]; [[7; 8]]]) [-1] [1] = Err /\
  ktensor_update (mkkt [2; 3] [[[1; 4]; [2; 5]; [3; 6]]; [[7; 8]]]) [0; 0] [1; 2; 3; 4; 5; 6; 1; 2; 3; 4; 5; 6] = Err /\
  ktensor_update (mkkt [2; 3] [[[1; 4]; [2; 5]; [3; 6]]; [[7; 8]]]) [0; 5] [1; 2; 3; 4; 5; 6; 7; 8] = Err /\
  ktensor_update (mkkt [2; 3] [[[1; 4]; [2; 5]; [3; 6]]; [[7; 8]]]) [-1; 0] [1; 2; 3; 4; 5] = Err.
Proof. repeat split; reflexivity. Qed.
