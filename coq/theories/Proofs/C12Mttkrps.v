(* Proofs/C12Mttkrps.v — the split / partial-contraction ALGORITHM of pyttb/tensor.py::tensor.mttkrps
   (with helpers mttv_left, mttv_mid) computes, for every split index and every mode, the per-mode matrix
   mttkrp_den of Model/C12Gcp.v (DESIGN §C12, T2).

   Model level: partial contractions are FUNCTIONS of the remaining subscripts (idx -> component -> V); numpy's
   F-order reshapes of W are not modelled (they only re-address the same entries).  Ring-generic over V.

   Source anchors (pyttb/tensor.py):
     mttkrps    lines 1090-1139   (split_idx = min_split(self.shape); two sweeps)
     mttv_left  lines 3078-3104
     mttv_mid   lines 3107-3131
   Note on the range of split_idx: Python needs split_idx + 1 < ndims (khatrirao( *U[split_idx+1:]) raises IndexError
   on an empty list, and min_split never returns ndims-1 on a non-degenerate shape).  The model below is also defined
   at split_idx = ndims-1 (empty right sweep, tail contraction over the empty shape) and the theorem covers it. *)
From Coq Require Import List Arith Lia Bool Ring ZArith.
From PV Require Import Base.Index Base.Sum Np.Array Model.Sparse Model.Repr Model.C12Gcp Proofs.C12Tensor.
Import ListNotations.
Local Open Scope nat_scope.

(* ------------------------------------------------------------------------------------------ *)
(* 0. min_split (pyttb/tensor.py, just after mttv_mid): the split index mttkrps actually uses  *)
(* ------------------------------------------------------------------------------------------ *)
(* for idx, s in enumerate(shape[1:], 1):
       m_right = m_right // s
       if m_left < m_right: idx_min = idx; m_left *= s
       else: break
   return idx_min *)
Fixpoint min_split_loop (rest : list nat) (idx m_left m_right idx_min : nat) : nat :=
  match rest with
  | [] => idx_min
  | d :: rest' =>
      let m_right' := m_right / d in
      if m_left <? m_right' then min_split_loop rest' (S idx) (m_left * d) m_right' idx else idx_min
  end.
(* m_left = shape[0]; m_right = prod(shape[1:]); idx_min = 0 *)
Definition min_split (s : shape) : nat :=
  match s with [] => 0 | d0 :: t => min_split_loop t 1 d0 (size t) 0 end.

Lemma min_split_loop_bound : forall rest idx ml mr im,
  Forall (fun d => 1 <= d) rest -> mr = size rest -> 1 <= ml -> im < idx -> rest <> [] ->
  S (min_split_loop rest idx ml mr im) < idx + length rest.
Proof.
  induction rest as [|d rest IH]; intros idx ml mr im Hp Hmr Hml Him Hne; [congruence|].
  inversion Hp as [|? ? Hd Hp']; subst. cbn [min_split_loop length].
  rewrite size_cons. rewrite (Nat.mul_comm d (size rest)), Nat.div_mul by lia.
  destruct (Nat.ltb_spec ml (size rest)) as [Hlt|Hge]; [|lia].
  destruct rest as [|d' rest'].
  - change (size []) with 1 in Hlt. lia.
  - specialize (IH (S idx) (ml * d) (size (d' :: rest')) idx Hp' eq_refl).
    cbn [length] in *. assert (1 <= ml * d) by nia.
    specialize (IH H (Nat.lt_succ_diag_r idx)). assert (d' :: rest' <> []) by discriminate.
    specialize (IH H0). lia.
Qed.

(* on a shape with at least two modes, none of them empty, the split leaves at least one mode on the right:
   this is the range in which the Python runs (khatrirao of an empty list raises IndexError) *)
Theorem min_split_lt : forall s, Forall (fun d => 1 <= d) s -> 2 <= length s -> S (min_split s) < length s.
Proof.
  intros [|d0 t] Hp Hl; cbn [length] in Hl; [lia|]. inversion Hp; subst.
  unfold min_split. cbn [length]. change (S (length t)) with (1 + length t).
  apply min_split_loop_bound; auto. destruct t; [cbn [length] in Hl; lia|discriminate].
Qed.

Section Mttkrps.
Variable V : Type.
Variables (v0 v1 : V) (vadd vmul vsub : V -> V -> V) (vopp : V -> V).
Hypothesis Vring : ring_theory v0 v1 vadd vmul vsub vopp (@eq V).
Add Ring Vr3 : Vring.

Notation "x + y" := (vadd x y).
Notation "x * y" := (vmul x y).
Notation mat := (list (list V)).
Notation msum := (sum_over v0 vadd).
Notation kp := (kprod v0 v1 vmul).
Notation ks := (kprod_skip v0 v1 vmul).
Notation mg := (mget v0).
Notation SO_ext := (sum_over_ext V v0 vadd).
Notation SO_zero := (sum_over_zero V v0 v1 vadd vmul vsub vopp Vring).
Notation SO_scale_l := (sum_over_scale_l V v0 v1 vadd vmul vsub vopp Vring).
Notation SO_scale_r := (sum_over_scale_r V v0 v1 vadd vmul vsub vopp Vring).
Notation SO_swap := (sum_over_swap V v0 v1 vadd vmul vsub vopp Vring).
Notation SO_single := (sum_over_single V v0 v1 vadd vmul vsub vopp Vring).
Notation SO_filter := (sum_over_filter V v0 v1 vadd vmul vsub vopp Vring).

(* ------------------------------------------------------------------------------------------ *)
(* 1. the algorithm                                                                            *)
(* ------------------------------------------------------------------------------------------ *)
(* a (d x R) numpy matrix given by its entries *)
Definition tab (d R : nat) (f : nat -> nat -> V) : mat :=
  map (fun j => map (fun r => f j r) (seq 0 R)) (seq 0 d).

(* mttv_left(W_in, U1), lines 3097-3104:  W_out[:, j] = W_in[:, :, j].transpose().dot(U1[:, j])
   — contract the LEADING remaining subscript x (size d) against column r of U1 = B *)
Definition mttv_left_f (d : nat) (B : mat) (W : idx -> nat -> V) : idx -> nat -> V :=
  fun i r => msum (seq 0 d) (fun x => W (x :: i) r * mg B x r).

(* mttv_mid(W_in, U_mid), lines 3125-3131:  K = khatrirao( *U_mid, reverse=True); V[:, j] = W_in[:, :, j].dot(K[:, j])
   — keep the leading subscript j, contract all other remaining subscripts (shape t) against the
   Khatri-Rao product of Bs = U_mid *)
Definition mttv_mid_f (t : shape) (Bs : list mat) (W : idx -> nat -> V) : nat -> nat -> V :=
  fun j r => msum (allsubs t) (fun i => W (j :: i) r * kp Bs i r).

(* one sweep, lines 1123-1127 (left) and 1130-1134 (right):
     for k in ...:  V[k] = mttv_mid(W, U[k+1 : ...]);  W = mttv_left(W, U[k])
     V[last] = W
   t = sizes of the remaining modes, Bs = their factor matrices, W = the current partial MTTKRP *)
Fixpoint sweep (R : nat) (t : shape) (Bs : list mat) (W : idx -> nat -> V) : list mat :=
  match t, Bs with
  | d :: t', B :: Bs' =>
      match t' with
      | [] => [tab d R (fun j r => W [j] r)]                                     (* V[split_idx] = W / V[-1] = W *)
      | _ :: _ => tab d R (mttv_mid_f t' Bs' W)                                  (* V[k] = mttv_mid(W, ...) *)
                  :: sweep R t' Bs' (mttv_left_f d B W)                          (* W = mttv_left(W, U[k]) *)
      end
  | _, _ => []
  end.

(* lines 1120-1121:  K = khatrirao( *U[split_idx+1:], reverse=True);  W = reshape(data, (-1, K.shape[0])).dot(K)
   — contract the trailing modes (shape s2, factors As2); result indexed by the leading subscripts i1 *)
Definition ctail (s2 : shape) (As2 : list mat) (Y : idx -> V) : idx -> nat -> V :=
  fun i1 r => msum (allsubs s2) (fun i2 => Y (i1 ++ i2) * kp As2 i2 r).
(* lines 1128-1129:  K = khatrirao( *U[0:split_idx+1], reverse=True);  W = reshape(data, (K.shape[0], -1)).T.dot(K)
   — contract the leading modes (shape s1, factors As1); result indexed by the trailing subscripts i2 *)
Definition chead (s1 : shape) (As1 : list mat) (Y : idx -> V) : idx -> nat -> V :=
  fun i2 r => msum (allsubs s1) (fun i1 => Y (i1 ++ i2) * kp As1 i1 r).

Definition contract_tail (s : shape) (Y : idx -> V) (As : list mat) (sp : nat) : idx -> nat -> V :=
  ctail (skipn (S sp) s) (skipn (S sp) As) Y.
Definition contract_head (s : shape) (Y : idx -> V) (As : list mat) (sp : nat) : idx -> nat -> V :=
  chead (firstn (S sp) s) (firstn (S sp) As) Y.

(* tensor.mttkrps with split index sp (lines 1119-1135): V[0..sp] from the left sweep, V[sp+1..N-1] from the right *)
Definition mttkrps_alg (s : shape) (Y : idx -> V) (As : list mat) (R sp : nat) : list mat :=
  sweep R (firstn (S sp) s) (firstn (S sp) As) (contract_tail s Y As sp) ++
  sweep R (skipn (S sp) s) (skipn (S sp) As) (contract_head s Y As sp).

(* what a sweep has to produce for its m-th remaining mode: the mttkrp of the partial W over the remaining modes *)
Definition part_den (t : shape) (Bs : list mat) (W : idx -> nat -> V) (m : nat) : nat -> nat -> V :=
  fun j r => msum (filter (fun i => Nat.eqb (nth m i 0) j) (allsubs t)) (fun i => W i r * ks Bs i r m).

(* ------------------------------------------------------------------------------------------ *)
(* 2. matrices by entries                                                                      *)
(* ------------------------------------------------------------------------------------------ *)
Lemma tab_ext d R f g : (forall j r, j < d -> r < R -> f j r = g j r) -> tab d R f = tab d R g.
Proof.
  intros H. unfold tab. apply map_ext_in. intros j Hj. apply in_seq in Hj.
  apply map_ext_in. intros r Hr. apply in_seq in Hr. apply H; lia.
Qed.

Lemma mget_tab d R f j r : j < d -> r < R -> mg (tab d R f) j r = f j r.
Proof.
  intros Hj Hr. unfold mget, tab. rewrite (nth_map_seq _ _ j []) by auto.
  now rewrite (nth_map_seq _ _ r v0) by auto.
Qed.

Lemma tab_dims d R f : length (tab d R f) = d /\ Forall (fun row => length row = R) (tab d R f).
Proof.
  unfold tab. split; [now rewrite map_length, seq_length|].
  apply Forall_forall. intros row Hrow. apply in_map_iff in Hrow as (j & <- & _).
  now rewrite map_length, seq_length.
Qed.

Lemma mttkrp_den_tab s (Y : idx -> V) (As : list mat) R k :
  mttkrp_den v0 v1 vadd vmul s Y As R k =
  tab (nth k s 0) R (fun j r => msum (filter (fun i => Nat.eqb (nth k i 0) j) (allsubs s))
                                     (fun i => Y i * ks As i r k)).
Proof. reflexivity. Qed.

(* ------------------------------------------------------------------------------------------ *)
(* 3. sums over allsubs of a cons / of an append                                               *)
(* ------------------------------------------------------------------------------------------ *)
Lemma msum_allsubs_cons d t (F : idx -> V) :
  msum (allsubs (d :: t)) F = msum (allsubs t) (fun i => msum (seq 0 d) (fun x => F (x :: i))).
Proof.
  rewrite (msum_allsubs V v0 vadd (d :: t)), (msum_allsubs V v0 vadd t). rewrite size_cons.
  change (msum (seq 0 (d * size t)%nat) (fun q => F (ind2sub (d :: t) q)))
    with (sum_n v0 vadd (d * size t)%nat (fun q => F (ind2sub (d :: t) q))).
  rewrite (sum_n_mul V v0 v1 vadd vmul vsub vopp Vring). unfold sum_n.
  apply SO_ext. intros q _. apply SO_ext. intros x Hx. apply in_seq in Hx.
  cbn [ind2sub]. replace (x + d * q)%nat with (x + q * d)%nat by lia.
  rewrite Nat.mod_add, Nat.div_add by lia. rewrite Nat.mod_small, Nat.div_small by lia. reflexivity.
Qed.

Lemma allsubs_nil : allsubs [] = [[]].
Proof. reflexivity. Qed.

Lemma msum_allsubs_app s1 s2 (F : idx -> V) :
  msum (allsubs (s1 ++ s2)) F = msum (allsubs s1) (fun i1 => msum (allsubs s2) (fun i2 => F (i1 ++ i2))).
Proof.
  revert F. induction s1 as [|d s1 IH]; intros F.
  - rewrite allsubs_nil. cbn [app]. rewrite sum_over_cons, sum_over_nil. cbn [app].
    set (a := msum (allsubs s2) F). change (a = a + v0). ring.
  - cbn [app]. rewrite !msum_allsubs_cons. rewrite IH. apply SO_ext. intros i1 _.
    rewrite SO_swap. reflexivity.
Qed.

Lemma msum_allsubs_app_swap s1 s2 (F : idx -> V) :
  msum (allsubs (s1 ++ s2)) F = msum (allsubs s2) (fun i2 => msum (allsubs s1) (fun i1 => F (i1 ++ i2))).
Proof. rewrite msum_allsubs_app. apply SO_swap. Qed.

Lemma in_allsubs_length s i : In i (allsubs s) -> length i = length s.
Proof. intros H. apply in_allsubs in H. now apply inb_length. Qed.

(* ------------------------------------------------------------------------------------------ *)
(* 4. kprod / kprod_skip over an append                                                        *)
(* ------------------------------------------------------------------------------------------ *)
Lemma kprod_app : forall (As1 As2 : list mat) i1 i2 r, length i1 = length As1 ->
  kp (As1 ++ As2) (i1 ++ i2) r = kp As1 i1 r * kp As2 i2 r.
Proof.
  induction As1 as [|A As1 IH]; intros As2 [|x i1] i2 r H; cbn [length] in H; try discriminate.
  - cbn [app kprod]. destruct As2; destruct i2; cbn [kprod]; ring.
  - cbn [app kprod]. rewrite IH by lia. ring.
Qed.

Lemma kprod_skip_app_l : forall (As1 As2 : list mat) i1 i2 r k, length i1 = length As1 -> k < length As1 ->
  ks (As1 ++ As2) (i1 ++ i2) r k = ks As1 i1 r k * kp As2 i2 r.
Proof.
  induction As1 as [|A As1 IH]; intros As2 [|x i1] i2 r [|k] H Hk; cbn [length] in *; try lia.
  - cbn [app kprod_skip]. apply kprod_app; lia.
  - cbn [app kprod_skip]. rewrite IH by lia. ring.
Qed.

Lemma kprod_skip_app_r : forall (As1 As2 : list mat) i1 i2 r m, length i1 = length As1 ->
  ks (As1 ++ As2) (i1 ++ i2) r (length As1 + m)%nat = kp As1 i1 r * ks As2 i2 r m.
Proof.
  induction As1 as [|A As1 IH]; intros As2 [|x i1] i2 r m H; cbn [length] in H; try discriminate.
  - cbn [app length Nat.add kprod]. ring.
  - cbn [app length Nat.add kprod_skip kprod]. rewrite IH by lia. ring.
Qed.

(* ------------------------------------------------------------------------------------------ *)
(* 5. one sweep is correct for every remaining mode                                            *)
(* ------------------------------------------------------------------------------------------ *)
(* leading mode: fixing the leading subscript to j and contracting the rest is what mttv_mid does *)
Lemma part_den_0 d t (B : mat) (Bs : list mat) W j r : j < d ->
  part_den (d :: t) (B :: Bs) W 0 j r = mttv_mid_f t Bs W j r.
Proof.
  intros Hj. unfold part_den, mttv_mid_f. rewrite SO_filter, msum_allsubs_cons.
  apply SO_ext. intros i _.
  rewrite (SO_single (seq 0 d) j).
  - cbn [nth kprod_skip]. now rewrite Nat.eqb_refl.
  - apply seq_NoDup.
  - apply in_seq. lia.
  - intros x _ Hx. cbn [nth]. now replace (Nat.eqb x j) with false by (symmetry; now apply Nat.eqb_neq).
Qed.

(* later modes: contract the leading subscript first (mttv_left), then recurse *)
Lemma part_den_S d t (B : mat) (Bs : list mat) W m j r :
  part_den (d :: t) (B :: Bs) W (S m) j r = part_den t Bs (mttv_left_f d B W) m j r.
Proof.
  unfold part_den. rewrite !SO_filter, msum_allsubs_cons. apply SO_ext. intros i _.
  cbn [nth kprod_skip]. destruct (Nat.eqb (nth m i 0) j).
  - unfold mttv_left_f. rewrite <- SO_scale_r. apply SO_ext. intros x _. ring.
  - apply SO_zero. reflexivity.
Qed.

Lemma sweep_length R : forall t Bs W, length Bs = length t -> length (sweep R t Bs W) = length t.
Proof.
  induction t as [|d t IH]; intros [|B Bs] W H; cbn [length] in H; try discriminate; [reflexivity|].
  cbn [sweep]. destruct t as [|d' t']; [reflexivity|].
  cbn [length]. f_equal. apply IH. cbn [length] in *. lia.
Qed.

Theorem sweep_spec R : forall t Bs W m, length Bs = length t -> m < length t ->
  nth m (sweep R t Bs W) [] = tab (nth m t 0) R (part_den t Bs W m).
Proof.
  induction t as [|d t IH]; intros [|B Bs] W m H Hm; cbn [length] in *; try lia.
  cbn [sweep]. destruct t as [|d' t'].
  - destruct Bs as [|B' Bs']; [|cbn [length] in H; lia].
    destruct m as [|m]; [|cbn [length] in Hm; lia]. cbn [nth].
    apply tab_ext. intros j r Hj _. rewrite part_den_0 by auto. unfold mttv_mid_f.
    rewrite allsubs_nil, sum_over_cons, sum_over_nil. cbn [kprod]. ring.
  - destruct m as [|m].
    + cbn [nth]. apply tab_ext. intros j r Hj _. now rewrite part_den_0.
    + change (nth (S m) (?a :: ?l) []) with (nth m l []).
      rewrite IH by (cbn [length] in *; lia).
      change (nth (S m) (d :: d' :: t') 0) with (nth m (d' :: t') 0).
      apply tab_ext. intros j r _ _. now rewrite part_den_S.
Qed.

(* ------------------------------------------------------------------------------------------ *)
(* 6. the two initial contractions turn the partial spec into the full mttkrp                  *)
(* ------------------------------------------------------------------------------------------ *)
Lemma part_den_tail s1 s2 (As1 As2 : list mat) (Y : idx -> V) k j r :
  length As1 = length s1 -> k < length s1 ->
  part_den s1 As1 (ctail s2 As2 Y) k j r =
  msum (filter (fun i => Nat.eqb (nth k i 0) j) (allsubs (s1 ++ s2))) (fun i => Y i * ks (As1 ++ As2) i r k).
Proof.
  intros HA Hk. unfold part_den. rewrite !SO_filter, msum_allsubs_app.
  apply SO_ext. intros i1 Hi1. apply in_allsubs_length in Hi1.
  destruct (Nat.eqb (nth k i1 0) j) eqn:E.
  - unfold ctail. rewrite <- SO_scale_r. apply SO_ext. intros i2 _.
    rewrite app_nth1 by lia. rewrite E. rewrite kprod_skip_app_l by lia. ring.
  - symmetry. apply SO_zero. intros i2 _. rewrite app_nth1 by lia. now rewrite E.
Qed.

Lemma part_den_head s1 s2 (As1 As2 : list mat) (Y : idx -> V) m j r :
  length As1 = length s1 ->
  part_den s2 As2 (chead s1 As1 Y) m j r =
  msum (filter (fun i => Nat.eqb (nth (length s1 + m)%nat i 0) j) (allsubs (s1 ++ s2)))
       (fun i => Y i * ks (As1 ++ As2) i r (length s1 + m)%nat).
Proof.
  intros HA. unfold part_den. rewrite !SO_filter, msum_allsubs_app_swap.
  apply SO_ext. intros i2 _.
  destruct (Nat.eqb (nth m i2 0) j) eqn:E.
  - unfold chead. rewrite <- SO_scale_r. apply SO_ext. intros i1 Hi1. apply in_allsubs_length in Hi1.
    rewrite <- Hi1 at 1. rewrite app_nth2_plus, E.
    rewrite <- HA. rewrite kprod_skip_app_r by lia. ring.
  - symmetry. apply SO_zero. intros i1 Hi1. apply in_allsubs_length in Hi1.
    rewrite <- Hi1. now rewrite app_nth2_plus, E.
Qed.

(* ------------------------------------------------------------------------------------------ *)
(* 7. main theorems                                                                            *)
(* ------------------------------------------------------------------------------------------ *)
Lemma alg_split_eq R s1 s2 (As1 As2 : list mat) (Y : idx -> V) :
  length As1 = length s1 -> length As2 = length s2 ->
  sweep R s1 As1 (ctail s2 As2 Y) ++ sweep R s2 As2 (chead s1 As1 Y) =
  map (mttkrp_den v0 v1 vadd vmul (s1 ++ s2) Y (As1 ++ As2) R) (seq 0 (length (s1 ++ s2))).
Proof.
  intros H1 H2. apply (nth_ext _ _ [] []).
  - rewrite app_length, !sweep_length, map_length, seq_length, app_length by auto. reflexivity.
  - intros k Hk. rewrite app_length, !sweep_length in Hk by auto.
    rewrite nth_map_seq by (rewrite app_length; lia). rewrite mttkrp_den_tab.
    destruct (lt_dec k (length s1)) as [Hlt|Hge].
    + rewrite app_nth1 by (rewrite sweep_length; auto). rewrite sweep_spec by auto.
      rewrite (app_nth1 s1 s2) by auto. apply tab_ext. intros j r _ _. now apply part_den_tail.
    + rewrite app_nth2 by (rewrite sweep_length; auto; lia). rewrite sweep_length by auto.
      rewrite sweep_spec by (auto; lia).
      set (m := (k - length s1)%nat). replace k with (length s1 + m)%nat by (unfold m; lia).
      rewrite (app_nth2_plus s1 s2). apply tab_ext. intros j r _ _. now apply part_den_head.
Qed.

(* every split index, all modes at once: the algorithm's list of matrices IS [mttkrp_den k for k in range(N)]
   (the docstring's "equivalent to [T.mttkrp(U, k) for k in range(T.ndims)]") *)
Theorem C12_mttkrps_eq : forall s (Y : idx -> V) (As : list mat) R sp,
  length As = length s ->
  mttkrps_alg s Y As R sp = map (mttkrp_den v0 v1 vadd vmul s Y As R) (seq 0 (length s)).
Proof.
  intros s Y As R sp HA. unfold mttkrps_alg, contract_tail, contract_head.
  rewrite alg_split_eq.
  - now rewrite !firstn_skipn.
  - rewrite !firstn_length. lia.
  - rewrite !skipn_length. lia.
Qed.

(* entry-wise form *)
Theorem mttkrps_alg_eq : forall s (Y : idx -> V) (As : list mat) R sp k,
  length As = length s -> sp < length s -> k < length s ->
  forall j r, j < nth k s 0 -> r < R ->
  mg (nth k (mttkrps_alg s Y As R sp) []) j r = mg (mttkrp_den v0 v1 vadd vmul s Y As R k) j r.
Proof.
  intros s Y As R sp k HA _ Hk j r _ _. rewrite C12_mttkrps_eq by auto.
  now rewrite nth_map_seq by auto.
Qed.

(* dimensions: N matrices, the k-th one is I_k x R *)
Theorem mttkrps_alg_dims : forall s (Y : idx -> V) (As : list mat) R sp,
  length As = length s ->
  length (mttkrps_alg s Y As R sp) = length s /\
  forall k, k < length s ->
    length (nth k (mttkrps_alg s Y As R sp) []) = nth k s 0 /\
    Forall (fun row => length row = R) (nth k (mttkrps_alg s Y As R sp) []).
Proof.
  intros s Y As R sp HA. rewrite C12_mttkrps_eq by auto. split.
  - now rewrite map_length, seq_length.
  - intros k Hk. rewrite nth_map_seq by auto. rewrite mttkrp_den_tab. apply tab_dims.
Qed.

(* tensor.mttkrps as called: split_idx = min_split(self.shape) (line 1118) *)
Definition mttkrps_py (s : shape) (Y : idx -> V) (As : list mat) (R : nat) : list mat :=
  mttkrps_alg s Y As R (min_split s).

Corollary C12_mttkrps_py_eq : forall s (Y : idx -> V) (As : list mat) R,
  length As = length s -> Forall (fun d => 1 <= d) s -> 2 <= length s ->
  S (min_split s) < length s /\
  mttkrps_py s Y As R = map (mttkrp_den v0 v1 vadd vmul s Y As R) (seq 0 (length s)).
Proof.
  intros s Y As R HA Hp Hl. split; [now apply min_split_lt|]. now apply C12_mttkrps_eq.
Qed.

End Mttkrps.

(* ------------------------------------------------------------------------------------------ *)
(* 8. non-vacuity: a concrete 4-way instance over Z, skewed shape, two split indices           *)
(* ------------------------------------------------------------------------------------------ *)
Section Example.
Local Open Scope Z_scope.
Let s : shape := [3; 2; 2; 2]%nat.
Let Y (i : idx) : Z := Z.of_nat (sub2ind s i) * Z.of_nat (sub2ind s i) - 7 * Z.of_nat (nth 0 i 0%nat) + 1.
Let As : list (list (list Z)) :=
  [ [[1; 2]; [-3; 4]; [5; -6]];
    [[2; 0]; [1; 3]];
    [[-1; 1]; [4; 2]];
    [[3; -2]; [0; 5]] ].
Let spec := map (mttkrp_den 0 1 Z.add Z.mul s Y As 2) (seq 0 4).

Example mttkrps_alg_ex_split0 : mttkrps_alg Z 0 1 Z.add Z.mul s Y As 2 0 = spec.
Proof. timeout 60 (vm_compute; reflexivity). Qed.
Example mttkrps_alg_ex_split1 : mttkrps_alg Z 0 1 Z.add Z.mul s Y As 2 1 = spec.
Proof. timeout 60 (vm_compute; reflexivity). Qed.
Example mttkrps_alg_ex_split2 : mttkrps_alg Z 0 1 Z.add Z.mul s Y As 2 2 = spec.
Proof. timeout 60 (vm_compute; reflexivity). Qed.
(* the common value is not trivial *)
Example mttkrps_alg_ex_value :
  nth 0 spec [] <> nth 1 spec [] /\ mget 0 (nth 0 (mttkrps_alg Z 0 1 Z.add Z.mul s Y As 2 1) []) 1 0 <> 0.
Proof. timeout 60 (vm_compute; split; discriminate). Qed.
End Example.

(* min_split on the shapes probed against the Python: min_split((3,2,2,2)) = 1, min_split((2,3,4,50)) = 2, (2,2) -> 0 *)
Example min_split_ex : min_split [3; 2; 2; 2] = 1 /\ min_split [2; 3; 4; 50] = 2 /\ min_split [2; 2] = 0.
Proof. timeout 60 (vm_compute; auto). Qed.

Print Assumptions C12_mttkrps_eq.
Print Assumptions mttkrps_alg_eq.
Print Assumptions C12_mttkrps_py_eq.
