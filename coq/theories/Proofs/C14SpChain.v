(* Proofs/C14SpChain.v — the multi-mode sptensor.ttm chain that produces H in the sparse-core branch of ttensor.nvecs
   (Model/C14SpChain.v) is tensor.ttm over all modes applied to the expanded core, hence (C01_tucker_impl) the array
   core x_m V_m: the hypothesis about H of C14_gram_tucker_sparse_core is discharged for the H the code computes. *)
From Coq Require Import List Arith Lia Bool ZArith Ring Permutation.
From PV Require Import Base.Index Base.Perm Base.Sum Np.Array Np.NpZ Np.NpZ2 Proofs.NpZProofs Model.Sparse Model.Repr Model.C07Ops
  Model.C01Conv Model.C01Unique Model.C01Coo Model.C02Spec Model.C02Dense Model.C02SpMore Model.C01Ttm Gen.GenUtils Proofs.UtilsProofs Gen.GenUtils2
  Proofs.GenWrapDims Proofs.C01Proofs Proofs.C01Ttm Proofs.C02SpMoreProofs Model.C14Nvecs Model.C14Gram Model.C14Unfold Model.C14SpChain
  Proofs.C14Sums Proofs.C14Split Proofs.C14GramSp Proofs.C14GramT Proofs.C14Unfold.
Import ListNotations.

Section SpChainProofs.
Variable V : Type.
Variables (v0 v1 : V) (vadd vmul vsub : V -> V -> V) (vopp : V -> V).
Hypothesis Vring : ring_theory v0 v1 vadd vmul vsub vopp (@eq V).
Variable isz : V -> bool.
Hypothesis isz_spec : forall v, isz v = true <-> v = v0.

(* the sparse first step is tensor.ttm in mode 0 of the expanded core *)
Lemma sp_ttm_first_eq (S : sparse V) (M : @matrix V) : wf_sp isz S -> 0 < length (sshape S) ->
  sp_ttm_first v0 vadd vmul isz S M = impl_ttm_dense v0 vadd vmul (full v0 S) 0 M (nrows M) false.
Proof.
  intros W HN. pose proof W as (HL & _ & Hin & _). unfold sp_ttm_first.
  rewrite (full_to_sptensor v0 isz isz_spec) by apply wf_tabulate.
  rewrite (impl_ttm_is_ttm_mode V v0 vadd vmul) by (try apply wf_full; exact HN).
  unfold ttm_mode. change (dshape (full v0 S)) with (sshape S). rewrite set_nth_upd.
  apply tabulate_ext. intros i Hi.
  pose proof (inb_length _ _ Hi) as HLi. rewrite upd_length in HLi.
  rewrite (impl_ttm_sp_correct V v0 v1 vadd vmul vsub vopp Vring isz S 0 M false i W HN HLi).
  - unfold spec_ttm. apply (sum_n_ext V v0 vadd). intros k _. rewrite set_nth_upd. f_equal. symmetry. now apply den_full.
  - destruct (sshape S) as [|d s]; [cbn in HN; lia|]. destruct i as [|x i]; [discriminate HLi|].
    cbn [upd inb] in Hi. apply andb_true_iff in Hi as [_ Hi]. exact Hi.
Qed.

Theorem sp_ttm_chain_eq (S : sparse V) (Ms : list (@matrix V)) : wf_sp isz S -> Ms <> [] -> length (sshape S) = length Ms ->
  sp_ttm_chain v0 vadd vmul isz S Ms = ttensor_full_impl v0 vadd vmul (mkT (full v0 S) Ms).
Proof.
  intros W Hne HN. destruct Ms as [|M r]; [congruence|]. unfold sp_ttm_chain, ttensor_full_impl. cbn [tcore tfactors ttm_all_impl].
  rewrite sp_ttm_first_eq by (auto; rewrite HN; cbn; lia). reflexivity.
Qed.

(* what the chain denotes: the Tucker tensor (expanded core; V_0..V_{N-1}) *)
Theorem sp_ttm_chain_correct (S : sparse V) (Ms : list (@matrix V)) : wf_sp isz S -> Ms <> [] -> length (sshape S) = length Ms ->
  let H := sp_ttm_chain v0 vadd vmul isz S Ms in
  wf_dense H /\ dshape H = map (@nrows V) Ms /\
  forall i, den_dense v0 H i = den_t v0 v1 vadd vmul (mkT (full v0 S) Ms) i.
Proof.
  intros W Hne HN H. unfold H. rewrite (sp_ttm_chain_eq S Ms W Hne HN).
  destruct (ttensor_full_impl_correct V v0 v1 vadd vmul vsub vopp Vring (mkT (full v0 S) Ms) (wf_full v0 S) HN) as (_ & WH & Hs & Hd).
  split; [exact WH|]. split; [exact Hs|exact Hd].
Qed.

(* ttensor.nvecs, sparse core, with the H the code computes: no hypothesis about H is left *)
Theorem gram_tsp_chain_eq (GS : sparse V) (Us : list (list (list V))) (n : nat) :
  let T := mkT (full v0 GS) Us in
  wf_sp isz GS -> wf_tucker V T -> n < length Us ->
  gram_tsp_tm v0 vadd vmul isz (HDense (sp_ttm_chain v0 vadd vmul isz GS (tucker_vs v0 vadd vmul Us n))) GS (nth n Us []) n
  = Some (gram_t_impl v0 v1 vadd vmul T n).
Proof.
  intros T W WT Hn. pose proof WT as (HN & _). cbn [T tcore tfactors] in HN. change (dshape (full v0 GS)) with (sshape GS) in HN.
  destruct (tucker_vs_facts V v0 vadd vmul n Us Hn) as (_ & _ & VL).
  set (Vs := tucker_vs v0 vadd vmul Us n) in *.
  assert (Hne : Vs <> []) by (intros E; rewrite E in VL; cbn in VL; lia).
  assert (HNV : length (sshape GS) = length Vs) by (unfold matrix in *; lia).
  destruct (sp_ttm_chain_correct GS Vs W Hne HNV) as (WH & Hs & Hd).
  apply (gram_tsp_tm_eq V v0 v1 vadd vmul vsub vopp Vring isz isz_spec _ GS Us n W WT Hn).
  - exact WH.
  - exact Hs.
  - intros i _. cbn [hden]. rewrite Hd. reflexivity.
Qed.

Theorem gram_tsp_chain_spec (GS : sparse V) (Us : list (list (list V))) (n a b : nat) :
  let T := mkT (full v0 GS) Us in
  wf_sp isz GS -> wf_tucker V T -> n < length Us -> a < nrows (nth n Us []) -> b < nrows (nth n Us []) ->
  exists Y, gram_tsp_tm v0 vadd vmul isz (HDense (sp_ttm_chain v0 vadd vmul isz GS (tucker_vs v0 vadd vmul Us n))) GS (nth n Us []) n = Some Y /\
    mget v0 Y a b = gram_spec v0 vadd vmul (tshape T) (den_t v0 v1 vadd vmul T) n a b.
Proof.
  intros T W WT Hn Ha Hb. exists (gram_t_impl v0 v1 vadd vmul T n). split; [now apply gram_tsp_chain_eq|].
  now apply (gram_tucker V v0 v1 vadd vmul vsub vopp Vring).
Qed.

End SpChainProofs.

Example sp_chain_example :
  let GS := mkSp [2; 1; 2] [[1; 0; 1]; [0; 0; 0]; [1; 0; 0]] [3; 1; 2] in
  let Us := [[[1; 0]; [2; 1]; [0; 1]]; [[2]; [1]]; [[1; 1]; [0; 2]]] in
  let H := fun n => sp_ttm_chain 0 Nat.add Nat.mul (Nat.eqb 0) GS (tucker_vs 0 Nat.add Nat.mul Us n) in
  dshape (H 1) = [2; 2; 2] /\ ddata (H 1) = [30; 24; 15; 12; 78; 72; 39; 36] /\
  H 1 = ttensor_full_impl 0 Nat.add Nat.mul (mkT (full 0 GS) (tucker_vs 0 Nat.add Nat.mul Us 1)) /\
  gram_tsp_tm 0 Nat.add Nat.mul (Nat.eqb 0) (HDense (H 1)) GS (nth 1 Us []) 1 = Some [[588; 294]; [294; 147]] /\
  gram_tsp_tm 0 Nat.add Nat.mul (Nat.eqb 0) (HDense (H 0)) GS (nth 0 Us []) 0 = Some (gram_t_impl 0 1 Nat.add Nat.mul (mkT (full 0 GS) Us) 0).
Proof. vm_compute. repeat split. Qed.
