(* Alg/C13Harness.v — executable instances used by the generated C13 cases, the weight laws over Qc and the
   concrete instances (extreme draws; the open short-supply finding C13-S1). *)
From Coq Require Import List ZArith Lia Bool Arith QArith Qcanon.
From PV Require Import Base.Index Np.Array Model.Sparse Model.Harness Alg.C13Samplers Alg.C13Solver.
From PV Require Import Model.Repr Model.C08Kruskal Alg.C13Config Alg.C13Vec.
Import ListNotations.
Local Open Scope Z_scope.

(* numpy doubles in [0,1) are multiples of 2^-53 *)
Definition D53 : Z := 2 ^ 53.
Lemma D53_pos : 0 < D53. Proof. reflexivity. Qed.

Definition zuniform_subs := uniform_subs D53.
Definition zuniform_vals := uniform_vals (V:=Z) D53 0.
Definition zstrat_subs := strat_subs (V:=Z) D53.
Definition zstrat_vals := strat_vals (V:=Z) 0.
Definition zsemi_subs := semi_subs (V:=Z) D53.
Definition zsemi_vals := semi_vals (V:=Z) 0.
Definition zmat_eqb := list_eqb vec_eqb.
(* np.sort(tt_sub2ind(shape, subs)) up to order *)
Definition znzidx (S : sparse Z) : list Z := map (fun j => Z.of_nat (sub2ind (sshape S) j)) (ssubs S).

(* finding C13-S1 (open): what a repaired stratified sampler would return when fewer zeros are obtained than requested —
   zero values (and weights) sized by the zero subscripts actually obtained.  Accepted by the generated cases ONLY inside
   the trigger region of that finding (short zero supply). *)
Definition zstrat_vals_fixed := strat_vals_fixed (V:=Z) D53 0.
Lemma D53_draw_range a d : 0 <= a < D53 -> 0 < d -> 0 <= draw_sub D53 a d < d.
Proof. apply draw_sub_range. exact D53_pos. Qed.

(* ---- what C13 states about ONE observed sample (subscripts, values, number of weights) ---- *)
Definition sample_ok_dense (X : dense Z) (subs : list (list Z)) (vals : list Z) (nw : nat) : bool :=
  Nat.eqb (length subs) (length vals) && Nat.eqb (length vals) nw &&
  forallb (in_rangeZb (dshape X)) subs &&
  vec_eqb (map (fun row => zden X (map Z.to_nat row)) subs) vals.
Definition sample_ok_sp (S : sparse Z) (subs : list (list Z)) (vals : list Z) (nw : nat) : bool :=
  Nat.eqb (length subs) (length vals) && Nat.eqb (length vals) nw &&
  forallb (in_rangeZb (sshape S)) subs &&
  vec_eqb (map (fun row => zden_sp S (map Z.to_nat row)) subs) vals.
(* zero samples are true zeros *)
Definition zeros_ok_sp (S : sparse Z) (zsubs : list (list Z)) : bool :=
  forallb (fun row => in_rangeZb (sshape S) row && (zden_sp S (map Z.to_nat row) =? 0)) zsubs.

(* ---- weights ---- *)
Local Open Scope Qc_scope.
Definition wsum (ws : list Qc) : Qc := fold_right Qcplus (Q2Qc 0) ws.
Definition zq (z : Z) : Qc := Q2Qc (inject_Z z).
(* n samples of weight c/n each *)
Definition even_weights (c : Qc) (n : nat) : list Qc := repeat (c / zq (Z.of_nat n)) n.
Definition weights_close (ws : list Qc) (c : Qc) (n : nat) : bool :=
  Nat.eqb (length ws) n && forallb (fun w => qclose tol9 w (c / zq (Z.of_nat n))) ws.
Definition total_close (ws : list Qc) (c : Qc) : bool := qclose tol9 (wsum ws) c.

Lemma zq_succ n : zq (Z.of_nat (S n)) = zq (Z.of_nat n) + 1.
Proof.
  unfold zq. rewrite Nat2Z.inj_succ. unfold Z.succ, Qcplus. apply Q2Qc_eq_iff.
  cbn [this Q2Qc]. rewrite !Qred_correct. rewrite inject_Z_plus. reflexivity.
Qed.

Lemma wsum_repeat q n : wsum (repeat q n) = zq (Z.of_nat n) * q.
Proof.
  induction n as [|n IH].
  - cbn [repeat wsum fold_right]. change (zq (Z.of_nat 0)) with 0%Qc. ring.
  - cbn [repeat wsum fold_right]. fold (wsum (repeat q n)). rewrite IH.
    rewrite zq_succ. ring.
Qed.

(* the weights of one stratum total the number of entries the stratum stands for *)
Theorem even_weights_total c n : (0 < n)%nat -> wsum (even_weights c n) = c /\ length (even_weights c n) = n.
Proof.
  intros Hn. unfold even_weights. rewrite wsum_repeat, repeat_length. split; [|reflexivity].
  field. unfold zq. intros H. apply Q2Qc_eq_iff in H. unfold Qeq in H. cbn in H. lia.
Qed.

(* the weights samplers.stratified / semistrat attach: num_nonzeros weights nnz/num_nonzeros, then num_zeros weights
   zeros/num_zeros (zeros = size - nnz for stratified, size for semi-stratified) — sized and scaled by the REQUEST, whatever
   its relation to the number of nonzeros / zeros there are (requests larger than nnz draw with replacement) *)
Definition strat_weights (nnzq zerosq : Qc) (cn cz : nat) : list Qc := even_weights nnzq cn ++ even_weights zerosq cz.
Theorem strat_weights_total nnzq zerosq cn cz :
  length (strat_weights nnzq zerosq cn cz) = (cn + cz)%nat /\
  ((0 < cn)%nat -> wsum (firstn cn (strat_weights nnzq zerosq cn cz)) = nnzq) /\
  ((0 < cz)%nat -> wsum (skipn cn (strat_weights nnzq zerosq cn cz)) = zerosq).
Proof.
  unfold strat_weights.
  assert (L : length (even_weights nnzq cn) = cn) by (unfold even_weights; apply repeat_length).
  split; [|split].
  - rewrite app_length, L. unfold even_weights. now rewrite repeat_length.
  - intros H. rewrite firstn_app, L, Nat.sub_diag. cbn [firstn]. rewrite app_nil_r, <- L at 1. rewrite firstn_all.
    now apply even_weights_total.
  - intros H. rewrite skipn_app, L, Nat.sub_diag. cbn [skipn]. rewrite <- L at 1. rewrite skipn_all. cbn [app].
    now apply even_weights_total.
Qed.
Local Close Scope Qc_scope.

(* ---- solver bookkeeping over a stream of observed estimates ----
   the "model" is the index of the epoch boundary that produced it (0 = starting guess), fest k = k-th estimate *)
Definition zsolve (ests : list Z) (max_fails : nat) (tol : option Z) (max_iters : nat) : st nat unit Z :=
  solve nat unit Z Z.leb (fun k => nth k ests 0) (fun n _ o _ => (S n, o)) (fun o => o) max_fails tol max_iters 0%nat tt.
Definition zfull_trace (ests : list Z) (s : st nat unit Z) : list Z := full_trace nat unit Z (fun k => nth k ests 0) 0%nat s.
Definition zreported_trace (ests : list Z) (max_iters : nat) (s : st nat unit Z) : list Z :=
  reported_trace nat unit Z (fun k => nth k ests 0) 0 max_iters 0%nat s.
(* observation of a solve: index candidates of the returned model, completed epochs, _nfails afterwards, n_epoch *)
Definition zsolve_ok (ests : list Z) (max_fails : nat) (tol : option Z) (max_iters : nat)
           (ret_cands : list nat) (nepochs nfails_obs n_epoch_obs : nat) : bool :=
  let s := zsolve ests max_fails tol max_iters in
  existsb (Nat.eqb (cur _ _ _ s)) ret_cands && Nat.eqb (epochs _ _ _ s) nepochs &&
  Nat.eqb (nfails _ _ _ s) nfails_obs && Nat.eqb (reported_n_epoch _ _ _ s) n_epoch_obs &&
  vec_eqb (zreported_trace ests max_iters s) (zfull_trace ests s).

(* ---- concrete instances ---- *)
(* the extreme draws u = 0.0 and u = 1 - 2^-53 give the first and the last index (A-48 repaired) *)
Example uniform_extreme_draws_in_range :
  zuniform_subs [2; 3]%nat [[0; D53 - 1]; [D53 / 2; D53 / 3]] = [[0; 2]; [1; 0]] /\
  forallb (in_rangeZb [2; 3]%nat) (zuniform_subs [2; 3]%nat [[0; D53 - 1]; [D53 / 2; D53 / 3]]) = true.
Proof. split; reflexivity. Qed.

(* finding C13-S1 (open) — short zero supply: 2x2 tensor with 3 nonzeros, 2 zeros requested, the drawn rows contain the only zero once:
   stratified returns 2 subscripts but 3 values *)
Example stratified_short_supply_lengths_differ :
  let S := mkSp [2; 2]%nat [[0; 0]; [1; 0]; [0; 1]]%nat [5; 6; 7] in
  let draws := [[0; 0]; [D53 - 1; D53 - 1]; [D53 - 1; 0]] in
  length (zstrat_subs S [0; 1; 2] [1%nat] draws 2) = 2%nat /\ length (zstrat_vals S [1%nat] 2) = 3%nat.
Proof. split; reflexivity. Qed.

(* ---- LBFGSB.solve replayed: scipy is the oracle, its observed answer (final vector, final f) is the input ----
   All floats of one case are scaled by one common denominator (tovec / update only move data), callbacks are a unit type. *)
Definition zlb_solve (K0 : ktensor Z) (lb : option Z) (x : list Z) (fx : Z) : outcome (ktensor Z) Z Z unit unit :=
  lbfgsb_solve (ktensor Z) Z Z unit unit (tovec_f Z 0) (update_all Z 0) (fun _ => 0)
               (fun _ _ _ _ => (x, fx)) (mkKw unit unit (UserCb unit None) tt) K0 lb.
Definition zfactors_eqb := list_eqb (list_eqb vec_eqb).
(* observation: the start vector and the number of bound pairs handed to scipy, the factor matrices of the returned model
   (raw rows), info["final_f"]; the returned model must be scipy's vector read back through update — NOT any other point *)
Definition zlb_ok (K0 : ktensor Z) (lb : option Z) (x : list Z) (fx : Z)
           (x0_obs : list Z) (nbounds : nat) (factors_obs : list (list (list Z))) (final_f_obs : Z) : bool :=
  let o := zlb_solve K0 lb x fx in
  vec_eqb (tovec_f Z 0 K0) x0_obs && Nat.eqb (length (o_bounds _ _ _ _ _ o)) nbounds &&
  forallb (fun b => match lb, fst b with None, None => true | Some u, Some v => Z.eqb u v | _, _ => false end)
          (o_bounds _ _ _ _ _ o) &&
  zfactors_eqb (kfactors (o_model _ _ _ _ _ o)) factors_obs && vec_eqb (kweights (o_model _ _ _ _ _ o)) (kweights K0) &&
  Z.eqb (o_final_f _ _ _ _ _ o) final_f_obs &&
  match lb with None => true | Some b => forallb (fun v => Z.leb b v) (tovec_f Z 0 (o_model _ _ _ _ _ o)) end.

Example zlb_example :   (* 2x1 (+) 3x1 model; scipy answers [9;8;7;6;5]: the returned factors are that vector, column-wise *)
  let K0 := mkK [1] [[[1]; [2]]; [[3]; [4]; [5]]] in
  zlb_ok K0 (Some 0) [9; 8; 7; 6; 5] 42 [1; 2; 3; 4; 5] 5 [[[9]; [8]]; [[7]; [6]; [5]]] 42 = true /\
  zlb_ok K0 (Some 0) [9; 8; 7; 6; 5] 42 [1; 2; 3; 4; 5] 5 [[[9]; [8]]; [[7]; [6]; [4]]] 42 = false.
Proof. split; reflexivity. Qed.
