(* Proofs/W4FromVector.v — bridge Gen.ktensor_from_vector = H_from_vector (Gen/GenKtensor4b.v, regenerated from
   /repo/pyttb/ktensor.py; the generated isvector / isrow of Gen/GenUtils3.v are evaluated on the 1-d data) and laws. *)
From Coq Require Import List ZArith Arith Bool Lia.
From PV Require Import Np.NpZ Np.NpZ2 Np.NpZ3 Np.NpZ3c Np.NpZ3d Np.NpZ3e Np.NpZ4 Np.NpZ4c Proofs.NpZProofs Model.W4FromVector
  Proofs.W4Loops Gen.GenUtils3 Gen.GenKtensor4b.
Import ListNotations.
Local Open Scope Z_scope.

Lemma isvector_1d (v : vec) : isvector (nd_of_vec v) = Ok true.
Proof. reflexivity. Qed.
Lemma isrow_1d (v : vec) : isrow (nd_of_vec v) = Ok false.
Proof. reflexivity. Qed.

Theorem from_vector_bridge (cls : unit) (data shape : vec) (cw : bool) :
  ktensor_from_vector cls data shape cw = H_from_vector data shape cw.
Proof.
  unfold ktensor_from_vector, H_from_vector. rewrite isvector_1d, isrow_1d. cbn [is_ok res_get bind]. cbv zeta.
  destruct cw; cbn [negb andb].
  - destruct (zsum shape + 1 =? 0); cbn [negb bind]; [reflexivity|]. unfold rat_is_int, rat_int, rat_div. cbn [fst snd].
    destruct (zlen data mod (zsum shape + 1) =? 0); cbn [negb bind]; [|reflexivity].
    rewrite (np_for_map (fun p : Z * Z => np_reshape2_ok (H_fv_chunk data shape (zlen data / (zsum shape + 1)) (zlen data / (zsum shape + 1)) (fst p)) (snd p) (zlen data / (zsum shape + 1)))
                        (fun p : Z * Z => np_reshape2 OrdF (H_fv_chunk data shape (zlen data / (zsum shape + 1)) (zlen data / (zsum shape + 1)) (fst p)) (snd p) (zlen data / (zsum shape + 1)))).
    + destruct (forallb _ _); reflexivity.
    + intros [n x] acc. reflexivity.
  - rewrite Z.add_0_r. destruct (zsum shape =? 0); cbn [negb bind]; [reflexivity|]. unfold rat_is_int, rat_int, rat_div. cbn [fst snd].
    destruct (zlen data mod zsum shape =? 0); cbn [negb bind]; [|reflexivity].
    destruct (0 <=? zlen data / zsum shape); cbn [negb bind]; [|reflexivity].
    rewrite (np_for_map (fun p : Z * Z => np_reshape2_ok (H_fv_chunk data shape (zlen data / zsum shape) 0 (fst p)) (snd p) (zlen data / zsum shape))
                        (fun p : Z * Z => np_reshape2 OrdF (H_fv_chunk data shape (zlen data / zsum shape) 0 (fst p)) (snd p) (zlen data / zsum shape))).
    + destruct (forallb _ _); reflexivity.
    + intros [n x] acc. reflexivity.
Qed.

(* a data vector whose length is not a multiple of sum(shape) [+ 1] is rejected *)
Theorem gen_from_vector_rejects_length (cls : unit) (data shape : vec) (cw : bool) :
  zlen data mod (zsum shape + (if cw then 1 else 0)) <> 0 -> ktensor_from_vector cls data shape cw = Err.
Proof.
  intros H. rewrite from_vector_bridge. unfold H_from_vector. cbv zeta. destruct (_ =? 0); [reflexivity|].
  replace (zlen data mod _ =? 0) with false by (symmetry; apply Z.eqb_neq; exact H). reflexivity.
Qed.

(* an accepted request: R = len(data) / (sum(shape) [+ 1]) components, one factor per entry of shape, the weights are the
   head of the data or ones *)
Theorem gen_from_vector_shape (cls : unit) (data shape : vec) (cw : bool) (k : ktz) :
  ktensor_from_vector cls data shape cw = Ok k ->
  let R := zlen data / (zsum shape + (if cw then 1 else 0)) in
  zlen data = R * (zsum shape + (if cw then 1 else 0)) /\
  length (kt_factors k) = length shape /\
  kt_weights k = (if cw then py_slice 0 data (mkslice (Some 0) (Some R) None) else np_full R 1).
Proof.
  intros E R. rewrite from_vector_bridge in E. unfold H_from_vector in E. cbv zeta in E. fold R in E.
  destruct (_ =? 0) eqn:Ed; [discriminate|]. destruct (zlen data mod _ =? 0) eqn:Em; [|discriminate]. cbn [negb] in E.
  destruct (negb cw && _); [discriminate|]. destruct (forallb _ _); [|discriminate]. destruct (kt_make_ok _ _); [|discriminate].
  injection E as <-. cbn [kt_factors kt_weights]. apply Z.eqb_neq in Ed. apply Z.eqb_eq in Em. split; [|split].
  - unfold R. rewrite Z.mul_comm. apply Z.div_exact; assumption.
  - rewrite map_length. clear. generalize 0. induction shape as [|x s IH]; intros k; cbn [np_enumerate length]; [reflexivity|]. now rewrite IH.
  - destruct cw; reflexivity.
Qed.
