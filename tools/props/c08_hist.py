"""C08 — multi-step HISTORIES of Kruskal re-parameterisations, memory layouts, operand aliasing (wave 3).

A history case is  {"w","f","lay", "steps":[step,...]} : a Kruskal tensor (integer data, per-factor memory layout:
F-contiguous | C-contiguous | non-contiguous view, assigned to K.factor_matrices[n] after construction) and 2-3 steps over
the alphabet of C08 operations, each applied to the result of the previous one.  After EVERY step the raw weights /
factor matrices (or the vector / list returned) are observed and compared, in Coq, with the executable model applied to
the model state of the previous step (exact oracles over Qc, tolerance 1e-9), the denoted array is re-evaluated on the
observed result, the normal-form clauses are re-evaluated, and every operand that a step was NOT supposed to touch (the
receiver of -K, c*K, K+L, extract, permute, copy, tovec; the second operand of + / - / fixsigns(other) / score) is compared
with its snapshot (aliasing).

The generator keeps an EXACT mirror of the state (Fractions) only to decide which steps are admissible for the exact
oracles (2-norms that are rational, N-th roots of perfect powers, no zero correlation in sign tests): the mirror decides
what is generated, never what is accepted.
"""
import itertools
import math
from fractions import Fraction as Fr

from vcheck import Case, gnlist, gq
import tgen


# ----------------------------------------------------------------------------------------------------------------
# exact mirror (generator side)
# ----------------------------------------------------------------------------------------------------------------
class Inexact(Exception):
    pass


def eff(a):
    """effective (weights, factors) of a case: the integer data times the powers of two named in a['sc'] (weights * 2^sc.a,
    factor n * 2^sc.b[n]); exact Fractions, every one of them a binary float"""
    sc = a.get("sc")
    if not sc:
        return a["w"], a["f"]
    sa = Fr(2) ** sc["a"]
    return ([Fr(x) * sa for x in a["w"]],
            [[[Fr(x) * Fr(2) ** kb for x in row] for row in A] for A, kb in zip(a["f"], sc["b"])])


def rel_comparers(e):
    """scaled inputs (magnitudes 2^-24 .. 2^24): the comparers with an absolute floor are replaced by the purely relative ones
    (raw weights / factor entries) and the ones relative to the largest magnitude (sums: symmetrize, denoted arrays)"""
    e = e.replace("qk_close (qk_symmetrize", "qk_mclose (qk_symmetrize")
    for x, y in (("qk_close ", "qk_rclose "), ("qv_close ", "qv_rclose "), ("qmats_close ", "qmats_rclose "),
                 ("qk_den_close ", "qk_den_mclose "), ("qk_den_rel ", "qk_den_mrel "),
                 ("qk_sorted_of ", "qk_sorted_of_r "), ("qk_sorted_pick ", "qk_sorted_pick_r ")):
        e = e.replace(x, y)
    return e


SCALES = [-24, -20, -12, 12, 20, 24]


def rand_scale(rng, N, need_root):
    """exponents for the weights and each factor: one or two of the N+1 slots are scaled (so the total stays within 2^+-48);
    when exact N-th roots are needed only scalings whose total exponent is -N*j with 2^j < 400"""
    if need_root:
        j = rng.choice([4, 8])
        return rng.choice([{"a": -N * j, "b": [0] * N}, {"a": 0, "b": [-j] * N}])
    sc = {"a": 0, "b": [0] * N}
    for slot in rng.sample(range(N + 1), rng.choice([1, 1, 2])):
        k = rng.choice(SCALES)
        if slot == N:
            sc["a"] = k
        else:
            sc["b"][slot] = k
    return sc


def isq(n):
    r = math.isqrt(n)
    return r if r * r == n else None


def fsqrt(x):
    a, b = isq(x.numerator), isq(x.denominator)
    if a is None or b is None:
        raise Inexact("sqrt")
    return Fr(a, b)


def iroot(n, N):
    for k in range(400):
        p = k ** N
        if p == n:
            return k
        if p > n:
            break
    raise Inexact("root")


def froot(x, N):
    return Fr(iroot(x.numerator, N), iroot(x.denominator, N))


def colof(A, r):
    return [row[r] for row in A]


def scalecols(A, cs):
    return [[x * c for x, c in zip(row, cs)] for row in A]


def colnorm(c, t):
    return sum(abs(x) for x in c) if t == 1 else fsqrt(sum(x * x for x in c))


def st_copy(st):
    w, f = st
    return [Fr(x) for x in w], [[[Fr(x) for x in row] for row in A] for A in f]


def m_gather(st, p):
    w, f = st
    return [w[r] for r in p], [[[row[r] for r in p] for row in A] for A in f]


def m_argsort_desc(w):
    return sorted(range(len(w)), key=lambda r: w[r])[::-1]        # stable ascending, reversed


def m_normcols(st, t, modes):
    w, f = st_copy(st)
    R = len(w)
    for n in modes:
        ts = [colnorm(colof(f[n], r), t) for r in range(R)]
        f[n] = scalecols(f[n], [1 / x if x > 0 else Fr(1) for x in ts])
        w = [a * b for a, b in zip(w, ts)]
    return w, f


def m_fixneg(st):
    w, f = st
    s = [Fr(-1) if x < 0 else Fr(1) for x in w]
    return [a * b for a, b in zip(w, s)], [scalecols(f[0], s)] + f[1:]


def m_redistribute(st, n):
    w, f = st
    return [Fr(1)] * len(w), [scalecols(A, w) if k == n else A for k, A in enumerate(f)]


def m_normalize(st, wf, sort, t, mode):
    if mode is not None:
        return m_normcols(st, t, [mode])
    w, f = m_fixneg(m_normcols(st, t, range(len(st[1]))))
    if wf == "all":
        d = [froot(x, len(f)) for x in w]
        w, f = [Fr(1)] * len(w), [scalecols(A, d) for A in f]
    elif wf is not None:
        w, f = m_redistribute((w, f), wf)
    if sort and len(w) > 1:
        w, f = m_gather((w, f), m_argsort_desc(w))
    return w, f


def m_arrange(st, wf):
    st = m_normalize(st, None, False, 2, None)
    st = m_gather(st, m_argsort_desc(st[0]))
    return st if wf is None else m_redistribute(st, wf)


def negcol(c):
    m = max(abs(x) for x in c)
    for x in c:
        if abs(x) == m:
            return x < 0
    return False


def m_fixsigns(st):
    w, f = st_copy(st)
    for r in range(len(w)):
        negidx = [n for n, A in enumerate(f) if negcol(colof(A, r))]
        for n in negidx[:2 * (len(negidx) // 2)]:
            f[n] = scalecols(f[n], [Fr(-1) if k == r else Fr(1) for k in range(len(w))])
    return w, f


def m_concat(st, st2, sign):
    (w, f), (w2, f2) = st, st2
    return w + [sign * x for x in w2], [[ra + rb for ra, rb in zip(A, B)] for A, B in zip(f, f2)]


def unvec(data, shape, R):
    out, off = [], 0
    for m in shape:
        out.append([[data[off + i + m * r] for r in range(R)] for i in range(m)])
        off += m * R
    return out


def m_update(st, modes, data):
    w, f = st_copy(st)
    R = len(w)
    loc = 0
    for k in modes:
        if k == -1:
            w = [Fr(x) for x in data[loc:loc + R]]
            loc += R
        else:
            m = len(f[k])
            f[k] = unvec([Fr(x) for x in data[loc:loc + m * R]], [m], R)[0]
            loc += m * R
    return w, f


def m_fso_ties(st, st2):
    """fixsigns(other): is some per-mode correlation zero or are two of equal magnitude (then the pairing is not pinned)"""
    a = m_normalize(st, None, False, 2, None)
    b = m_normalize(st2, None, False, 2, None)
    for r in range(min(len(a[0]), len(b[0]))):
        sc = [sum(x * y for x, y in zip(colof(A, r), colof(B, r))) for A, B in zip(a[1], b[1])]
        if any(x == 0 for x in sc) or len(set(abs(x) for x in sc)) < len(sc):
            return True
    return False


def sign_agreement(w, f, w2, f2, fo):
    """fixsigns(other), the promised normal form evaluated on pyttb's result (factors fo), by brute force: per component of the
    reference no mode correlates negatively with the normalised reference when the number of negative correlations was even, at
    most one when it was odd.  Signs only (normalisation divides by positive norms; its sign step negates column r of factor 0
    when the weight is negative); -> None | description"""
    def negs(fa, flip0):
        out = 0
        for n, (A, B) in enumerate(zip(fa, f2)):
            d = sum(Fr(ra[r]) * Fr(rb[r]) for ra, rb in zip(A, B))
            if n == 0 and flip0:
                d = -d
            out += d < 0
        return out
    for r in range(min(len(w2), len(w))):
        before = negs(f, (w[r] < 0) != (w2[r] < 0))
        after = negs(fo, w2[r] < 0)
        if after > 1 or (before % 2 == 0 and after != 0):
            return (f"fixsigns(other): in component {r}, {before} modes correlated negatively with the reference and {after} still do "
                    f"(sign-agreement normal form: {'none' if before % 2 == 0 else 'at most one'})")
    return None


def score_no_ties(st, st2):
    """the greedy matching of score() is pinned: at every step the largest free entry of the exact matrix is unique"""
    try:
        a = m_normalize(st, None, False, 2, None)
        b = m_normalize(st2, None, False, 2, None)
    except Inexact:
        return False
    RA, RB = len(a[0]), len(b[0])
    T = [[None] * RB for _ in range(RA)]
    for ra in range(RA):
        for rb in range(RB):
            la, lb = a[0][ra], b[0][rb]
            P = Fr(1) if la == 0 and lb == 0 else 1 - abs(la - lb) / max(abs(la), abs(lb))
            for A, B in zip(a[1], b[1]):
                P *= abs(sum(x * y for x, y in zip(colof(A, ra), colof(B, rb))))
            T[ra][rb] = P
    rows, cols = set(range(RA)), set(range(RB))
    for _ in range(RB):
        vals = [(T[i][j], i, j) for i in rows for j in cols]
        m = max(v[0] for v in vals)
        best = [v for v in vals if v[0] == m]
        if len(best) > 1:
            return False
        rows.discard(best[0][1])
        cols.discard(best[0][2])
    return True


def score_clause(w, f, w2, f2, perm, score, K="K", L="L"):
    """extra Gallina conjunct for score(): pyttb's best_perm / best_score against the greedy model (when pinned)"""
    if not score_no_ties(st_copy((w, f)), st_copy((w2, f2))):
        return "true"
    return (f"nvec_eqb (qk_score_perm {K} {L}) {gnlist(perm)} && qclose tol9 {gq(Fr(score))} (qk_score_val {K} {L})")


def m_sym_ok(st):
    """symmetrize: normalize('all') must be exact and no correlation with factor 0 may be zero"""
    w, f = m_normalize(st, "all", False, 2, None)
    for A in f[1:]:
        for r in range(len(w)):
            if sum(x * y for x, y in zip(colof(f[0], r), colof(A, r))) == 0:
                raise Inexact("zero correlation")
    return True


def m_apply(st, s):
    """state after an alphabet step (raises Inexact when the exact oracles cannot follow)"""
    op = s["op"]
    w, f = st
    if op == "normalize":
        return m_normalize(st, s["wf"], s["sort"], s["normtype"], s["mode"])
    if op == "arrange":
        return m_arrange(st, s["wf"])
    if op in ("arrange_perm", "extract"):
        return m_gather(st, s["p"])
    if op == "redistribute":
        return m_redistribute(st, s["mode"])
    if op == "fixsigns":
        return m_fixsigns(st)
    if op == "neg":
        return [-x for x in w], f
    if op == "mul":
        return [s["c"] * x for x in w], f
    if op in ("add", "sub"):
        return m_concat(st, st_copy((s["w2"], s["f2"])), 1 if op == "add" else -1)
    if op == "permute":
        return w, [f[k] for k in s["order"]]
    if op in ("copy", "setlay", "update_rej"):          # update_rej: a REJECTED update(modes, data) — the receiver must stay as it was
        return st
    if op == "vec":
        return (w if s["incl"] else [Fr(1)] * len(w)), f
    if op == "update":
        return m_update(st, s["modes"], s["data"])
    raise ValueError(op)


# ----------------------------------------------------------------------------------------------------------------
# generator
# ----------------------------------------------------------------------------------------------------------------
NEWOBJ = ("neg", "mul", "add", "sub", "extract", "permute", "copy", "vec")          # return a new object
INPLACE = ("normalize", "arrange", "arrange_perm", "redistribute", "fixsigns", "update", "update_rej", "setlay")
ALPHA = ["normalize", "normalize_abs", "normalize_mode", "arrange", "arrange_perm", "redistribute", "fixsigns", "neg", "mul",
         "add", "sub", "extract", "permute", "copy", "vec", "update", "update_rej", "setlay"]
TERMINAL = ["tolist", "tolist_mode", "symmetrize", "score", "fixsigns_other"]
# memory layouts of a factor matrix the user (or an earlier operation) left in K.factor_matrices[n]:
#   F  F-contiguous (what the constructor stores)        C  C-contiguous                 M  the result of `A @ eye(R)` — how
#   normalize(weight_factor=k|'all') leaves a factor (numpy returns a C-contiguous matmul result)
#   V  non-contiguous view (every other row / column of a larger C array)      S  the same of a larger F-ordered array
#   T  transpose of a C-contiguous (R x m) array: F-contiguous but a view of a base        N  negative strides on both axes
LAYS = ["F", "C", "V", "M", "S", "T", "N"]


def rand_lay(rng, N):
    k = rng.random()
    if k < 0.25:
        return ["F"] * N
    if k < 0.5:
        return ["C"] * N
    return [rng.choice(LAYS) for _ in range(N)]


def unit_col(rng, m):
    v = [0] * m
    v[rng.randrange(m)] = rng.choice([1, -1])
    return v


def rand_state(rng, c08, shape, R, kind):
    """kind: 'gen' (perfect-square columns) | 'unit' (columns already of unit 2-norm: +-e_i) | 'sym' (cubic, factors equal up
    to the sign of columns)"""
    if kind == "unit":
        f = []
        for m in shape:
            cols = [unit_col(rng, m) for _ in range(R)]
            f.append([[cols[r][i] for r in range(R)] for i in range(m)])
        w = [rng.choice([-3, -2, -1, 1, 2, 3, 4, 0]) for _ in range(R)]
        return w, f
    if kind == "sym":
        m = shape[0]
        cols = [list(rng.choice(c08.sq_pool(m))) for _ in range(R)]
        f = []
        for _n in shape:
            sg = [rng.choice([1, -1]) for _ in range(R)]
            f.append([[sg[r] * cols[r][i] for r in range(R)] for i in range(m)])
        w = [rng.choice([-2, -1, 1, 2, 3]) for _ in range(R)]
        return w, f
    return c08.rand_k(rng, shape, R, 2, pzero=0.08)


def rand_step(rng, c08, name, shape, R):
    """a step of kind `name` for a current state of the given shape / rank (parameters drawn from rng)"""
    N = len(shape)
    if name == "normalize":
        return {"op": "normalize", "wf": None, "sort": rng.random() < 0.5, "normtype": rng.choice([1, 2, 2]), "mode": None}
    if name == "normalize_abs":
        return {"op": "normalize", "wf": rng.choice(["all"] + list(range(N))), "sort": rng.random() < 0.3,
                "normtype": 2, "mode": None}
    if name == "normalize_mode":
        return {"op": "normalize", "wf": None, "sort": False, "normtype": rng.choice([1, 2]), "mode": rng.randrange(N)}
    if name == "arrange":
        return {"op": "arrange", "wf": rng.choice([None, None] + list(range(N)))}
    if name == "arrange_perm":
        p = list(range(R))
        rng.shuffle(p)
        return {"op": "arrange_perm", "p": p}
    if name == "redistribute":
        return {"op": "redistribute", "mode": rng.randrange(N)}
    if name == "fixsigns":
        return {"op": "fixsigns"}
    if name == "neg":
        return {"op": "neg", "old": rng.random() < 0.3}
    if name == "mul":
        return {"op": "mul", "c": rng.choice([-2, -1, 2, 3, 0, -3]), "side": rng.choice("lr"), "old": rng.random() < 0.3}
    if name in ("add", "sub"):
        R2 = rng.randint(1, 2)
        w2, f2 = c08.rand_k(rng, shape, R2, 2, pzero=0.05)
        return {"op": name, "w2": w2, "f2": f2, "lay2": rand_lay(rng, N), "old": rng.random() < 0.2}
    if name == "extract":
        k = rng.randint(1, R)
        return {"op": "extract", "p": rng.sample(range(R), k), "old": rng.random() < 0.2}
    if name == "permute":
        od = list(range(N))
        rng.shuffle(od)
        return {"op": "permute", "order": od, "old": rng.random() < 0.2}
    if name == "copy":
        return {"op": "copy", "old": rng.random() < 0.5}
    if name == "vec":
        return {"op": "vec", "incl": rng.random() < 0.7, "old": rng.random() < 0.2}
    if name == "update":
        allm = [-1] + list(range(N))
        modes = sorted(rng.sample(allm, rng.randint(1, len(allm))))
        n = sum((R if k == -1 else shape[k] * R) for k in modes)
        return {"op": "update", "modes": modes, "data": [rng.randint(-4, 4) for _ in range(n)]}
    if name == "update_rej":               # (wave 5, /repo b9311d6) a request pass 1 of update refuses; the offending block comes last where possible
        for _ in range(20):
            rq = c08.gen_update_req(rng, list(shape), R, rng.choice(["bad_later_mode", "short_later", "repeat", "negative", "descending", "short_first"]))
            if rq is not None and not c08.update_req_accepted(list(shape), R, rq[0], rq[1]):
                return {"op": "update_rej", "modes": rq[0], "data": rq[1]}
        return {"op": "update_rej", "modes": [N], "data": []}
    if name == "setlay":
        return {"op": "setlay", "n": rng.randrange(N), "lay": rng.choice(LAYS)}
    if name == "tolist":
        return {"op": "tolist", "mode": None}
    if name == "tolist_mode":
        return {"op": "tolist", "mode": rng.randrange(N)}
    if name == "symmetrize":
        return {"op": "symmetrize"}
    if name in ("score", "fixsigns_other"):
        return {"op": name}                     # the reference is built from the current exact state (see below)
    raise ValueError(name)


def to_int_state(st):
    w, f = st
    if all(x.denominator == 1 for x in w) and all(x.denominator == 1 for A in f for row in A for x in row):
        return [int(x) for x in w], [[[int(x) for x in row] for row in A] for A in f]
    return None


def finish_terminal(rng, c08, s, st, shape):
    """check admissibility of a terminal step on the exact state; fills in the reference operand; -> step | None"""
    w, f = st
    R, N = len(w), len(shape)
    try:
        if s["op"] == "tolist":
            if s["mode"] is None:
                if not all(x == 1 for x in w):
                    [froot(abs(x), N) for x in w]
            else:
                m_normalize(st, s["mode"], False, 2, None)
            return s
        if s["op"] == "symmetrize":
            if len(set(shape)) != 1:
                return None
            m_sym_ok(st)
            return s
        if s["op"] == "score":
            if R < 1 or any(x == 0 for x in w):
                return None
            a = m_normalize(st, None, False, 2, None)
            if any(x == 0 for x in a[0]):
                return None
            # reference: some components of the current tensor (columns rescaled to integers, so a matching exists)
            RB = rng.randint(1, min(R, 3))
            sel = rng.sample(range(R), RB)
            s["w2"] = [rng.choice([1, 2, 3]) for _ in sel]
            f2 = []
            for A in f:
                cols = []
                for r in sel:
                    cc = colof(A, r)
                    L = math.lcm(*[x.denominator for x in cc])
                    cols.append([int(x * L) for x in cc])
                f2.append([[cols[q][i] for q in range(RB)] for i in range(len(A))])
            s["f2"] = f2
            s["pinned"] = score_no_ties(st, st_copy((s["w2"], f2)))
            s["lay2"] = rand_lay(rng, N)
            return s
        if s["op"] == "fixsigns_other":
            m_normalize(st, None, False, 2, None)
            RB = rng.randint(1, min(R, 3) + 1)          # fewer, as many, or one MORE component than the receiver (8ac87f0)
            for _ in range(6):
                w2 = [rng.choice([1, 2, 3, -1]) for _ in range(RB)]
                f2 = []
                for m in shape:
                    cols = [list(rng.choice(c08.sq_pool(m))) for _ in range(RB)]
                    f2.append([[cols[r][i] for r in range(RB)] for i in range(m)])
                if not m_fso_ties(st, st_copy((w2, f2))):
                    s["w2"], s["f2"], s["lay2"] = w2, f2, rand_lay(rng, N)
                    return s
            return None
    except Inexact:
        return None
    return None


def build_history(rng, c08, shape, R, kind, names):
    """-> Case | None"""
    w, f = rand_state(rng, c08, shape, R, kind)
    if "normalize_abs" in names or "symmetrize" in names or "tolist" in names:
        w2 = c08.make_all_rootable(w, f, 2)
        if w2 is not None and max(abs(x) for x in w2) < 2 ** 40:
            w = w2
    sc = None
    if rng.random() < 0.35:                                       # magnitudes: data times 2^-24 .. 2^24 (6e-8 .. 2e7)
        sc = rand_scale(rng, len(shape), any(n in names for n in ("normalize_abs", "symmetrize", "tolist")))
    st = st_copy(eff({"w": w, "f": f, "sc": sc}))
    cur_shape = list(shape)
    steps = []
    for k, name in enumerate(names):
        s = rand_step(rng, c08, name, cur_shape, len(st[0]))
        if name in TERMINAL:
            s = finish_terminal(rng, c08, s, st, cur_shape)
            if s is None:
                return None
            steps.append(s)
            break
        try:
            nxt = m_apply(st, s)
        except Inexact:
            return None
        if s["op"] in ("normalize", "arrange") and (s["op"] == "arrange" or s["sort"]):
            pre = m_normalize(st, None if s["op"] == "arrange" else s["wf"], False, s.get("normtype", 2), None)
            if len(pre[0]) > 5 and len(set(pre[0])) < len(pre[0]):
                return None                      # too many arrangements of tied weights to search
        if max([abs(x.numerator) for x in nxt[0]] + [x.denominator for x in nxt[0]] + [1]) > 2 ** (110 if sc else 60):
            return None
        steps.append(s)
        if not s.get("old"):
            st = nxt
            if s["op"] == "permute":
                cur_shape = [cur_shape[k2] for k2 in s["order"]]
    if len(steps) < 2:
        return None
    args = {"w": w, "f": f, "lay": rand_lay(rng, len(shape)), "steps": steps, "kind": kind}
    if rng.random() < 0.15:
        args["ctor"] = rng.choice(["copy", "nocopy"])
    if sc:
        args["sc"] = sc
    return Case("hist", args, True)


HSHAPES = [(2, 3), (3, 2), (2, 2), (2, 3, 2), (3, 2, 2), (2, 2, 2), (3, 3), (3, 3, 3), (2, 1, 3), (2, 2, 2, 2), (3,), (4, 2)]
CUBIC = [(2, 2), (2, 2, 2), (3, 3), (3, 3, 3), (2, 2, 2, 2), (2, 2, 2, 2, 2)]


def gen_hist(rng, c08, tier):
    big = tier == "thorough"
    cases = []
    per_pair = 6 if big else 1

    def attempt(names, tries, kinds=("gen", "gen", "unit")):
        for _ in range(tries):
            cubic = "symmetrize" in names
            shape = rng.choice(CUBIC if cubic else HSHAPES)
            kind = rng.choice(("sym", "sym", "gen") if cubic else kinds)
            R = rng.choice([1, 2, 2, 3, 3, 4])
            c = build_history(rng, c08, shape, R, kind, names)
            if c is not None:
                return c
        return None

    # every ordered pair of the alphabet (second: alphabet or terminal)
    for a in ALPHA:
        for b in ALPHA + TERMINAL:
            for _ in range(per_pair):
                c = attempt([a, b], 8)
                if c is not None:
                    cases.append(c)
    # three-step histories (random), and the "already in normal form, then sign change, then normalise again" family
    for _ in range(400 if big else 60):
        names = [rng.choice(ALPHA), rng.choice(ALPHA), rng.choice(ALPHA + TERMINAL)]
        c = attempt(names, 4)
        if c is not None:
            cases.append(c)
    for first in ("normalize", "arrange", "normalize_abs"):
        for mid in ("neg", "mul", "sub", "update", "fixsigns"):
            for last in ("arrange", "normalize", "normalize_abs", "vec", "tolist", "symmetrize"):
                c = attempt([first, mid, last], 6)
                if c is not None:
                    cases.append(c)
    # symmetrize: inputs whose factors agree up to column signs, orders 2-5, weights of either sign; then histories before it
    for _ in range(60 if big else 10):
        for names in (["copy", "symmetrize"], ["setlay", "symmetrize"], ["fixsigns", "symmetrize"], ["neg", "symmetrize"],
                      ["redistribute", "symmetrize"], ["normalize_abs", "symmetrize"]):
            c = attempt(names, 4)
            if c is not None:
                cases.append(c)
    return cases


# ----------------------------------------------------------------------------------------------------------------
# pyttb runner
# ----------------------------------------------------------------------------------------------------------------
def as_layout(np, a, lay):
    a = np.array(a, dtype=float)
    if lay == "C":
        return np.ascontiguousarray(a)
    if lay == "M":
        return np.ascontiguousarray(a) @ np.eye(a.shape[1])
    if lay == "S":
        base = np.full((2 * a.shape[0] + 1, 2 * a.shape[1] + 1), 7.5, order="F")
        base[1::2, 1::2] = a
        return base[1::2, 1::2]
    if lay == "T":
        return np.ascontiguousarray(a.T).T
    if lay == "N":
        return np.ascontiguousarray(a[::-1, ::-1])[::-1, ::-1]
    if lay == "V":
        base = np.full((2 * a.shape[0] + 1, 2 * a.shape[1] + 1), 7.5)
        base[1::2, 1::2] = a
        return base[1::2, 1::2]
    return np.asfortranarray(a)


def mk_k(ttb, np, w, f, lay=None, ctor=None):
    """ctor: None = F-contiguous arrays through the constructor, then the layouts `lay` ASSIGNED to K.factor_matrices[n];
    'copy' / 'nocopy' = the arrays in layout `lay` handed to the constructor itself (copy=True / copy=False)"""
    R = len(w)
    fm = [np.array(A, dtype=float).reshape((len(A), R)) for A in f]
    if ctor is not None and lay is not None:
        import logging
        logging.disable(logging.WARNING)
        try:
            return ttb.ktensor([as_layout(np, a, l) for a, l in zip(fm, lay)], np.array(w, dtype=float), copy=(ctor == "copy"))
        finally:
            logging.disable(logging.NOTSET)
    K = ttb.ktensor([np.asfortranarray(a.copy()) for a in fm], np.array(w, dtype=float), copy=True)
    if lay is not None:
        for n, l in enumerate(lay):
            if l != "F":
                K.factor_matrices[n] = as_layout(np, fm[n], l)
    return K


def run_hist(c):
    import numpy as np
    import pyttb as ttb
    a = c.args
    out = []
    try:
        K = mk_k(ttb, np, *eff(a), a["lay"], a.get("ctor"))
        frozen = []                        # (label, object, snapshot) of everything later steps must not touch

        def freeze(label, obj):
            frozen.append((label, obj, tgen.obs_ktensor(np, obj)))

        for k, s in enumerate(a["steps"]):
            op = s["op"]
            o = {}
            new = None
            if op == "normalize":
                K.normalize(weight_factor=s["wf"], sort=s["sort"], normtype=s["normtype"], mode=s["mode"])
            elif op == "arrange":
                K.arrange(weight_factor=s["wf"])
            elif op == "arrange_perm":
                K.arrange(permutation=list(s["p"]))
            elif op == "redistribute":
                K.redistribute(s["mode"])
            elif op == "fixsigns":
                K.fixsigns()
            elif op == "update":
                K.update(np.array(s["modes"]), np.array(s["data"], dtype=float))
            elif op == "update_rej":
                before = tgen.obs_ktensor(np, K)
                try:
                    K.update(np.array(s["modes"], dtype=int), np.array(s["data"], dtype=float))
                    o["accepted"] = True
                except AssertionError as ex:
                    o["rejected"] = str(ex)[:60]
                o["same"] = bool(before == tgen.obs_ktensor(np, K))          # raw stored numbers before / after, exactly
            elif op == "setlay":
                K.factor_matrices[s["n"]] = as_layout(np, np.array(K.factor_matrices[s["n"]]), s["lay"])
            elif op == "neg":
                new = -K
            elif op == "mul":
                new = K * s["c"] if s["side"] == "r" else s["c"] * K
            elif op in ("add", "sub"):
                L = mk_k(ttb, np, s["w2"], s["f2"], s["lay2"])
                freeze(f"second operand of step {k}", L)
                new = K + L if op == "add" else K - L
            elif op == "extract":
                new = K.extract(list(s["p"]))
            elif op == "permute":
                new = K.permute(np.array(s["order"]))
            elif op == "copy":
                new = K.copy()
            elif op == "vec":
                v = K.tovec(include_weights=s["incl"])
                o["vec"] = [tgen.exact(x) for x in v]
                new = ttb.ktensor.from_vector(v.copy(), K.shape, s["incl"])
            elif op == "tolist":
                fl = K.tolist() if s["mode"] is None else K.tolist(s["mode"])
                o["list"] = [tgen.obs_matrix(np, A) for A in fl]
                o["self"] = tgen.obs_ktensor(np, K)
            elif op == "symmetrize":
                S = K.symmetrize()
                o["new"] = tgen.obs_ktensor(np, S)
                o["self"] = tgen.obs_ktensor(np, K)
            elif op == "score":
                L = mk_k(ttb, np, s["w2"], s["f2"], s["lay2"])
                freeze(f"second operand of step {k}", L)
                sc, A2, flag, perm = K.score(L)
                o["new"] = tgen.obs_ktensor(np, A2)
                o["perm"] = [int(x) for x in perm]
                o["score"] = float(sc)
                o["self"] = tgen.obs_ktensor(np, K)
            elif op == "fixsigns_other":
                L = mk_k(ttb, np, s["w2"], s["f2"], s["lay2"])
                freeze(f"second operand of step {k}", L)
                K.fixsigns(L)
            else:
                raise ValueError(op)
            if new is not None:
                o["new"] = tgen.obs_ktensor(np, new)
                if s.get("old"):
                    freeze(f"result of step {k}", new)
                else:
                    freeze(f"receiver of step {k}", K)
                    K = new
            o["k"] = tgen.obs_ktensor(np, K)
            o["changed"] = [lab for lab, obj, snap in frozen if tgen.obs_ktensor(np, obj) != snap]
            out.append(o)
        return {"steps": out}
    except Exception as ex:
        return {"exc": type(ex).__name__, "msg": str(ex)[:200], "steps": out}


# ----------------------------------------------------------------------------------------------------------------
# Gallina writer
# ----------------------------------------------------------------------------------------------------------------
def gqvec(l):
    return "(@nil Qc)" if not l else "[" + "; ".join(gq(x) for x in l) + "]"


def gqmat(m):
    return "(@nil (list Qc))" if not m else "[" + "; ".join(gqvec(r) for r in m) + "]"


def gqmats(f):
    return "(@nil (list (list Qc)))" if not f else "[" + "; ".join(gqmat(A) for A in f) + "]"


def gqk(w, f):
    return f"(mkK {gqvec(w)} {gqmats(f)})"


def gwf(wf):
    return "WNone" if wf is None else "WAll" if wf == "all" else f"(WMode {int(wf)})"


def gonat(x):
    return "None" if x is None else f"(Some {int(x)}%nat)"


def finite_k(k):
    return all(not isinstance(x, str) for x in k["weights"]) and all(not isinstance(x, str) for A in k["factors"] for r in A for x in r)


def gobs(k):
    return gqk(k["weights"], k["factors"])


def nf_clauses(s):
    nf = []
    if s["op"] == "normalize":
        if s["mode"] is None:
            nf.append("q_nonneg (kweights O)")
            if s["wf"] is None:
                nf += [f"qk_unit_cols {s['normtype']} O", "qk_zero_weight O"]
                if s["sort"]:
                    nf.append("q_desc (kweights O)")
            else:
                nf.append("q_all_one (kweights O)")
    elif s["op"] == "arrange":
        nf.append("q_nonneg (kweights O)")
        nf.append("q_desc (kweights O) && qk_unit_cols 2 O && qk_zero_weight O" if s["wf"] is None else "q_all_one (kweights O)")
    elif s["op"] == "redistribute":
        nf.append("q_all_one (kweights O)")
    return nf


def coq_hist(c, o):
    a = c.args
    if "exc" in o:
        return "false"
    shape = [len(A) for A in a["f"]]
    R = len(a["w"])
    parts = []          # (bindings, check) per step; the model state of step k is bound to S<k>
    for k, (s, ob) in enumerate(zip(a["steps"], o["steps"])):
        op = s["op"]
        if ob["changed"]:
            return "false"
        P = f"S{k}"          # previous model state
        shp = gnlist(shape)
        binds = []
        checks = []
        nxt = None
        obsk = ob.get("new") if op in NEWOBJ or op in ("symmetrize", "score") else ob["k"]
        if obsk is not None:
            if not finite_k(obsk):
                return "false"
            binds.append(("O", gobs(obsk)))
        if op == "normalize":
            base = f"qk_normalize {s['normtype']} {gwf(s['wf'])} false {gonat(s['mode'])} {P}"
            if s["sort"] and R > 1 and s["mode"] is None:
                binds.append(("M", base))
                checks.append("qk_sorted_of (fun G => G) M O")
                nxt = "qk_sorted_pick (fun G => G) M O"
            else:
                checks.append(f"qk_close ({base}) O")
                nxt = base
            checks.append(f"qk_den_close {shp} {P} O")
            checks += nf_clauses(s)
        elif op == "arrange":
            post = "(fun G => G)" if s["wf"] is None else f"(qk_redistribute {int(s['wf'])})"
            binds.append(("M", f"qk_normalize 2 WNone false None {P}"))
            checks.append(f"qk_sorted_of {post} M O")
            nxt = f"qk_sorted_pick {post} M O"
            checks.append(f"qk_den_close {shp} {P} O")
            checks += nf_clauses(s)
        elif op == "arrange_perm":
            nxt = f"qk_gather {gnlist(s['p'])} {P}"
            checks += [f"qk_close ({nxt}) O", f"qk_den_close {shp} {P} O"]
        elif op == "redistribute":
            nxt = f"qk_redistribute {s['mode']} {P}"
            checks += [f"qk_close ({nxt}) O", f"qk_den_close {shp} {P} O"] + nf_clauses(s)
        elif op == "fixsigns":
            nxt = f"qk_fixsigns {P}"
            checks += [f"qk_close (qk_py_fixsigns {P}) O", f"qk_eqb (qk_py_fixsigns {P}) ({nxt})", f"qk_den_close {shp} {P} O"]
        elif op == "setlay":
            nxt = P
            checks.append(f"qk_close {P} O")
        elif op == "update_rej":            # rejected: the receiver is EXACTLY the state before (theorem C08_update_rejected_unchanged)
            nxt = P
            checks.append(f"qk_close {P} O" if ("rejected" in ob and ob.get("same")) else "false")
        elif op == "update":
            ms = "[" + "; ".join("None" if m == -1 else f"Some {m}%nat" for m in s["modes"]) + "]"
            nxt = f"qk_update {ms} {gqvec(s['data'])} {P}"
            checks.append(f"qk_close ({nxt}) O")
        elif op == "neg":
            nxt = f"qk_neg {P}"
            checks += [f"qk_close ({nxt}) O", f"qk_den_rel {shp} (fun i => Qcopp (qden_k {P} i)) O"]
        elif op == "mul":
            nxt = f"qk_scale {gq(s['c'])} {P}"
            checks += [f"qk_close ({nxt}) O", f"qk_den_rel {shp} (fun i => Qcmult {gq(s['c'])} (qden_k {P} i)) O"]
        elif op in ("add", "sub"):
            binds.append(("L", gqk(s["w2"], s["f2"])))
            nxt = f"qk_{op} {P} L"
            f2 = "Qcplus" if op == "add" else "Qcminus"
            checks += [f"qk_close ({nxt}) O", f"qk_den_rel {shp} (fun i => {f2} (qden_k {P} i) (qden_k L i)) O"]
        elif op == "extract":
            nxt = f"qk_gather {gnlist(s['p'])} {P}"
            checks.append(f"qk_close ({nxt}) O")
        elif op == "permute":
            od = gnlist(s["order"])
            shape2 = [shape[m] for m in s["order"]]
            nxt = f"qk_permute {od} {P}"
            checks += [f"qk_close ({nxt}) O",
                       f"qk_den_rel {gnlist(shape2)} (fun i => qden_k {P} (pick 0%nat (invperm {od}) i)) O"]
            if not s.get("old"):
                shape = shape2
        elif op == "copy":
            nxt = P
            checks += [f"qk_close {P} O", f"qk_den_close {shp} {P} O"]
        elif op == "vec":
            if any(isinstance(x, str) for x in ob["vec"]):
                return "false"
            incl = "true" if s["incl"] else "false"
            binds.append(("v", gqvec(ob["vec"])))
            nxt = P if s["incl"] else f"qk_ones_w {P}"
            checks += [f"qv_close v (qk_tovec {incl} {P})", f"qk_close (qk_from_vector v {shp} {incl}) O", f"qk_close ({nxt}) O"]
        elif op == "tolist":
            if any(isinstance(x, str) for A in ob["list"] for r in A for x in r):
                return "false"
            binds.append(("F", gqmats(ob["list"])))
            model = f"qk_tolist {P}" if s["mode"] is None else f"qk_tolist_mode {int(s['mode'])} {P}"
            checks += [f"qmats_close ({model}) F", f"qk_den_close {shp} {P} (qk_ones_k F {R})", f"qk_close {P} {gobs(ob['self'])}"]
        elif op == "symmetrize":
            checks += [f"qk_close (qk_symmetrize {P}) O", "qk_same_factors O", f"qk_close {P} {gobs(ob['self'])}"]
            if a["kind"] == "sym" and all(t["op"] in ("copy", "setlay", "fixsigns", "redistribute", "normalize", "arrange",
                                                      "arrange_perm") for t in a["steps"][:k]):
                checks.append(f"qk_den_close {shp} {P} O")        # factors agree up to column signs: the value is kept
        elif op == "score":
            p = ob["perm"]
            if sorted(p) != list(range(R)):
                return "false"
            binds.append(("L", gqk(s["w2"], s["f2"])))
            checks += [f"qk_close (qk_gather {gnlist(p)} (qk_normalize 2 WNone false None {P})) O", f"qk_den_close {shp} {P} O",
                       f"qk_close {P} {gobs(ob['self'])}"]
            if s.get("pinned"):
                checks.append(f"nvec_eqb (qk_score_perm {P} L) {gnlist(p)} && "
                              f"qclose tol9 {gq(Fr(ob['score']))} (qk_score_val {P} L)")
        elif op == "fixsigns_other":
            binds.append(("L", gqk(s["w2"], s["f2"])))
            # pyttb against the literal column loop, and the loop against the one-shot model (exactly: theorem C08_fixsigns_other_loop)
            checks += [f"qk_close (qk_py_fixsigns_other {P} L) O", f"qk_eqb (qk_py_fixsigns_other {P} L) (qk_fixsigns_other {P} L)",
                       f"qk_sign_nf {P} L O", f"qk_den_close {shp} {P} O"]
        else:
            raise ValueError(op)
        keep_old = bool(s.get("old"))
        if nxt is not None and not keep_old:
            # rank of the next state
            if op in ("add", "sub"):
                R += len(s["w2"])
            elif op == "extract":
                R = len(s["p"])
        parts.append((binds, checks, P if (keep_old or nxt is None) else nxt))
    # assemble from the inside out
    expr = "true"
    for k in range(len(parts) - 1, -1, -1):
        binds, checks, nxt = parts[k]
        body = " && ".join(f"({x})" for x in checks)
        inner = f"(let S{k + 1} := {nxt} in {expr})" if k < len(parts) - 1 else "true"
        e = f"({body}) && {inner}"
        for name, val in reversed(binds):
            e = f"let {name} := {val} in {e}"
        expr = f"({e})"
    if a.get("sc"):
        expr = rel_comparers(expr)
    return f"let S0 := {gqk(*eff(a))} in {expr}"


# ----------------------------------------------------------------------------------------------------------------
# independent brute-force oracle: the property predicate on pyttb's own outputs, step by step
# ----------------------------------------------------------------------------------------------------------------
def oracle_hist(c, o, den, close):
    a = c.args
    if "exc" in o and len(o["steps"]) < len(a["steps"]):
        return f"admissible request raised {o['exc']}: {o.get('msg')} (step {len(o['steps'])}: {a['steps'][len(o['steps'])]['op']})"
    ew, ef = eff(a)
    prev = {"weights": ew, "factors": ef}
    shape = [len(A) for A in a["f"]]
    hist_scale = [Fr(0)]
    dclose = close                 # comparison of entries of denoted arrays
    if a.get("sc"):
        def dclose(x, y, tol=Fr(1, 10 ** 9)):        # relative to the size of the data (no absolute floor of 1)
            return abs(Fr(x) - Fr(y)) <= tol * max(abs(Fr(y)), hist_scale[0])
    for k, (s, ob) in enumerate(zip(a["steps"], o["steps"])):
        op = s["op"]
        if a.get("sc"):
            hist_scale[0] = max([abs(den(prev["weights"], prev["factors"], i)) for i in tgen.all_subs(shape)] + [Fr(0)])
        if ob["changed"]:
            return f"step {k} ({op}) modified an object it must not touch: {ob['changed']}"
        res = ob.get("new") if (op in NEWOBJ or op in ("symmetrize", "score")) else ob["k"]
        if op == "tolist":
            res = {"weights": [1] * len(prev["weights"]), "factors": ob["list"]}
        if not finite_k(res):
            return f"step {k} ({op}): non-finite value"
        if op == "vec":
            want_w = prev["weights"] if s["incl"] else [1] * len(prev["weights"])
            if res["weights"] != want_w or res["factors"] != prev["factors"]:
                return f"step {k}: from_vector(tovec(K)) differs from K"
        elif op == "update":
            pass
        elif op == "update_rej":
            if "rejected" not in ob:
                return f"step {k}: update({s['modes']}, {len(s['data'])} numbers) was accepted against the documented contract"
            if res["weights"] != prev["weights"] or res["factors"] != prev["factors"]:
                return f"step {k}: rejected update ({ob['rejected']}) left a modified receiver"
        elif op == "symmetrize":
            if any(A != res["factors"][0] for A in res["factors"]):
                return f"step {k}: symmetrize result has different factors"
            subs = tgen.all_subs(shape)
            pv = {tuple(i): den(prev["weights"], prev["factors"], i) for i in subs}
            if all(dclose(pv[tuple(i)], pv[tuple(sorted(i))]) for i in subs):
                for i in subs:
                    got = den(res["weights"], res["factors"], i)
                    if not dclose(got, pv[tuple(i)]):
                        return (f"step {k}: symmetrize changed the value of an already symmetric Kruskal tensor at {i}: "
                                f"{float(got)} instead of {float(pv[tuple(i)])}")
        else:
            shape2 = [shape[m] for m in s["order"]] if op == "permute" else shape
            if [len(A) for A in res["factors"]] != shape2:
                return f"step {k} ({op}): shape {[len(A) for A in res['factors']]}"
            for i in tgen.all_subs(shape2):
                if op == "permute":
                    j = [0] * len(shape)
                    for q, m in enumerate(s["order"]):
                        j[m] = i[q]
                    want = den(prev["weights"], prev["factors"], j)
                else:
                    want = den(prev["weights"], prev["factors"], i)
                    if op in ("add", "sub"):
                        other = den(s["w2"], s["f2"], i)
                        want = want + other if op == "add" else want - other
                    elif op == "neg":
                        want = -want
                    elif op == "mul":
                        want = s["c"] * want
                    elif op == "extract":
                        want = den([prev["weights"][r] for r in s["p"]],
                                   [[[row[r] for r in s["p"]] for row in A] for A in prev["factors"]], i)
                got = den(res["weights"], res["factors"], i)
                if not dclose(got, want):
                    return f"step {k} ({op}): denoted array differs at {i}: {float(got)} instead of {float(want)}"
            w = [Fr(x) for x in res["weights"]]
            if op in ("normalize", "arrange") and s.get("mode") is None:
                if any(x < 0 for x in w):
                    return f"step {k}: negative weight after {op}: {[float(x) for x in w]}"
                absorbed = s["wf"] is not None
                if absorbed and not all(close(x, 1) for x in w):
                    return f"step {k}: weights not all one after absorption"
                if not absorbed and (op == "arrange" or s["sort"]) and any(w[q] < w[q + 1] for q in range(len(w) - 1)):
                    return f"step {k}: weights not in decreasing order"
                if not absorbed:
                    nt = s.get("normtype", 2)
                    for A in res["factors"]:
                        for r in range(len(w)):
                            colv = [Fr(row[r]) for row in A]
                            n2 = sum(abs(x) for x in colv) if nt == 1 else sum(x * x for x in colv)
                            if n2 != 0 and not close(n2, 1, Fr(1, 10 ** 6)):
                                return f"step {k}: column not of unit norm"
                            if n2 == 0 and w[r] != 0:
                                return f"step {k}: zero column with weight {float(w[r])}"
            if op == "redistribute" and any(x != 1 for x in w):
                return f"step {k}: weights not all one after redistribute"
        if op == "fixsigns_other":
            bad = sign_agreement(prev["weights"], prev["factors"], s["w2"], s["f2"], res["factors"])
            if bad:
                return f"step {k}: {bad}"
        if op in ("tolist", "symmetrize", "score"):
            if ob["self"] != prev:
                return f"step {k} ({op}) changed its receiver"
            break
        if not s.get("old"):
            prev = res
            if op == "permute":
                shape = [shape[m] for m in s["order"]]
    return None
