(* Proofs/W4Squeeze.v — bridge Gen.sptensor_squeeze = H_squeeze (Gen/GenSptensor4b.v, regenerated from
   /repo/pyttb/sptensor.py) and laws: the result keeps exactly the sizes > 1; the all-singleton case returns the single
   stored value (0 when nothing is stored). *)
From Coq Require Import List ZArith Arith Bool Lia.
From PV Require Import Np.NpZ Np.NpZ2 Np.NpZ3 Np.NpZ3c Np.NpZ3d Np.NpZ3e Np.NpZ4 Np.NpZ4b Np.NpZ4d Proofs.NpZProofs
  Model.W4Squeeze Proofs.W4Loops Gen.GenSptensor4b.
Import ListNotations.
Local Open Scope Z_scope.

(* l[np.where(mask(l))] = the entries that pass, for a mask computed entry-wise *)
Lemma take_where_from (P : Z -> bool) (pre l : vec) :
  np_take 0 (pre ++ l) (where_from (zlen pre) (map P l)) = filter P l /\
  np_take_ok (pre ++ l) (where_from (zlen pre) (map P l)) = true.
Proof.
  revert pre. induction l as [|x l IH]; intros pre; cbn [map where_from filter]; [split; reflexivity|].
  destruct (IH (pre ++ [x])) as [I1 I2]. rewrite <- app_assoc in I1, I2. cbn [app] in I1, I2.
  replace (zlen (pre ++ [x])) with (zlen pre + 1) in I1, I2 by (unfold zlen; rewrite app_length; cbn [length]; lia).
  destruct (P x).
  - unfold np_take, np_take_ok in *. cbn [map forallb]. split.
    + f_equal; [|exact I1]. unfold zlen. rewrite znth_nat. apply nth_middle.
    + rewrite I2. rewrite andb_true_r. apply w4_idx_ok_range. unfold zlen. rewrite app_length. cbn [length]. lia.
  - split; assumption.
Qed.

Lemma take_where (P : Z -> bool) (l : vec) :
  np_take 0 l (np_where1 (map P l)) = filter P l /\ np_take_ok l (np_where1 (map P l)) = true.
Proof. exact (take_where_from P [] l). Qed.

Lemma np_all_map (P : Z -> bool) (l : vec) : np_all (map P l) = forallb P l.
Proof. unfold np_all. induction l as [|x l IH]; cbn [map forallb]; [reflexivity|]. now rewrite IH. Qed.

Theorem squeeze_bridge (self : sptz) : sptensor_squeeze self = H_squeeze self.
Proof.
  unfold sptensor_squeeze, H_squeeze, H_keep, np_gt_s, spt_make. cbv zeta.
  rewrite np_all_map. destruct (forallb _ (spt_shape self)); [reflexivity|].
  destruct (take_where (fun x => x >? 1) (spt_shape self)) as [T1 T2]. rewrite T1, T2.
  destruct (zlen (np_where1 _) =? 0).
  - destruct (spt_vals self) as [|v [|v' vs]]; [reflexivity|reflexivity|].
    unfold zlen. cbn [length]. replace (Z.of_nat (S (S (length vs))) >? 0) with true by (symmetry; apply Z.gtb_lt; lia).
    replace (Z.of_nat (S (S (length vs))) =? 1) with false by (symmetry; apply Z.eqb_neq; lia). reflexivity.
  - destruct (zlen (spt_vals self) =? 0); reflexivity.
Qed.

(* a returned tensor keeps exactly the mode sizes > 1, in their order *)
Theorem gen_squeeze_shape (self t : sptz) : sptensor_squeeze self = Ok (SqTensor t) ->
  spt_shape t = filter (fun d => d >? 1) (spt_shape self) /\ spt_vals t = spt_vals self.
Proof.
  rewrite squeeze_bridge. unfold H_squeeze. cbv zeta. destruct (forallb _ (spt_shape self)) eqn:Ea.
  - destruct (spt_make_ok _ _ _); [|discriminate]. intros E. injection E as <-. split; [|reflexivity].
    symmetry. clear - Ea. induction (spt_shape self) as [|d s IH]; [reflexivity|]. cbn [forallb filter] in *.
    apply andb_true_iff in Ea as [E1 E2]. rewrite E1. f_equal. apply IH. exact E2.
  - destruct (zlen (H_keep _) =? 0).
    + destruct (spt_vals self) as [|v [|v' vs]]; discriminate.
    + destruct (zlen (spt_vals self) =? 0) eqn:Ev.
      * destruct (spt_make_ok _ _ _); [|discriminate]. intros E. injection E as <-. cbn [spt_shape spt_vals]. split; [reflexivity|].
        apply Z.eqb_eq in Ev. destruct (spt_vals self); [reflexivity|unfold zlen in Ev; cbn in Ev; lia].
      * destruct (_ && _); [|discriminate]. intros E. injection E as <-. split; reflexivity.
Qed.

(* a number is returned exactly when no mode has size > 1: the single stored value, or 0 when nothing is stored *)
Theorem gen_squeeze_scalar (self : sptz) (v : Z) : sptensor_squeeze self = Ok (SqScalar v) ->
  filter (fun d => d >? 1) (spt_shape self) = [] /\ (spt_vals self = [v] \/ (spt_vals self = [] /\ v = 0)).
Proof.
  rewrite squeeze_bridge. unfold H_squeeze, H_keep, np_gt_s. cbv zeta. destruct (forallb _ (spt_shape self)).
  - destruct (spt_make_ok _ _ _); discriminate.
  - destruct (take_where (fun x => x >? 1) (spt_shape self)) as [T1 T2].
    destruct (zlen (np_where1 _) =? 0) eqn:Ez.
    + intros E. split.
      * rewrite <- T1. apply Z.eqb_eq in Ez. destruct (np_where1 _); [reflexivity|unfold zlen in Ez; cbn in Ez; lia].
      * destruct (spt_vals self) as [|w [|w' ws]]; [right|left|discriminate]; injection E as <-; auto.
    + destruct (zlen (spt_vals self) =? 0); [destruct (spt_make_ok _ _ _)|destruct (_ && _)]; discriminate.
Qed.
