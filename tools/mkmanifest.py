#!/usr/bin/env python3
"""writes MANIFEST.json from tools/manifest_data.py (kept in one place so it stays valid)"""
import json, os, sys
HERE = os.path.dirname(os.path.abspath(__file__))
sys.path.insert(0, HERE)
import manifest_data as M
import glob
# per-property fragments tools/manifest.d/Cnn.json : {"category","text","note","technique","pyx2v":bool}
for fn in sorted(glob.glob(os.path.join(HERE, "manifest.d", "C*.json"))):
    M.CLAIMED[os.path.basename(fn)[:-5]] = json.load(open(fn))
# known findings: findings.d/*.jsonl -> known_findings.jsonl
lines = []
fixed_lines = []
for fn in sorted(glob.glob(os.path.join(HERE, "..", "findings.d", "*.jsonl"))):
    for l in open(fn):
        if l.strip():
            j = json.loads(l)
            if j.get("status") == "fixed":
                what = " ".join(str(j.get("what", "")).split())
                fixed_lines.append(f"fixed: property={j['property']} {j.get('fixed_commit', '?')} {j['finding_id']} {j.get('call_site', '')}: {what}")
            else:
                lines.append(l.strip())
lines = lines + fixed_lines
open(os.path.join(HERE, "..", "known_findings.jsonl"), "w").write("\n".join(lines) + ("\n" if lines else ""))
props = [json.loads(l)["id"] for l in open(os.path.join(HERE, "..", "properties.jsonl"))]
checks = []
for pid in props:
    if pid in M.CLAIMED:
        c = M.CLAIMED[pid]
        checks.append({
            "property_id": pid,
            "quick_cmd": f"./check {pid} quick",
            "thorough_cmd": f"./check {pid} thorough",
            "evidence_file": f"evidence/{pid}.json",
            "replay_cmd_template": "./check replay {path}",
            "engine": "coq-model+correspondence",
            "level_claimed": {"category": c["category"], "text": c["text"], "design_ref": "§" + pid},
            "level_note": c["note"],
            "technique": c["technique"],
        })
na = [{"property_id": pid, "reason": M.NOT_APPLICABLE.get(pid, "check not built yet in this session; see DESIGN.md §" + pid)}
      for pid in props if pid not in M.CLAIMED]
import re
def _units(mod, seen=None):
    """GEN_UNITS of a property module including the modules it INCLUDEs (read textually)"""
    seen = seen or set()
    fn = os.path.join(HERE, "props", mod + ".py")
    if mod in seen or not os.path.exists(fn):
        return set()
    seen.add(mod)
    t = open(fn).read()
    out = set()
    m = re.search(r"^GEN_UNITS\s*=\s*\[(.*?)\]", t, re.S | re.M)
    if m:
        out |= set(re.findall(r"[\"'](Gen\w+)[\"']", m.group(1)))
    m = re.search(r"^INCLUDE\s*=\s*\[(.*?)\]", t, re.S | re.M)
    if m:
        for inc in re.findall(r"[\"'](\w+)[\"']", m.group(1)):
            out |= _units(inc, seen)
    return out
_skel_txt = open(os.path.join(HERE, "pyx2v_skel.py")).read() if os.path.exists(os.path.join(HERE, "pyx2v_skel.py")) else ""
_m = re.search(r"^UNITS\s*=\s*\[(.*?)\]", _skel_txt, re.S | re.M)
SKEL_UNITS = set(re.findall(r'"(Gen\w+)"', _m.group(1))) if _m else set()
SKEL_PROPS = [p for p in sorted(M.CLAIMED) if _units(p.lower()) & SKEL_UNITS]
PYX_PROPS = [p for p in sorted(M.CLAIMED) if M.CLAIMED[p].get("pyx2v") or (_units(p.lower()) - SKEL_UNITS)]
man = {
    "version": 1,
    "setup_cmd": "sh tools/setup.sh",
    "hooks": {"guard": "PYTTB_VERIF", "enable": "no guarded hooks exist: checks import pyttb from /repo as it is (PYTHONPATH=/repo)",
              "baseline_off_cmd": "cd /repo && /venv/bin/python -m pytest -ra -q -p no:cacheprovider --timeout=900 --continue-on-collection-errors",
              "source_commits": M.SOURCE_COMMITS, "add_only": True},
    "engines": [
        {"name": "coq", "path": "coq/theories", "serves_properties": sorted(M.CLAIMED), "kind_free_text": "Coq 8.16.1 development: models, theorems (Props/*.v), Print Assumptions"},
        {"name": "pyx2v", "path": "tools/pyx2v.py", "serves_properties": PYX_PROPS, "kind_free_text": "fail-closed Python-ast -> Gallina translator (helpers and class methods); Gen/*.v regenerated from /repo on every run"},
        {"name": "pyx2v_skel", "path": "tools/pyx2v_skel.py", "serves_properties": SKEL_PROPS, "kind_free_text": "fail-closed Python-ast -> Gallina translator of control-flow skeletons of the algorithm drivers (numeric kernels as Section variables); Gen/GenSolver.v, GenHosvd*.v, GenCpAls*.v, GenTuckerAls.v, GenCpAprMu.v, GenSampler.v, GenGcpOpt.v regenerated from /repo on every run"},
        {"name": "harness", "path": "tools/vcheck.py", "serves_properties": sorted(M.CLAIMED), "kind_free_text": "correspondence: pyttb vs Coq model on generated inputs via generated cases.v + vm_compute"},
    ],
    "checks": checks,
    "notes": M.NOTES,
    "not_applicable": na,
}
json.dump(man, open(os.path.join(HERE, "..", "MANIFEST.json"), "w"), indent=1)
print("MANIFEST.json written:", len(checks), "claimed,", len(na), "not claimed")
