(* Proofs/C04Sparse.v — the sparse model refines the abstract array and preserves well-formedness (C04). *)
From Coq Require Import List Arith ZArith Lia Bool Permutation.
From PV Require Import Base.Index Np.Array Model.Sparse Model.C04Model Proofs.C04Dense.
Import ListNotations.

Section S.
Context {V : Type} (v0 : V) (isz : V -> bool).
Hypothesis isz_spec : forall v, isz v = true <-> v = v0.

Notation keys := (map (@fst idx V)).

(* ---------------------------------------------------------------- association lists *)
Lemma memb_spec i l : memb i l = true <-> In i l.
Proof.
  unfold memb. rewrite existsb_exists. split.
  - intros (x & Hx & E). apply idx_eqb_spec in E. now subst.
  - intros H. exists i. split; auto. apply idx_eqb_refl.
Qed.

Lemma memb_false i l : memb i l = false <-> ~ In i l.
Proof. rewrite <- memb_spec. destruct (memb i l); split; intros; try discriminate; auto. exfalso; auto. Qed.

Lemma lookup_none i (es : list (idx * V)) : lookup i es = None <-> ~ In i (keys es).
Proof.
  induction es as [|[j v] r IH]; cbn; [tauto|].
  destruct (idx_eqb i j) eqn:E.
  - apply idx_eqb_spec in E. subst. split; [discriminate|]. intros H. exfalso. apply H. auto.
  - rewrite IH. split; intros H; [intros [F|F]; auto|tauto]. subst. rewrite idx_eqb_refl in E. discriminate.
Qed.

Lemma lookup_some_in i v (es : list (idx * V)) : lookup i es = Some v -> In (i, v) es.
Proof.
  induction es as [|[j w] r IH]; cbn; [discriminate|].
  destruct (idx_eqb i j) eqn:E; intros H.
  - apply idx_eqb_spec in E. inversion H. subst. auto.
  - auto.
Qed.

Lemma lookup_app i (a b : list (idx * V)) :
  lookup i (a ++ b) = match lookup i a with Some v => Some v | None => lookup i b end.
Proof. induction a as [|[j v] r IH]; cbn; auto. destruct (idx_eqb i j); auto. Qed.

Lemma last_match_lookup i (es : list (idx * V)) d : NoDup (keys es) ->
  last_match i es d = match lookup i es with Some v => v | None => d end.
Proof.
  revert d; induction es as [|[j v] r IH]; intros d Hn; cbn; auto.
  cbn in Hn. inversion Hn as [|? ? Hj Hn']; subst.
  destruct (idx_eqb i j) eqn:E.
  - apply idx_eqb_spec in E. subst. apply last_match_notin.
    intros e He Hfe. apply Hj. rewrite <- Hfe. now apply in_map.
  - now apply IH.
Qed.

Lemma last_match_default i (es : list (idx * V)) d1 d2 : In i (keys es) -> last_match i es d1 = last_match i es d2.
Proof.
  revert d1 d2; induction es as [|[j v] r IH]; intros d1 d2 Hin; [contradiction|]. cbn.
  destruct (idx_eqb i j) eqn:E; [reflexivity|].
  apply IH. cbn in Hin. destruct Hin as [F|F]; auto. subst. rewrite idx_eqb_refl in E. discriminate.
Qed.

Lemma combine_fst_snd (es : list (idx * V)) : combine (map fst es) (map snd es) = es.
Proof. induction es as [|[j v] r IH]; cbn; congruence. Qed.

Lemma NoDup_app_intro {A} (a b : list A) : NoDup a -> NoDup b -> (forall x, In x a -> ~ In x b) -> NoDup (a ++ b).
Proof.
  induction a as [|x a IH]; intros Ha Hb Hd; cbn; auto.
  inversion Ha; subst. constructor.
  - rewrite in_app_iff. intros [F|F]; [contradiction|]. apply (Hd x); cbn; auto.
  - apply IH; auto. intros y Hy. apply Hd. cbn; auto.
Qed.

Lemma nodupb_spec l : nodupb l = true -> NoDup l.
Proof.
  induction l as [|i r IH]; cbn; intros H; constructor.
  - apply andb_true_iff in H as [H _]. apply negb_true_iff in H. now apply memb_false in H.
  - apply IH. now apply andb_true_iff in H as [_ H].
Qed.

(* ---------------------------------------------------------------- well-formed entry lists *)
Definition wf_es (s : shape) (es : list (idx * V)) : Prop :=
  NoDup (keys es) /\ forall e, In e es -> inb s (fst e) = true /\ isz (snd e) = false.

Lemma wf_sp_of_entries s es : wf_es s es -> wf_sp isz (of_entries s es).
Proof.
  intros [Hn He]. unfold wf_sp, of_entries. cbn [ssubs svals sshape]. repeat split.
  - now rewrite !map_length.
  - exact Hn.
  - rewrite Forall_forall. intros i Hi. apply in_map_iff in Hi as (e & <- & Hin). now apply He.
  - rewrite Forall_forall. intros v Hv. apply in_map_iff in Hv as (e & <- & Hin). now apply He.
Qed.

Lemma wf_es_entries S : wf_sp isz S -> wf_es (sshape S) (entries S).
Proof.
  intros (HL & Hn & Hb & Hz). split.
  - now rewrite map_fst_entries.
  - intros [i v] Hin. unfold entries in Hin. cbn. split.
    + apply in_combine_l in Hin. rewrite Forall_forall in Hb. auto.
    + apply in_combine_r in Hin. rewrite Forall_forall in Hz. auto.
Qed.

Lemma den_of_entries s es i : den_sp v0 (of_entries s es) i = last_match i es v0.
Proof. unfold den_sp, entries, of_entries. cbn [ssubs svals]. now rewrite combine_fst_snd. Qed.

(* ---------------------------------------------------------------- sp_apply *)
Definition ap1 (asg : list (idx * V)) (e : idx * V) : list (idx * V) :=
  match lookup (fst e) asg with
  | Some v => if isz v then [] else [(fst e, v)]
  | None => [e] end.

Lemma sp_apply_eq es asg :
  sp_apply isz es asg = flat_map (ap1 asg) es
     ++ filter (fun a : idx * V => negb (isz (snd a)) && negb (memb (fst a) (keys es))) asg.
Proof. reflexivity. Qed.

Lemma ap1_keys asg es k : In k (keys (flat_map (ap1 asg) es)) -> In k (keys es).
Proof.
  induction es as [|[j w] r IH]; cbn; auto. rewrite map_app, in_app_iff. intros [H|H]; auto.
  left. unfold ap1 in H. cbn [fst] in H. destruct (lookup j asg) as [v|]; [destruct (isz v)|]; cbn in H; tauto.
Qed.

Lemma ap1_nodup asg es : NoDup (keys es) -> NoDup (keys (flat_map (ap1 asg) es)).
Proof.
  induction es as [|[j w] r IH]; cbn; intros Hn; [constructor|].
  inversion Hn as [|? ? Hj Hn']; subst. rewrite map_app. apply NoDup_app_intro; auto.
  - unfold ap1. cbn [fst]. destruct (lookup j asg) as [v|]; [destruct (isz v)|]; cbn; repeat constructor; auto.
  - intros k Hk Hk'. apply ap1_keys in Hk'.
    unfold ap1 in Hk. cbn [fst] in Hk. destruct (lookup j asg) as [v|]; [destruct (isz v)|]; cbn in Hk;
      try contradiction; destruct Hk as [<-|[]]; contradiction.
Qed.

Lemma ap1_in asg es e : In e (flat_map (ap1 asg) es) ->
  In e es \/ (In (fst e) (keys es) /\ isz (snd e) = false).
Proof.
  rewrite in_flat_map. intros ([j w] & Hin & He). unfold ap1 in He. cbn [fst] in He.
  destruct (lookup j asg) as [v|]; [destruct (isz v) eqn:Z|]; cbn in He; try contradiction.
  - destruct He as [<-|[]]. right. cbn. split; auto. apply in_map_iff. exists (j, w). auto.
  - destruct He as [<-|[]]. auto.
Qed.

Lemma lookup_ap1 i es asg : NoDup (keys es) ->
  lookup i (flat_map (ap1 asg) es) =
  match lookup i es with
  | None => None
  | Some w => match lookup i asg with Some v => if isz v then None else Some v | None => Some w end
  end.
Proof.
  induction es as [|[j w] r IH]; intros Hn; [reflexivity|].
  cbn in Hn. inversion Hn as [|? ? Hj Hn']; subst.
  cbn [flat_map]. rewrite lookup_app. cbn [lookup].
  destruct (idx_eqb i j) eqn:E.
  - apply idx_eqb_spec in E. subst i.
    assert (Hr : lookup j (flat_map (ap1 asg) r) = None).
    { apply lookup_none. intros F. apply ap1_keys in F. contradiction. }
    unfold ap1. cbn [fst]. destruct (lookup j asg) as [v|]; [destruct (isz v)|]; cbn [lookup]; rewrite ?idx_eqb_refl; auto.
  - rewrite IH by auto.
    assert (Hh : lookup i (ap1 asg (j, w)) = None).
    { unfold ap1. cbn [fst]. destruct (lookup j asg) as [v|]; [destruct (isz v)|]; cbn [lookup]; rewrite ?E; auto. }
    now rewrite Hh.
Qed.

Lemma lookup_filter i (p : idx -> V -> bool) (asg : list (idx * V)) : NoDup (keys asg) ->
  lookup i (filter (fun a => p (fst a) (snd a)) asg) =
  match lookup i asg with Some v => if p i v then Some v else None | None => None end.
Proof.
  induction asg as [|[j v] r IH]; intros Hn; [reflexivity|].
  cbn in Hn. inversion Hn as [|? ? Hj Hn']; subst. cbn [filter fst snd lookup].
  destruct (idx_eqb i j) eqn:E.
  - apply idx_eqb_spec in E. subst i. destruct (p j v) eqn:P; cbn [lookup]; rewrite ?idx_eqb_refl; auto.
    rewrite IH by auto. assert (Hl : lookup j r = None) by (now apply lookup_none). now rewrite Hl.
  - destruct (p j v); cbn [lookup]; rewrite ?E; auto.
Qed.

Lemma filter_keys_nodup (p : idx * V -> bool) (asg : list (idx * V)) : NoDup (keys asg) -> NoDup (keys (filter p asg)).
Proof.
  induction asg as [|a r IH]; cbn; intros Hn; [constructor|]. inversion Hn; subst.
  destruct (p a); cbn; auto. constructor; auto.
  intros F. apply in_map_iff in F as (e & E & He). apply filter_In in He as [He _].
  apply H1. rewrite <- E. now apply in_map.
Qed.

Lemma lookup_sp_apply i es asg : NoDup (keys es) -> NoDup (keys asg) ->
  lookup i (sp_apply isz es asg) =
  match lookup i asg with
  | Some v => if isz v then None else Some v
  | None => lookup i es end.
Proof.
  intros Hes Hasg. rewrite sp_apply_eq, lookup_app, lookup_ap1 by auto.
  rewrite (lookup_filter i (fun k v => negb (isz v) && negb (memb k (keys es)))) by auto.
  destruct (lookup i es) as [w|] eqn:Ee.
  - assert (Hm : memb i (keys es) = true).
    { apply memb_spec. apply lookup_some_in in Ee. apply in_map_iff. exists (i, w). auto. }
    rewrite Hm. destruct (lookup i asg) as [v|]; auto. destruct (isz v); auto.
  - destruct (lookup i asg) as [v|]; auto.
    assert (Hm : memb i (keys es) = false) by (apply memb_false; now apply lookup_none).
    rewrite Hm. destruct (isz v); auto.
Qed.

Lemma sp_apply_wf s es asg : wf_es s es -> NoDup (keys asg) ->
  (forall e, In e asg -> inb s (fst e) = true) -> wf_es s (sp_apply isz es asg).
Proof.
  intros [Hn He] Hasg Hb. rewrite sp_apply_eq. split.
  - rewrite map_app. apply NoDup_app_intro.
    + now apply ap1_nodup.
    + now apply filter_keys_nodup.
    + intros k Hk Hk'. apply ap1_keys in Hk. apply in_map_iff in Hk' as (e & <- & Hf).
      apply filter_In in Hf as [_ Hf]. apply andb_true_iff in Hf as [_ Hf]. apply negb_true_iff in Hf.
      apply memb_false in Hf. contradiction.
  - intros e Hin. apply in_app_iff in Hin as [Hin|Hin].
    + apply ap1_in in Hin as [Hin|[Hk Hz]]; auto. split; auto.
      apply in_map_iff in Hk as (e0 & E & H0). rewrite <- E. now apply He.
    + apply filter_In in Hin as [Hin Hf]. apply andb_true_iff in Hf as [Hf _]. apply negb_true_iff in Hf. auto.
Qed.

(* ---------------------------------------------------------------- sp_replace *)
Lemma lookup_filter_notin i (l : list idx) (es : list (idx * V)) :
  lookup i (filter (fun e : idx * V => negb (memb (fst e) l)) es) = if memb i l then None else lookup i es.
Proof.
  induction es as [|[j w] r IH]; cbn [filter fst lookup]; [now destruct (memb i l)|].
  destruct (idx_eqb i j) eqn:E.
  - apply idx_eqb_spec in E. subst i. destruct (memb j l) eqn:M; cbn [negb lookup]; rewrite ?idx_eqb_refl; auto.
  - destruct (memb j l); cbn [negb lookup]; rewrite ?E; auto.
Qed.

Lemma lookup_sp_replace i es asg : NoDup (keys asg) ->
  lookup i (sp_replace isz es asg) =
  match lookup i asg with
  | Some v => if isz v then None else Some v
  | None => lookup i es end.
Proof.
  intros Hasg. unfold sp_replace. rewrite lookup_app, lookup_filter_notin.
  rewrite (lookup_filter i (fun _ v => negb (isz v))) by auto.
  destruct (memb i (keys asg)) eqn:M.
  - apply memb_spec in M. destruct (lookup i asg) as [v|] eqn:El.
    + now destruct (isz v).
    + apply lookup_none in El. contradiction.
  - apply memb_false in M. apply lookup_none in M. rewrite M. now destruct (lookup i es).
Qed.

Lemma sp_replace_wf s es asg : wf_es s es -> NoDup (keys asg) ->
  (forall e, In e asg -> inb s (fst e) = true) -> wf_es s (sp_replace isz es asg).
Proof.
  intros [Hn He] Hasg Hb. unfold sp_replace. split.
  - rewrite map_app. apply NoDup_app_intro.
    + now apply filter_keys_nodup.
    + now apply filter_keys_nodup.
    + intros k Hk Hk'. apply in_map_iff in Hk as (e & <- & Hf). apply filter_In in Hf as [_ Hf].
      apply negb_true_iff in Hf. apply memb_false in Hf. apply Hf.
      apply in_map_iff in Hk' as (e' & E' & Hf'). apply filter_In in Hf' as [Hf' _]. rewrite <- E'. now apply in_map.
  - intros e Hin. apply in_app_iff in Hin as [Hin|Hin]; apply filter_In in Hin as [Hin Hf]; auto.
    apply negb_true_iff in Hf. auto.
Qed.

(* ---------------------------------------------------------------- order growth: padding with zeros *)
Lemma idx_eqb_repeat0 j k : length j = k -> idx_eqb j (repeat 0 k) = forallb (Nat.eqb 0) j.
Proof.
  revert k; induction j as [|x j IH]; intros [|k] H; cbn in *; try discriminate; auto.
  rewrite (IH k) by lia. now rewrite Nat.eqb_sym.
Qed.

Lemma idx_eqb_pad i j k : length j = length i + k ->
  idx_eqb j (i ++ repeat 0 k) = idx_eqb (firstn (length i) j) i && forallb (Nat.eqb 0) (skipn (length i) j).
Proof.
  revert j; induction i as [|a i IH]; intros j H.
  - cbn. now apply idx_eqb_repeat0.
  - destruct j as [|x j]; [cbn in H; lia|]. cbn [length firstn skipn app idx_eqb].
    rewrite IH by (cbn in H; lia). now rewrite andb_assoc.
Qed.

Definition pad_es (m : nat) (es : list (idx * V)) : list (idx * V) :=
  map (fun e : idx * V => (sp_pad m (fst e), snd e)) es.

Lemma lookup_pad n m (es : list (idx * V)) j :
  (forall e, In e es -> length (fst e) = n) -> n <= m -> length j = m ->
  lookup j (pad_es m es) = if forallb (Nat.eqb 0) (skipn n j) then lookup (firstn n j) es else None.
Proof.
  intros Hl Hnm Hj. induction es as [|[i v] r IH]; cbn [pad_es map lookup fst snd].
  - now destruct (forallb _ _).
  - assert (Hi : length i = n) by (apply (Hl (i, v)); cbn; auto).
    unfold sp_pad at 1. rewrite idx_eqb_pad by lia. rewrite Hi.
    fold (pad_es m r). rewrite IH by (intros; apply Hl; cbn; auto).
    destruct (forallb (Nat.eqb 0) (skipn n j)); [|now rewrite andb_false_r].
    rewrite andb_true_r. now destruct (idx_eqb (firstn n j) i).
Qed.

Lemma pad_keys_nodup n m (es : list (idx * V)) :
  (forall e, In e es -> length (fst e) = n) -> NoDup (keys es) -> NoDup (keys (pad_es m es)).
Proof.
  intros Hl Hn. unfold pad_es. rewrite map_map. cbn [fst].
  rewrite <- (map_map fst (sp_pad m)). apply NoDup_map_inj; auto.
  intros a b Ha Hb E. apply in_map_iff in Ha as (ea & <- & Ha). apply in_map_iff in Hb as (eb & <- & Hb).
  unfold sp_pad in E. rewrite (Hl _ Ha), (Hl _ Hb) in E. now apply app_inv_tail in E.
Qed.

(* ---------------------------------------------------------------- one batch of assignments *)
(* two batches that assign the same value to every position *)
Definition asg_equiv (a b : list (idx * V)) : Prop := forall j d, last_match j a d = last_match j b d.

Lemma sp_set_refines (S S' : sparse V) s' asg' asg repl :
  wf_sp isz S -> length (sshape S) <= length s' ->
  sp_set isz S s' asg' repl = Some S' ->
  (forall e, In e asg' -> inb s' (fst e) = true) ->
  asg_equiv asg' asg ->
  eq_amap (abs_sp v0 S') (spec_set v0 (abs_sp v0 S) s' asg) /\ wf_sp isz S'.
Proof.
  intros W Hlen Hset Hb Heq. unfold sp_set in Hset.
  destruct (nodupb (map fst asg')) eqn:Hnd; [|discriminate]. apply nodupb_spec in Hnd.
  set (es := map (fun e : idx * V => (sp_pad (length s') (fst e), snd e)) (entries S)) in Hset.
  destruct (forallb (inb s') (map fst es)) eqn:Hpb; [|discriminate].
  inversion Hset as [HS']. clear Hset.
  pose proof (wf_es_entries S W) as [Hn0 He0].
  assert (Hl0 : forall e, In e (entries S) -> length (fst e) = length (sshape S)).
  { intros e He. apply inb_length. now apply He0. }
  assert (Wes : wf_es s' es).
  { split.
    - apply (pad_keys_nodup (length (sshape S))); auto.
    - intros e He. split.
      + rewrite forallb_forall in Hpb. apply Hpb. now apply in_map.
      + apply in_map_iff in He as (e0 & <- & He). cbn. now apply He0. }
  set (res := if repl then sp_replace isz es asg' else sp_apply isz es asg').
  assert (Wres : wf_es s' res).
  { unfold res. destruct repl; [apply sp_replace_wf|apply sp_apply_wf]; auto. }
  assert (Hlk : forall i, lookup i res = match lookup i asg' with
                                         | Some v => if isz v then None else Some v
                                         | None => lookup i es end).
  { intros i. unfold res. destruct repl; [apply lookup_sp_replace|apply lookup_sp_apply]; auto. apply Wes. }
  split; [|now apply wf_sp_of_entries].
  split; [reflexivity|]. intros j. cbn [abs_sp af spec_set ashape].
  rewrite den_of_entries. fold res.
  destruct (inb s' j) eqn:Hj.
  - rewrite <- Heq. rewrite last_match_lookup by apply Wres. rewrite Hlk.
    rewrite (last_match_lookup j asg') by auto.
    destruct (lookup j asg') as [v|].
    + destruct (isz v) eqn:Z; auto. symmetry. now apply isz_spec.
    + unfold es. fold (pad_es (length s') (entries S)).
      rewrite (lookup_pad (length (sshape S))); auto; [|now apply inb_length].
      unfold embed. destruct (forallb (Nat.eqb 0) (skipn (length (sshape S)) j)); auto.
      unfold den_sp. now rewrite last_match_lookup by auto.
  - apply last_match_notin. intros e He Hfe. destruct Wres as [_ Wr]. destruct (Wr e He) as [Hi _]. congruence.
Qed.

(* ---------------------------------------------------------------- np.unique: sort + duplicate removal *)
Lemma dedupe_last_in (asg : list (idx * V)) e : In e (dedupe_last asg) -> In e asg.
Proof.
  induction asg as [|p r IH]; cbn; auto. fold (dedupe_last r).
  destruct (memb (fst p) (keys (dedupe_last r))); cbn; intros H; [auto|]. destruct H; auto.
Qed.

Lemma dedupe_last_nodup (asg : list (idx * V)) : NoDup (keys (dedupe_last asg)).
Proof.
  induction asg as [|p r IH]; cbn; [constructor|]. fold (dedupe_last r).
  destruct (memb (fst p) (keys (dedupe_last r))) eqn:M; auto. cbn. constructor; auto. now apply memb_false.
Qed.

Lemma dedupe_last_equiv (asg : list (idx * V)) : asg_equiv (dedupe_last asg) asg.
Proof.
  induction asg as [|[i v] r IH]; intros j d; cbn; auto. fold (dedupe_last r). cbn [fst].
  destruct (memb i (keys (dedupe_last r))) eqn:M.
  - rewrite <- IH. destruct (idx_eqb j i) eqn:E; auto.
    apply idx_eqb_spec in E. subst. apply last_match_default. now apply memb_spec.
  - cbn. apply IH.
Qed.

Lemma ins_row_perm p (l : list (idx * V)) : Permutation (p :: l) (ins_row p l).
Proof.
  induction l as [|q r IH]; cbn; auto. destruct (row_ltb (fst p) (fst q)); auto.
  eapply perm_trans; [apply perm_swap|]. now apply perm_skip.
Qed.

Lemma sort_perm (l : list (idx * V)) : Permutation l (fold_right ins_row [] l).
Proof.
  induction l as [|p r IH]; cbn; auto. eapply perm_trans; [|apply ins_row_perm]. now apply perm_skip.
Qed.

Lemma perm_equiv (a b : list (idx * V)) : NoDup (keys a) -> Permutation a b -> asg_equiv a b.
Proof.
  intros Hn Hp j d.
  assert (Hnb : NoDup (keys b)) by (eapply Permutation_NoDup; [apply Permutation_map; eauto|auto]).
  rewrite !last_match_lookup by auto.
  destruct (lookup j a) as [v|] eqn:Ea.
  - apply lookup_some_in in Ea. eapply Permutation_in in Ea; eauto.
    rewrite <- (last_match_lookup j b d) by auto. symmetry. now apply last_match_in.
  - destruct (lookup j b) as [w|] eqn:Eb; auto.
    apply lookup_some_in in Eb. apply Permutation_sym in Hp. eapply Permutation_in in Eb; eauto.
    apply lookup_none in Ea. exfalso. apply Ea. apply in_map_iff. exists (j, w). auto.
Qed.

Lemma sort_dedupe_equiv (asg : list (idx * V)) : asg_equiv (sort_dedupe asg) asg.
Proof.
  intros j d. unfold sort_dedupe. rewrite <- (dedupe_last_equiv asg j d).
  symmetry. apply perm_equiv; [apply dedupe_last_nodup|apply sort_perm].
Qed.

Lemma sort_dedupe_in (asg : list (idx * V)) e : In e (sort_dedupe asg) -> In e asg.
Proof.
  intros H. apply dedupe_last_in. eapply Permutation_in; [apply Permutation_sym, sort_perm|exact H].
Qed.

Lemma sort_dedupe_nodup (asg : list (idx * V)) : NoDup (keys (sort_dedupe asg)).
Proof.
  eapply Permutation_NoDup; [apply Permutation_map, sort_perm|apply dedupe_last_nodup].
Qed.

(* ---------------------------------------------------------------- the two region enumerations *)
Lemma in_cartF p ls : In p (cartF ls) <-> Forall2 (fun x l => In x l) p ls.
Proof.
  revert p; induction ls as [|l r IH]; intros p; cbn.
  - split; [intros [<-|[]]; constructor|]. intros H. inversion H. auto.
  - rewrite in_flat_map. split.
    + intros (t & Ht & Hp). apply in_map_iff in Hp as (x & <- & Hx). constructor; auto. now apply IH.
    + intros H. inversion H as [|x l' t r' Hx Ht]; subst. exists t. split; [now apply IH|]. apply in_map_iff. eauto.
Qed.

Lemma in_cartC p ls : In p (cartC ls) <-> Forall2 (fun x l => In x l) p ls.
Proof.
  revert p; induction ls as [|l r IH]; intros p; cbn.
  - split; [intros [<-|[]]; constructor|]. intros H. inversion H. auto.
  - rewrite in_flat_map. split.
    + intros (x & Hx & Hp). apply in_map_iff in Hp as (t & <- & Ht). constructor; auto. now apply IH.
    + intros H. inversion H as [|x l' t r' Hx Ht]; subst. exists x. split; auto. apply in_map_iff. exists t. split; auto. now apply IH.
Qed.

Lemma last_match_const j ps (v d : V) :
  last_match j (combine ps (repeat v (length ps))) d = if memb j ps then v else d.
Proof.
  revert d; induction ps as [|p r IH]; intros d; cbn; auto.
  rewrite IH. unfold memb. destruct (existsb (idx_eqb j) r); [now rewrite orb_true_r|]. now rewrite orb_false_r.
Qed.

Lemma forallb_ext_in {A} (f : A -> bool) l1 l2 : (forall x, In x l1 <-> In x l2) -> forallb f l1 = forallb f l2.
Proof.
  intros H. apply eq_true_iff_eq. rewrite !forallb_forall. split; intros G x Hx; apply G; now apply H.
Qed.

Lemma memb_ext_in j l1 l2 : (forall x, In x l1 <-> In x l2) -> memb j l1 = memb j l2.
Proof. intros H. apply eq_true_iff_eq. rewrite !memb_spec. apply H. Qed.

(* a scalar written over a region: enumeration order is irrelevant *)
Lemma resolve_region_scalar s es (v : V) s' asg' :
  resolve_set cartC s (KRegion es) (RScalar v) = Some (s', asg') ->
  exists asg, resolve_set cartF s (KRegion es) (RScalar v) = Some (s', asg) /\ asg_equiv asg' asg.
Proof.
  unfold resolve_set. destruct (region_ok s es); [|discriminate]. cbv zeta.
  destruct (region_lists _ es) as [ls|]; [|discriminate].
  unfold finish_set, rhs_values.
  assert (Hin : forall x, In x (cartC (map snd ls)) <-> In x (cartF (map snd ls))).
  { intros x. now rewrite in_cartC, in_cartF. }
  rewrite (forallb_ext_in _ _ _ Hin).
  destruct (forallb _ (cartF (map snd ls))); [|discriminate]. intros H. inversion H; subst.
  eexists. split; [reflexivity|]. intros j d. rewrite !last_match_const.
  now rewrite (memb_ext_in j _ _ Hin).
Qed.

(* ---------------------------------------------------------------- shapes only grow in order *)
Lemma grow_length s need : length s <= length (grow s need).
Proof.
  revert need; induction s as [|d s IH]; intros [|x need]; cbn; try lia. specialize (IH need). lia.
Qed.

Lemma resolve_set_length cart s k (r : rhs V) s' asg :
  resolve_set cart s k r = Some (s', asg) -> length s <= length s'.
Proof.
  unfold resolve_set. intros H.
  destruct k as [z|l|a b c|rows|es].
  1-3: destruct (resolve_get s _) as [[os ps]|]; [|discriminate]; apply finish_set_inb in H as (-> & _); lia.
  - destruct (subs_ok s rows); [|discriminate].
    destruct (opt_all _) as [ps|]; [|discriminate]. apply finish_set_inb in H as (-> & _). apply grow_length.
  - destruct (region_ok s es); [|discriminate]. cbv zeta in H.
    destruct (region_lists _ es) as [ls|]; [|discriminate]. apply finish_set_inb in H as (-> & _). apply grow_length.
Qed.

Lemma asg_equiv_refl (a : list (idx * V)) : asg_equiv a a.
Proof. intros j d. reflexivity. Qed.

(* ---------------------------------------------------------------- one step *)
Theorem refine_sparse (S : sparse V) (o : op V) S' out :
  wf_sp isz S -> step_sparse v0 isz S o = Some (S', out) ->
  exists a', spec_step v0 (abs_sp v0 S) o = Some (a', out) /\ eq_amap (abs_sp v0 S') a' /\ wf_sp isz S'.
Proof.
  intros W H. destruct o as [k|k r]; cbn [step_sparse spec_step abs_sp ashape af] in *.
  - destruct (resolve_get (sshape S) k) as [[os ps]|]; [|discriminate]. inversion H; subst.
    eexists. split; [reflexivity|]. split; auto. split; auto.
  - destruct k as [z|l|a b c|rows|es]; try discriminate.
    + (* subscript array *)
      destruct (resolve_set cartF (sshape S) (KSubs rows) r) as [[s' asg]|] eqn:E; [|discriminate].
      destruct (sp_set isz S s' (sort_dedupe asg) false) as [S1|] eqn:E1; [|discriminate]. inversion H; subst.
      eexists. split; [reflexivity|].
      eapply sp_set_refines; eauto.
      * eapply resolve_set_length; eauto.
      * intros e He. apply sort_dedupe_in in He. eapply resolve_set_inb; eauto.
      * apply sort_dedupe_equiv.
    + destruct r as [v|vs].
      * (* region, scalar *)
        destruct (resolve_set cartC (sshape S) (KRegion es) (RScalar v)) as [[s' asg']|] eqn:E; [|discriminate].
        destruct (sp_set isz S s' (dedupe_last asg') false) as [S1|] eqn:E1; [|discriminate]. inversion H; subst.
        destruct (resolve_region_scalar _ _ _ _ _ E) as (asg & E' & Heq). rewrite E'.
        eexists. split; [reflexivity|].
        eapply sp_set_refines; eauto.
        -- eapply resolve_set_length; eauto.
        -- intros e He. apply dedupe_last_in in He. clear E'. eapply resolve_set_inb; eauto.
        -- intros j d. rewrite (dedupe_last_equiv asg' j d). apply Heq.
      * (* region, tensor *)
        destruct (resolve_set cartF (sshape S) (KRegion es) (RValues vs)) as [[s' asg]|] eqn:E; [|discriminate].
        destruct (sp_set isz S s' (dedupe_last asg) true) as [S1|] eqn:E1; [|discriminate]. inversion H; subst.
        eexists. split; [reflexivity|].
        eapply sp_set_refines; eauto.
        -- eapply resolve_set_length; eauto.
        -- intros e He. apply dedupe_last_in in He. eapply resolve_set_inb; eauto.
        -- apply dedupe_last_equiv.
Qed.

End S.
