(* Props/W4C07c.v — sptensor.logical_not as GENERATED from /repo/pyttb/sptensor.py on every run (Gen/GenSptensor4c.v; it calls
   the generated sptensor.allsubs of Gen/GenMethods2.v and tt_setdiff_rows of Gen/GenUtils.v): bridge and laws.
   Only statements, `exact`, Print Assumptions. *)
From Coq Require Import List ZArith Arith Bool.
From PV Require Import Np.NpZ Np.NpZ2 Np.NpZ3 Np.NpZ3c Np.NpZ3d Np.NpZ3e Np.NpZ4 Np.NpZ4b Gen.GenUtils Gen.GenKernels Gen.GenMethods2
  Proofs.C03Rows Proofs.C17Dup Model.W4LogicalNot Proofs.W4LogicalNot Gen.GenSptensor4c.
Import ListNotations.
Local Open Scope Z_scope.

Theorem C07_gen_sp_logical_not_bridge : forall self : sptz, sptensor_logical_not self = H_logical_not self.
Proof. exact logical_not_bridge. Qed.
Print Assumptions C07_gen_sp_logical_not_bridge.

Theorem C07_gen_sp_logical_not_values : forall self t : sptz, sptensor_logical_not self = Ok t ->
  spt_vals t = map (fun _ => 1) (spt_subs t) /\ spt_shape t = spt_shape self.
Proof. exact gen_logical_not_values. Qed.
Print Assumptions C07_gen_sp_logical_not_values.

(* the pattern of the result is the complement of the STORED pattern (an explicitly stored zero counts as stored) *)
Theorem C07_gen_sp_logical_not_complement : forall (self t : sptz) (all : mat),
  sptensor_allsubs self = Ok all -> NoDup all -> okw all -> okw (spt_subs self) ->
  sptensor_logical_not self = Ok t ->
  spt_subs t = filter (fun r => negb (inrows (spt_subs self) r)) (dedup all).
Proof. exact gen_logical_not_complement. Qed.
Print Assumptions C07_gen_sp_logical_not_complement.

Example C07_gen_sp_logical_not_example :
  sptensor_logical_not (mkspt [[0; 1]; [1; 0]] [5; 0] [2; 2]) = Ok (mkspt [[0; 0]; [1; 1]] [1; 1] [2; 2]) /\
  sptensor_logical_not (mkspt [[0]; [1]] [5; 1] [2]) = Ok (mkspt [] [] [2]).
Proof. split; reflexivity. Qed.
