(* Props/C12.v — GCP losses, gradients and their tensor-level evaluation are mutually consistent.
   T1 is stated over Gen/GenHandles.v (pyttb/gcp/handles.py as regenerated on this run).
   Only statements, `exact`, Print Assumptions. *)
From Coq Require Import Reals Lra List.
Set Warnings "-ambiguous-paths".   (* Coquelicot's Rbar coercion notice would otherwise end up in the Print Assumptions output *)
From Coquelicot Require Import Coquelicot.
From PV Require Import Np.NpR Gen.GenHandles Proofs.C12Handles Proofs.C12NegBinRefuted.
Local Open Scope R_scope.

(* ---- T1: every gradient handle is the derivative of its loss handle on the loss's domain ---------- *)
(* domain of m: the lower bound fg_setup.setup attaches to the objective (0 where the loss is EPS-shifted) *)
Theorem C12_gaussian_deriv : forall x m, is_derive (fun m => gaussian x m) m (gaussian_grad x m).
Proof. exact gaussian_deriv. Qed.
Print Assumptions C12_gaussian_deriv.

Theorem C12_bernoulli_odds_deriv : forall x m, 0 <= m ->
  is_derive (fun m => bernoulli_odds x m) m (bernoulli_odds_grad x m).
Proof. exact bernoulli_odds_deriv. Qed.
Print Assumptions C12_bernoulli_odds_deriv.

Theorem C12_bernoulli_logit_deriv : forall x m,
  is_derive (fun m => bernoulli_logit x m) m (bernoulli_logit_grad x m).
Proof. exact bernoulli_logit_deriv. Qed.
Print Assumptions C12_bernoulli_logit_deriv.

Theorem C12_poisson_deriv : forall x m, 0 <= m -> is_derive (fun m => poisson x m) m (poisson_grad x m).
Proof. exact poisson_deriv. Qed.
Print Assumptions C12_poisson_deriv.

Theorem C12_poisson_log_deriv : forall x m, is_derive (fun m => poisson_log x m) m (poisson_log_grad x m).
Proof. exact poisson_log_deriv. Qed.
Print Assumptions C12_poisson_log_deriv.

Theorem C12_rayleigh_deriv : forall x m, 0 <= m -> is_derive (fun m => rayleigh x m) m (rayleigh_grad x m).
Proof. exact rayleigh_deriv. Qed.
Print Assumptions C12_rayleigh_deriv.

Theorem C12_gamma_deriv : forall x m, 0 <= m -> is_derive (fun m => gamma_ x m) m (gamma_grad x m).
Proof. exact gamma_deriv. Qed.
Print Assumptions C12_gamma_deriv.

(* every positive threshold, every data and model value, including the kinks |x - m| = threshold *)
Theorem C12_huber_deriv : forall x m t, 0 < t -> is_derive (fun m => huber x m t) m (huber_grad x m t).
Proof. exact huber_deriv. Qed.
Print Assumptions C12_huber_deriv.

Theorem C12_beta_deriv : forall x m b, 0 <= m -> b <> 0 -> b <> 1 ->
  is_derive (fun m => beta_ x m b) m (beta_grad x m b).
Proof. exact beta_deriv. Qed.
Print Assumptions C12_beta_deriv.

(* ---- negative binomial: BEGIN block to switch when fixes/C12-A-34.diff is applied ------------------ *)
(* as the source stands the pair is inconsistent (finding A-34): the statement is refuted at (x,m,r) = (3,1,1);
   what does hold: the loss's derivative is (r + x)/(1 + m) - x/(m + EPS), and the code is right for data = 1 *)
Theorem C12_negative_binomial_refuted : ~ (forall x m r, 0 <= m ->
  is_derive (fun m => negative_binomial x m r) m (negative_binomial_grad x m r)).
Proof. exact negative_binomial_refuted. Qed.
Print Assumptions C12_negative_binomial_refuted.

Theorem C12_negative_binomial_true_deriv : forall x m r, 0 <= m ->
  is_derive (fun m => negative_binomial x m r) m ((r + x) / (1 + m) - x / (m + EPS)).
Proof. exact negative_binomial_true_deriv. Qed.
Print Assumptions C12_negative_binomial_true_deriv.

Theorem C12_negative_binomial_deriv_partial : forall m r, 0 <= m ->
  is_derive (fun m => negative_binomial 1 m r) m (negative_binomial_grad 1 m r).
Proof. exact negative_binomial_deriv_partial. Qed.
Print Assumptions C12_negative_binomial_deriv_partial.
(* after the fix: import Proofs.C12NegBin instead of Proofs.C12NegBinRefuted and replace this block by
   Theorem C12_negative_binomial_deriv : forall x m r, 0 <= m ->
     is_derive (fun m => negative_binomial x m r) m (negative_binomial_grad x m r).
   Proof. exact negative_binomial_deriv. Qed.
   Print Assumptions C12_negative_binomial_deriv.                                                      *)
(* ---- END block ---------------------------------------------------------------------------------- *)

(* non-vacuity: the domain hypotheses are satisfiable and the derivative values are not trivially 0 *)
Example C12_example_poisson : is_derive (fun m => poisson 3 m) 2 (1 - 3 / (2 + EPS)).
Proof. exact (poisson_deriv 3 2 ltac:(lra)). Qed.
Example C12_example_huber_kink : is_derive (fun m => huber 5 m 2) 3 (-4).
Proof.
  replace (-4) with (huber_grad 5 3 2).
  - apply huber_deriv. lra.
  - rewrite huber_grad_outer by (replace (5 - 3) with 2 by ring; rewrite Rabs_right by lra; lra).
    replace (5 - 3) with 2 by ring. rewrite sgnR_pos by lra. ring.
Qed.
