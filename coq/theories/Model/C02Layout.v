(* Model/C02Layout.v — tensor.innerprod / tensor.norm on operands whose `data` array is NOT Fortran-ordered in memory (a tensor enlarged by an
   assignment past its bounds holds C-ordered data: _set_subtensor / _set_subscripts grow with np.zeros(newshape)).  tensor.data is modelled by
   its shape, its memory order and the buffer IN MEMORY ORDER;
     x = np.reshape(self.data, (self.data.size,), order=self.order)      (tensor.py innerprod; self.order = "F")
   lists the entries in LOGICAL first-index-fastest order whatever the memory order (data.ravel(order="K") would list the buffer).
   Proofs: Proofs/C02LayoutProofs.v. *)
From Coq Require Import List Arith Bool.
From PV Require Import Base.Index Base.Sum Np.Array Model.C02Spec Model.C02Dense.
Import ListNotations.

Inductive layout := LF | LC.

Section Lay.
Context {V : Type} (v0 : V) (vadd vmul : V -> V -> V).
Record larr := mkL { lshape : shape; llay : layout; lbuf : list V }.

(* position of entry i in the buffer: first index fastest (F) / last index fastest (C) *)
Definition lpos (A : larr) (i : idx) : nat :=
  match llay A with LF => sub2ind (lshape A) i | LC => sub2ind (rev (lshape A)) (rev i) end.
Definition lget (A : larr) (i : idx) : V := nth (lpos A i) (lbuf A) v0.
Definition den_l (A : larr) (i : idx) : V := if inb (lshape A) i then lget A i else v0.

Definition ravelF_l (A : larr) : list V := map (lget A) (allsubs (lshape A)).
Definition impl_innerprod_l (X Y : larr) : V := dotv v0 vadd vmul (ravelF_l X) (ravelF_l Y).
End Lay.
