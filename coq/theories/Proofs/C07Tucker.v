(* Proofs/C07Tucker.v — ttensor.permute with a sparse core is the same exact index map; the sparse-core holder denotes
   the same array as the holder with the expanded core. *)
From Coq Require Import List Arith Lia Bool Permutation Ring.
From PV Require Import Base.Index Base.Perm Base.Sum Np.Array Model.Sparse Model.Repr Model.C07Ops Model.C07Ops2
  Proofs.C07Index Proofs.C07Proofs.
Import ListNotations.

Section ST.
Variable V : Type.
Variables (v0 v1 : V) (vadd vmul vsub : V -> V -> V) (vopp : V -> V) (isz : V -> bool).
Hypothesis Vring : ring_theory v0 v1 vadd vmul vsub vopp (@eq V).

(* expanding the core does not change the denoted array *)
Lemma den_st_dense (T : sttensor V) i :
  Forall (fun j => inb (sshape (stcore T)) j = true) (ssubs (stcore T)) ->
  den_t v0 v1 vadd vmul (st_dense v0 T) i = den_st v0 v1 vadd vmul T i.
Proof.
  intros Hb. unfold den_t, den_st, st_dense, tshape, stshape. cbn [tcore tfactors dshape full].
  destruct (inb (map nrows (stfactors T)) i); auto.
  apply (sum_over_ext V v0 vadd). intros j _. f_equal. now apply den_full.
Qed.

Theorem permute_stucker_correct (T : sttensor V) p :
  length (sshape (stcore T)) = length (stfactors T) ->
  Forall (fun j => length j = length (stfactors T)) (ssubs (stcore T)) ->
  is_perm p (length (stfactors T)) ->
  exists R, permute_st T p = Some R /\ stshape R = pick 0 p (stshape T) /\
    sshape (stcore R) = pick 0 p (sshape (stcore T)) /\ svals (stcore R) = svals (stcore T) /\
    nnz (stcore R) = nnz (stcore T) /\ (wf_sp isz (stcore T) -> wf_sp isz (stcore R)) /\
    (forall i, length i = length (stfactors T) ->
       den_st v0 v1 vadd vmul R i = den_st v0 v1 vadd vmul T (pick 0 (invperm p) i)) /\
    permute_st R (invperm p) = Some T.
Proof.
  intros HN HL Hp. set (N := length (stfactors T)) in *. pose proof (is_perm_length _ _ Hp) as HpL.
  pose proof (invperm_is_perm _ _ Hp) as Hq.
  assert (Hp' : is_perm p (length (sshape (stcore T)))) by (now rewrite HN).
  assert (HL' : Forall (fun j => length j = length (sshape (stcore T))) (ssubs (stcore T))) by (now rewrite HN).
  destruct (permute_sparse_correct v0 isz (stcore T) p Hp' HL') as (C & HC & HsC & HvC & HnC & HdC & HwC & HinvC).
  unfold permute_st. fold N. rewrite (proj2 (is_permb_spec p N) Hp), HC. eexists; split; [reflexivity|].
  assert (Hts : stshape (mkST C (pick [] p (stfactors T))) = pick 0 p (stshape T)).
  { unfold stshape. cbn [stfactors]. now rewrite map_pick. }
  split; [exact Hts|]. cbn [stcore stfactors]. repeat (split; [assumption|]). split.
  - intros i Hi. unfold den_st. rewrite Hts. cbn [stcore stfactors].
    assert (HtL : length (stshape T) = N) by (unfold stshape; now rewrite map_length).
    rewrite inb_pick_inv by (rewrite HtL; auto).
    destruct (inb (stshape T) (pick 0 (invperm p) i)); auto.
    rewrite HsC.
    rewrite <- (sum_over_perm V v0 v1 vadd vmul vsub vopp Vring _ _ _ (allsubs_pick_perm (sshape (stcore T)) p Hp')).
    rewrite (sum_over_map V v0 vadd).
    apply (sum_over_ext V v0 vadd). intros j Hj.
    apply in_allsubs, inb_length in Hj. rewrite pick_length, HpL in Hj.
    rewrite HdC by lia. f_equal.
    rewrite <- (pick_pick_invperm 0 p N i) at 1 by auto.
    rewrite <- (pick_pick_invperm 0 p N j) at 1 by auto.
    apply (tprod_pick V v0 v1 vadd vmul vsub vopp Vring); auto; rewrite pick_length, invperm_length; lia.
  - rewrite pick_length, HpL. rewrite (proj2 (is_permb_spec (invperm p) N) Hq), HinvC.
    rewrite (pick_invperm_pick [] p N) by auto. now destruct T.
Qed.

(* the sparse-core Tucker holder of an array stays a holder of the permuted array, next to the dense holder *)
Theorem permute_repr_agree_st (T : dense V) (Ts : sttensor V) p N :
  wf_dense T -> length (dshape T) = N -> length (sshape (stcore Ts)) = N -> length (stfactors Ts) = N ->
  Forall (fun j => length j = N) (ssubs (stcore Ts)) -> is_perm p N ->
  (forall i, length i = N -> den_st v0 v1 vadd vmul Ts i = den_dense v0 T i) ->
  exists T' Ts', permute_d v0 T p = Some T' /\ permute_st Ts p = Some Ts' /\
    (forall i, length i = N -> den_st v0 v1 vadd vmul Ts' i = den_dense v0 T' i).
Proof.
  intros W HT HC HF HL Hp Hag. subst N.
  destruct (permute_dense_correct v0 T p W Hp) as (T' & E1 & _ & _ & D1 & _).
  rewrite <- HF in Hp, HL, HC.
  destruct (permute_stucker_correct Ts p HC HL Hp) as (Ts' & E2 & _ & _ & _ & _ & _ & D2 & _).
  exists T', Ts'. split; auto. split; auto. intros i Hi. rewrite D1, D2 by lia.
  apply Hag. rewrite pick_length, invperm_length. apply is_perm_length in Hp. lia.
Qed.

End ST.
